(* Shared helpers for the correspondence check: the harness writes a list of
   cases (input + what the implementation did) and asks Coq which of them the
   model disagrees with. *)
From Coq Require Import List NArith Bool.
Import ListNotations.

Fixpoint failing_from {A} (chk : A -> bool) (i : N) (l : list A) : list N :=
  match l with
  | [] => []
  | x :: r => if chk x then failing_from chk (N.succ i) r
              else i :: failing_from chk (N.succ i) r
  end.

(* indices (starting at [base]) of the cases on which [chk] is false *)
Definition failing {A} (chk : A -> bool) (base : N) (l : list A) : list N :=
  failing_from chk base l.

Fixpoint list_eqb {A} (eqb : A -> A -> bool) (a b : list A) : bool :=
  match a, b with
  | [], [] => true
  | x :: a', y :: b' => eqb x y && list_eqb eqb a' b'
  | _, _ => false
  end.

Definition option_eqb {A} (eqb : A -> A -> bool) (a b : option A) : bool :=
  match a, b with
  | None, None => true
  | Some x, Some y => eqb x y
  | _, _ => false
  end.

Lemma list_eqb_spec {A} (eqb : A -> A -> bool) :
  (forall x y, eqb x y = true <-> x = y) ->
  forall a b, list_eqb eqb a b = true <-> a = b.
Proof.
  intros H a; induction a as [|x a IH]; intros [|y b]; cbn; try (split; congruence).
  rewrite andb_true_iff, H, IH. split; [intros [-> ->]; reflexivity | intros E; inversion E; auto].
Qed.
