(* C32 — src/raft/state_machine.rs GraphStateMachine::apply (and raft/node.rs RaftNode::write,
   which applies directly) over the persistence model of Persist.v.  Executable; no proofs here.

   Each Request is mapped to one persist_* call; the response is the call's result.
   CreateNode builds Node::new(id, first label or "" when the list is empty) and adds the other
   labels: the label SET is what is stored (label 0 is the empty string). *)
From Coq Require Import List NArith Bool.
From Verif Require Import CheckLib Persist.
Import ListNotations.
Open Scope N_scope.

Inductive request :=
| RCreateNode (t id : N) (labels : list N) (p : props)
| RCreateEdge (t id src tgt ty : N) (p : props)
| RDeleteNode (t id : N)
| RDeleteEdge (t id : N)
| RUpdateNode (t id : N) (p : props) (version : N)
| RUpdateEdge (t id : N) (p : props) (version : N)
| RExecuteQuery (t : N).

Inductive response :=
| ROk
| RNodeCreated (id : N)
| REdgeCreated (id : N)
| RQueryResult (rows : N)
| RError.

(* a HashSet<Label> in canonical form: sorted, duplicate-free *)
Fixpoint insert_label (x : N) (l : list N) : list N :=
  match l with
  | [] => [x]
  | y :: r => if N.eqb x y then l else if N.ltb x y then x :: l else y :: insert_label x r
  end.
Definition label_set (ls : list N) : list N :=
  fold_left (fun acc x => insert_label x acc) (match ls with [] => [0] | _ => ls end) [].

(* the persistence operation a request stands for *)
Definition op_of (r : request) : option op :=
  match r with
  | RCreateNode t id ls p => Some (CreateNode t id (label_set ls) p)
  | RCreateEdge t id a b ty p => Some (CreateEdge t id a b ty p)
  | RDeleteNode t id => Some (DeleteNode t id)
  | RDeleteEdge t id => Some (DeleteEdge t id)
  | RUpdateNode t id p _ => Some (UpdateNode t id p)
  | RUpdateEdge t id p _ => Some (UpdateEdge t id p)
  | RExecuteQuery _ => None
  end.

Definition ok_response (r : request) : response :=
  match r with
  | RCreateNode _ id _ _ => RNodeCreated id
  | RCreateEdge _ id _ _ _ _ => REdgeCreated id
  | RExecuteQuery _ => RQueryResult 0
  | _ => ROk
  end.

Definition apply (s : pstate) (r : request) : pstate * response :=
  match op_of r with
  | None => (s, ok_response r)
  | Some o => let '(s', a) := run_op s o in (s', if a then ok_response r else RError)
  end.

Fixpoint apply_all (s : pstate) (rs : list request) : pstate * list response :=
  match rs with
  | [] => (s, [])
  | r :: rest => let '(s1, x) := apply s r in
                 let '(s2, xs) := apply_all s1 rest in (s2, x :: xs)
  end.

Definition is_error (x : response) : bool := match x with RError => true | _ => false end.

(* ---- the SPECIFICATION: effect of the acknowledged requests, in order ---- *)
Definition request_effect (g : store) (r : request) : store :=
  match op_of r with Some o => effect g o | None => g end.

Fixpoint acked_requests (rs : list request) (xs : list response) : list request :=
  match rs, xs with
  | r :: rr, x :: xr => if is_error x then acked_requests rr xr else r :: acked_requests rr xr
  | _, _ => []
  end.

(* ---- correspondence ---- *)
Definition response_eqb (a b : response) : bool :=
  match a, b with
  | ROk, ROk | RError, RError => true
  | RNodeCreated x, RNodeCreated y | REdgeCreated x, REdgeCreated y | RQueryResult x, RQueryResult y => N.eqb x y
  | _, _ => false
  end.

(* tenants registered on every replica, requests, and per replica: responses and what recover
   returned for every tenant of the pool in a new manager on the replica's directory *)
Definition replica_obs := (list response * list (N * option (list (N * nval) * list (N * eval))))%type.
Definition case := (list (N * quotas) * list request * list replica_obs)%type.

Definition check_replica (rs : list (N * quotas)) (reqs : list request) (o : replica_obs) : bool :=
  let '(s, xs) := apply_all (init rs) reqs in
  list_eqb response_eqb xs (fst o)
  && forallb (fun r => match snd r with
                       | None => false
                       | Some v => view_eqb (fst (recover (reopen s []) (fst r))) v
                       end) (snd o).

Definition check_case (c : case) : bool :=
  let '(rs, reqs, obs) := c in
  negb (match obs with [] => true | _ => false end) && forallb (check_replica rs reqs) obs.
