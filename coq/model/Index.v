(* Model of the property index and of the two ways a query evaluates `n.prop OP literal`:
     - src/index/property_index.rs : PropertyIndex (BTreeMap<PropertyValue, HashSet<NodeId>>),
       insert / get / range / candidates;
     - src/query/executor/operator.rs : the filter path (cypher_ordering, coerced_eq, plain_eq,
       null => unknown => row dropped) and IndexScanOperator::initialize (candidates of the
       index, live nodes that still carry the label, each once) with the predicate kept as a
       FilterOperator above it (planner.rs / plan_enumerator.rs).
   Values are Value.pv.  std's B-tree is represented by what it maintains: a key-sorted
   association list searched with pv_cmp.  Executable; no proofs here. *)
From Coq Require Import List NArith ZArith Bool.
From Verif Require Import CheckLib Value.
Import ListNotations.
Open Scope Z_scope.

(* ---------- the B-tree ---------- *)
Definition index := list (pv * list N).

(* PropertyIndex::insert : entry(value).or_default().insert(id) *)
Fixpoint idx_insert (k : pv) (id : N) (m : index) : index :=
  match m with
  | [] => [(k, [id])]
  | (k', ids) :: r =>
      match pv_cmp k k' with
      | Lt => (k, [id]) :: m
      | Eq => (k', id :: ids) :: r
      | Gt => (k', ids) :: idx_insert k id r
      end
  end.

(* PropertyIndex::get : a tree search stops as soon as the probe is smaller than the entry *)
Fixpoint idx_get (k : pv) (m : index) : list N :=
  match m with
  | [] => []
  | (k', ids) :: r =>
      match pv_cmp k k' with
      | Lt => []
      | Eq => ids
      | Gt => idx_get k r
      end
  end.

Definition idx_build (ops : list (pv * N)) : index :=
  fold_left (fun m p => idx_insert (fst p) (snd p) m) ops [].

(* std::ops::Bound *)
Inductive bound := Unb | Incl (v : pv) | Excl (v : pv).

Definition above (lo : bound) (k : pv) : bool :=
  match lo with
  | Unb => true
  | Incl v => match pv_cmp k v with Lt => false | _ => true end
  | Excl v => match pv_cmp k v with Gt => true | _ => false end
  end.

Definition below (hi : bound) (k : pv) : bool :=
  match hi with
  | Unb => true
  | Incl v => match pv_cmp k v with Gt => false | _ => true end
  | Excl v => match pv_cmp k v with Lt => true | _ => false end
  end.

Definition in_range (r : bound * bound) (k : pv) : bool := above (fst r) k && below (snd r) k.

(* the ids under the keys that satisfy [P], in key order *)
Definition idx_select (P : pv -> bool) (m : index) : list N :=
  flat_map (fun e => if P (fst e) then snd e else []) m.

(* PropertyIndex::range *)
Definition idx_range (r : bound * bound) (m : index) : list N := idx_select (in_range r) m.

(* ---------- PropertyIndex::candidates ---------- *)
Inductive iop := OEq | OLt | OLe | OGt | OGe.

Definition i64_min : Z := - two63.

(* bucket_floor : the least value of each bucket of pv_cmp *)
Definition bucket_floor (b : Z) : pv :=
  if b =? 0 then PBool false
  else if b =? 1 then PFloat (two64 - 1)
  else if b =? 2 then PStr []
  else if b =? 3 then PDate i64_min
  else if b =? 4 then PArr []
  else if b =? 5 then PMap []
  else if b =? 6 then PVec []
  else if b =? 7 then PDur i64_min i64_min i64_min (-2147483648)
  else PNull.

Definition bucket_ceil (b : Z) : bound := if b + 1 <? 9 then Excl (bucket_floor (b + 1)) else Unb.
Definition whole (b : Z) : bound * bound := (Incl (bucket_floor b), bucket_ceil b).

(* float_below on bit patterns (argument not NaN) *)
Definition neg_inf_bits : Z := two63 + inf_bits.
Definition float_below (f : Z) : Z :=
  if f_mag f =? 0 then two63 + 1
  else if f =? neg_inf_bits then f
  else if f_sign f then f + 1 else f - 1.

Definition own_range (op : iop) (v : pv) : bound * bound :=
  let own := bucket v in
  match v with
  | PInt _ | PFloat _ =>
      let f := match v with PInt i => i2f_bits i | PFloat f => f | _ => 0 end in
      if f_is_nan f then whole own
      else
        let lo := if f =? neg_inf_bits then Incl (PFloat f) else Excl (PFloat (float_below f)) in
        let hi := Incl (PFloat (if f_mag f =? 0 then 0 else f)) in
        match op with
        | OEq => (lo, hi)
        | OGt | OGe => (lo, bucket_ceil own)
        | OLt | OLe => (Incl (bucket_floor own), hi)
        end
  | PStr _ | PBool _ | PDate _ | PDur _ _ _ _ =>
      match op with
      | OEq => (Incl v, Incl v)
      | OGt => (Excl v, bucket_ceil own)
      | OGe => (Incl v, bucket_ceil own)
      | OLt => (Incl (bucket_floor own), Excl v)
      | OLe => (Incl (bucket_floor own), Incl v)
      end
  | _ => whole own
  end.

Definition buckets : list Z := [0; 1; 2; 3; 4; 5; 6; 7; 8].

Definition bucket_range (op : iop) (v : pv) (b : Z) : bound * bound :=
  if b =? bucket v then own_range op v else whole b.

(* would a key be among the candidates *)
Definition key_candidate (op : iop) (v : pv) (k : pv) : bool :=
  existsb (fun b => in_range (bucket_range op v b) k) buckets.

(* (the code skips a range whose start is above its end, which BTreeMap::range would
   reject with a panic; selecting from such a range yields nothing, so the model needs no
   such test) *)
Definition candidates (op : iop) (v : pv) (m : index) : list N :=
  flat_map (fun b => idx_range (bucket_range op v b) m) buckets.

(* ---------- the filter path: how FilterOperator evaluates `x OP v` ---------- *)
(* cypher_ordering *)
Definition cy_ordering (l r : pv) : option comparison :=
  match l, r with
  | PInt x, PInt y => Some (x ?= y)
  | PFloat x, PFloat y => f_partial_cmp x y
  | PInt x, PFloat y => if f_is_nan y then None else Some (int_key x ?= num_key y)
  | PFloat x, PInt y => if f_is_nan x then None else Some (num_key x ?= int_key y)
  | PStr x, PStr y => Some (bytes_cmp x y)
  | PBool x, PBool y => Some (bool_cmp x y)
  | PDate x, PDate y => Some (x ?= y)
  | PDate x, PInt y | PInt x, PDate y => Some (x ?= y)
  | PDur m1 d1 s1 n1, PDur m2 d2 s2 n2 =>
      Some (then_ (m1 ?= m2) (then_ (d1 ?= d2) (then_ (s1 ?= s2) (n1 ?= n2))))
  | _, _ => None
  end.

(* IEEE == on f64 / f32 bit patterns *)
Definition f_ieee_eq (x y : Z) : bool :=
  match f_partial_cmp x y with Some Eq => true | _ => false end.

Definition two31 : Z := 2147483648.
Definition inf32 : Z := 2139095040.               (* 0x7F80_0000 *)
Definition f32_mag (b : Z) : Z := if two31 <=? b then b - two31 else b.
Definition f32_ieee_eq (x y : Z) : bool :=
  if (inf32 <? f32_mag x) || (inf32 <? f32_mag y) then false
  else if (f32_mag x =? 0) && (f32_mag y =? 0) then true
  else x =? y.

(* list equality with the element test as a section variable, so that plain_eqb below can
   recurse through it *)
Section Leqb.
  Context {A : Type} (e : A -> A -> bool).
  Fixpoint leqb (a b : list A) : bool :=
    match a, b with
    | [], [] => true
    | x :: a', y :: b' => e x y && leqb a' b'
    | _, _ => false
    end.
End Leqb.

(* plain_eq : structural, floats by IEEE wherever they occur *)
Fixpoint plain_eqb (a b : pv) {struct a} : bool :=
  match a, b with
  | PFloat x, PFloat y => f_ieee_eq x y
  | PVec x, PVec y => leqb f32_ieee_eq x y
  | PArr x, PArr y => leqb plain_eqb x y
  | PMap x, PMap y =>
      leqb (fun p q => let '(k, u) := p in let '(k', w) := q in
                           match bytes_cmp k k' with Eq => plain_eqb u w | _ => false end) x y
  | _, _ => pv_eqb a b
  end.

Definition lower_byte (c : N) : N := if ((65 <=? c) && (c <=? 90))%N then (c + 32)%N else c.
Definition str_true : bytes := [116; 114; 117; 101]%N.
Definition str_false : bytes := [102; 97; 108; 115; 101]%N.

Definition variant (v : pv) : Z :=
  match v with
  | PStr _ => 0 | PInt _ => 1 | PFloat _ => 2 | PBool _ => 3 | PDate _ => 4
  | PArr _ => 5 | PMap _ => 6 | PVec _ => 7 | PDur _ _ _ _ => 8 | PNull => 9
  end.

(* coerced_eq *)
Definition coerced_eqb (l r : pv) : bool :=
  if variant l =? variant r then plain_eqb l r else
  match l, r with
  | PInt x, PFloat y => if f_is_nan y then false else int_key x =? num_key y
  | PFloat x, PInt y => if f_is_nan x then false else num_key x =? int_key y
  | PDate x, PInt y | PInt x, PDate y => x =? y
  | PBool b, PStr s | PStr s, PBool b =>
      let ls := map lower_byte s in
      if list_eqb N.eqb ls str_true then b
      else if list_eqb N.eqb ls str_false then negb b else false
  | _, _ => false
  end.

(* the row is kept iff the comparison is true; a null operand makes it unknown *)
Definition cy_true (op : iop) (x v : pv) : bool :=
  match x, v with
  | PNull, _ | _, PNull => false
  | _, _ =>
      match op with
      | OEq => coerced_eqb x v
      | OLt => match cy_ordering x v with Some Lt => true | _ => false end
      | OLe => match cy_ordering x v with Some Lt | Some Eq => true | _ => false end
      | OGt => match cy_ordering x v with Some Gt => true | _ => false end
      | OGe => match cy_ordering x v with Some Gt | Some Eq => true | _ => false end
      end
  end.

(* ---------- the two plans ---------- *)
(* nodes carrying the label: (id, value of the property or None) *)
Definition nodes := list (N * option pv).

Definition keep (op : iop) (v : pv) (x : option pv) : bool :=
  match x with Some x => cy_true op x v | None => false end.

(* NodeScan + Filter *)
Definition filter_path (op : iop) (v : pv) (ns : nodes) : list N :=
  map fst (filter (fun n => keep op v (snd n)) ns).

Fixpoint value_of (ns : nodes) (id : N) : option (option pv) :=
  match ns with
  | [] => None
  | (i, x) :: r => if N.eqb i id then Some x else value_of r id
  end.

Fixpoint dedup (l : list N) : list N :=
  match l with
  | [] => []
  | x :: r => if existsb (N.eqb x) r then dedup r else x :: dedup r
  end.

(* Filter above a scan that yields the ids [cand] (each live labelled node once) *)
Definition residual_path (op : iop) (v : pv) (ns : nodes) (cand : list N) : list N :=
  filter (fun id => match value_of ns id with Some x => keep op v x | None => false end)
         (dedup cand).

Definition indexed (ns : nodes) : list (pv * N) :=
  flat_map (fun n => match snd n with Some x => [(x, fst n)] | None => [] end) ns.

(* IndexScan + Filter *)
Definition index_path (op : iop) (v : pv) (ns : nodes) : list N :=
  residual_path op v ns (candidates op v (idx_build (indexed ns))).

(* ---------- correspondence ---------- *)
Fixpoint insert_n (x : N) (l : list N) : list N :=
  match l with
  | [] => [x]
  | y :: r => if (x <=? y)%N then x :: l else y :: insert_n x r
  end.
Definition sort_n (l : list N) : list N := fold_right insert_n [] l.

(* one case: the labelled nodes with their value, the operator and bound, the ids the engine
   returned without an index and with one, and the ids PropertyIndex::candidates returned *)
Definition case := (nodes * iop * pv * list N * list N * list N)%type.

Definition opt_wf (x : option pv) : bool := match x with Some x => wf x | None => true end.

Definition check_case (c : case) : bool :=
  let '(ns, op, v, got_plain, got_indexed, got_cand) := c in
  forallb (fun n => opt_wf (snd n)) ns && wf v
  && list_eqb N.eqb (sort_n (filter_path op v ns)) (sort_n got_plain)
  && list_eqb N.eqb (sort_n (index_path op v ns)) (sort_n got_indexed)
  && list_eqb N.eqb (sort_n (candidates op v (idx_build (indexed ns)))) (sort_n got_cand).
