(* Model of src/graph/storage/columnar.rs : ColumnData<T> (Sparse | Dense),
   dense_is_smaller, maybe_promote / rebase / demote_to_sparse, Column
   (Int/Float/String/Bool/Other, promote_to_other), ColumnStore
   (set_property, remove_property, clear_row, get_property, get_property_keys,
   get_column(k).is_dense()/len()) -- the code as repaired (the three span
   computations saturate instead of overflowing).  An operation that could panic
   (count -= 1 below zero) has an explicit [None] outcome.  Executable; no proofs
   here.

   Representation choices:
   - FxHashMap<usize,T> is an association list with unique keys (insert =
     cons after removing the key); iteration order never reaches an observer.
   - Dense { values, present } : values as a list, the presence bitmap as one
     bool per slot (the code's u64 words hold extra bits past the span; they are
     never read - every access is guarded by slot < values.len() - and never
     set, so resizing exposes only zero bits, as appending [false] does).
   - size_of::<T>() : i64 8, f64 8, String 24, bool 1.
   - count + 1 cannot overflow (count <= values.len(), an allocated Vec). *)
From Coq Require Import List NArith ZArith Bool.
From Coq Require Uint63.
From Verif Require Import CheckLib.
Import ListNotations.
Open Scope N_scope.

Definition usize_max : N := 18446744073709551615.
Definition sat_mul (a b : N) : N := N.min (a * b) usize_max.

Definition dense_is_smaller (span entries elem : N) : bool :=
  if (span =? 0) || (entries =? 0) then false
  else
    let dense_bits := sat_mul span (sat_mul elem 8 + 1) in
    let sparse_bits := sat_mul entries ((8 + elem + 1) * 8 * 8) / 7 in
    dense_bits <? sparse_bits.

Definition promote_min_entries : N := 1024.

Definition is_pow2 (n : N) : bool :=
  match n with Npos p => (fix go (q : positive) : bool :=
                            match q with xH => true | xO r => go r | xI _ => false end) p
             | N0 => false end.

(* ---- association lists (hash maps) ---- *)
Section AList.
  Context {V : Type}.
  Fixpoint aget (m : list (N * V)) (k : N) : option V :=
    match m with
    | [] => None
    | (k', v) :: r => if k' =? k then Some v else aget r k
    end.
  Fixpoint aremove (m : list (N * V)) (k : N) : list (N * V) :=
    match m with
    | [] => []
    | (k', v) :: r => if k' =? k then aremove r k else (k', v) :: aremove r k
    end.
  Definition ains (m : list (N * V)) (k : N) (v : V) : list (N * V) := (k, v) :: aremove m k.
End AList.

Definition nlen {A} (l : list A) : N := N.of_nat (length l).

Fixpoint upd {A} (l : list A) (n : nat) (x : A) : list A :=
  match l, n with
  | [], _ => []
  | _ :: r, O => x :: r
  | y :: r, S k => y :: upd r k x
  end.

Definition bitn (p : list bool) (n : nat) : bool :=
  match nth_error p n with Some b => b | None => false end.

(* Vec::resize(n, d) *)
Definition resize {A} (l : list A) (n : nat) (d : A) : list A :=
  firstn n l ++ repeat d (n - length l).

Inductive cdata (T : Type) :=
| Sparse (m : list (N * T))
| Dense (base : N) (values : list T) (present : list bool) (count : N).
Arguments Sparse {T}.
Arguments Dense {T}.

Section ColumnData.
  Context {T : Type}.
  Variable dflt : T.        (* T::default() *)
  Variable elem : N.        (* size_of::<T>() *)

  (* the value of a dense slot as get() sees it *)
  Definition arr_get (vals : list T) (pres : list bool) (n : nat) : option T :=
    if (Nat.ltb n (length vals)) && bitn pres n then nth_error vals n else None.

  Definition cget (d : cdata T) (idx : N) : option T :=
    match d with
    | Sparse m => aget m idx
    | Dense base vals pres _ =>
        (* idx.checked_sub(base)?; slot >= values.len() => None  (compared in N first:
           a far-away row must not be converted to a unary number) *)
        if idx <? base then None
        else if nlen vals <=? idx - base then None
        else arr_get vals pres (N.to_nat (idx - base))
    end.

  Definition clen (d : cdata T) : N :=
    match d with Sparse m => nlen m | Dense _ _ _ count => count end.

  Definition cis_dense (d : cdata T) : bool :=
    match d with Sparse _ => false | Dense _ _ _ _ => true end.

  (* for_each / demote_to_sparse: the present (row, value) pairs *)
  Fixpoint dense_entries (b : N) (vals : list T) (pres : list bool) : list (N * T) :=
    match vals, pres with
    | v :: vs, p :: ps => if p then (b, v) :: dense_entries (b + 1) vs ps
                          else dense_entries (b + 1) vs ps
    | _, _ => []
    end.

  Definition centries (d : cdata T) : list (N * T) :=
    match d with Sparse m => m | Dense base vals pres _ => dense_entries base vals pres end.

  (* remove; None = panic (count -= 1 below zero) *)
  Definition cremove (d : cdata T) (idx : N) : option (cdata T) :=
    match d with
    | Sparse m => Some (Sparse (aremove m idx))
    | Dense base vals pres count =>
        if idx <? base then Some d
        else if nlen vals <=? idx - base then Some d
        else
          let n := N.to_nat (idx - base) in
          if bitn pres n then
            if count =? 0 then None
            else Some (Dense base (upd vals n dflt) (upd pres n false) (count - 1))
          else Some d
    end.

  (* rebase: the loop copies the present slots into default-filled arrays, shifted *)
  Fixpoint shifted_vals (vals : list T) (pres : list bool) : list T :=
    match vals with
    | [] => []
    | v :: vs => match pres with
                 | p :: ps => (if p then v else dflt) :: shifted_vals vs ps
                 | [] => dflt :: shifted_vals vs []
                 end
    end.
  Fixpoint shifted_pres (vals : list T) (pres : list bool) : list bool :=
    match vals with
    | [] => []
    | _ :: vs => match pres with
                 | p :: ps => p :: shifted_pres vs ps
                 | [] => false :: shifted_pres vs []
                 end
    end.

  Fixpoint min_key (m : list (N * T)) (acc : N) : N :=
    match m with [] => acc | (k, _) :: r => min_key r (N.min k acc) end.
  Fixpoint max_key (m : list (N * T)) (acc : N) : N :=
    match m with [] => acc | (k, _) :: r => max_key r (N.max k acc) end.

  (* the loop of maybe_promote: values[idx - min] = value, set_bit (hash-map order
     is arbitrary and the keys are distinct; taken here from the back of the list) *)
  Fixpoint build_vals (m : list (N * T)) (mn : N) (init : list T) : list T :=
    match m with
    | [] => init
    | (k, v) :: r => upd (build_vals r mn init) (N.to_nat (k - mn)) v
    end.
  Fixpoint build_pres (m : list (N * T)) (mn : N) (init : list bool) : list bool :=
    match m with
    | [] => init
    | (k, _) :: r => upd (build_pres r mn init) (N.to_nat (k - mn)) true
    end.

  Definition sat_add (a b : N) : N := N.min (a + b) usize_max.

  (* maybe_promote on a sparse map *)
  Definition maybe_promote (m : list (N * T)) : cdata T :=
    let len := nlen m in
    if (len <? promote_min_entries) || negb (is_pow2 len) then Sparse m
    else
      match m with
      | [] => Sparse m
      | (k0, _) :: _ =>
          let mn := min_key m k0 in
          let mx := max_key m k0 in
          let span := sat_add (mx - mn) 1 in          (* (max - min).saturating_add(1) *)
          if negb (dense_is_smaller span len elem) then Sparse m
          else
            let sp := N.to_nat span in
            Dense mn (build_vals m mn (repeat dflt sp)) (build_pres m mn (repeat false sp)) len
      end.

  Definition cset (d : cdata T) (idx : N) (v : T) : cdata T :=
    match d with
    | Sparse m => maybe_promote (ains m idx v)
    | Dense base vals pres count =>
        if (base <=? idx) && (idx - base <? nlen vals) then
          let n := N.to_nat (idx - base) in
          Dense base (upd vals n v) (upd pres n true) (if bitn pres n then count else count + 1)
        else
          let entries := count + 1 in
          let fallback := Sparse (ains (dense_entries base vals pres) idx v) in
          if base <=? idx then
            let new_span := sat_add (idx - base) 1 in       (* (idx - base).saturating_add(1) *)
            if dense_is_smaller new_span entries elem then
              let n := N.to_nat (idx - base) in
              let sp := N.to_nat new_span in
              Dense base (upd (resize vals sp dflt) n v) (upd (resize pres sp false) n true) (count + 1)
            else fallback
          else
            let new_span := sat_add (base - idx) (nlen vals) in   (* (base - new_base).saturating_add(values.len()) *)
            if dense_is_smaller new_span entries elem then
              let shift := N.to_nat (base - idx) in
              Dense idx (upd (repeat dflt shift ++ shifted_vals vals pres) 0 v)
                    (upd (repeat false shift ++ shifted_pres vals pres) 0 true) (count + 1)
            else fallback
    end.

  (* the three span computations as they were before the repair: plain usize
     arithmetic, None = "attempt to add with overflow" *)
  Definition orig_grow_span (idx base : N) : option N :=
    if usize_max <=? idx - base then None else Some (idx - base + 1).
  Definition orig_rebase_span (base len idx : N) : option N :=
    if usize_max <? base + len then None else Some (base + len - idx).
  Definition orig_promote_span (mx mn : N) : option N :=
    if usize_max <=? mx - mn then None else Some (mx - mn + 1).
End ColumnData.

(* ---- PropertyValue, as far as the column dispatch distinguishes it ---- *)
Inductive pv :=
| PInt (z : Z)          (* Integer(i64) *)
| PFloat (bits : N)     (* Float(f64), by bit pattern *)
| PStr (s : N)          (* String: 0 = "", n = "s<n>" *)
| PBool (b : bool)
| POther (x : N)        (* a variant without a typed column (DateTime(x) in the harness) *)
| PNull.

Definition pv_eqb (a b : pv) : bool :=
  match a, b with
  | PInt x, PInt y => Z.eqb x y
  | PFloat x, PFloat y => x =? y
  | PStr x, PStr y => x =? y
  | PBool x, PBool y => Bool.eqb x y
  | POther x, POther y => x =? y
  | PNull, PNull => true
  | _, _ => false
  end.

Inductive column :=
| CInt (d : cdata Z) | CFloat (d : cdata N) | CStr (d : cdata N) | CBool (d : cdata bool)
| COther (m : list (N * pv)).

Definition for_value (v : pv) : column :=
  match v with
  | PInt _ => CInt (Sparse []) | PFloat _ => CFloat (Sparse [])
  | PStr _ => CStr (Sparse []) | PBool _ => CBool (Sparse [])
  | _ => COther []
  end.

Definition wrap {T} (f : T -> pv) (l : list (N * T)) : list (N * pv) :=
  map (fun p => (fst p, f (snd p))) l.

(* promote_to_other: every present value, untyped *)
Definition spill (c : column) : list (N * pv) :=
  match c with
  | CInt d => wrap PInt (centries d) | CFloat d => wrap PFloat (centries d)
  | CStr d => wrap PStr (centries d) | CBool d => wrap PBool (centries d)
  | COther m => m
  end.

Definition column_set (c : column) (idx : N) (v : pv) : option column :=
  match c, v with
  | CInt d, PInt z => Some (CInt (cset 0%Z 8 d idx z))
  | CFloat d, PFloat b => Some (CFloat (cset 0 8 d idx b))
  | CStr d, PStr s => Some (CStr (cset 0 24 d idx s))
  | CBool d, PBool b => Some (CBool (cset false 1 d idx b))
  | COther m, _ => Some (COther (ains m idx v))
  | _, _ => Some (COther (ains (spill c) idx v))
  end.

Definition column_remove (c : column) (idx : N) : option column :=
  match c with
  | CInt d => option_map CInt (cremove 0%Z d idx)
  | CFloat d => option_map CFloat (cremove 0 d idx)
  | CStr d => option_map CStr (cremove 0 d idx)
  | CBool d => option_map CBool (cremove false d idx)
  | COther m => Some (COther (aremove m idx))
  end.

(* Some v iff has(idx); get(idx) is v or Null *)
Definition column_lookup (c : column) (idx : N) : option pv :=
  match c with
  | CInt d => option_map PInt (cget d idx) | CFloat d => option_map PFloat (cget d idx)
  | CStr d => option_map PStr (cget d idx) | CBool d => option_map PBool (cget d idx)
  | COther m => aget m idx
  end.

Definition column_get (c : column) (idx : N) : pv :=
  match column_lookup c idx with Some v => v | None => PNull end.
Definition column_has (c : column) (idx : N) : bool :=
  match column_lookup c idx with Some _ => true | None => false end.

Definition column_len (c : column) : N :=
  match c with
  | CInt d => clen d | CFloat d => clen d | CStr d => clen d | CBool d => clen d
  | COther m => nlen m
  end.
Definition column_is_dense (c : column) : bool :=
  match c with
  | CInt d => cis_dense d | CFloat d => cis_dense d | CStr d => cis_dense d | CBool d => cis_dense d
  | COther _ => false
  end.

(* ---- ColumnStore: columns in creation order, with their names (key ids) ---- *)
Definition store := list (N * column).

Fixpoint find_col (s : store) (k : N) : option column :=
  match s with
  | [] => None
  | (k', c) :: r => if k' =? k then Some c else find_col r k
  end.

Fixpoint store_set (s : store) (idx k : N) (v : pv) : option store :=
  match s with
  | [] => option_map (fun c => [(k, c)]) (column_set (for_value v) idx v)
  | (k', c) :: r =>
      if k' =? k then option_map (fun c' => (k', c') :: r) (column_set c idx v)
      else option_map (cons (k', c)) (store_set r idx k v)
  end.

Fixpoint store_remove (s : store) (idx k : N) : option store :=
  match s with
  | [] => Some []
  | (k', c) :: r =>
      if k' =? k then option_map (fun c' => (k', c') :: r) (column_remove c idx)
      else option_map (cons (k', c)) (store_remove r idx k)
  end.

Fixpoint store_clear (s : store) (idx : N) : option store :=
  match s with
  | [] => Some []
  | (k', c) :: r =>
      match column_remove c idx, store_clear r idx with
      | Some c', Some r' => Some ((k', c') :: r')
      | _, _ => None
      end
  end.

Definition get_property (s : store) (idx k : N) : pv :=
  match find_col s k with Some c => column_get c idx | None => PNull end.

Definition get_property_keys (s : store) (idx : N) : list N :=
  map fst (filter (fun kc => column_has (snd kc) idx) s).

Inductive op :=
| SetP (r k : N) (v : pv)      (* set_property(r, k, v) *)
| RemoveP (r k : N)            (* remove_property(r, k) *)
| ClearRow (r : N).            (* clear_row(r) *)

Definition step (s : store) (o : op) : option store :=
  match o with
  | SetP r k v => store_set s r k v
  | RemoveP r k => store_remove s r k
  | ClearRow r => store_clear s r
  end.

(* None = some operation panicked *)
Fixpoint run_from (s : store) (ops : list op) : option store :=
  match ops with
  | [] => Some s
  | o :: r => match step s o with Some s' => run_from s' r | None => None end
  end.
Definition run (ops : list op) : option store := run_from [] ops.

(* ---- specification: a map row -> key -> value ---- *)
Definition amap := N -> N -> option pv.
Definition aempty : amap := fun _ _ => None.
Definition spec_step (m : amap) (o : op) : amap :=
  match o with
  | SetP r k v => fun r' k' => if (r' =? r) && (k' =? k) then Some v else m r' k'
  | RemoveP r k => fun r' k' => if (r' =? r) && (k' =? k) then None else m r' k'
  | ClearRow r => fun r' k' => if r' =? r then None else m r' k'
  end.
Definition spec_run (ops : list op) : amap := fold_left spec_step ops aempty.

Definition abs (s : store) : amap :=
  fun r k => match find_col s k with Some c => column_lookup c r | None => None end.

(* row indices are usize *)
Definition row_of (o : op) : N := match o with SetP r _ _ => r | RemoveP r _ => r | ClearRow r => r end.
Definition rows_ok (ops : list op) : bool := forallb (fun o => row_of o <=? usize_max) ops.

(* ---- correspondence ---- *)
(* macro operations keep long histories short to write down *)
Inductive mop :=
| One (o : op)
| Fill (k start count stride vk : N)      (* set rows start, start+stride, ...: value by kind vk *)
| Unfill (k start count stride : N)       (* remove_property on those rows *)
| ClearRows (start count stride : N).     (* clear_row on those rows *)

(* u64 as i64 (two's complement) *)
Definition i64_of_u64 (n : N) : Z :=
  if n <? 9223372036854775808 then Z.of_N n else (Z.of_N n - 18446744073709551616)%Z.

Definition fill_value (vk row : N) : pv :=
  match vk with
  | 0 => PInt (i64_of_u64 row)
  | 1 => PFloat row
  | 2 => PStr row
  | 3 => PBool (N.even row)
  | 4 => POther row
  | _ => PNull
  end.

Fixpoint rows_of (start stride : N) (count : nat) : list N :=
  match count with O => [] | S c => start :: rows_of (start + stride) stride c end.

Definition expand (m : mop) : list op :=
  match m with
  | One o => [o]
  | Fill k start count stride vk =>
      map (fun r => SetP r k (fill_value vk r)) (rows_of start stride (N.to_nat count))
  | Unfill k start count stride => map (fun r => RemoveP r k) (rows_of start stride (N.to_nat count))
  | ClearRows start count stride => map ClearRow (rows_of start stride (N.to_nat count))
  end.

(* what is read after each macro operation, at a probe (row, key) chosen by the
   harness: get_property, get_property_keys(row), get_column(key).is_dense()/len()
   (None when the key has no column) *)
Inductive obs :=
| Obs (v : pv) (keys : list N) (col : option (bool * N))
| Panicked.

Definition observe (s : store) (r k : N) : obs :=
  Obs (get_property s r k) (get_property_keys s r)
      (match find_col s k with Some c => Some (column_is_dense c, column_len c) | None => None end).

Definition col_eqb (a b : bool * N) : bool := Bool.eqb (fst a) (fst b) && (snd a =? snd b).
Definition obs_eqb (a b : obs) : bool :=
  match a, b with
  | Obs v1 k1 c1, Obs v2 k2 c2 => pv_eqb v1 v2 && list_eqb N.eqb k1 k2 && option_eqb col_eqb c1 c2
  | Panicked, Panicked => true
  | _, _ => false
  end.

(* final dump: a 63-bit fold (machine integers, only used here) over
   get_property for rows x keys and get_property_keys per row *)
Definition hint := Uint63.int.
Definition mix (h : hint) (x : N) : hint :=
  Uint63.add (Uint63.add (Uint63.add (Uint63.lsl h (Uint63.of_Z 5)) h) (Uint63.of_Z (Z.of_N x)))
             (Uint63.of_Z 1).
Definition mix_pv (h : hint) (v : pv) : hint :=
  match v with
  | PInt z => mix (mix h 1) (Z.to_N (z mod 18446744073709551616))
  | PFloat b => mix (mix h 2) b
  | PStr s => mix (mix h 3) s
  | PBool b => mix (mix h 4) (if b then 1 else 0)
  | POther x => mix (mix h 5) x
  | PNull => mix h 6
  end.

Definition dump_row (s : store) (keys : list N) (h : hint) (r : N) : hint :=
  let h := fold_left (fun h k => mix_pv h (get_property s r k)) keys h in
  mix (fold_left mix (get_property_keys s r) (mix h 7)) 8.

Definition dump (s : store) (ranges : list (N * N)) (keys : list N) : hint :=
  fold_left (fun h rg => fold_left (dump_row s keys) (rows_of (fst rg) 1 (N.to_nat (snd rg))) h)
            ranges (Uint63.of_Z 0).

(* one case: macro operations, each with a probe and what the implementation
   answered there; then row ranges and keys of the final dump and its hash
   (ignored when the history ended in a panic) *)
Definition case := (list (mop * N * N * obs) * list (N * N) * list N * N)%type.

Fixpoint check_items (s : store) (items : list (mop * N * N * obs)) : option store * bool :=
  match items with
  | [] => (Some s, true)
  | (m, r, k, o) :: rest =>
      match run_from s (expand m) with
      | None => (None, match o, rest with Panicked, [] => true | _, _ => false end)
      | Some s' => if obs_eqb (observe s' r k) o then check_items s' rest else (Some s', false)
      end
  end.

Definition check_case (c : case) : bool :=
  let '(items, ranges, keys, h) := c in
  match check_items [] items with
  | (_, false) => false
  | (None, true) => true
  | (Some s, true) => Z.eqb (Uint63.to_Z (dump s ranges keys)) (Z.of_N h)
  end.
