(* Model of src/snapshot/mod.rs (.sgsnap export / import) at the record level:
   JSON values, property_to_json / json_to_property, the header / n / e / h records,
   export of a graph, import with id remap, dedup merge and rollback.
   serde_json's text layer and gzip are not modelled: the harness parses the real stream
   with the implementation's own serde types and hands the records to this model.
   Executable; no proofs here. *)
From Coq Require Import List NArith ZArith Bool.
Import ListNotations.
Open Scope N_scope.

(* ---------- strings (UTF-8 bytes), association lists, label sets ---------- *)
Definition str := list N.

Fixpoint str_eqb (a b : str) : bool :=
  match a, b with
  | [], [] => true
  | x :: a', y :: b' => N.eqb x y && str_eqb a' b'
  | _, _ => false
  end.

Fixpoint aget {A} (k : str) (l : list (str * A)) : option A :=
  match l with
  | [] => None
  | (k', v) :: r => if str_eqb k k' then Some v else aget k r
  end.

Fixpoint adel {A} (k : str) (l : list (str * A)) : list (str * A) :=
  match l with
  | [] => []
  | (k', v) :: r => if str_eqb k k' then adel k r else (k', v) :: adel k r
  end.

(* HashMap::insert *)
Definition aset {A} (k : str) (v : A) (l : list (str * A)) : list (str * A) :=
  (k, v) :: adel k l.

Definition smem (x : str) (l : list str) : bool := existsb (str_eqb x) l.
(* HashSet::insert *)
Definition sadd (x : str) (l : list str) : list str := if smem x l then l else l ++ [x].

(* ---------- property values and JSON ---------- *)
Inductive pv :=
| PStr (s : str)
| PInt (z : Z)
| PFloat (bits : N)                (* f64 bit pattern *)
| PBool (b : bool)
| PNull
| PDateTime (z : Z)
| PArr (l : list pv)
| PMap (m : list (str * pv))
| PVec (l : list N)                (* f32 bit patterns *)
| PDur (months days seconds nanos : Z).

Inductive json :=
| JNull
| JBool (b : bool)
| JInt (z : Z)                     (* a number serde_json reads with as_i64 *)
| JBig (fbits : N)                 (* an integer above i64::MAX: only as_f64 applies (bits given) *)
| JFloat (bits : N)                (* a finite f64 *)
| JStr (s : str)
| JArr (l : list json)
| JObj (m : list (str * json))
| JVec (l : list (option N)).      (* the array under a Vector tag: each number narrowed to f32
                                      (as_f64 then `as f32`, done by the harness), None = not a number *)

Definition finite64 (b : N) : bool := negb (N.eqb (N.land (N.shiftr b 52) 2047) 2047).
Definition finite32 (b : N) : bool := negb (N.eqb (N.land (N.shiftr b 23) 255) 255).

(* exact f32 -> f64 widening on bit patterns (finite inputs) *)
Definition widen32 (b : N) : N :=
  let s := N.shiftl (N.shiftr b 31) 63 in
  let e := N.land (N.shiftr b 23) 255 in
  let m := N.land b 8388607 in
  if N.eqb e 0 then
    if N.eqb m 0 then s
    else let k := N.log2 m in
         s + N.shiftl (k + 874) 52 + N.shiftl (m - N.shiftl 1 k) (52 - k)
  else s + N.shiftl (e + 896) 52 + N.shiftl m 29.

(* ASCII keys and tags *)
Definition k_type : str := [95;95;116;121;112;101].            (* __type *)
Definition k_value : str := [118;97;108;117;101].              (* value *)
Definition k_months : str := [109;111;110;116;104;115].
Definition k_days : str := [100;97;121;115].
Definition k_seconds : str := [115;101;99;111;110;100;115].
Definition k_nanos : str := [110;97;110;111;115].
Definition t_datetime : str := [68;97;116;101;84;105;109;101]. (* DateTime *)
Definition t_vector : str := [86;101;99;116;111;114].          (* Vector *)
Definition t_duration : str := [68;117;114;97;116;105;111;110]. (* Duration *)

Fixpoint p2j (v : pv) : json :=
  match v with
  | PStr s => JStr s
  | PInt z => JInt z
  | PFloat b => if finite64 b then JFloat b else JNull
  | PBool b => JBool b
  | PNull => JNull
  | PDateTime z => JObj [(k_type, JStr t_datetime); (k_value, JInt z)]
  | PArr l => JArr (map p2j l)
  | PMap m => JObj ((fix go (m : list (str * pv)) : list (str * json) :=
                       match m with
                       | [] => []
                       | (k, x) :: r => (k, p2j x) :: go r
                       end) m)
  | PVec l => JObj [(k_type, JStr t_vector);
                    (k_value, JVec (map (fun b => if finite32 b then Some b else None) l))]
  | PDur mo d s ns =>
      JObj [(k_type, JStr t_duration); (k_days, JInt d); (k_months, JInt mo);
            (k_nanos, JInt ns); (k_seconds, JInt s)]
  end.

(* `x as i32` on an i64 *)
Definition wrap32 (z : Z) : Z :=
  let m := (z mod 4294967296)%Z in
  if (m <? 2147483648)%Z then m else (m - 4294967296)%Z.

Definition as_i64 (o : option json) : option Z :=
  match o with Some (JInt z) => Some z | _ => None end.
Definition i64_or0 (o : option json) : Z :=
  match as_i64 o with Some z => z | None => 0%Z end.

Fixpoint somes {A} (l : list (option A)) : list A :=
  match l with
  | [] => []
  | Some x :: r => x :: somes r
  | None :: r => somes r
  end.

Section Import.
(* conversions the model does not compute; instantiated from harness-provided tables *)
Variable narrow : json -> option N.   (* as_f64 then `as f32` of an arbitrary JSON value *)
Variable norm : str -> str.           (* s.trim().to_lowercase() *)
Variable numstr : json -> str.        (* serde_json Number::to_string of a non-i64 number *)

Fixpoint j2p (j : json) : pv :=
  match j with
  | JNull => PNull
  | JBool b => PBool b
  | JInt z => PInt z
  | JBig fb => PFloat fb
  | JFloat b => PFloat b
  | JStr s => PStr s
  | JArr l => PArr (map j2p l)
  | JVec l => PArr (map (fun o => match o with Some b => PFloat (widen32 b) | None => PNull end) l)
  | JObj m =>
      let plain := PMap ((fix go (m : list (str * json)) : list (str * pv) :=
                            match m with
                            | [] => []
                            | (k, x) :: r => (k, j2p x) :: go r
                            end) m) in
      match aget k_type m with
      | Some (JStr t) =>
          if str_eqb t t_datetime then
            match as_i64 (aget k_value m) with Some z => PDateTime z | None => plain end
          else if str_eqb t t_vector then
            match aget k_value m with
            | Some (JVec l) => PVec (somes l)
            | Some (JArr l) => PVec (somes (map narrow l))
            | _ => plain
            end
          else if str_eqb t t_duration then
            PDur (i64_or0 (aget k_months m)) (i64_or0 (aget k_days m))
                 (i64_or0 (aget k_seconds m)) (wrap32 (i64_or0 (aget k_nanos m)))
          else plain
      | _ => plain
      end
  end.

(* ---------- records ---------- *)
Record nrec := { nr_id : N; nr_labels : list str; nr_props : list (str * json) }.
Record erec := { er_src : N; er_tgt : N; er_ty : str; er_props : list (str * json) }.
Record hrec := { hr_name : str; hr_etypes : list str; hr_rev : bool;
                 hr_mlabel : option str; hr_mprop : option str; hr_ops : list str }.

Inductive line :=
| LNode (r : nrec)
| LEdge (r : erec)
| LHier (r : hrec)
| LSkip            (* blank line, or a line that is none of n / h / e *)
| LFail.           (* read error (truncated or corrupt gzip) or a record that does not parse *)

Inductive header :=
| HOk (v2 : bool) (labels : list str)   (* format "sgsnap", version 1 or 2 *)
| HBad.                                 (* missing / unreadable / wrong format or version *)

(* ---------- the graph store, as far as snapshots can see it ---------- *)
Record node := { n_id : N; n_labels : list str; n_row : list (str * pv); n_col : list (str * pv) }.
Record edge := { e_src : N; e_tgt : N; e_ty : str; e_props : list (str * pv) }.
Inductive rop := RSum | RCount | RMin | RMax.
Record hdecl := { h_name : str; h_etypes : list str; h_rev : bool;
                  h_measure : option (option str * str); h_ops : list rop }.
Record store := { nodes : list node; edges : list edge; hier : list hdecl;
                  free_n : list N; next_n : N }.

Definition empty_store : store :=
  {| nodes := []; edges := []; hier := []; free_n := []; next_n := 1 |}.

Definition is_null (v : pv) : bool := match v with PNull => true | _ => false end.
Definition is_scalar (v : pv) : bool :=
  match v with PStr _ | PInt _ | PFloat _ | PBool _ => true | _ => false end.

(* ColumnStore::get_property: Null when absent *)
Definition col_get (k : str) (c : list (str * pv)) : pv :=
  match aget k c with Some v => v | None => PNull end.

(* GraphStore::node_properties_merged: row, overridden by every non-null column value *)
Definition merged (n : node) : list (str * pv) :=
  fold_left (fun acc kv => if is_null (snd kv) then acc else aset (fst kv) (snd kv) acc)
            (n_col n) (n_row n).

Definition find_node (id : N) (s : store) : option node :=
  find (fun n => N.eqb (n_id n) id) (nodes s).

Fixpoint upd_node (id : N) (f : node -> node) (l : list node) : list node :=
  match l with
  | [] => []
  | n :: r => if N.eqb (n_id n) id then f n :: r else n :: upd_node id f r
  end.

Definition with_nodes (s : store) (l : list node) : store :=
  {| nodes := l; edges := edges s; hier := hier s; free_n := free_n s; next_n := next_n s |}.

(* id allocation: free_node_ids.pop() (the last one pushed), else next_node_id *)
Definition alloc (s : store) : N * list N * N :=
  match rev (free_n s) with
  | id :: r => (id, rev r, next_n s)
  | [] => (next_n s, [], next_n s + 1)
  end.

Definition add_node (s : store) (n : node) (fr : list N) (nx : N) : store :=
  {| nodes := nodes s ++ [n]; edges := edges s; hier := hier s; free_n := fr; next_n := nx |}.

Definition add_edge (s : store) (e : edge) : store :=
  {| nodes := nodes s; edges := edges s ++ [e]; hier := hier s;
     free_n := free_n s; next_n := next_n s |}.

(* GraphStore::delete_node: the node, every edge touching it; the id goes on the free list *)
Definition delete_node (s : store) (id : N) : store :=
  {| nodes := filter (fun n => negb (N.eqb (n_id n) id)) (nodes s);
     edges := filter (fun e => negb (N.eqb (e_src e) id || N.eqb (e_tgt e) id)) (edges s);
     hier := hier s; free_n := free_n s ++ [id]; next_n := next_n s |}.

(* ---------- export ---------- *)
Definition jprops (l : list (str * pv)) : list (str * json) :=
  map (fun kv => (fst kv, p2j (snd kv))) l.

Definition rop_name (o : rop) : str :=
  match o with
  | RSum => [115;117;109] | RCount => [99;111;117;110;116]
  | RMin => [109;105;110] | RMax => [109;97;120]
  end.

Definition export_node (n : node) : nrec :=
  {| nr_id := n_id n; nr_labels := n_labels n; nr_props := jprops (merged n) |}.
Definition export_edge (e : edge) : erec :=
  {| er_src := e_src e; er_tgt := e_tgt e; er_ty := e_ty e; er_props := jprops (e_props e) |}.
Definition export_hier (h : hdecl) : hrec :=
  {| hr_name := h_name h; hr_etypes := h_etypes h; hr_rev := h_rev h;
     hr_mlabel := match h_measure h with Some (Some l, _) => Some l | _ => None end;
     hr_mprop := match h_measure h with Some (_, p) => Some p | None => None end;
     hr_ops := map rop_name (h_ops h) |}.

Definition all_labels (s : store) : list str :=
  fold_left (fun acc n => fold_left (fun a l => sadd l a) (n_labels n) acc) (nodes s) [].

Definition export_lines (s : store) : list line :=
  map (fun h => LHier (export_hier h)) (hier s)
  ++ map (fun n => LNode (export_node n)) (nodes s)
  ++ map (fun e => LEdge (export_edge e)) (edges s).

Definition export (s : store) : header * list line := (HOk true (all_labels s), export_lines s).

(* ---------- import ---------- *)
Definition dkey := (str * str * str)%type.   (* label, dedup key, normalised value *)
Definition dkey_eqb (a b : dkey) : bool :=
  let '(l1, k1, v1) := a in let '(l2, k2, v2) := b in
  str_eqb l1 l2 && str_eqb k1 k2 && str_eqb v1 v2.

Fixpoint dget (k : dkey) (d : list (dkey * N)) : option N :=
  match d with
  | [] => None
  | (k', v) :: r => if dkey_eqb k k' then Some v else dget k r
  end.
Definition dput (k : dkey) (v : N) (d : list (dkey * N)) : list (dkey * N) := (k, v) :: d.

Fixpoint rget (k : N) (m : list (N * N)) : option N :=
  match m with
  | [] => None
  | (k', v) :: r => if N.eqb k k' then Some v else rget k r
  end.

(* i64::to_string *)
Fixpoint dec_digits (fuel : nat) (n : N) (acc : str) : str :=
  match fuel with
  | O => acc
  | S f => let acc' := (48 + n mod 10) :: acc in
           if N.eqb (n / 10) 0 then acc' else dec_digits f (n / 10) acc'
  end.
Definition dec_z (z : Z) : str :=
  match z with
  | Z0 => [48]
  | Zpos p => dec_digits 40 (Npos p) []
  | Zneg p => 45 :: dec_digits 40 (Npos p) []
  end.

(* the string a snapshot value is deduplicated on: strings normalised, numbers printed *)
Definition dval_json (j : json) : option str :=
  match j with
  | JStr s => Some (norm s)
  | JInt z => Some (dec_z z)
  | JBig _ | JFloat _ => Some (numstr j)
  | _ => None
  end.
(* the same for a stored value: strings and integers only *)
Definition dval_pv (v : pv) : option str :=
  match v with
  | PStr s => Some (norm s)
  | PInt z => Some (dec_z z)
  | _ => None
  end.

Definition is_empty_str (v : pv) : bool := match v with PStr [] => true | _ => false end.

(* pre-population of the dedup index from the nodes carrying a label of the header *)
Definition prepop_node (label : str) (ks : list str) (n : node) (d : list (dkey * N)) : list (dkey * N) :=
  fold_left (fun d key =>
    match aget key (n_row n) with
    | Some v =>
        match dval_pv v with
        | None => d          (* `_ => continue`: the column is not consulted either *)
        | Some vs =>
            let d1 := dput (label, key, vs) (n_id n) d in
            match dval_pv (col_get key (n_col n)) with
            | Some cs => if is_empty_str (col_get key (n_col n)) then d1
                         else dput (label, key, cs) (n_id n) d1
            | None => d1
            end
        end
    | None =>
        match dval_pv (col_get key (n_col n)) with
        | Some cs => if is_empty_str (col_get key (n_col n)) then d
                     else dput (label, key, cs) (n_id n) d
        | None => d
        end
    end) ks d.

Definition prepop (s : store) (labels ks : list str) : list (dkey * N) :=
  match ks with
  | [] => []
  | _ => fold_left (fun d label =>
           fold_left (fun d n => if smem label (n_labels n) then prepop_node label ks n d else d)
                     (nodes s) d) labels []
  end.

Record ist := { st : store; remap : list (N * N); created : list N;
                dindex : list (dkey * N); merges : N; hdecls : list hrec }.

Definition snap_labels (r : nrec) : list str :=
  match nr_labels r with [] => [[]] | l => l end.

(* first (key, label) hit, keys outermost *)
Definition dedup_lookup (d : list (dkey * N)) (ks : list str) (r : nrec) : option N :=
  (fix keys (ks : list str) : option N :=
     match ks with
     | [] => None
     | key :: ks' =>
         match aget key (nr_props r) with
         | Some j =>
             match dval_json j with
             | Some vs =>
                 match (fix labs (ls : list str) : option N :=
                          match ls with
                          | [] => None
                          | l :: ls' => match dget (l, key, vs) d with
                                        | Some id => Some id
                                        | None => labs ls'
                                        end
                          end) (snap_labels r) with
                 | Some id => Some id
                 | None => keys ks'
                 end
             | None => keys ks'
             end
         | None => keys ks'
         end
     end) ks.

(* additive merge of one snapshot property into an existing node *)
Definition merge_prop (n : node) (kv : str * json) : node :=
  let k := fst kv in
  let v := j2p (snd kv) in
  let col' := if is_null (col_get k (n_col n)) then aset k v (n_col n) else n_col n in
  let row' := if is_scalar v then n_row n
              else match aget k (n_row n) with Some _ => n_row n | None => aset k v (n_row n) end in
  {| n_id := n_id n; n_labels := n_labels n; n_row := row'; n_col := col' |}.

Definition merge_into (r : nrec) (n : node) : node :=
  let n1 := fold_left merge_prop (nr_props r) n in
  {| n_id := n_id n1; n_labels := fold_left (fun a l => sadd l a) (nr_labels r) (n_labels n1);
     n_row := n_row n1; n_col := n_col n1 |}.

Definition new_node (v2 : bool) (id : N) (r : nrec) : node :=
  let ps := map (fun kv => (fst kv, j2p (snd kv))) (nr_props r) in
  let all := fold_left (fun acc kv => aset (fst kv) (snd kv) acc) ps [] in
  {| n_id := id;
     n_labels := fold_left (fun a l => sadd l a) (nr_labels r) [];
     n_row := if v2 then fold_left (fun acc kv => if is_scalar (snd kv) then acc
                                                  else aset (fst kv) (snd kv) acc) ps []
              else all;
     n_col := if v2 then all else [] |}.

Definition register (v2 : bool) (ks : list str) (r : nrec) (id : N) (d : list (dkey * N))
  : list (dkey * N) :=
  fold_left (fun d key =>
    match aget key (nr_props r) with
    | Some j =>
        match (if v2 then dval_json j else dval_pv (j2p j)) with
        | Some vs => fold_left (fun d l => dput (l, key, vs) id d) (snap_labels r) d
        | None => d
        end
    | None => d
    end) ks d.

Definition step_line (v2 : bool) (ks : list str) (x : ist) (l : line) : option ist :=
  match l with
  | LSkip => Some x
  | LFail => None
  | LHier h => Some {| st := st x; remap := remap x; created := created x; dindex := dindex x;
                       merges := merges x; hdecls := hdecls x ++ [h] |}
  | LNode r =>
      match dedup_lookup (dindex x) ks r with
      | Some eid =>
          Some {| st := with_nodes (st x) (upd_node eid (merge_into r) (nodes (st x)));
                  remap := (nr_id r, eid) :: remap x; created := created x;
                  dindex := dindex x; merges := merges x + 1; hdecls := hdecls x |}
      | None =>
          let '(id, fr, nx) := alloc (st x) in
          Some {| st := add_node (st x) (new_node v2 id r) fr nx;
                  remap := (nr_id r, id) :: remap x; created := created x ++ [id];
                  dindex := register v2 ks r id (dindex x);
                  merges := merges x; hdecls := hdecls x |}
      end
  | LEdge r =>
      match rget (er_src r) (remap x), rget (er_tgt r) (remap x) with
      | Some a, Some b =>
          Some {| st := add_edge (st x) {| e_src := a; e_tgt := b; e_ty := er_ty r;
                                           e_props := map (fun kv => (fst kv, j2p (snd kv)))
                                                          (er_props r) |};
                  remap := remap x; created := created x; dindex := dindex x;
                  merges := merges x; hdecls := hdecls x |}
      | _, _ => None
      end
  end.

(* the line loop; on failure returns the state reached, for the rollback *)
Fixpoint run_lines (v2 : bool) (ks : list str) (x : ist) (ls : list line) : ist * bool :=
  match ls with
  | [] => (x, true)
  | l :: r => match step_line v2 ks x l with
              | Some x' => run_lines v2 ks x' r
              | None => (x, false)
              end
  end.

(* RollupOp::parse on the ASCII-lowercased name (names as exported are lowercase) *)
Definition lower_ascii (s : str) : str :=
  map (fun c => if (N.leb 65 c && N.leb c 90)%bool then c + 32 else c) s.
Definition rop_parse (s : str) : option rop :=
  let t := lower_ascii s in
  if str_eqb t (rop_name RSum) then Some RSum
  else if str_eqb t (rop_name RCount) then Some RCount
  else if str_eqb t (rop_name RMin) then Some RMin
  else if str_eqb t (rop_name RMax) then Some RMax
  else None.

Definition import_hier (h : hrec) : hdecl :=
  match hr_mprop h with
  | Some p =>
      let ops := somes (map rop_parse (hr_ops h)) in
      {| h_name := hr_name h; h_etypes := hr_etypes h; h_rev := hr_rev h;
         h_measure := Some (hr_mlabel h, p);
         h_ops := match ops with [] => [RSum] | _ => ops end |}
  | None =>
      {| h_name := hr_name h; h_etypes := hr_etypes h; h_rev := hr_rev h;
         h_measure := None; h_ops := [RCount] |}
  end.

(* HierarchyIndexManager::create: a name already registered is refused (and skipped);
   the build itself is taken to succeed (a cyclic covering relation is not modelled) *)
Definition add_hier (s : store) (h : hrec) : store :=
  if existsb (fun d => str_eqb (h_name d) (hr_name h)) (hier s) then s
  else {| nodes := nodes s; edges := edges s; hier := hier s ++ [import_hier h];
          free_n := free_n s; next_n := next_n s |}.

Inductive outcome := Imported (s : store) (created merged : N) | Failed (s : store).

Definition nlen {A} (l : list A) : N := N.of_nat (length l).

(* import_tenant_with_dedup *)
Definition import (s : store) (h : header) (ls : list line) (ks : list str) : outcome :=
  match h with
  | HBad => Failed s
  | HOk v2 labels =>
      let x0 := {| st := s; remap := []; created := []; dindex := prepop s labels ks;
                   merges := 0; hdecls := [] |} in
      match run_lines v2 ks x0 ls with
      | (x, true) => Imported (fold_left add_hier (hdecls x) (st x)) (nlen (created x)) (merges x)
      | (x, false) => Failed (fold_left delete_node (rev (created x)) (st x))
      end
  end.

(* number of dedup merges performed before the import ended (the recorded C13 class is
   "a failed import that had merged") *)
Definition merges_of (s : store) (h : header) (ls : list line) (ks : list str) : N :=
  match h with
  | HBad => 0
  | HOk v2 labels =>
      merges (fst (run_lines v2 ks {| st := s; remap := []; created := []; dindex := prepop s labels ks;
                                      merges := 0; hdecls := [] |} ls))
  end.

End Import.

(* ---------- the recorded classes of C12 ---------- *)
(* a map that the importer reads as a tagged scalar *)
Definition tag_collision (m : list (str * pv)) : bool :=
  match aget k_type m with
  | Some (PStr t) =>
      str_eqb t t_duration
      || (str_eqb t t_datetime && match aget k_value m with Some (PInt _) => true | _ => false end)
      || (str_eqb t t_vector && match aget k_value m with Some (PArr _) => true | _ => false end)
  | _ => false
  end.

Fixpoint nonfinite (v : pv) : bool :=
  match v with
  | PFloat b => negb (finite64 b)
  | PVec l => existsb (fun b => negb (finite32 b)) l
  | PArr l => existsb nonfinite l
  | PMap m => (fix go (m : list (str * pv)) : bool :=
                 match m with [] => false | (_, x) :: r => nonfinite x || go r end) m
  | _ => false
  end.

Fixpoint type_tag_map (v : pv) : bool :=
  match v with
  | PArr l => existsb type_tag_map l
  | PMap m => tag_collision m
              || (fix go (m : list (str * pv)) : bool :=
                    match m with [] => false | (_, x) :: r => type_tag_map x || go r end) m
  | _ => false
  end.

(* a hierarchy declaration the import normalises: a measure without monoids gets [sum],
   no measure means [count] whatever was declared *)
Definition hier_ops_default (h : hdecl) : bool :=
  match h_measure h with
  | Some _ => match h_ops h with [] => true | _ => false end
  | None => match h_ops h with [RCount] => false | _ => true end
  end.

Definition store_values (s : store) : list pv :=
  flat_map (fun n => map snd (merged n)) (nodes s) ++ flat_map (fun e => map snd (e_props e)) (edges s).

Definition Known_C12_nonfinite (s : store) : bool := existsb nonfinite (store_values s).
Definition Known_C12_type_tag (s : store) : bool := existsb type_tag_map (store_values s).
Definition Known_C12_hier_ops (s : store) : bool := existsb hier_ops_default (hier s).
Definition Known_C12 (s : store) : bool :=
  Known_C12_nonfinite s || Known_C12_type_tag s || Known_C12_hier_ops s.

(* ---------- decidable comparisons for the correspondence check ---------- *)
Fixpoint pv_eqb (a b : pv) : bool :=
  match a, b with
  | PStr x, PStr y => str_eqb x y
  | PInt x, PInt y => Z.eqb x y
  | PFloat x, PFloat y => N.eqb x y
  | PBool x, PBool y => Bool.eqb x y
  | PNull, PNull => true
  | PDateTime x, PDateTime y => Z.eqb x y
  | PArr x, PArr y =>
      (fix go (x y : list pv) : bool :=
         match x, y with
         | [], [] => true
         | a :: x', b :: y' => pv_eqb a b && go x' y'
         | _, _ => false
         end) x y
  | PMap x, PMap y =>
      (fix go (x y : list (str * pv)) : bool :=
         match x, y with
         | [], [] => true
         | (k, a) :: x', (k', b) :: y' => str_eqb k k' && pv_eqb a b && go x' y'
         | _, _ => false
         end) x y
  | PVec x, PVec y =>
      (fix go (x y : list N) : bool :=
         match x, y with
         | [], [] => true
         | a :: x', b :: y' => N.eqb a b && go x' y'
         | _, _ => false
         end) x y
  | PDur a b c d, PDur a' b' c' d' => Z.eqb a a' && Z.eqb b b' && Z.eqb c c' && Z.eqb d d'
  | _, _ => false
  end.

Fixpoint json_eqb (a b : json) : bool :=
  match a, b with
  | JNull, JNull => true
  | JBool x, JBool y => Bool.eqb x y
  | JInt x, JInt y => Z.eqb x y
  | JBig x, JBig y => N.eqb x y
  | JFloat x, JFloat y => N.eqb x y
  | JStr x, JStr y => str_eqb x y
  | JArr x, JArr y =>
      (fix go (x y : list json) : bool :=
         match x, y with
         | [], [] => true
         | a :: x', b :: y' => json_eqb a b && go x' y'
         | _, _ => false
         end) x y
  | JObj x, JObj y =>
      (* object members are compared as a map (serde_json sorts them; p2j does not) *)
      Nat.eqb (length x) (length y) &&
      (fix go (x : list (str * json)) : bool :=
         match x with
         | [] => true
         | (k, a) :: x' =>
             match aget k y with Some b => json_eqb a b | None => false end && go x'
         end) x
  | JVec x, JVec y =>
      (fix go (x y : list (option N)) : bool :=
         match x, y with
         | [], [] => true
         | Some a :: x', Some b :: y' => N.eqb a b && go x' y'
         | None :: x', None :: y' => go x' y'
         | _, _ => false
         end) x y
  | _, _ => false
  end.

(* association lists / sets produced by hash maps: compared as maps / sets *)
Definition amap_eqb {A} (eqb : A -> A -> bool) (a b : list (str * A)) : bool :=
  Nat.eqb (length a) (length b) &&
  forallb (fun kv => match aget (fst kv) b with Some v => eqb (snd kv) v | None => false end) a.

Definition sset_eqb (a b : list str) : bool :=
  Nat.eqb (length a) (length b) && forallb (fun x => smem x b) a.

Fixpoint strs_eqb (a b : list str) : bool :=
  match a, b with
  | [], [] => true
  | x :: a', y :: b' => str_eqb x y && strs_eqb a' b'
  | _, _ => false
  end.

Definition ostr_eqb (a b : option str) : bool :=
  match a, b with
  | None, None => true
  | Some x, Some y => str_eqb x y
  | _, _ => false
  end.

Definition nrec_eqb (a b : nrec) : bool :=
  N.eqb (nr_id a) (nr_id b) && sset_eqb (nr_labels a) (nr_labels b)
  && amap_eqb json_eqb (nr_props a) (nr_props b).
Definition erec_eqb (a b : erec) : bool :=
  N.eqb (er_src a) (er_src b) && N.eqb (er_tgt a) (er_tgt b) && str_eqb (er_ty a) (er_ty b)
  && amap_eqb json_eqb (er_props a) (er_props b).
Definition hrec_eqb (a b : hrec) : bool :=
  str_eqb (hr_name a) (hr_name b) && strs_eqb (hr_etypes a) (hr_etypes b)
  && Bool.eqb (hr_rev a) (hr_rev b) && ostr_eqb (hr_mlabel a) (hr_mlabel b)
  && ostr_eqb (hr_mprop a) (hr_mprop b) && strs_eqb (hr_ops a) (hr_ops b).

Definition line_eqb (a b : line) : bool :=
  match a, b with
  | LNode x, LNode y => nrec_eqb x y
  | LEdge x, LEdge y => erec_eqb x y
  | LHier x, LHier y => hrec_eqb x y
  | LSkip, LSkip | LFail, LFail => true
  | _, _ => false
  end.

Fixpoint lines_eqb (a b : list line) : bool :=
  match a, b with
  | [], [] => true
  | x :: a', y :: b' => line_eqb x y && lines_eqb a' b'
  | _, _ => false
  end.

(* multiset equality of edge lists (edge ids are not modelled) *)
Definition edge_eqb (a b : edge) : bool :=
  N.eqb (e_src a) (e_src b) && N.eqb (e_tgt a) (e_tgt b) && str_eqb (e_ty a) (e_ty b)
  && amap_eqb pv_eqb (e_props a) (e_props b).

Fixpoint remove_first {A} (p : A -> bool) (l : list A) : option (list A) :=
  match l with
  | [] => None
  | x :: r => if p x then Some r
              else match remove_first p r with Some r' => Some (x :: r') | None => None end
  end.

Fixpoint bag_eqb {A} (eqb : A -> A -> bool) (a b : list A) : bool :=
  match a with
  | [] => match b with [] => true | _ => false end
  | x :: a' => match remove_first (eqb x) b with
               | Some b' => bag_eqb eqb a' b'
               | None => false
               end
  end.

Definition rop_eqb (a b : rop) : bool :=
  match a, b with
  | RSum, RSum | RCount, RCount | RMin, RMin | RMax, RMax => true
  | _, _ => false
  end.

Fixpoint list_eqb' {A} (eqb : A -> A -> bool) (a b : list A) : bool :=
  match a, b with
  | [], [] => true
  | x :: a', y :: b' => eqb x y && list_eqb' eqb a' b'
  | _, _ => false
  end.

Definition hdecl_eqb (a b : hdecl) : bool :=
  str_eqb (h_name a) (h_name b) && strs_eqb (h_etypes a) (h_etypes b) && Bool.eqb (h_rev a) (h_rev b)
  && match h_measure a, h_measure b with
     | None, None => true
     | Some (l1, p1), Some (l2, p2) => ostr_eqb l1 l2 && str_eqb p1 p2
     | _, _ => false
     end
  && list_eqb' rop_eqb (h_ops a) (h_ops b).

(* a store against an observed dump: same node ids; per node the label set, the row map
   and the column map; edges as a bag; hierarchy declarations as a name-keyed set *)
Definition node_eqb (a b : node) : bool :=
  N.eqb (n_id a) (n_id b) && sset_eqb (n_labels a) (n_labels b)
  && amap_eqb pv_eqb (n_row a) (n_row b) && amap_eqb pv_eqb (n_col a) (n_col b).

Definition store_eqb (m d : store) : bool :=
  Nat.eqb (length (nodes m)) (length (nodes d))
  && forallb (fun n => match find_node (n_id n) d with Some n' => node_eqb n n' | None => false end)
             (nodes m)
  && bag_eqb edge_eqb (edges m) (edges d)
  && bag_eqb hdecl_eqb (hier m) (hier d).

(* observable graph only: labels and merged properties (what queries read) *)
Definition node_obs_eqb (a b : node) : bool :=
  N.eqb (n_id a) (n_id b) && sset_eqb (n_labels a) (n_labels b)
  && amap_eqb pv_eqb (merged a) (merged b).
Definition obs_eqb (m d : store) : bool :=
  Nat.eqb (length (nodes m)) (length (nodes d))
  && forallb (fun n => match find_node (n_id n) d with Some n' => node_obs_eqb n n' | None => false end)
             (nodes m)
  && bag_eqb edge_eqb (edges m) (edges d)
  && bag_eqb hdecl_eqb (hier m) (hier d).

(* ---------- correspondence cases ---------- *)
(* oracle tables: normalised dedup strings, printed non-integer numbers *)
Definition tbl := list (str * str).
Definition norm_of (t : tbl) (s : str) : str := match aget s t with Some r => r | None => s end.
Definition numstr_of (t : list (N * str)) (j : json) : str :=
  match j with
  | JFloat b | JBig b =>
      match find (fun p => N.eqb (fst p) b) t with Some p => snd p | None => [] end
  | _ => []
  end.
Definition no_narrow (j : json) : option N := None.

Inductive result := ROk (created merged : N) | RErr.

Record import_obs := {
  io_keys : list str;          (* dedup keys *)
  io_header : header;
  io_lines : list line;        (* the stream as the implementation's parser reads it *)
  io_norm : tbl;
  io_num : list (N * str);
  io_result : result;
  io_after : store             (* dump of the store afterwards *)
}.

Definition import_m (s : store) (o : import_obs) : outcome :=
  import no_narrow (norm_of (io_norm o)) (numstr_of (io_num o)) s (io_header o) (io_lines o) (io_keys o).

Definition outcome_store (o : outcome) : store :=
  match o with Imported s _ _ => s | Failed s => s end.

(* one import: the model's outcome class and counts, and the store it predicts *)
Definition check_import (s : store) (o : import_obs) : bool :=
  match import_m s o, io_result o with
  | Imported s' c m, ROk c' m' => N.eqb c c' && N.eqb m m' && store_eqb s' (io_after o)
  | Failed s', RErr => store_eqb s' (io_after o)
  | _, _ => false
  end.

(* the allocator state is not observable: a dump is completed with the allocator of the model *)
Definition with_alloc (d m : store) : store :=
  {| nodes := nodes d; edges := edges d; hier := hier d; free_n := free_n m; next_n := next_n m |}.

(* C12 case: dump of the original store, the exported stream (parsed), and the import of
   that stream into an empty store *)
Definition c12_case := (store * import_obs)%type.
Definition check_c12 (c : c12_case) : bool :=
  let '(g, o) := c in
  (match export g, io_header o with
   | (HOk v l, ls), HOk v' l' => Bool.eqb v v' && sset_eqb l l' && lines_eqb ls (io_lines o)
   | _, _ => false
   end)
  && check_import empty_store o.

(* C13 case: a start store (dump, with the model's allocator: fresh stores start from
   next id = max id + 1 and an empty free list unless the chain says otherwise) and a
   chain of imports, each checked from the model's own previous state *)
Definition c13_case := (store * list import_obs)%type.
Fixpoint check_chain (s : store) (l : list import_obs) : bool :=
  match l with
  | [] => true
  | o :: r => check_import s o && check_chain (outcome_store (import_m s o)) r
  end.
Definition check_c13 (c : c13_case) : bool := check_chain (fst c) (snd c).
