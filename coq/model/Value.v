(* Model of src/graph/property.rs : PropertyValue's index order (impl Ord),
   equality (impl PartialEq = "cmp is Equal"), the words handed to a Hasher
   (impl Hash) and the ORDER BY order (cypher_order).  Executable; no proofs here.

   Representation: strings are byte lists, integers are Z, an f64 is its 64-bit
   pattern (0 <= bits < 2^64), an f32 (vector element) its 32-bit pattern, a map is
   the association list of its entries sorted by key (what the code obtains with
   keys().collect() + sort()).  Every float operation the order needs is defined on the
   bit pattern by integer arithmetic:
     total_cmp   : compare of the keys  bits ^ ((bits >> 63) as u64 >> 1)  read as i64
     partial_cmp : None when an operand is NaN, else compare of the numeric keys
                   (sign-magnitude read as a signed integer, so -0.0 and +0.0 coincide)
     i64 as f64  : round to nearest, ties to even, on the integer. *)
From Coq Require Import List NArith ZArith Bool.
From Verif Require Import CheckLib.
Import ListNotations.
Open Scope Z_scope.

Definition bytes := list N.

Inductive pv :=
| PStr (s : bytes)
| PInt (z : Z)
| PFloat (bits : Z)
| PBool (b : bool)
| PDate (z : Z)
| PArr (l : list pv)
| PMap (m : list (bytes * pv))
| PVec (v : list Z)
| PDur (months days seconds nanos : Z)
| PNull.

(* ---------- generic pieces ---------- *)

(* lexicographic order on lists: Rust's Ord for slices / Iterator::cmp / the
   zip-then-length loops of the code *)
Section Lex.
  Context {A : Type} (c : A -> A -> comparison).
  Fixpoint lex (l1 l2 : list A) : comparison :=
    match l1, l2 with
    | [], [] => Eq
    | [], _ :: _ => Lt
    | _ :: _, [] => Gt
    | x :: r1, y :: r2 => match c x y with Eq => lex r1 r2 | o => o end
    end.
End Lex.

(* Ordering::then *)
Definition then_ (o1 o2 : comparison) : comparison :=
  match o1 with Eq => o2 | _ => o1 end.

Definition bytes_cmp : bytes -> bytes -> comparison := lex N.compare.

(* ---------- f64 on bit patterns ---------- *)
Definition two63 : Z := 9223372036854775808.
Definition two64 : Z := 18446744073709551616.
Definition two52 : Z := 4503599627370496.
Definition inf_bits : Z := 9218868437227405312.      (* 0x7FF0_0000_0000_0000 *)

(* [b mod two64] is [b] itself on a 64-bit pattern; it only keeps the functions
   meaningful on every Z, so the order laws need no range hypothesis *)
Definition f_sign (b : Z) : bool := two63 <=? b mod two64.  (* is_sign_negative *)
Definition f_mag (b : Z) : Z :=
  if f_sign b then b mod two64 - two63 else b mod two64.
Definition f_is_nan (b : Z) : bool := inf_bits <? f_mag b.

(* f64::total_cmp: the i64 key  bits ^ (((bits >> 63) as u64) >> 1) *)
Definition tc_key (b : Z) : Z := if f_sign b then - f_mag b - 1 else f_mag b.
Definition f_total_cmp (x y : Z) : comparison := tc_key x ?= tc_key y.

(* numeric value order of non-NaN floats *)
Definition num_key (b : Z) : Z := if f_sign b then - f_mag b else f_mag b.
Definition f_partial_cmp (x y : Z) : option comparison :=
  if f_is_nan x || f_is_nan y then None else Some (num_key x ?= num_key y).

(* i64 as f64.  [rne m s] : m / 2^s rounded to nearest, ties to even. *)
Definition rne (m s : Z) : Z :=
  let q := m / 2 ^ s in
  let r := m mod 2 ^ s in
  let h := 2 ^ (s - 1) in
  if (h <? r) || ((r =? h) && Z.odd q) then q + 1 else q.

(* numeric key of (m as f64) for m >= 1: biased exponent and 53-bit significand
   packed as in the bit pattern (a carry out of the significand bumps the exponent) *)
Definition mag_key (m : Z) : Z :=
  let e := Z.log2 m in
  (e + 1022) * two52 + (if e <=? 52 then m * 2 ^ (52 - e) else rne m (e - 52)).

Definition int_key (a : Z) : Z :=
  if a =? 0 then 0 else if 0 <? a then mag_key a else - mag_key (- a).

(* the bit pattern of (a as f64) *)
Definition i2f_bits (a : Z) : Z :=
  let k := int_key a in if k <? 0 then two63 - k else k.

(* ---------- impl Ord ---------- *)
Definition bucket (v : pv) : Z :=
  match v with
  | PBool _ => 0
  | PInt _ | PFloat _ => 1
  | PStr _ => 2
  | PDate _ => 3
  | PArr _ => 4
  | PMap _ => 5
  | PVec _ => 6
  | PDur _ _ _ _ => 7
  | PNull => 8
  end.

(* (Integer(a), Float(b)):
     match ((a as f64)).partial_cmp(b) {
       Some(o) => o.then(Less),
       None    => if b.is_sign_negative() { Greater } else { Less } }
   (a as f64) is never NaN, so partial_cmp is None exactly when b is NaN, and its
   numeric key is int_key a (ValueProofs.i2f_bits_key ties int_key to i2f_bits). *)
Definition cmp_int_float (a b : Z) : comparison :=
  if f_is_nan b then (if f_sign b then Gt else Lt)
  else then_ (int_key a ?= num_key b) Lt.

Definition cmp_float_int (a b : Z) : comparison :=
  if f_is_nan a then (if f_sign a then Lt else Gt)
  else then_ (num_key a ?= int_key b) Gt.

Definition bool_cmp (a b : bool) : comparison :=
  match a, b with
  | false, true => Lt
  | true, false => Gt
  | _, _ => Eq
  end.

Fixpoint pv_cmp (a b : pv) {struct a} : comparison :=
  match a, b with
  | PInt x, PInt y => x ?= y
  | PFloat x, PFloat y => f_total_cmp x y
  | PInt x, PFloat y => cmp_int_float x y
  | PFloat x, PInt y => cmp_float_int x y
  | PBool x, PBool y => bool_cmp x y
  | PStr x, PStr y => bytes_cmp x y
  | PDate x, PDate y => x ?= y
  | PArr x, PArr y => lex pv_cmp x y
  | PVec x, PVec y => lex Z.compare x y
  | PDur m1 d1 s1 n1, PDur m2 d2 s2 n2 =>
      then_ (m1 ?= m2) (then_ (d1 ?= d2) (then_ (s1 ?= s2) (n1 ?= n2)))
  | PNull, PNull => Eq
  | PMap x, PMap y =>
      (* sorted keys pairwise, then number of keys, then the values in key order *)
      match lex bytes_cmp (map fst x) (map fst y) with
      | Eq => lex (fun p q => let '(_, u) := p in let '(_, w) := q in pv_cmp u w) x y
      | o => o
      end
  | _, _ => bucket a ?= bucket b
  end.

(* impl PartialEq: self.cmp(other) == Ordering::Equal *)
Definition pv_eqb (a b : pv) : bool :=
  match pv_cmp a b with Eq => true | _ => false end.

(* ---------- impl Hash: the calls made on the Hasher, in order ---------- *)
Inductive tok :=
| TU8 (n : N)            (* write_u8 *)
| TU32 (n : N)           (* write_u32 (also reached from write_i32) *)
| TU64 (n : N)           (* write_u64 (also reached from write_i64) *)
| TUsize (n : N)         (* write_usize (slice length prefix) *)
| TBytes (b : bytes).    (* write *)

Definition u64 (z : Z) : N := Z.to_N (z mod two64).
Definition u32 (z : Z) : N := Z.to_N (z mod 4294967296).

(* str::hash = write_str: the bytes, then 0xff *)
Definition feed_str (s : bytes) : list tok := [TBytes s; TU8 255%N].

Fixpoint hash_feed (v : pv) : list tok :=
  match v with
  | PStr s => TU32 0 :: feed_str s
  | PInt i => [TU32 1; TU64 (u64 i)]
  | PFloat b => [TU32 2; TU64 (u64 b)]
  | PBool b => [TU32 3; TU8 (if b then 1 else 0)%N]
  | PDate d => [TU32 4; TU64 (u64 d)]
  | PArr l => TU32 5 :: TUsize (N.of_nat (length l)) :: flat_map hash_feed l
  | PMap m => TU32 6 :: flat_map (fun p => let '(k, x) := p in feed_str k ++ hash_feed x) m
  | PVec v => TU32 7 :: map (fun x => TU32 (u32 x)) v
  | PDur m d s n => [TU32 8; TU64 (u64 m); TU64 (u64 d); TU64 (u64 s); TU32 (u32 n)]
  | PNull => [TU32 9]
  end.

(* ---------- cypher_order ---------- *)
Definition rank (v : pv) : Z :=
  match v with
  | PMap _ => 0
  | PArr _ | PVec _ => 1
  | PStr _ => 2
  | PBool _ => 3
  | PInt _ | PFloat _ | PDate _ | PDur _ _ _ _ => 4
  | PNull => 5
  end.

Fixpoint cy_order (a b : pv) {struct a} : comparison :=
  if negb (rank a =? rank b) then rank a ?= rank b else
  match a, b with
  | PArr x, PArr y => lex cy_order x y
  | PFloat x, PFloat y =>
      match f_is_nan x, f_is_nan y with
      | true, true => Eq
      | true, false => Gt
      | false, true => Lt
      | false, false => pv_cmp a b
      end
  | PInt _, PFloat y => if f_is_nan y then Lt else pv_cmp a b
  | PFloat x, PInt _ => if f_is_nan x then Gt else pv_cmp a b
  | _, _ => pv_cmp a b
  end.

(* ---------- well-formed values: what a PropertyValue can hold ---------- *)
Definition in_i64 (z : Z) : bool := (- two63 <=? z) && (z <? two63).
Definition in_i32 (z : Z) : bool := (-2147483648 <=? z) && (z <? 2147483648).

Fixpoint strictly_sorted (l : list bytes) : bool :=
  match l with
  | [] => true
  | x :: r => match r with
              | [] => true
              | y :: _ => match bytes_cmp x y with Lt => strictly_sorted r | _ => false end
              end
  end.

Fixpoint wf (v : pv) : bool :=
  match v with
  | PStr s => forallb (fun b => (b <? 256)%N) s
  | PInt z => in_i64 z
  | PFloat b => (0 <=? b) && (b <? two64)
  | PBool _ => true
  | PDate z => in_i64 z
  | PArr l => forallb wf l
  | PMap m => strictly_sorted (map fst m)
              && forallb (fun k => forallb (fun b => (b <? 256)%N) k) (map fst m)
              && forallb (fun p => let '(_, x) := p in wf x) m
  | PVec v => forallb (fun x => (0 <=? x) && (x <? 4294967296)) v
  | PDur m d s n => in_i64 m && in_i64 d && in_i64 s && in_i32 n
  | PNull => true
  end.

(* ---------- correspondence ---------- *)
Definition cmp_eqb (a b : comparison) : bool :=
  match a, b with Eq, Eq | Lt, Lt | Gt, Gt => true | _, _ => false end.

Definition tok_eqb (a b : tok) : bool :=
  match a, b with
  | TU8 x, TU8 y | TU32 x, TU32 y | TU64 x, TU64 y | TUsize x, TUsize y => N.eqb x y
  | TBytes x, TBytes y => list_eqb N.eqb x y
  | _, _ => false
  end.

(* what the implementation said about one ordered pair: cmp, ==, cypher_order *)
Definition obs := (comparison * bool * comparison)%type.

Definition obs_eqb (x y : obs) : bool :=
  let '(c1, e1, o1) := x in
  let '(c2, e2, o2) := y in
  cmp_eqb c1 c2 && Bool.eqb e1 e2 && cmp_eqb o1 o2.

Definition model_obs (a b : pv) : obs := (pv_cmp a b, pv_eqb a b, cy_order a b).

(* one case: row values, column values, the Hasher calls recorded for every row value,
   the observation matrix rows x cols, and (i, (i as f64).to_bits()) conversions *)
Definition case :=
  (list pv * list pv * list (list tok) * list (list obs) * list (Z * Z))%type.

Definition check_case (c : case) : bool :=
  let '(rows, cols, feeds, matrix, convs) := c in
  forallb wf rows && forallb wf cols
  && list_eqb (list_eqb tok_eqb) (map hash_feed rows) feeds
  && list_eqb (list_eqb obs_eqb) (map (fun a => map (model_obs a) cols) rows) matrix
  && forallb (fun p => Z.eqb (i2f_bits (fst p)) (snd p)) convs.
