(* Model of src/raft/cluster.rs : ClusterConfig / ClusterManager (membership,
   heartbeat set, roles, health_status).  Executable; no proofs here. *)
From Coq Require Import List NArith Bool.
Import ListNotations.
Open Scope N_scope.

Record node := { nid : N; nvoter : bool }.

Inductive role := Leader | Follower | Candidate | Learner.

Definition role_eqb (a b : role) : bool :=
  match a, b with
  | Leader, Leader | Follower, Follower | Candidate, Candidate | Learner, Learner => true
  | _, _ => false
  end.

Record state := {
  nodes : list node;            (* ClusterConfig.nodes (a Vec) *)
  active : list N;              (* active_nodes : HashSet, kept duplicate-free *)
  roles : list (N * role)       (* node_metadata : HashMap id -> role *)
}.

Definition mem (x : N) (l : list N) : bool := existsb (N.eqb x) l.

(* ClusterConfig::add_node : an id that is already a member is updated in
   place (first matching entry), otherwise appended. *)
Fixpoint cfg_update (c : list node) (id : N) (v : bool) : list node :=
  match c with
  | [] => []
  | n :: r => if N.eqb (nid n) id then {| nid := id; nvoter := v |} :: r
              else n :: cfg_update r id v
  end.

Definition cfg_add (c : list node) (id : N) (v : bool) : list node :=
  if existsb (fun n => N.eqb (nid n) id) c then cfg_update c id v
  else c ++ [{| nid := id; nvoter := v |}].

Fixpoint role_remove (m : list (N * role)) (id : N) : list (N * role) :=
  match m with
  | [] => []
  | (k, r) :: t => if N.eqb k id then role_remove t id else (k, r) :: role_remove t id
  end.

Definition role_insert (m : list (N * role)) (id : N) (r : role) : list (N * role) :=
  (id, r) :: role_remove m id.

Definition role_has (m : list (N * role)) (id : N) : bool :=
  existsb (fun p => N.eqb (fst p) id) m.

Definition initial_role (v : bool) : role := if v then Follower else Learner.

Inductive op :=
| AddNode (id : N) (voter : bool)
| RemoveNode (id : N)
| MarkActive (id : N)
| MarkInactive (id : N)
| SetRole (id : N) (r : role).

Definition set_insert (x : N) (l : list N) : list N := if mem x l then l else l ++ [x].
Definition set_remove (x : N) (l : list N) : list N := filter (fun y => negb (N.eqb x y)) l.

Definition step (s : state) (o : op) : state :=
  match o with
  | AddNode id v =>
      {| nodes := cfg_add (nodes s) id v; active := active s;
         roles := role_insert (roles s) id (initial_role v) |}
  | RemoveNode id =>
      {| nodes := filter (fun n => negb (N.eqb (nid n) id)) (nodes s);
         active := set_remove id (active s);
         roles := role_remove (roles s) id |}
  | MarkActive id =>
      {| nodes := nodes s; active := set_insert id (active s); roles := roles s |}
  | MarkInactive id =>
      {| nodes := nodes s; active := set_remove id (active s); roles := roles s |}
  | SetRole id r =>
      {| nodes := nodes s; active := active s;
         roles := if role_has (roles s) id then role_insert (roles s) id r else roles s |}
  end.

(* ClusterManager::new on a configuration built by repeated add_node *)
Definition init_cfg (l : list (N * bool)) : list node :=
  fold_left (fun c p => cfg_add c (fst p) (snd p)) l [].

Definition init (l : list (N * bool)) : state :=
  let c := init_cfg l in
  {| nodes := c; active := [];
     roles := fold_left (fun m n => role_insert m (nid n) (initial_role (nvoter n))) c [] |}.

(* distinct voter ids, in first-occurrence order *)
Fixpoint dedup (l : list N) : list N :=
  match l with
  | [] => []
  | x :: r => if mem x r then dedup r else x :: dedup r
  end.

Definition voter_ids (c : list node) : list N :=
  dedup (map nid (filter nvoter c)).

Record health := {
  healthy : bool; total_nodes : N; active_nodes : N;
  total_voters : N; active_voters : N; has_leader : bool }.

Definition nlen {A} (l : list A) : N := N.of_nat (length l).

Definition health_of (c : list node) (act : list N) (rl : list (N * role)) : health :=
  let d := voter_ids c in
  let av := nlen (filter (fun x => mem x act) d) in
  let hl := existsb (fun p => role_eqb (snd p) Leader) rl in
  {| healthy := (N.leb (nlen d / 2 + 1) av) && hl;
     total_nodes := nlen c; active_nodes := nlen act;
     total_voters := nlen d; active_voters := av; has_leader := hl |}.

Definition health_status (s : state) : health := health_of (nodes s) (active s) (roles s).

Definition run (l : list (N * bool)) (ops : list op) : state := fold_left step ops (init l).

(* ---- correspondence: one case = initial membership, operations, and the
   health report the implementation gave after every operation ---- *)
Definition obs := (bool * N * N * N * N * bool)%type.

Definition obs_of (h : health) : obs :=
  (healthy h, total_nodes h, active_nodes h, total_voters h, active_voters h, has_leader h).

Definition obs_eqb (a b : obs) : bool :=
  let '(h1, t1, a1, v1, w1, l1) := a in
  let '(h2, t2, a2, v2, w2, l2) := b in
  Bool.eqb h1 h2 && N.eqb t1 t2 && N.eqb a1 a2 && N.eqb v1 v2 && N.eqb w1 w2 && Bool.eqb l1 l2.

Fixpoint trace (s : state) (ops : list op) : list obs :=
  match ops with
  | [] => []
  | o :: r => let s' := step s o in obs_of (health_status s') :: trace s' r
  end.

Definition case := (list (N * bool) * list op * list obs)%type.

Definition check_case (c : case) : bool :=
  let '(l, ops, observed) := c in
  let s := init l in
  (fix go (xs ys : list obs) : bool :=
     match xs, ys with
     | [], [] => true
     | x :: xs', y :: ys' => obs_eqb x y && go xs' ys'
     | _, _ => false
     end) (obs_of (health_status s) :: trace s ops) observed.
