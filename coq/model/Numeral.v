(* Model of the numeric conversions of src/query/parser.rs (C25):
   parse_integer_literal, parse_count_literal (SKIP/LIMIT), parse_bound_literal and
   parse_length_pattern (variable-length bounds), and the float literal branch of
   parse_value, on top of a model of Rust's core::num from_str_radix / str::parse
   for integers.  Strings are byte lists.  Outcomes are Ok / Err / Panic: a Rust
   panic (unwrap on Err, overflow in a debug build) is an explicit outcome.
   Executable; no proofs here. *)
From Coq Require Import List NArith ZArith Bool.
Import ListNotations.
Open Scope Z_scope.

Inductive outcome (A : Type) := Ok (a : A) | Err | Panic.
Arguments Ok {A} a.
Arguments Err {A}.
Arguments Panic {A}.

Definition bytes := list N.

Definition I128_MAX : Z := 2 ^ 127 - 1.
Definition I128_MIN : Z := - 2 ^ 127.
Definition I64_MAX : Z := 2 ^ 63 - 1.
Definition I64_MIN : Z := - 2 ^ 63.
Definition USIZE_MAX : Z := 2 ^ 64 - 1.      (* 64-bit target *)

(* ---------- core::num : char::to_digit and from_str_radix ---------- *)

(* (c as char).to_digit(radix) for a byte; bytes >= 128 are never digits *)
Definition digit_val (radix : Z) (c : N) : option Z :=
  let c := Z.of_N c in
  let d := if (48 <=? c) && (c <=? 57) then Some (c - 48)
           else if (97 <=? c) && (c <=? 122) then Some (c - 87)
           else if (65 <=? c) && (c <=? 90) then Some (c - 55)
           else None in
  match d with
  | Some v => if v <? radix then Some v else None
  | None => None
  end.

(* positive accumulation: result = result.checked_mul(radix)?.checked_add(d)? *)
Fixpoint acc_pos (hi radix : Z) (ds : bytes) (acc : Z) : outcome Z :=
  match ds with
  | [] => Ok acc
  | c :: r =>
      match digit_val radix c with
      | None => Err
      | Some d => if hi <? acc * radix then Err
                  else if hi <? acc * radix + d then Err
                  else acc_pos hi radix r (acc * radix + d)
      end
  end.

(* negative accumulation: result = result.checked_mul(radix)?.checked_sub(d)? *)
Fixpoint acc_neg (lo radix : Z) (ds : bytes) (acc : Z) : outcome Z :=
  match ds with
  | [] => Ok acc
  | c :: r =>
      match digit_val radix c with
      | None => Err
      | Some d => if acc * radix <? lo then Err
                  else if acc * radix - d <? lo then Err
                  else acc_neg lo radix r (acc * radix - d)
      end
  end.

(* <int>::from_str_radix(s, radix): "" and a lone sign are errors; '+' is always
   accepted, '-' only by signed types; the value must stay within [lo, hi]. *)
Definition from_str_radix (signed : bool) (lo hi radix : Z) (s : bytes) : outcome Z :=
  match s with
  | [] => Err
  | c :: r =>
      match r with
      | [] => if N.eqb c 43 || N.eqb c 45 then Err else acc_pos hi radix s 0
      | _ => if N.eqb c 43 then acc_pos hi radix r 0
             else if N.eqb c 45 && signed then acc_neg lo radix r 0
             else acc_pos hi radix s 0
      end
  end.

(* str::parse::<usize>, str::parse::<i64> (used by the code before the repair) *)
Definition parse_usize (s : bytes) : outcome Z := from_str_radix false 0 USIZE_MAX 10 s.
Definition parse_i64 (s : bytes) : outcome Z := from_str_radix true I64_MIN I64_MAX 10 s.
Definition i64_from_str_radix (radix : Z) (s : bytes) : outcome Z :=
  from_str_radix true I64_MIN I64_MAX radix s.
Definition i128_from_str_radix (radix : Z) (s : bytes) : outcome Z :=
  from_str_radix true I128_MIN I128_MAX radix s.

(* ---------- str::trim (ASCII white space only; see checks/C25.json) ---------- *)
Definition is_ws (c : N) : bool := ((9 <=? c) && (c <=? 13) || (c =? 32))%N.

Fixpoint trim_start (s : bytes) : bytes :=
  match s with
  | [] => []
  | c :: r => if is_ws c then trim_start r else s
  end.

Fixpoint trim_end (s : bytes) : bytes :=
  match s with
  | [] => []
  | c :: r => match trim_end r with
              | [] => if is_ws c then [] else [c]
              | r' => c :: r'
              end
  end.

Definition trim (s : bytes) : bytes := trim_end (trim_start s).

(* ---------- parser.rs : parse_integer_literal (repaired) ---------- *)

(* text.strip_prefix('-') *)
Definition strip_minus (s : bytes) : bool * bytes :=
  match s with
  | c :: r => if N.eqb c 45 then (true, r) else (false, s)
  | [] => (false, s)
  end.

(* strip_prefix("0x") or "0X" => 16, "0o" or "0O" => 8, else 10 *)
Definition split_radix (s : bytes) : Z * bytes :=
  match s with
  | a :: b :: r =>
      if N.eqb a 48 && (N.eqb b 120 || N.eqb b 88) then (16, r)
      else if N.eqb a 48 && (N.eqb b 111 || N.eqb b 79) then (8, r)
      else (10, s)
  | _ => (10, s)
  end.

(* i128::checked_neg *)
Definition checked_neg (v : Z) : option Z := if v =? I128_MIN then None else Some (- v).

Definition parse_integer_literal (text : bytes) : outcome Z :=
  let text := trim text in
  let '(negative, digits) := strip_minus text in
  let '(radix, digits) := split_radix digits in
  match i128_from_str_radix radix digits with
  | Ok magnitude =>
      match (if negative : bool then checked_neg magnitude else Some magnitude) with
      | None => Err
      | Some value => if (I64_MIN <=? value) && (value <=? I64_MAX) then Ok value else Err
      end
  | Err => Err
  | Panic => Panic
  end.

(* usize::try_from(i64) *)
Definition usize_try_from (o : outcome Z) : outcome N :=
  match o with
  | Ok v => if (0 <=? v) && (v <=? USIZE_MAX) then Ok (Z.to_N v) else Err
  | Err => Err
  | Panic => Panic
  end.

Definition parse_count_literal (text : bytes) : outcome N := usize_try_from (parse_integer_literal text).
Definition parse_bound_literal (text : bytes) : outcome N := usize_try_from (parse_integer_literal text).

(* SKIP n / LIMIT n at every site (pipeline, WITH..RETURN, RETURN, CALL, CREATE, MATCH, WITH):
   query.skip = Some(parse_count_literal(tok)?) *)
Definition skip_limit (tok : bytes) : outcome N := parse_count_literal tok.

(* ---------- parser.rs : parse_length_pattern (repaired) ---------- *)

(* What the grammar hands over for `"*" ~ (range_pattern | integer)?`:
   nothing, one integer token, or a range_pattern whose text is
   lo ++ ws1 ++ ".." ++ ws2 ++ hi (ws = skipped white space / comments) and whose
   inner pairs are the integer tokens present.  Skipped text in front of ".."
   exists only after a lower bound: pest skips white space *before* it enters
   range_pattern, so the rule's text begins with its first token.  The lower bound
   therefore carries its trailing skipped text. *)
Inductive lp_form :=
| LpStar
| LpExact (tok : bytes)
| LpRange (lo : option (bytes * bytes)) (ws2 : bytes) (hi : option bytes).

Definition opt_bytes (o : option bytes) : bytes := match o with Some b => b | None => [] end.
Definition opt_list (o : option bytes) : list bytes := match o with Some b => [b] | None => [] end.

Definition range_text (lo : option (bytes * bytes)) (ws2 : bytes) (hi : option bytes) : bytes :=
  match lo with Some (l, ws1) => l ++ ws1 | None => [] end ++ [46; 46]%N ++ ws2 ++ opt_bytes hi.
Definition range_ints (lo : option (bytes * bytes)) (hi : option bytes) : list bytes :=
  opt_list (option_map fst lo) ++ opt_list hi.

Definition starts_with_dotdot (s : bytes) : bool :=
  match s with
  | a :: b :: _ => N.eqb a 46 && N.eqb b 46
  | _ => false
  end.

Definition length_pattern (f : lp_form) : outcome (option N * option N) :=
  match f with
  | LpStar => Ok (Some 1%N, None)
  | LpExact t =>
      match parse_bound_literal t with
      | Ok n => Ok (Some n, Some n)
      | Err => Err
      | Panic => Panic
      end
  | LpRange lo ws2 hi =>
      let has_min := negb (starts_with_dotdot (range_text lo ws2 hi)) in
      let ints := range_ints lo hi in
      let first := nth_error ints 0 in
      let second := nth_error ints 1 in
      let '(min_pair, max_pair) := if has_min then (first, second) else (None, first) in
      match (match min_pair with
             | Some p => match parse_bound_literal p with Ok n => Ok (Some n) | Err => Err | Panic => Panic end
             | None => Ok (Some 1%N)
             end) with
      | Ok mn =>
          match (match max_pair with
                 | Some p => match parse_bound_literal p with Ok n => Ok (Some n) | Err => Err | Panic => Panic end
                 | None => Ok None
                 end) with
          | Ok mx => Ok (mn, mx)
          | Err => Err
          | Panic => Panic
          end
      | Err => Err
      | Panic => Panic
      end
  end.

(* ---------- the code before the repair (for the refutation examples only) ---------- *)
(* exact = inner.as_str().parse().unwrap()  /  parts[1].parse().unwrap() *)
Definition orig_bound_unwrap (t : bytes) : outcome Z :=
  match parse_usize t with Ok n => Ok n | _ => Panic end.
(* parts[0].parse().unwrap_or(1) *)
Definition orig_bound_unwrap_or_1 (t : bytes) : outcome Z :=
  match parse_usize t with Ok n => Ok n | _ => Ok 1 end.
(* query.limit = tok.parse::<usize>().ok() *)
Definition orig_skip_limit (t : bytes) : outcome (option Z) :=
  match parse_usize t with Ok n => Ok (Some n) | _ => Ok None end.

(* ---------- float literals ---------- *)
(* <f64 as FromStr>::from_str reads  [+-]? ( D+ | D+ "." D* | D* "." D+ ) ( [eE] [+-]? D+ )?
   (the grammar's `float` token is a subset) and rounds the decimal m * 10^e to the
   nearest binary64, overflowing to infinity; the repaired parse_value refuses
   infinity.  The spellings inf/infinity/nan are not modelled (never produced by
   the grammar): they are Err here. *)

Definition is_dec (c : N) : bool := ((48 <=? c) && (c <=? 57))%N.

(* longest decimal-digit prefix: (value with accumulator, count, rest) *)
Fixpoint take_digits (s : bytes) (acc : Z) (n : Z) : Z * Z * bytes :=
  match s with
  | c :: r => if is_dec c then take_digits r (acc * 10 + (Z.of_N c - 48)) (n + 1) else (acc, n, s)
  | [] => (acc, n, s)
  end.

(* smallest positive real that binary64 round-to-nearest-even sends to infinity *)
Definition F64_OVER : Z := 2 ^ 1024 - 2 ^ 970.

(* does the non-negative decimal m * 10^e (m written with ndig digits) stay below F64_OVER? *)
Definition float_fits (m ndig e : Z) : bool :=
  if m =? 0 then true
  else if 0 <=? e then (if 400 <? e then false else m * 10 ^ e <? F64_OVER)
  else if ndig <=? - e then m <? 10 ^ ndig
  else m <? F64_OVER * 10 ^ (- e).

(* result: sign, decimal mantissa, decimal exponent *)
Definition float_conv (text : bytes) : outcome (bool * Z * Z) :=
  let s := trim text in
  let '(neg, s) := match s with
                   | c :: r => if N.eqb c 45 then (true, r) else if N.eqb c 43 then (false, r) else (false, s)
                   | [] => (false, s)
                   end in
  let '(ip, ni, s) := take_digits s 0 0 in
  let '(m, nf, s) := match s with
                     | c :: r => if N.eqb c 46 then (let '(m, n, s') := take_digits r ip 0 in (m, n, s'))
                                 else (ip, 0, s)
                     | [] => (ip, 0, s)
                     end in
  if ni + nf =? 0 then Err
  else
    let exp_part :=
      match s with
      | [] => Some 0
      | c :: r =>
          if N.eqb c 101 || N.eqb c 69 then
            let '(eneg, r) := match r with
                              | d :: r' => if N.eqb d 45 then (true, r') else if N.eqb d 43 then (false, r') else (false, r)
                              | [] => (false, r)
                              end in
            let '(ev, ne, rest) := take_digits r 0 0 in
            match rest with
            | [] => if ne =? 0 then None else Some (if eneg : bool then - ev else ev)
            | _ => None
            end
          else None
      end in
    match exp_part with
    | None => Err
    | Some ex =>
        let e := ex - nf in
        if float_fits m (ni + nf) e then Ok (neg, m, e) else Err
    end.

(* ---------- correspondence ---------- *)
Inductive case :=
| CInt (tok : bytes) (obs : outcome Z)          (* the token reached parse_integer_literal *)
| CCount (tok : bytes) (obs : outcome (option N))  (* SKIP / LIMIT; Ok None = accepted, count dropped *)
| CLen (f : lp_form) (obs : outcome (option N * option N))
| CFloat (tok : bytes) (accepted : bool) (panicked : bool)
| CNoPanic (input : bytes) (panicked : bool).   (* whole parser, not modelled: the claim is "no panic" *)

Definition outcome_eqb {A} (eqb : A -> A -> bool) (a b : outcome A) : bool :=
  match a, b with
  | Ok x, Ok y => eqb x y
  | Err, Err => true
  | Panic, Panic => true
  | _, _ => false
  end.

Definition optN_eqb (a b : option N) : bool :=
  match a, b with
  | Some x, Some y => N.eqb x y
  | None, None => true
  | _, _ => false
  end.

Definition check_case (c : case) : bool :=
  match c with
  | CInt t o => outcome_eqb Z.eqb (parse_integer_literal t) o
  | CCount t o => outcome_eqb optN_eqb
                    (match skip_limit t with Ok n => Ok (Some n) | Err => Err | Panic => Panic end) o
  | CLen f o => outcome_eqb (fun a b => optN_eqb (fst a) (fst b) && optN_eqb (snd a) (snd b)) (length_pattern f) o
  | CFloat t acc pan =>
      match float_conv t with
      | Ok _ => acc && negb pan
      | Err => negb acc && negb pan
      | Panic => pan
      end
  | CNoPanic _ pan => negb pan
  end.
