(* Model of the bincode-1 (fixint, little-endian) encoding of
   src/persistence/wal.rs : WalEntry / WalRecord, with decoder.
   Bytes are [N] (values < 256 for well-formed data); strings are their UTF-8 bytes.
   Executable; no proofs here. *)
From Coq Require Import List NArith ZArith Bool.
Import ListNotations.
Open Scope N_scope.

Definition bytes := list N.

Definition nlen {A} (l : list A) : N := N.of_nat (length l).

(* ---- fixed-width little-endian integers ---- *)
Fixpoint le (n : nat) (x : N) : bytes :=
  match n with
  | O => []
  | S k => (x mod 256) :: le k (x / 256)
  end.

Fixpoint unle (bs : bytes) : N :=
  match bs with
  | [] => 0
  | b :: r => b + 256 * unle r
  end.

Definition u32 (x : N) : bytes := le 4 x.
Definition u64 (x : N) : bytes := le 8 x.
Definition two64 : N := 18446744073709551616.
Definition two32 : N := 4294967296.
Definition two63z : Z := 9223372036854775808%Z.
Definition two64z : Z := 18446744073709551616%Z.
(* i64 as two's complement *)
Definition i64 (z : Z) : bytes := le 8 (Z.to_N (z mod two64z)).
Definition z_of_u64 (x : N) : Z :=
  if x <? 9223372036854775808 then Z.of_N x else (Z.of_N x - two64z)%Z.

(* ---- WalEntry ---- *)
Inductive entry :=
| CreateNode (tenant : bytes) (node_id : N) (labels : list bytes) (props : bytes)
| CreateEdge (tenant : bytes) (edge_id source target : N) (edge_type : bytes) (props : bytes)
| DeleteNode (tenant : bytes) (node_id : N)
| DeleteEdge (tenant : bytes) (edge_id : N)
| UpdateNodeProps (tenant : bytes) (node_id : N) (props : bytes) (version : N)
| UpdateEdgeProps (tenant : bytes) (edge_id : N) (props : bytes) (version : N)
| CheckpointE (sequence : N) (timestamp : Z).

(* String / Vec<u8> : u64 length, then the bytes *)
Definition enc_bytes (b : bytes) : bytes := u64 (nlen b) ++ b.
(* Vec<String> : u64 count, then each string *)
Definition enc_strs (l : list bytes) : bytes := u64 (nlen l) ++ flat_map enc_bytes l.

Definition encode_entry (e : entry) : bytes :=
  match e with
  | CreateNode t id ls p => u32 0 ++ enc_bytes t ++ u64 id ++ enc_strs ls ++ enc_bytes p
  | CreateEdge t id s d ty p =>
      u32 1 ++ enc_bytes t ++ u64 id ++ u64 s ++ u64 d ++ enc_bytes ty ++ enc_bytes p
  | DeleteNode t id => u32 2 ++ enc_bytes t ++ u64 id
  | DeleteEdge t id => u32 3 ++ enc_bytes t ++ u64 id
  | UpdateNodeProps t id p v => u32 4 ++ enc_bytes t ++ u64 id ++ enc_bytes p ++ u64 v
  | UpdateEdgeProps t id p v => u32 5 ++ enc_bytes t ++ u64 id ++ enc_bytes p ++ u64 v
  | CheckpointE s ts => u32 6 ++ u64 s ++ i64 ts
  end.

(* ---- WalRecord ---- *)
Record record := { seq : N; ent : entry; cksum : N }.

(* WalRecord::calculate_checksum : XOR of the bytes of the serialized entry, as u32 *)
Definition xor_bytes (b : bytes) : N := fold_left N.lxor b 0.

Definition mk_record (s : N) (e : entry) : record :=
  {| seq := s; ent := e; cksum := xor_bytes (encode_entry e) |}.

Definition encode_record (r : record) : bytes :=
  u64 (seq r) ++ encode_entry (ent r) ++ u32 (cksum r).

(* ---- UTF-8 well-formedness exactly as core::str::from_utf8 (Unicode table 3-7) ---- *)
Definition inr (lo hi x : N) : bool := (lo <=? x) && (x <=? hi).

Fixpoint utf8_valid (b : bytes) : bool :=
  match b with
  | [] => true
  | a :: r =>
      if a <? 128 then utf8_valid r
      else if inr 194 223 a then
        match r with c1 :: r' => inr 128 191 c1 && utf8_valid r' | _ => false end
      else if inr 224 239 a then
        match r with
        | c1 :: c2 :: r' =>
            (if a =? 224 then inr 160 191 c1
             else if a =? 237 then inr 128 159 c1
             else inr 128 191 c1) && inr 128 191 c2 && utf8_valid r'
        | _ => false
        end
      else if inr 240 244 a then
        match r with
        | c1 :: c2 :: c3 :: r' =>
            (if a =? 240 then inr 144 191 c1
             else if a =? 244 then inr 128 143 c1
             else inr 128 191 c1) && inr 128 191 c2 && inr 128 191 c3 && utf8_valid r'
        | _ => false
        end
      else false
  end.

(* ---- decoder: parsers return the value and the unread rest ---- *)
Definition parser (A : Type) := bytes -> option (A * bytes).

Definition take (n : nat) : parser bytes := fun bs =>
  if Nat.leb n (length bs) then Some (firstn n bs, skipn n bs) else None.

Definition d_u32 : parser N := fun bs =>
  match take 4 bs with Some (h, r) => Some (unle h, r) | None => None end.
Definition d_u64 : parser N := fun bs =>
  match take 8 bs with Some (h, r) => Some (unle h, r) | None => None end.
Definition d_i64 : parser Z := fun bs =>
  match d_u64 bs with Some (x, r) => Some (z_of_u64 x, r) | None => None end.

(* Vec<u8>: a length larger than what is left is an error (no allocation) *)
Definition d_bytes : parser bytes := fun bs =>
  match d_u64 bs with
  | Some (l, r) => if l <=? nlen r then take (N.to_nat l) r else None
  | None => None
  end.
Definition d_str : parser bytes := fun bs =>
  match d_bytes bs with
  | Some (s, r) => if utf8_valid s then Some (s, r) else None
  | None => None
  end.

(* [n] strings; every string consumes at least 8 bytes, so [fuel] = number of bytes
   left is enough; running out of fuel with strings still to read is the same
   end-of-input error the implementation reports *)
Fixpoint d_strs_n (fuel : nat) (n : N) (bs : bytes) : option (list bytes * bytes) :=
  if n =? 0 then Some ([], bs)
  else match fuel with
       | O => None
       | S f =>
           match d_str bs with
           | Some (s, r) =>
               match d_strs_n f (n - 1) r with
               | Some (l, r') => Some (s :: l, r')
               | None => None
               end
           | None => None
           end
       end.
Definition d_strs : parser (list bytes) := fun bs =>
  match d_u64 bs with
  | Some (n, r) => d_strs_n (length r) n r
  | None => None
  end.

Definition bind {A B} (p : parser A) (f : A -> parser B) : parser B := fun bs =>
  match p bs with Some (a, r) => f a r | None => None end.
Definition ret {A} (a : A) : parser A := fun bs => Some (a, bs).
Notation "x <- p ;; q" := (bind p (fun x => q)) (at level 61, p at next level, right associativity).

Definition d_entry : parser entry :=
  tag <- d_u32 ;;
  if tag =? 0 then
    t <- d_str ;; id <- d_u64 ;; ls <- d_strs ;; p <- d_bytes ;; ret (CreateNode t id ls p)
  else if tag =? 1 then
    t <- d_str ;; id <- d_u64 ;; s <- d_u64 ;; d <- d_u64 ;; ty <- d_str ;; p <- d_bytes ;;
    ret (CreateEdge t id s d ty p)
  else if tag =? 2 then t <- d_str ;; id <- d_u64 ;; ret (DeleteNode t id)
  else if tag =? 3 then t <- d_str ;; id <- d_u64 ;; ret (DeleteEdge t id)
  else if tag =? 4 then
    t <- d_str ;; id <- d_u64 ;; p <- d_bytes ;; v <- d_u64 ;; ret (UpdateNodeProps t id p v)
  else if tag =? 5 then
    t <- d_str ;; id <- d_u64 ;; p <- d_bytes ;; v <- d_u64 ;; ret (UpdateEdgeProps t id p v)
  else if tag =? 6 then s <- d_u64 ;; ts <- d_i64 ;; ret (CheckpointE s ts)
  else fun _ => None.

Definition d_record : parser record :=
  s <- d_u64 ;; e <- d_entry ;; c <- d_u32 ;; ret {| seq := s; ent := e; cksum := c |}.

Fixpoint bytes_eqb (a b : bytes) : bool :=
  match a, b with
  | [], [] => true
  | x :: a', y :: b' => (x =? y) && bytes_eqb a' b'
  | _, _ => false
  end.

(* What the (repaired) reader accepts as one record body:
   bincode::deserialize (trailing bytes allowed), then the body must be exactly the
   canonical re-encoding of what was decoded, then the checksum must match. *)
Definition decode_record (body : bytes) : option record :=
  match d_record body with
  | Some (r, _) =>
      if bytes_eqb (encode_record r) body && (cksum r =? xor_bytes (encode_entry (ent r)))
      then Some r else None
  | None => None
  end.
