(* Model of the MVCC transaction API of src/graph/store.rs :
   begin_transaction, txn_write_node / txn_write_edge, commit_transaction,
   abort_transaction, the read-version rule of get_node_for_txn /
   get_edge_for_txn, gc_watermark, and the part of gc_versions / gc_auto that
   prunes the transaction table.  Executable; no proofs here.

   HashMaps are association lists with at most one entry per key ([set]
   replaces in place), HashSets are sorted duplicate-free lists.  u64 counters
   are N (a history would need 2^64 begins/commits to overflow them). *)
From Coq Require Import List NArith Bool.
Import ListNotations.
Open Scope N_scope.

Inductive iso := RC | SI.
Inductive status := Active | Committed | Aborted.

Record txn := {
  t_iso : iso; t_status : status;
  t_start : N;                 (* start_version *)
  t_commit : option N;         (* commit_version *)
  t_wn : list N;               (* node_write_set *)
  t_we : list N                (* edge_write_set *)
}.

Record state := {
  cur : N;                     (* current_version *)
  next : N;                    (* next_txn_id *)
  txns : list (N * txn);       (* active_transactions (all statuses) *)
  last_n : list (N * N);       (* node_last_commit *)
  last_e : list (N * N)        (* edge_last_commit *)
}.

(* GraphStore::new *)
Definition init : state :=
  {| cur := 1; next := 1; txns := []; last_n := []; last_e := [] |}.

Fixpoint lookup {A} (k : N) (m : list (N * A)) : option A :=
  match m with
  | [] => None
  | (k', v) :: r => if N.eqb k k' then Some v else lookup k r
  end.

(* HashMap::insert *)
Fixpoint set {A} (k : N) (v : A) (m : list (N * A)) : list (N * A) :=
  match m with
  | [] => [(k, v)]
  | (k', v') :: r => if N.eqb k k' then (k, v) :: r else (k', v') :: set k v r
  end.

Definition mem (x : N) (l : list N) : bool := existsb (N.eqb x) l.

(* HashSet::insert, canonical (sorted) representation *)
Fixpoint set_add (x : N) (l : list N) : list N :=
  match l with
  | [] => [x]
  | y :: r => if N.eqb x y then l else if N.ltb x y then x :: l else y :: set_add x r
  end.

Definition status_eqb (a b : status) : bool :=
  match a, b with
  | Active, Active | Committed, Committed | Aborted, Aborted => true
  | _, _ => false
  end.

Definition is_active (x : txn) : bool := status_eqb (t_status x) Active.

Definition with_status (x : txn) (st : status) (cv : option N) : txn :=
  {| t_iso := t_iso x; t_status := st; t_start := t_start x; t_commit := cv;
     t_wn := t_wn x; t_we := t_we x |}.

(* "committed_at > txn.start_version" for some entity of the write set *)
Definition conflict (last : list (N * N)) (start : N) (ws : list N) : bool :=
  existsb (fun e => match lookup e last with
                    | Some v => N.ltb start v
                    | None => false
                    end) ws.

Definition record_commit (last : list (N * N)) (v : N) (ws : list N) : list (N * N) :=
  fold_left (fun m e => set e v m) ws last.

Inductive op :=
| Begin (i : iso)
| WriteN (t n : N)
| WriteE (t e : N)
| Commit (t : N)
| Abort (t : N)
| Gc (w : N)         (* gc_versions(w): transaction-table part *)
| GcAuto.            (* gc_auto *)

Inductive result :=
| RBegin (id : N)
| RUnit              (* txn_write_* (no result), abort Ok(()), gc *)
| ROk (v : N)        (* commit Ok(version) *)
| RConflict          (* Err(WriteConflict) *)
| RNotActive         (* Err(TransactionNotActive) *)
| RNotFound.         (* Err(TransactionNotFound) *)

Definition with_txns (s : state) (m : list (N * txn)) : state :=
  {| cur := cur s; next := next s; txns := m; last_n := last_n s; last_e := last_e s |}.

Definition begin_txn (s : state) (i : iso) : state * result :=
  let id := next s in
  ({| cur := cur s; next := id + 1;
      txns := set id {| t_iso := i; t_status := Active; t_start := cur s; t_commit := None;
                        t_wn := []; t_we := [] |} (txns s);
      last_n := last_n s; last_e := last_e s |}, RBegin id).

Definition write_n (s : state) (t n : N) : state :=
  match lookup t (txns s) with
  | Some x => with_txns s (set t {| t_iso := t_iso x; t_status := t_status x; t_start := t_start x;
                                    t_commit := t_commit x; t_wn := set_add n (t_wn x);
                                    t_we := t_we x |} (txns s))
  | None => s
  end.

Definition write_e (s : state) (t e : N) : state :=
  match lookup t (txns s) with
  | Some x => with_txns s (set t {| t_iso := t_iso x; t_status := t_status x; t_start := t_start x;
                                    t_commit := t_commit x; t_wn := t_wn x;
                                    t_we := set_add e (t_we x) |} (txns s))
  | None => s
  end.

Definition commit (s : state) (t : N) : state * result :=
  match lookup t (txns s) with
  | None => (s, RNotFound)
  | Some x =>
      if negb (is_active x) then (s, RNotActive)
      else if conflict (last_n s) (t_start x) (t_wn x) || conflict (last_e s) (t_start x) (t_we x)
      then (with_txns s (set t (with_status x Aborted (t_commit x)) (txns s)), RConflict)
      else
        let v := cur s + 1 in
        ({| cur := v; next := next s;
            txns := set t (with_status x Committed (Some v)) (txns s);
            last_n := record_commit (last_n s) v (t_wn x);
            last_e := record_commit (last_e s) v (t_we x) |}, ROk v)
  end.

Definition abort (s : state) (t : N) : state * result :=
  match lookup t (txns s) with
  | None => (s, RNotFound)
  | Some x =>
      if negb (is_active x) then (s, RNotActive)
      else (with_txns s (set t (with_status x Aborted (t_commit x)) (txns s)), RUnit)
  end.

(* gc_watermark: minimum start_version over Active transactions, else current_version *)
Fixpoint min_start (m : list (N * txn)) : option N :=
  match m with
  | [] => None
  | (_, x) :: r =>
      if is_active x then
        match min_start r with
        | Some w => Some (N.min (t_start x) w)
        | None => Some (t_start x)
        end
      else min_start r
  end.

Definition watermark (s : state) : N :=
  match min_start (txns s) with Some w => w | None => cur s end.

(* gc_versions(w), transaction table: retain Active or start_version >= w *)
Definition gc_txns (s : state) (w : N) : state :=
  with_txns s (filter (fun p => is_active (snd p) || N.leb w (t_start (snd p))) (txns s)).

Definition step (s : state) (o : op) : state * result :=
  match o with
  | Begin i => begin_txn s i
  | WriteN t n => (write_n s t n, RUnit)
  | WriteE t e => (write_e s t e, RUnit)
  | Commit t => commit s t
  | Abort t => abort s t
  | Gc w => (gc_txns s w, RUnit)
  | GcAuto => (gc_txns s (watermark s), RUnit)
  end.

Definition run_from (s : state) (ops : list op) : state :=
  fold_left (fun s o => fst (step s o)) ops s.
Definition run (ops : list op) : state := run_from init ops.

(* results of the operations, in order *)
Fixpoint trace (s : state) (ops : list op) : list result :=
  match ops with
  | [] => []
  | o :: r => let (s', res) := step s o in res :: trace s' r
  end.

(* the read version get_node_for_txn / get_edge_for_txn use (None: no such transaction) *)
Definition read_version (s : state) (t : N) : option N :=
  match lookup t (txns s) with
  | None => None
  | Some x => Some (match t_iso x with RC => cur s | SI => t_start x end)
  end.

(* ---- abstract specification: the log of successful commits -------------
   One record per successful commit, newest first: who, at which version, and
   the write sets it published.  Maintained next to the state (ghost); it does
   not read last_n / last_e. *)
Record crec := { c_txn : N; c_ver : N; c_wn : list N; c_we : list N }.

Definition log_step (s : state) (g : list crec) (o : op) : list crec :=
  match o with
  | Commit t =>
      match lookup t (txns s), snd (commit s t) with
      | Some x, ROk v => {| c_txn := t; c_ver := v; c_wn := t_wn x; c_we := t_we x |} :: g
      | _, _ => g
      end
  | _ => g
  end.

Definition gstep (sg : state * list crec) (o : op) : state * list crec :=
  (fst (step (fst sg) o), log_step (fst sg) (snd sg) o).
Definition grun_from (sg : state * list crec) (ops : list op) : state * list crec :=
  fold_left gstep ops sg.
Definition grun (ops : list op) : state * list crec := grun_from (init, []) ops.

(* ---- correspondence ----------------------------------------------------
   One case = an operation sequence and, after every operation, what the
   implementation returned, current_version, and for every transaction id in
   1..k (k fixed per case) its status code in the table (0 = not in the table,
   1 Active, 2 Committed, 3 Aborted) and the version of the probe node
   get_node_for_txn returned (the probe has one version per store version, so
   this is the read version; 0 = no answer), each list packed into one number
   (base 4, resp. base 256: the harness keeps versions below 256; id 1 is the
   lowest digit).  At the end of the case the whole
   table: isolation, status, start, commit version, sorted write sets.
   (monomorphic constructors: large tuple/option literals are slow to elaborate) *)
Inductive ov := NoV | V (v : N).
Inductive tobs :=
| NoT
| T (i : iso) (st : status) (start : N) (commit : ov) (wn we : list N).
Inductive obs := Ob (r : result) (c : N) (sts rvs : N).
Inductive case := Case (k : N) (ops : list op) (os : list obs) (final : list tobs).

Definition iso_eqb (a b : iso) : bool :=
  match a, b with RC, RC | SI, SI => true | _, _ => false end.

Definition result_eqb (a b : result) : bool :=
  match a, b with
  | RBegin x, RBegin y | ROk x, ROk y => N.eqb x y
  | RUnit, RUnit | RConflict, RConflict | RNotActive, RNotActive | RNotFound, RNotFound => true
  | _, _ => false
  end.

Fixpoint nlist_eqb (a b : list N) : bool :=
  match a, b with
  | [], [] => true
  | x :: a', y :: b' => N.eqb x y && nlist_eqb a' b'
  | _, _ => false
  end.

Definition ov_of (o : option N) : ov := match o with Some v => V v | None => NoV end.

Definition ov_eqb (a b : ov) : bool :=
  match a, b with
  | NoV, NoV => true
  | V x, V y => N.eqb x y
  | _, _ => false
  end.

Definition tobs_of (s : state) (t : N) : tobs :=
  match lookup t (txns s) with
  | Some x => T (t_iso x) (t_status x) (t_start x) (ov_of (t_commit x)) (t_wn x) (t_we x)
  | None => NoT
  end.

Definition tobs_eqb (a b : tobs) : bool :=
  match a, b with
  | NoT, NoT => true
  | T i1 s1 b1 c1 wn1 we1, T i2 s2 b2 c2 wn2 we2 =>
      iso_eqb i1 i2 && status_eqb s1 s2 && N.eqb b1 b2 && ov_eqb c1 c2 &&
      nlist_eqb wn1 wn2 && nlist_eqb we1 we2
  | _, _ => false
  end.

Definition status_code (s : state) (t : N) : N :=
  match lookup t (txns s) with
  | None => 0
  | Some x => match t_status x with Active => 1 | Committed => 2 | Aborted => 3 end
  end.

Definition rv_code (s : state) (t : N) : N :=
  match read_version s t with Some v => v | None => 0 end.

Fixpoint ids_upto (k : nat) : list N :=
  match k with 0%nat => [] | S k' => ids_upto k' ++ [N.of_nat k] end.

Fixpoint all2 {A B} (f : A -> B -> bool) (a : list A) (b : list B) : bool :=
  match a, b with
  | [], [] => true
  | x :: a', y :: b' => f x y && all2 f a' b'
  | _, _ => false
  end.

Fixpoint pack (base : N) (l : list N) : N :=
  match l with [] => 0 | x :: r => x + base * pack base r end.

Definition obs_ok (ids : list N) (s : state) (res : result) (o : obs) : bool :=
  match o with
  | Ob r c sts rvs =>
      result_eqb res r && N.eqb (cur s) c &&
      N.eqb (pack 4 (map (status_code s) ids)) sts && N.eqb (pack 256 (map (rv_code s) ids)) rvs
  end.

Fixpoint check_from (ids : list N) (s : state) (ops : list op) (os : list obs) (final : list tobs) : bool :=
  match ops, os with
  | [], [] => all2 tobs_eqb (map (tobs_of s) ids) final
  | o :: ops', ob :: os' =>
      let (s', res) := step s o in
      obs_ok ids s' res ob && check_from ids s' ops' os' final
  | _, _ => false
  end.

Definition check_case (c : case) : bool :=
  match c with Case k ops os final => check_from (ids_upto (N.to_nat k)) init ops os final end.
