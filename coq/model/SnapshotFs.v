(* Model of src/snapshot/persist.rs: the snapshots directory with three names, the file
   system operations persist_snapshot performs, process-crash and power-loss semantics,
   and restore_persisted_snapshots.  The file system is a simple concrete model
   (modelled, not verified): a volatile view that every process sees (it survives a
   process crash) and a durable view that only a directory fsync updates (it is what a
   power loss may fall back to).  Executable; no proofs here. *)
From Coq Require Import List NArith Bool Arith.
Import ListNotations.

Section Fs.
Variable A : Type.              (* one unit of file content (a byte, or a snapshot line) *)

Inductive name := Final | Tmp | Marker.   (* default.sgsnap, default.sgsnap.tmp, default.sgsnap.committed *)

Definition name_eqb (a b : name) : bool :=
  match a, b with Final, Final | Tmp, Tmp | Marker, Marker => true | _, _ => false end.

(* volatile entry: content and "data fsynced since the last write" *)
Definition vfile := (list A * bool)%type.

Record fs := {
  has_dir : bool;                       (* <data_path>/snapshots exists *)
  v_final : option vfile; v_tmp : option vfile; v_marker : option vfile;
  p_final : option (list A); p_tmp : option (list A); p_marker : option (list A)
}.

Definition fs0 : fs :=
  {| has_dir := false; v_final := None; v_tmp := None; v_marker := None;
     p_final := None; p_tmp := None; p_marker := None |}.

Definition vget (s : fs) (n : name) : option vfile :=
  match n with Final => v_final s | Tmp => v_tmp s | Marker => v_marker s end.

Definition vset (s : fs) (n : name) (f : option vfile) : fs :=
  match n with
  | Final => {| has_dir := has_dir s; v_final := f; v_tmp := v_tmp s; v_marker := v_marker s;
                p_final := p_final s; p_tmp := p_tmp s; p_marker := p_marker s |}
  | Tmp => {| has_dir := has_dir s; v_final := v_final s; v_tmp := f; v_marker := v_marker s;
              p_final := p_final s; p_tmp := p_tmp s; p_marker := p_marker s |}
  | Marker => {| has_dir := has_dir s; v_final := v_final s; v_tmp := v_tmp s; v_marker := f;
                 p_final := p_final s; p_tmp := p_tmp s; p_marker := p_marker s |}
  end.

Inductive op :=
| MkDir                         (* create_dir_all *)
| Create (n : name)             (* File::create: create or truncate *)
| Write (n : name) (d : list A) (* write_all; a crash may leave any prefix *)
| Fsync (n : name)              (* File::sync_all: the file's data, not its directory entry *)
| Rename (a b : name)           (* fs::rename: atomic replace in the volatile view *)
| Unlink (n : name)             (* fs::remove_file (errors ignored) *)
| DirFsync.                     (* fsync of the directory (never issued by persist_snapshot) *)

Definition synced_content (f : option vfile) : option (list A) :=
  match f with Some (c, true) => Some c | Some (c, false) => Some [] | None => None end.

Definition apply (s : fs) (o : op) : fs :=
  match o with
  | MkDir => {| has_dir := true; v_final := v_final s; v_tmp := v_tmp s; v_marker := v_marker s;
                p_final := p_final s; p_tmp := p_tmp s; p_marker := p_marker s |}
  | Create n => vset s n (Some ([], false))
  | Write n d => match vget s n with
                 | Some (c, _) => vset s n (Some (c ++ d, false))
                 | None => s
                 end
  | Fsync n => match vget s n with
               | Some (c, _) => vset s n (Some (c, true))
               | None => s
               end
  | Rename a b => match vget s a with
                  | Some f => vset (vset s b (Some f)) a None
                  | None => s
                  end
  | Unlink n => vset s n None
  | DirFsync => {| has_dir := has_dir s; v_final := v_final s; v_tmp := v_tmp s; v_marker := v_marker s;
                   p_final := synced_content (v_final s); p_tmp := synced_content (v_tmp s);
                   p_marker := synced_content (v_marker s) |}
  end.

Definition run (s : fs) (ops : list op) : fs := fold_left apply ops s.

(* persist_snapshot as repaired (the marker of an earlier call is kept) *)
Definition persist (bytes : list A) : list op :=
  [MkDir; Create Tmp; Write Tmp bytes; Fsync Tmp; Rename Tmp Final; Create Marker; Fsync Marker].

(* persist_snapshot as pinned: the marker is removed first *)
Definition persist_pinned (bytes : list A) : list op :=
  [MkDir; Unlink Marker; Create Tmp; Write Tmp bytes; Fsync Tmp; Rename Tmp Final;
   Create Marker; Fsync Marker].

(* restore_persisted_snapshots: the content to import, if the directory, the snapshot file
   and the marker all exist *)
Definition restore (s : fs) : option (list A) :=
  if has_dir s then
    match v_final s, v_marker s with
    | Some (c, _), Some _ => Some c
    | _, _ => None
    end
  else None.

(* a process crash after [i] complete operations; if operation [i] is a write, [k] units
   of it had been written *)
Definition crash_ops (ops : list op) (i k : nat) : list op :=
  firstn i ops ++ match nth_error ops i with
                  | Some (Write n d) => [Write n (firstn k d)]
                  | _ => []
                  end.

(* power loss: every name independently keeps its volatile entry (if its data was synced)
   or falls back to its durable entry; the directory itself is durable once created *)
Definition choices (v : option vfile) (p : option (list A)) : list (option vfile) :=
  match v with
  | Some (c, true) => [Some (c, true); option_map (fun c => (c, true)) p]
  | _ => [option_map (fun c => (c, true)) p]
  end.

Definition power_loss (s : fs) : list fs :=
  flat_map (fun f => flat_map (fun t => map (fun m =>
    {| has_dir := has_dir s; v_final := f; v_tmp := t; v_marker := m;
       p_final := p_final s; p_tmp := p_tmp s; p_marker := p_marker s |})
    (choices (v_marker s) (p_marker s))) (choices (v_tmp s) (p_tmp s)))
    (choices (v_final s) (p_final s)).

(* the directory after a sequence of acknowledged (complete) persists *)
Definition after_acked (l : list (list A)) : fs := fold_left (fun s b => run s (persist b)) l fs0.

End Fs.

Arguments fs0 {A}.
Arguments MkDir {A}.
Arguments Create {A}.
Arguments Write {A}.
Arguments Fsync {A}.
Arguments Rename {A}.
Arguments Unlink {A}.
Arguments DirFsync {A}.

(* ---------- correspondence ---------- *)
(* One case: payloads are byte strings.  [acked]: payloads persisted completely, in order.
   [crash]: an optional further persist interrupted after [h] hook points (the hook points
   sit after MkDir, Create Tmp, Write, Fsync, Rename, Create Marker, Fsync Marker, so h
   hook points = h complete operations).  Observed: which of the three names exist after
   the crash, with their contents, and the payload restore_persisted_snapshots imported
   (identified by content). *)
Definition bytes := list N.
Definition obs_file := option bytes.
Record c14_case := {
  cc_acked : list bytes;
  cc_crash : option (bytes * nat);
  cc_final : obs_file; cc_tmp : obs_file; cc_marker : obs_file;
  cc_restored : option bytes
}.

Fixpoint bytes_eqb (a b : bytes) : bool :=
  match a, b with
  | [], [] => true
  | x :: a', y :: b' => N.eqb x y && bytes_eqb a' b'
  | _, _ => false
  end.
Definition obytes_eqb (a b : option bytes) : bool :=
  match a, b with
  | None, None => true
  | Some x, Some y => bytes_eqb x y
  | _, _ => false
  end.

Definition check_c14 (c : c14_case) : bool :=
  let s0 := after_acked N (cc_acked c) in
  let s := match cc_crash c with
           | Some (b, h) => run N s0 (crash_ops N (persist N b) h 0)
           | None => s0
           end in
  obytes_eqb (option_map fst (v_final N s)) (cc_final c)
  && obytes_eqb (option_map fst (v_tmp N s)) (cc_tmp c)
  && obytes_eqb (option_map fst (v_marker N s)) (cc_marker c)
  && obytes_eqb (restore N s) (cc_restored c).
