(* Model of src/query/mod.rs : cache_key (the quote/comment-aware normaliser that
   replaced split_whitespace().join(" ")), the LRU AST cache and
   QueryEngine::cached_parse / execute / execute_mut.  The lexical structure is the
   one of src/query/cypher.pest: WHITESPACE = space, tab, CR, LF; strings '...' and
   "..." with backslash escapes; comments // ... (up to, not including, LF) and
   /* ... */.  Executable; no proofs here. *)
From Coq Require Import List NArith Bool.
From Verif Require Import CheckLib.
Import ListNotations.
Open Scope N_scope.

Definition bytes := list N.

Definition is_ws (c : N) : bool := (c =? 32) || (c =? 9) || (c =? 13) || (c =? 10).
Definition is_quote (c : N) : bool := (c =? 39) || (c =? 34).

(* ---------- lexical modes ---------- *)
Inductive mode :=
| MOut                 (* between tokens / inside a word *)
| MStr (q : N)         (* inside a string literal opened by quote byte q *)
| MEsc (q : N)         (* after a backslash inside such a literal *)
| MLine                (* inside a // comment *)
| MBlockOpen           (* on the '*' that opens a block comment *)
| MBlock               (* inside a block comment *)
| MBlockStar.          (* inside a block comment, previous byte was '*' *)

Inductive cls := KWs | KWd | KSq | KSb | KCm.

(* what follows a '/' : 1 = another '/', 2 = '*', 0 = anything else / end *)
Definition slash_next (r : bytes) : N :=
  match r with
  | d :: _ => if d =? 47 then 1 else if d =? 42 then 2 else 0
  | [] => 0
  end.

(* class of byte c read in mode m (sn = slash_next of the rest), and the next mode *)
Definition step_cls (m : mode) (c : N) (sn : N) : cls * mode :=
  match m with
  | MOut =>
      if is_ws c then (KWs, MOut)
      else if is_quote c then (KSq, MStr c)
      else if (c =? 47) && (sn =? 1) then (KCm, MLine)
      else if (c =? 47) && (sn =? 2) then (KCm, MBlockOpen)
      else (KWd, MOut)
  | MStr q => if c =? 92 then (KSb, MEsc q) else if c =? q then (KSb, MOut) else (KSb, MStr q)
  | MEsc q => (KSb, MStr q)
  | MLine => if c =? 10 then (KCm, MOut) else (KCm, MLine)
  | MBlockOpen => (KCm, MBlock)
  | MBlock => if c =? 42 then (KCm, MBlockStar) else (KCm, MBlock)
  | MBlockStar => if c =? 47 then (KCm, MOut) else if c =? 42 then (KCm, MBlockStar) else (KCm, MBlock)
  end.

(* ---------- the "compare as written from here on" rule ----------
   Pre  : whitespace runs between tokens are collapsed
   Trig : directly after the first RETURN / WITH: the whitespace run that follows is
          still collapsed, the first other byte starts the tail
   Tail : every byte is kept as written *)
Inductive phase := Pre | Trig | Tail.

Definition upper (c : N) : N := if (97 <=? c) && (c <=? 122) then c - 32 else c.
Definition push (c : N) (w : bytes) : bytes := firstn 6 (upper c :: w).   (* most recent first *)

Definition bytes_eqb (a b : bytes) : bool := list_eqb N.eqb a b.

Definition kw_return_r : bytes := [78; 82; 85; 84; 69; 82].
Definition kw_with_r   : bytes := [72; 84; 73; 87].
Definition kw_starts_r : bytes := [83; 84; 82; 65; 84; 83].
Definition kw_ends_r   : bytes := [83; 68; 78; 69].

Definition trig_of (w : bytes) : phase :=
  if bytes_eqb (firstn 6 w) kw_return_r || bytes_eqb (firstn 4 w) kw_with_r then Trig
  else if bytes_eqb (firstn 6 w) kw_starts_r || bytes_eqb (firstn 4 w) kw_ends_r then Tail
  else Pre.

Record st := mkst { md : mode; ph : phase; win : bytes }.
Definition st0 : st := mkst MOut Pre [].

(* annotation of one byte of the query text *)
Inductive ann := ASep | AWd | ASq | ASb | ACm | ATl.

Definition ann_of (k : cls) : ann :=
  match k with KWs => ASep | KWd => AWd | KSq => ASq | KSb => ASb | KCm => ACm end.

Definition ann_at (s : st) (c sn : N) : ann :=
  match ph s with
  | Tail => ATl
  | p => match fst (step_cls (md s) c sn) with
         | KWs => ASep
         | k => match p with Trig => ATl | _ => ann_of k end
         end
  end.

Definition next (s : st) (c sn : N) : st :=
  match ph s with
  | Tail => s
  | p => let km := step_cls (md s) c sn in
         match fst km with
         | KWs => mkst (snd km) p []
         | k => match p with
                | Trig => mkst MOut Tail []
                | _ => match k with
                       | KWd => let w := push c (win s) in mkst (snd km) (trig_of w) w
                       | _ => mkst (snd km) Pre []
                       end
                end
         end
  end.

Fixpoint scan (s : st) (l : bytes) : list (N * ann) :=
  match l with
  | [] => []
  | c :: r => (c, ann_at s c (slash_next r)) :: scan (next s c (slash_next r)) r
  end.

(* collapse separator runs: the first byte of a run becomes one space, the others are
   dropped; prev = the previous byte was a separator (true at the start: leading
   whitespace is dropped) *)
Fixpoint squeeze (prev : bool) (l : list (N * ann)) : bytes :=
  match l with
  | [] => []
  | (_, ASep) :: r => if prev then squeeze true r else 32 :: squeeze true r
  | (c, _) :: r => c :: squeeze false r
  end.

(* cache_key *)
Definition key (s : bytes) : bytes := squeeze true (scan st0 s).

(* ---------- the lexical abstraction the parser is assumed to depend on ---------- *)
Inductive token := TWord (w : bytes) | TStr (w : bytes).

Definition joins (a b : ann) : bool :=
  match a, b with
  | AWd, AWd | ASq, ASb | ASb, ASb => true
  | _, _ => false
  end.

Definition head_ann (l : list (N * ann)) : option ann :=
  match l with (_, a) :: _ => Some a | [] => None end.

Definition cons_tok (b : N) (a : ann) (nxt : option ann) (ts : list token) : list token :=
  let joined := match nxt with Some a' => joins a a' | None => false end in
  match a with
  | AWd => if joined then match ts with TWord w :: t => TWord (b :: w) :: t | _ => TWord [b] :: ts end
           else TWord [b] :: ts
  | ASq | ASb => if joined then match ts with TStr w :: t => TStr (b :: w) :: t | _ => TStr [b] :: ts end
                 else TStr [b] :: ts
  | _ => ts
  end.

Fixpoint toks (l : list (N * ann)) : list token :=
  match l with
  | [] => []
  | (b, a) :: r => cons_tok b a (head_ann r) (toks r)
  end.

Fixpoint tail_of (l : list (N * ann)) : bytes :=
  match l with
  | [] => []
  | (b, ATl) :: r => b :: tail_of r
  | _ :: r => tail_of r
  end.

(* tokens (words, string literals; whitespace and comments only separate) of the part
   ahead of the first projection, and the rest of the text exactly as written *)
Definition lex (s : bytes) : list token * bytes :=
  let l := scan st0 s in (toks l, tail_of l).

(* ---------- LRU cache: association list, most recently used first ---------- *)
Definition cache (V : Type) := list (bytes * V).

Fixpoint lru_find {V} (k : bytes) (c : cache V) : option V :=
  match c with
  | [] => None
  | (k', v) :: r => if bytes_eqb k k' then Some v else lru_find k r
  end.

Fixpoint lru_remove {V} (k : bytes) (c : cache V) : cache V :=
  match c with
  | [] => []
  | (k', v) :: r => if bytes_eqb k k' then lru_remove k r else (k', v) :: lru_remove k r
  end.

(* LruCache::get : promotes the entry *)
Definition lru_get {V} (k : bytes) (c : cache V) : option (V * cache V) :=
  match lru_find k c with
  | Some v => Some (v, (k, v) :: lru_remove k c)
  | None => None
  end.

(* QueryEngine::with_capacity : 0 is replaced by 1 *)
Definition eff_cap (cap : nat) : nat := match cap with O => 1%nat | _ => cap end.

(* LruCache::put : newest first, least recently used entries beyond the capacity dropped *)
Definition lru_put {V} (cap : nat) (k : bytes) (v : V) (c : cache V) : cache V :=
  firstn (eff_cap cap) ((k, v) :: lru_remove k c).

Section Engine.
  (* external parts: the pest parser + AST builder, the executors *)
  Variables ast err store res : Type.
  Variable parse_tok : list token * bytes -> option ast.  (* depends on the text only through lex *)
  Variable parse_err : bytes -> err.                       (* error text: position in the exact text *)
  Variable exec_ro : ast -> store -> res.                  (* QueryExecutor::execute *)
  Variable exec_rw : ast -> store -> store * res.          (* MutQueryExecutor::execute *)
  Variable res_err : err -> res.

  Definition parse (s : bytes) : ast + err :=
    match parse_tok (lex s) with Some q => inl q | None => inr (parse_err s) end.

  (* QueryEngine::cached_parse : only successful parses are cached *)
  Definition cached_parse (cap : nat) (c : cache ast) (s : bytes) : (ast + err) * cache ast :=
    let k := key s in
    match lru_get k c with
    | Some (q, c') => (inl q, c')
    | None => match parse s with
              | inl q => (inl q, lru_put cap k q c)
              | inr e => (inr e, c)
              end
    end.

  Inductive req := Ro (s : bytes) | Rw (s : bytes).   (* execute / execute_mut *)
  Definition text (r : req) : bytes := match r with Ro s | Rw s => s end.

  Definition run_parsed (p : ast + err) (r : req) (g : store) : store * res :=
    match p with
    | inr e => (g, res_err e)
    | inl q => match r with Ro _ => (g, exec_ro q g) | Rw _ => exec_rw q g end
    end.

  Definition exec_cached (cap : nat) (c : cache ast) (g : store) (r : req) : cache ast * store * res :=
    let '(p, c') := cached_parse cap c (text r) in
    let '(g', o) := run_parsed p r g in (c', g', o).

  Definition exec_fresh (g : store) (r : req) : store * res := run_parsed (parse (text r)) r g.

  Fixpoint run_cached (cap : nat) (c : cache ast) (g : store) (h : list req) : cache ast * store * list res :=
    match h with
    | [] => (c, g, [])
    | r :: h' => let '(c', g', o) := exec_cached cap c g r in
                 let '(c'', g'', os) := run_cached cap c' g' h' in (c'', g'', o :: os)
    end.

  Fixpoint run_fresh (g : store) (h : list req) : store * list res :=
    match h with
    | [] => (g, [])
    | r :: h' => let '(g', o) := exec_fresh g r in
                 let '(g'', os) := run_fresh g' h' in (g'', o :: os)
    end.
End Engine.

(* ---------- correspondence ----------
   one case = engine capacity and a history of query texts; for each text the harness
   records whether the engine parsed it, the key the implementation computed, whether the
   engine reported a cache hit, and cache_len() afterwards *)
Definition obs := (bytes * bool * bytes * bool * N)%type.
Definition case := (N * list obs)%type.

Fixpoint check_hist (cap : nat) (c : cache unit) (h : list obs) : bool :=
  match h with
  | [] => true
  | (s, ok, k_impl, hit_impl, len_impl) :: r =>
      let k := key s in
      let '(hit, c') :=
        match lru_get k c with
        | Some (_, c1) => (true, c1)
        | None => (false, if ok then lru_put cap k tt c else c)
        end in
      bytes_eqb k k_impl && Bool.eqb hit hit_impl && (N.of_nat (length c') =? len_impl)
      && check_hist cap c' r
  end.

Definition check_case (c : case) : bool :=
  let '(cap, h) := c in check_hist (N.to_nat cap) [] h.
