(* Model of the tenant quota accounting on the persisted-creation path, as repaired
   for C18:  src/persistence/tenant.rs (TenantManager::reserve / decrement_usage /
   set_usage / get_usage) and src/persistence/mod.rs (persist_create_node,
   persist_create_edge, recover).  Executable; no proofs here.

   Shared state of one tenant and one resource kind (nodes or relationships; the
   two paths have the same shape): the quota, the usage counter, the set of ids in
   storage, the WAL and a log of storage puts (both tagged with the writer, so that
   "a refused creation leaves nothing behind" can be stated).

   A writer is a creator or a deleter.  A creator runs the program of persist_create_*;
   the steps are the code's critical sections, in order:
     Reserve  TenantManager::reserve   : quota check AND usage += 1 under one write lock;
                                         refused => the call returns QuotaExceeded
     Log      wal.lock().append        : under the WAL mutex
     Put      put_guard { get; put }   : was the id already stored?  then store it
     Settle   overwrite => decrement_usage (give the reservation back); return Ok
   A deleter runs persist_delete_* (hook points pm.delete_*.{after_quota,after_wal,after_storage}):
     Check    tenants.get_tenant       : the tenant is known (always, here); no shared effect
     Log      wal.lock().append
     Remove   put_guard { get; delete; if it was there: decrement_usage }
     Return   Ok
   The program counter type is shared: for a deleter [Reserved] means "past Check" and
   [Stored e] means "past Remove; the entity was there iff e".
   A schedule is a list of writer indices; each occurrence runs that writer's next step. *)
From Coq Require Import List NArith Bool.
From Verif Require Import CheckLib.
Import ListNotations.
Open Scope N_scope.

Inductive result := Accepted | Refused.

Inductive pc :=
| Start
| Reserved
| Logged
| Stored (existed : bool)
| Done (r : result).

Inductive wkind := Creator | Deleter.

Record thread := { kind : wkind; target : N; at_pc : pc }.

Record state := {
  quota : option N;            (* ResourceQuotas.max_nodes / max_edges *)
  usage : N;                   (* ResourceUsage.node_count / edge_count *)
  stored : list N;             (* ids present in storage for this tenant, duplicate-free *)
  wal : list (nat * N);        (* (writer, id) appended to the WAL *)
  puts : list (nat * N);       (* (writer, id) written to storage *)
  dels : list (nat * N);       (* (writer, id) deleted from storage (whether or not it was there) *)
  threads : list thread
}.

Definition mem (x : N) (l : list N) : bool := existsb (N.eqb x) l.

Fixpoint set_nth {A} (l : list A) (i : nat) (x : A) : list A :=
  match l, i with
  | [], _ => []
  | _ :: r, O => x :: r
  | y :: r, S i' => y :: set_nth r i' x
  end.

Definition over_quota (q : option N) (u : N) : bool :=
  match q with
  | Some m => N.leb m u          (* self.node_count >= max *)
  | None => false
  end.

Definition with_thread (s : state) (i : nat) (t : thread) (p : pc) : list thread :=
  set_nth (threads s) i {| kind := kind t; target := target t; at_pc := p |}.

Definition remove_id (x : N) (l : list N) : list N := filter (fun y => negb (N.eqb x y)) l.

(* one step of a creator *)
Definition step_create (s : state) (i : nat) (t : thread) : state :=
  match at_pc t with
  | Start =>
      if over_quota (quota s) (usage s)
      then {| quota := quota s; usage := usage s; stored := stored s; wal := wal s; puts := puts s; dels := dels s;
              threads := with_thread s i t (Done Refused) |}
      else {| quota := quota s; usage := usage s + 1; stored := stored s; wal := wal s; puts := puts s; dels := dels s;
              threads := with_thread s i t Reserved |}
  | Reserved =>
      {| quota := quota s; usage := usage s; stored := stored s; wal := wal s ++ [(i, target t)]; puts := puts s;
         dels := dels s; threads := with_thread s i t Logged |}
  | Logged =>
      let e := mem (target t) (stored s) in
      {| quota := quota s; usage := usage s;
         stored := if e then stored s else stored s ++ [target t];
         wal := wal s; puts := puts s ++ [(i, target t)]; dels := dels s;
         threads := with_thread s i t (Stored e) |}
  | Stored e =>
      {| quota := quota s;
         usage := if e then usage s - 1 else usage s;     (* saturating_sub *)
         stored := stored s; wal := wal s; puts := puts s; dels := dels s;
         threads := with_thread s i t (Done Accepted) |}
  | Done _ => s
  end.

(* one step of a deleter *)
Definition step_delete (s : state) (i : nat) (t : thread) : state :=
  match at_pc t with
  | Start =>
      {| quota := quota s; usage := usage s; stored := stored s; wal := wal s; puts := puts s; dels := dels s;
         threads := with_thread s i t Reserved |}
  | Reserved =>
      {| quota := quota s; usage := usage s; stored := stored s; wal := wal s ++ [(i, target t)]; puts := puts s;
         dels := dels s; threads := with_thread s i t Logged |}
  | Logged =>
      let e := mem (target t) (stored s) in
      {| quota := quota s;
         usage := if e then usage s - 1 else usage s;     (* decrement only if it was stored *)
         stored := if e then remove_id (target t) (stored s) else stored s;
         wal := wal s; puts := puts s; dels := dels s ++ [(i, target t)];
         threads := with_thread s i t (Stored e) |}
  | Stored _ =>
      {| quota := quota s; usage := usage s; stored := stored s; wal := wal s; puts := puts s; dels := dels s;
         threads := with_thread s i t (Done Accepted) |}
  | Done _ => s
  end.

(* one step of writer i *)
Definition step (s : state) (i : nat) : state :=
  match nth_error (threads s) i with
  | None => s
  | Some t => match kind t with
              | Creator => step_create s i t
              | Deleter => step_delete s i t
              end
  end.

Definition init (q : option N) (writers : list (wkind * N)) : state :=
  {| quota := q; usage := 0; stored := []; wal := []; puts := []; dels := [];
     threads := map (fun x => {| kind := fst x; target := snd x; at_pc := Start |}) writers |}.

Definition run (s : state) (sched : list nat) : state := fold_left step sched s.

Definition is_done (t : thread) : bool := match at_pc t with Done _ => true | _ => false end.
Definition quiescent (s : state) : bool := forallb is_done (threads s).

Definition nlen {A} (l : list A) : N := N.of_nat (length l).

(* PersistenceManager::recover : usage is SET to the number of entities found in storage *)
Definition recover (s : state) : state :=
  {| quota := quota s; usage := nlen (stored s); stored := stored s; wal := wal s; puts := puts s;
     dels := dels s; threads := threads s |}.

(* the ORIGINAL recover added the count on every call (kept for the refutation witness) *)
Definition recover_original (s : state) : state :=
  {| quota := quota s; usage := usage s + nlen (stored s); stored := stored s; wal := wal s; puts := puts s;
     dels := dels s; threads := threads s |}.

Definition result_of (t : thread) : option result := match at_pc t with Done r => Some r | _ => None end.

(* ---------- correspondence ----------
   A case: the quota, what each writer does (create / delete, and the id), the schedule actually executed with
   (get_usage, number of scanned entities) observed after every step, the result of each
   call, the ids scanned at the end, and the usage at the end / after one / after two
   recoveries on the same manager. *)
Definition res_eqb (a b : option result) : bool :=
  match a, b with
  | Some Accepted, Some Accepted | Some Refused, Some Refused | None, None => true
  | _, _ => false
  end.

Definition same_ids (a b : list N) : bool :=
  Nat.eqb (length a) (length b) && forallb (fun x => mem x b) a && forallb (fun x => mem x a) b.

Fixpoint trace_ok (s : state) (l : list (N * (N * N))) : bool * state :=
  match l with
  | [] => (true, s)
  | (i, (u, c)) :: r =>
      let s' := step s (N.to_nat i) in
      if N.eqb (usage s') u && N.eqb (nlen (stored s')) c then trace_ok s' r else (false, s')
  end.

Definition case := (option N * list (wkind * N) * list (N * (N * N)) * list (option result) * list N * (N * N * N))%type.

Definition check_case (c : case) : bool :=
  let '(q, targets, sched, results, scanned, (u0, u1, u2)) := c in
  let '(ok, s) := trace_ok (init q targets) sched in
  ok
  && list_eqb res_eqb (map result_of (threads s)) results
  && same_ids (stored s) scanned
  && N.eqb (usage s) u0
  && N.eqb (usage (recover s)) u1
  && N.eqb (usage (recover (recover s))) u2.
