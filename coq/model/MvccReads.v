(* Model for C07 of the node version chains of src/graph/store.rs as repaired:
   create_node*, set_node_property (copy-on-write), remove_node_property (copy-on-write),
   delete_node (drops the whole chain, recycles the id), version bumps (transaction
   commit), get_node_at_version, node_count / all_nodes (one per non-empty chain).
   The chain primitives ([ver], [pset], [rfind], [olast], [upd_last]) and the relationship
   version log ([read_edge], [set_edge], as repaired) are those of model/Mvcc.v (C08/C09);
   relationship reads are covered on that model (C07_read_stable_edge).
   Executable; no proofs here. *)
From Coq Require Import List NArith Bool.
From Verif Require Import CheckLib Txn Mvcc.
Import ListNotations.
Open Scope N_scope.

Definition prem (k : N) (p : props) : props := filter (fun x => negb (N.eqb (fst x) k)) p.
Definition phas (k : N) (p : props) : bool := existsb (fun x => N.eqb (fst x) k) p.

Record nstore := {
  ncur : N;                        (* current_version *)
  nnext : N;                       (* next_node_id *)
  nfree : list N;                  (* free_node_ids *)
  chains : N -> list ver           (* nodes[id], oldest first *)
}.

Definition ninit : nstore := {| ncur := 1; nnext := 1; nfree := []; chains := fun _ => [] |}.

Definition updc (f : N -> list ver) (k : N) (v : list ver) : N -> list ver :=
  fun x => if N.eqb x k then v else f x.

Definition memN (x : N) (l : list N) : bool := existsb (N.eqb x) l.

Inductive nop :=
| NCreate (hint : N) (p : props)   (* create_node / create_node_with_properties; hint = id handed out *)
| NSet (id k v : N)                (* set_node_property *)
| NRemove (id k : N)               (* remove_node_property *)
| NBump                            (* begin_transaction + commit_transaction: current_version += 1 *)
| NDelete (id : N).                (* delete_node *)

Inductive nres := NId (id : N) | NOk | NErr.

(* get_node_at_version *)
Definition read_at (s : nstore) (id v : N) : option ver :=
  rfind (fun e => N.leb (v_ver e) v) (chains s id).

Definition with_chain (s : nstore) (id : N) (c : list ver) : nstore :=
  {| ncur := ncur s; nnext := nnext s; nfree := nfree s; chains := updc (chains s) id c |}.

(* any id of the free list may be handed out (see GraphStore.alloc) *)
Definition nalloc (s : nstore) (hint : N) : N * list N * N :=
  if memN hint (nfree s) then (hint, filter (fun y => negb (N.eqb y hint)) (nfree s), nnext s)
  else match nfree s with
       | id :: r => (id, r, nnext s)
       | [] => (nnext s, [], nnext s + 1)
       end.

Definition nstep (s : nstore) (o : nop) : nstore * nres :=
  match o with
  | NCreate hint p =>
      let '(id, fr, nx) := nalloc s hint in
      ({| ncur := ncur s; nnext := nx; nfree := fr;
          chains := updc (chains s) id (chains s id ++ [{| v_ver := ncur s; v_props := p |}]) |}, NId id)
  | NSet id k v =>
      match olast (chains s id) with
      | None => (s, NErr)
      | Some latest =>
          if N.ltb (v_ver latest) (ncur s)
          then (with_chain s id (chains s id ++ [{| v_ver := ncur s; v_props := pset k v (v_props latest) |}]), NOk)
          else (with_chain s id (upd_last (fun e => {| v_ver := v_ver e; v_props := pset k v (v_props e) |})
                                          (chains s id)), NOk)
      end
  | NRemove id k =>
      match olast (chains s id) with
      | None => (s, NOk)
      | Some latest =>
          if N.ltb (v_ver latest) (ncur s) && phas k (v_props latest)
          then (with_chain s id (chains s id ++ [{| v_ver := ncur s; v_props := prem k (v_props latest) |}]), NOk)
          else (with_chain s id (upd_last (fun e => {| v_ver := v_ver e; v_props := prem k (v_props e) |})
                                          (chains s id)), NOk)
      end
  | NBump => ({| ncur := ncur s + 1; nnext := nnext s; nfree := nfree s; chains := chains s |}, NOk)
  | NDelete id =>
      match read_at s id (ncur s) with
      | None => (s, NErr)
      | Some _ => ({| ncur := ncur s; nnext := nnext s; nfree := id :: nfree s;
                      chains := updc (chains s) id [] |}, NOk)
      end
  end.

Definition nrun_from (s : nstore) (ops : list nop) : nstore := fold_left (fun s o => fst (nstep s o)) ops s.
Definition nrun (ops : list nop) : nstore := nrun_from ninit ops.

Fixpoint range_from (start : N) (len : nat) : list N :=
  match len with O => [] | S k => start :: range_from (N.succ start) k end.

(* all_nodes (ids) and node_count: one entry per non-empty chain *)
Definition scan_ids (s : nstore) : list N :=
  filter (fun id => match chains s id with [] => false | _ => true end) (range_from 0 (N.to_nat (nnext s))).
Definition node_count (s : nstore) : N := N.of_nat (length (scan_ids s)).

(* entities that exist = ids whose read at the current version succeeds *)
Definition live_ids (s : nstore) : list N :=
  filter (fun id => match read_at s id (ncur s) with Some _ => true | None => false end)
         (range_from 0 (N.to_nat (nnext s))).

Definition is_delete_of (id : N) (o : nop) : bool :=
  match o with NDelete i => N.eqb i id | _ => false end.

(* known-finding class: the history deletes the node whose past is read *)
Definition Known_C07 (id : N) (ops : list nop) : bool := existsb (is_delete_of id) ops.

(* ---------- the monotone history (specification of "the state as of a version") ----------
   An append-only list of the acknowledged events (node id, version at which it happened, state
   after it; None = deleted), written next to the store: it never looks at the version chains.
   [asof evs id v] = the state after the last event of [id] that happened at a version <= v. *)
Definition event := (N * N * option props)%type.
Definition ev_id (e : event) : N := fst (fst e).
Definition ev_ver (e : event) : N := snd (fst e).
Definition ev_state (e : event) : option props := snd e.

Definition state_of (evs : list event) (id : N) : option props :=
  match rfind (fun e => N.eqb (ev_id e) id) evs with Some e => ev_state e | None => None end.

Definition asof (evs : list event) (id v : N) : option props :=
  match rfind (fun e => N.eqb (ev_id e) id && N.leb (ev_ver e) v) evs with
  | Some e => ev_state e
  | None => None
  end.

Definition hstep (c : N) (evs : list event) (o : nop) (r : nres) : list event :=
  match o, r with
  | NCreate _ p, NId id => evs ++ [(id, c, Some p)]
  | NSet id k v, NOk =>
      match state_of evs id with Some st => evs ++ [(id, c, Some (pset k v st))] | None => evs end
  | NRemove id k, NOk =>
      match state_of evs id with Some st => evs ++ [(id, c, Some (prem k st))] | None => evs end
  | NDelete id, NOk => evs ++ [(id, c, None)]
  | _, _ => evs
  end.

Definition hgstep (sh : nstore * list event) (o : nop) : nstore * list event :=
  let (s', r) := nstep (fst sh) o in (s', hstep (ncur (fst sh)) (snd sh) o r).
Definition hrun_from (sh : nstore * list event) (ops : list nop) := fold_left hgstep ops sh.
Definition hrun (ops : list nop) := hrun_from (ninit, []) ops.


(* ---------- the relationship log as it was before the repair (kept for the record) ----------
   get_edge_at_version fell back to the properties current at read time when no log entry was
   <= v, and set_edge_property pushed post-images only.  The repaired functions are
   Mvcc.read_edge / Mvcc.set_edge (creation image, pre-image, None below the first entry). *)
Definition read_edge_orig (s : store) (id v : N) : option ver :=
  if negb (has_edge s id) then None
  else
    let r :=
      match lookup id (elog s) with
      | Some log =>
          match rfind (fun e => N.leb (v_ver e) v) log with
          | Some entry =>
              if existsb (fun e => N.ltb v (v_ver e)) log || N.ltb v (curv s)
              then {| v_ver := v_ver entry; v_props := v_props entry |}
              else {| v_ver := v_ver entry; v_props := cur_eprops s id |}
          | None => {| v_ver := 1; v_props := cur_eprops s id |}
          end
      | None => {| v_ver := 1; v_props := cur_eprops s id |}
      end in
    if N.ltb v (v_ver r) then None else Some r.

Definition set_edge_orig (s : store) (e k v : N) : store :=
  if negb (has_edge s e) then s
  else
    let post := pset k v (cur_eprops s e) in
    let log := match lookup e (elog s) with Some l => l | None => [] end in
    let log' :=
      match olast log with
      | Some l0 => if N.eqb (v_ver l0) (curv s)
                   then upd_last (fun x => {| v_ver := v_ver x; v_props := post |}) log
                   else log ++ [{| v_ver := curv s; v_props := post |}]
      | None => log ++ [{| v_ver := curv s; v_props := post |}]
      end in
    {| tx := tx s; next_node := next_node s; next_edge := next_edge s; nodes := nodes s;
       live := live s; eprops := set e post (eprops s); elog := set e log' (elog s) |}.

(* ---------- correspondence ---------- *)
Definition enc_props (p : props) : list N := flat_map (fun x => [fst x; snd x]) p.
Definition enc_read (r : option ver) : list N :=
  match r with None => [0] | Some e => 1 :: v_ver e :: enc_props (v_props e) end.

(* every (id, version <= current+1) read for ids 0..maxid, then scan ids, then count *)
Definition ndump (s : nstore) (maxid : N) : list (list N) :=
  flat_map (fun id => map (fun v => enc_read (read_at s id v)) (range_from 0 (N.to_nat (ncur s + 2))))
           (range_from 0 (N.to_nat (maxid + 1))) ++
  [scan_ids s; [node_count s; ncur s]].

Definition nres_row (r : nres) : list N :=
  match r with NId i => [0; i] | NOk => [1] | NErr => [2] end.

Definition case := list (nop * list N * N * list (list N))%type.

Fixpoint check_from (s : nstore) (c : case) : bool :=
  match c with
  | [] => true
  | (o, rr, maxid, rows) :: rest =>
      let '(s', r) := nstep s o in
      list_eqb N.eqb (nres_row r) rr && list_eqb (list_eqb N.eqb) (ndump s' maxid) rows &&
      check_from s' rest
  end.

Definition check_case (c : case) : bool := check_from ninit c.
