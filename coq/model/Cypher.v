(* Reference semantics for a Cypher fragment, part 2: patterns and brute-force
   matching under relationship isomorphism, clauses (MATCH / OPTIONAL MATCH /
   WHERE / WITH / UNWIND / RETURN [DISTINCT] / ORDER BY / SKIP / LIMIT / UNION),
   aggregation, and the correspondence case type.  Executable; no proofs here. *)
From Coq Require Import List NArith ZArith Bool.
From Verif Require Import CypherCore.
Import ListNotations.
Open Scope N_scope.

(* ---------- patterns ---------- *)
Inductive dir := DOut | DIn | DBoth.

(* A = expr in queries, value once the inline property maps have been evaluated *)
Record npat (A : Type) := NP { np_var : option N; np_labels : list N; np_props : list (N * A) }.
Record rpat (A : Type) := RP {
  rp_var : option N; rp_types : list N; rp_dir : dir; rp_props : list (N * A);
  rp_len : option (nat * option nat) (* None: exactly one hop; Some (lo, hi): *lo..hi *) }.
Arguments NP {A}. Arguments np_var {A}. Arguments np_labels {A}. Arguments np_props {A}.
Arguments RP {A}. Arguments rp_var {A}. Arguments rp_types {A}. Arguments rp_dir {A}.
Arguments rp_props {A}. Arguments rp_len {A}.

Definition ppat (A : Type) := (npat A * list (rpat A * npat A))%type.

(* {k: v} matches when  element.k = v  is true (so a null never matches) *)
Definition prop_match (ps : list (N * value)) (kv : N * value) : bool :=
  match eq3 (prop_of (fst kv) ps) (snd kv) with Some true => true | _ => false end.

(* every listed label is required *)
Definition node_ok (np : npat value) (n : node) : bool :=
  forallb (fun l => memN l (n_labels n)) (np_labels np) && forallb (prop_match (n_props n)) (np_props np).

Definition rel_ok (rp : rpat value) (r : rel) : bool :=
  (match rp_types rp with [] => true | ts => memN (r_type r) ts end)
  && forallb (prop_match (r_props r)) (rp_props rp).

(* the relationships leaving node u along the pattern's direction, with the node reached;
   an undirected pattern sees a self-loop once *)
Definition hop (rp : rpat value) (u : N) (r : rel) : list (rel * N) :=
  if rel_ok rp r then
    match rp_dir rp with
    | DOut => if N.eqb (r_src r) u then [(r, r_tgt r)] else []
    | DIn => if N.eqb (r_tgt r) u then [(r, r_src r)] else []
    | DBoth => if N.eqb (r_src r) u then [(r, r_tgt r)]
               else if N.eqb (r_tgt r) u then [(r, r_src r)] else []
    end
  else [].

Definition hops (g : graph) (rp : rpat value) (u : N) : list (rel * N) := flat_map (hop rp u) (g_rels g).

(* all trails (no relationship repeated, none from [used]) of length <= fuel starting at u *)
Fixpoint trails (fuel : nat) (g : graph) (rp : rpat value) (u : N) (used : list N) : list (list rel * N) :=
  ([], u) ::
  match fuel with
  | O => []
  | S f =>
      flat_map (fun c : rel * N =>
                  if memN (r_id (fst c)) used then []
                  else map (fun t : list rel * N => (fst c :: fst t, snd t))
                           (trails f g rp (snd c) (r_id (fst c) :: used)))
               (hops g rp u)
  end.

Definition len_ok (lo : nat) (hi : option nat) (n : nat) : bool :=
  Nat.leb lo n && match hi with Some h => Nat.leb n h | None => true end.

Definition varlen_fuel (g : graph) (hi : option nat) : nat :=
  match hi with Some h => h | None => length (g_rels g) end.

(* candidates for one pattern segment: the relationships bound and the node reached *)
Definition seg_cands (g : graph) (rp : rpat value) (u : N) (used : list N) : list (list rel * N) :=
  match rp_len rp with
  | None =>
      map (fun c : rel * N => ([fst c], snd c))
          (filter (fun c : rel * N => negb (memN (r_id (fst c)) used)) (hops g rp u))
  | Some (lo, hi) =>
      filter (fun t : list rel * N => len_ok lo hi (length (fst t))) (trails (varlen_fuel g hi) g rp u used)
  end.

Definition rel_value (rp : rpat value) (rs : list rel) : value :=
  match rp_len rp with
  | None => match rs with [r] => VRel (r_id r) | _ => VNull end
  | Some _ => VList (map (fun r => VRel (r_id r)) rs)
  end.

(* bind a pattern variable: a variable that is already bound must be bound to the same thing *)
Definition bind_var (x : option N) (v : value) (r : row) : option row :=
  match x with
  | None => Some r
  | Some x =>
      match alookup x r with
      | None => Some ((x, v) :: r)
      | Some v' => if value_eqb v' v then Some r else None
      end
  end.

(* an assignment: for each path its start node and, per segment, the relationships and the node *)
Definition seg_asg := (list N * N)%type.
Definition path_asg := (N * list seg_asg)%type.

Fixpoint enum_segs (g : graph) (segs : list (rpat value * npat value)) (u : N) (r : row) (used : list N)
  : list (list seg_asg * row * list N) :=
  match segs with
  | [] => [([], r, used)]
  | (rp, np) :: rest =>
      flat_map (fun c : list rel * N =>
        match find_node g (snd c) with
        | None => []
        | Some n =>
            if node_ok np n then
              match bind_var (rp_var rp) (rel_value rp (fst c)) r with
              | None => []
              | Some r1 =>
                  match bind_var (np_var np) (VNode (snd c)) r1 with
                  | None => []
                  | Some r2 =>
                      map (fun m : list seg_asg * row * list N =>
                             ((map r_id (fst c), snd c) :: fst (fst m), snd (fst m), snd m))
                          (enum_segs g rest (snd c) r2 (map r_id (fst c) ++ used))
                  end
              end
            else []
        end) (seg_cands g rp u used)
  end.

Definition enum_path (g : graph) (p : ppat value) (r : row) (used : list N)
  : list (path_asg * row * list N) :=
  flat_map (fun n : node =>
    if node_ok (fst p) n then
      match bind_var (np_var (fst p)) (VNode (n_id n)) r with
      | None => []
      | Some r1 =>
          map (fun m : list seg_asg * row * list N => ((n_id n, fst (fst m)), snd (fst m), snd m))
              (enum_segs g (snd p) (n_id n) r1 used)
      end
    else []) (g_nodes g).

(* the comma-separated paths of one MATCH share the set of used relationships *)
Fixpoint enum_pats (iso : bool) (g : graph) (ps : list (ppat value)) (r : row) (used : list N)
  : list (list path_asg * row * list N) :=
  match ps with
  | [] => [([], r, used)]
  | p :: rest =>
      flat_map (fun m : path_asg * row * list N =>
                  map (fun m' : list path_asg * row * list N =>
                         (fst (fst m) :: fst (fst m'), snd (fst m'), snd m'))
                      (enum_pats iso g rest (snd (fst m)) (if iso then snd m else used)))
               (enum_path g p r used)
  end.

Definition match_rows (iso : bool) (g : graph) (ps : list (ppat value)) (r : row) : list row :=
  map (fun m : list path_asg * row * list N => snd (fst m)) (enum_pats iso g ps r []).

(* ---------- evaluating the inline property maps ---------- *)
Section Resolve.
  Variables (cf : cfg) (g : graph) (pe : penv) (r : row).
  Definition resolve_props (l : list (N * expr)) : outcome (list (N * value)) :=
    omap (fun kv : N * expr => obind (eval_expr cf g pe r (snd kv)) (fun v => Ok (fst kv, v))) l.
  Definition resolve_npat (np : npat expr) : outcome (npat value) :=
    obind (resolve_props (np_props np)) (fun ps => Ok (NP (np_var np) (np_labels np) ps)).
  Definition resolve_rpat (rp : rpat expr) : outcome (rpat value) :=
    obind (resolve_props (rp_props rp)) (fun ps => Ok (RP (rp_var rp) (rp_types rp) (rp_dir rp) ps (rp_len rp))).
  Definition resolve_ppat (p : ppat expr) : outcome (ppat value) :=
    obind (resolve_npat (fst p)) (fun n0 =>
    obind (omap (fun s : rpat expr * npat expr =>
                   obind (resolve_rpat (fst s)) (fun a => obind (resolve_npat (snd s)) (fun b => Ok (a, b))))
                (snd p)) (fun segs => Ok (n0, segs))).
End Resolve.

Definition opt_list {A} (o : option A) : list A := match o with Some x => [x] | None => [] end.
Definition ppat_vars {A} (p : ppat A) : list N :=
  opt_list (np_var (fst p))
  ++ flat_map (fun s : rpat A * npat A => opt_list (rp_var (fst s)) ++ opt_list (np_var (snd s))) (snd p).

(* OPTIONAL MATCH without a match: the pattern's new variables are null *)
Definition null_pad (vars : list N) (r : row) : row :=
  fold_left (fun acc x => match alookup x acc with Some _ => acc | None => (x, VNull) :: acc end) vars r.

(* ---------- projections ---------- *)
Inductive aggop := GCount | GSum | GMin | GMax | GCollect.
Inductive item :=
| IExpr (e : expr)
| IAgg (a : aggop) (distinct : bool) (arg : option expr).     (* arg None: count( * ) *)

Record proj := PJ {
  p_distinct : bool;
  p_items : list (item * N);           (* item AS alias *)
  p_order : list (expr * bool);        (* true = ASC *)
  p_skip : option N;
  p_limit : option N }.

Definition is_agg (i : item) : bool := match i with IAgg _ _ _ => true | IExpr _ => false end.

Fixpoint dedup_by {A} (eqb : A -> A -> bool) (l : list A) : list A :=
  match l with
  | [] => []
  | x :: r => x :: filter (fun y => negb (eqb x y)) (dedup_by eqb r)
  end.

Definition row_vals_eqb (a b : list value) : bool := list_eqb value_eqb a b.

Definition sum_values (vs : list value) : outcome value :=
  obind (omap (fun v => match v with VInt z => Ok z | _ => ErrT end) vs)
        (fun zs => mk_int (fold_right Z.add 0%Z zs)).

Definition best (keep_first : comparison -> bool) (vs : list value) : value :=
  match vs with
  | [] => VNull
  | v :: r => fold_left (fun acc x => if keep_first (ord_cmp acc x) then acc else x) r v
  end.

Fixpoint is_entity (v : value) : bool :=
  match v with
  | VNode _ | VRel _ => true
  | VList l => existsb is_entity l
  | _ => false
  end.

Definition eval_agg (cf : cfg) (g : graph) (pe : penv) (a : aggop) (distinct : bool) (arg : option expr)
           (rows : list row) : outcome value :=
  match arg with
  | None => Ok (VInt (nat_z (length rows)))
  | Some e =>
      obind (omap (fun r => eval_expr cf g pe r e) rows) (fun vs =>
        let nn := filter (fun v => negb (value_eqb v VNull)) vs in
        let xs := if distinct then dedup_by value_eqb nn else nn in
        let xs := match a with
                  | GSum => if cf_sum_distinct cf then xs else nn
                  | GCollect => if distinct && negb (cf_collect_distinct_entities cf)
                                then filter (fun v => negb (is_entity v)) xs else xs
                  | _ => xs
                  end in
        match a with
        | GCount => Ok (VInt (nat_z (length xs)))
        | GSum => sum_values xs
        | GMin => if existsb is_entity xs then ErrT
                  else Ok (best (fun c => match c with Gt => false | _ => true end) xs)
        | GMax => if existsb is_entity xs then ErrT
                  else Ok (best (fun c => match c with Lt => false | _ => true end) xs)
        | GCollect => Ok (VList xs)
        end)
  end.

(* rows grouped by key, groups in order of first appearance *)
Fixpoint group_rows (l : list (list value * row)) : list (list value * list row) :=
  match l with
  | [] => []
  | (k, r) :: rest =>
      let gs := group_rows rest in
      (k, r :: concat (map snd (filter (fun kg : list value * list row => row_vals_eqb k (fst kg)) gs)))
      :: filter (fun kg : list value * list row => negb (row_vals_eqb k (fst kg))) gs
  end.

(* one projected entry: the row ORDER BY may look at, and the projected row *)
Definition entry := (row * row)%type.

Definition project_plain (cf : cfg) (g : graph) (pe : penv) (p : proj) (rows : list row) : outcome (list entry) :=
  omap (fun r =>
          obind (omap (fun ia : item * N =>
                         match fst ia with
                         | IExpr e => obind (eval_expr cf g pe r e) (fun v => Ok (snd ia, v))
                         | IAgg _ _ _ => ErrT
                         end) (p_items p))
                (fun out => Ok ((if p_distinct p then out else out ++ r), out))) rows.

Definition project_agg (cf : cfg) (g : graph) (pe : penv) (empty_ok : bool) (p : proj) (rows : list row) : outcome (list entry) :=
  let keys := filter (fun ia : item * N => negb (is_agg (fst ia))) (p_items p) in
  obind (omap (fun r =>
                 obind (omap (fun ia : item * N =>
                                match fst ia with IExpr e => eval_expr cf g pe r e | _ => ErrT end) keys)
                       (fun k => Ok (k, r))) rows) (fun keyed =>
    let groups := match keys with
                  | [] => if empty_ok then [([], rows)] else match rows with [] => [] | _ => [([], rows)] end
                  | _ => group_rows keyed
                  end in
    omap (fun kg : list value * list row =>
            obind ((fix go (items : list (item * N)) (ks : list value) : outcome row :=
                      match items with
                      | [] => Ok []
                      | (IExpr _, a) :: rest =>
                          match ks with
                          | k :: ks' => obind (go rest ks') (fun o => Ok ((a, k) :: o))
                          | [] => ErrT
                          end
                      | (IAgg op d arg, a) :: rest =>
                          obind (eval_agg cf g pe op d arg (snd kg)) (fun v =>
                          obind (go rest ks) (fun o => Ok ((a, v) :: o)))
                      end) (p_items p) (fst kg))
                  (fun out => Ok (out, out))) groups).

Fixpoint key_cmp (dirs : list bool) (a b : list value) : comparison :=
  match dirs, a, b with
  | d :: ds, x :: a', y :: b' =>
      match ord_cmp x y with
      | Eq => key_cmp ds a' b'
      | c => if d then c else CompOpp c
      end
  | _, _, _ => Eq
  end.

Fixpoint insert_by {A} (le : A -> A -> bool) (x : A) (l : list A) : list A :=
  match l with
  | [] => [x]
  | y :: l' => if le x y then x :: l else y :: insert_by le x l'
  end.
Definition sort_by {A} (le : A -> A -> bool) (l : list A) : list A := fold_right (insert_by le) [] l.

Definition keyed := (list value * row)%type.      (* ORDER BY key values, projected row *)

Definition key_le (dirs : list bool) (a b : keyed) : bool :=
  match key_cmp dirs (fst a) (fst b) with Gt => false | _ => true end.

(* projection, DISTINCT, ORDER BY: the projected rows, stably sorted, with their sort keys *)
Definition project_sorted (cf : cfg) (g : graph) (pe : penv) (empty_ok : bool) (p : proj) (rows : list row) : outcome (list keyed) :=
  obind (if existsb (fun ia : item * N => is_agg (fst ia)) (p_items p)
         then project_agg cf g pe empty_ok p rows else project_plain cf g pe p rows) (fun es =>
    let es := if p_distinct p
              then dedup_by (fun a b : entry => row_vals_eqb (map snd (snd a)) (map snd (snd b))) es
              else es in
    obind (omap (fun e : entry =>
                   obind (omap (fun ob : expr * bool =>
                                  match eval_expr cf g pe (fst e) (fst ob) with
                                  | Ok v => Ok v
                                  | err => if cf_orderby_errors cf then err else Ok VNull
                                  end) (p_order p))
                         (fun k => Ok (k, snd e))) es) (fun ks =>
      Ok (sort_by (key_le (map snd (p_order p))) ks))).

Definition nat_of_opt (o : option N) (d : nat) : nat := match o with Some n => N.to_nat n | None => d end.

Definition window {A} (p : proj) (l : list A) : list A :=
  let s := skipn (nat_of_opt (p_skip p) 0) l in
  match p_limit p with Some n => firstn (N.to_nat n) s | None => s end.

(* does the sort leave the order of distinct rows open? *)
Fixpoint has_tie (dirs : list bool) (l : list keyed) : bool :=
  match l with
  | a :: (b :: _) as r =>
      (match key_cmp dirs (fst a) (fst b) with
       | Eq => negb (row_vals_eqb (map snd (snd a)) (map snd (snd b)))
       | _ => false
       end) || has_tie dirs r
  | _ => false
  end.

(* ---------- clauses ---------- *)
Inductive clause :=
| CMatch (opt : bool) (pats : list (ppat expr)) (w : option expr)
| CUnwind (e : expr) (x : N)
| CWith (p : proj) (w : option expr).

Record squery := SQ { q_clauses : list clause; q_ret : proj }.
(* q_parts is non-empty; more than one part is a UNION (ALL when q_all) *)
Record query := Q { q_parts : list squery; q_all : bool }.

Definition filter_rows (cf : cfg) (g : graph) (pe : penv) (w : option expr) (rows : list row) : outcome (list row) :=
  match w with
  | None => Ok rows
  | Some e =>
      obind (omap (fun r => obind (eval_pred cf g pe r e) (fun b => Ok (b, r))) rows) (fun brs =>
        Ok (map snd (filter fst brs)))
  end.

Definition eval_match (cf : cfg) (g : graph) (pe : penv) (opt : bool) (pats : list (ppat expr)) (w : option expr)
           (r : row) : outcome (list row) :=
  obind (omap (resolve_ppat cf g pe r) pats) (fun vps =>
  obind (filter_rows cf g pe w (match_rows (cf_path_iso cf) g vps r)) (fun kept =>
    match opt, kept with
    | true, [] => Ok [null_pad (flat_map ppat_vars pats) r]
    | _, _ => Ok kept
    end)).

Definition eval_clause (cf : cfg) (g : graph) (pe : penv) (c : clause) (rows : list row) : outcome (list row) :=
  match c with
  | CMatch opt pats w =>
      obind (omap (eval_match cf g pe opt pats w) rows) (fun rs => Ok (concat rs))
  | CUnwind e x =>
      obind (omap (fun r =>
                     obind (eval_expr cf g pe r e) (fun v =>
                       match v with
                       | VList l => Ok (map (fun y => (x, y) :: r) l)
                       | VNull => Ok []
                       | _ => ErrT
                       end)) rows) (fun rs => Ok (concat rs))
  | CWith p w =>
      obind (project_sorted cf g pe (cf_with_empty_agg cf) p rows) (fun ks =>
        let truncates := negb (Nat.leb (length (window p ks)) (length ks) && Nat.leb (length ks) (length (window p ks))) in
        if truncates && has_tie (map snd (p_order p)) ks then Undet
        else filter_rows cf g pe w (map snd (window p ks)))
  end.

Fixpoint eval_clauses (cf : cfg) (g : graph) (pe : penv) (cs : list clause) (rows : list row) : outcome (list row) :=
  match cs with
  | [] => Ok rows
  | c :: rest => obind (eval_clause cf g pe c rows) (eval_clauses cf g pe rest)
  end.

(* the answer of one query part before SKIP/LIMIT: sort keys and output rows (column values) *)
Definition okeyed := (list value * list value)%type.

Definition eval_squery_sorted (cf : cfg) (g : graph) (pe : penv) (s : squery) : outcome (list okeyed) :=
  obind (eval_clauses cf g pe (q_clauses s) [[]]) (fun rows =>
  obind (project_sorted cf g pe true (q_ret s) rows) (fun ks =>
    Ok (map (fun k : keyed => (fst k, map snd (snd k))) ks))).

Definition table := list (list value).

Definition eval_squery (cf : cfg) (g : graph) (pe : penv) (s : squery) : outcome table :=
  obind (eval_squery_sorted cf g pe s) (fun ks => Ok (map snd (window (q_ret s) ks))).

Definition eval_query_cfg (cf : cfg) (g : graph) (pe : penv) (q : query) : outcome table :=
  obind (omap (eval_squery cf g pe) (q_parts q)) (fun ts =>
    let t := concat ts in
    Ok (if q_all q then t else match q_parts q with [_] => t | _ => dedup_by row_vals_eqb t end)).

Definition eval_query_env (g : graph) (pe : penv) (q : query) : outcome table := eval_query_cfg ref_cfg g pe q.
Definition eval_query (g : graph) (q : query) : outcome table := eval_query_env g [] q.

(* ---------- parameter inlining over queries (C35) ---------- *)
Definition inline_props (pe : penv) (l : list (N * expr)) : list (N * expr) :=
  map (fun kv : N * expr => (fst kv, inline_expr pe (snd kv))) l.
Definition inline_npat (pe : penv) (np : npat expr) : npat expr :=
  NP (np_var np) (np_labels np) (inline_props pe (np_props np)).
Definition inline_rpat (pe : penv) (rp : rpat expr) : rpat expr :=
  RP (rp_var rp) (rp_types rp) (rp_dir rp) (inline_props pe (rp_props rp)) (rp_len rp).
Definition inline_ppat (pe : penv) (p : ppat expr) : ppat expr :=
  (inline_npat pe (fst p), map (fun s : rpat expr * npat expr => (inline_rpat pe (fst s), inline_npat pe (snd s))) (snd p)).
Definition inline_item (pe : penv) (i : item) : item :=
  match i with
  | IExpr e => IExpr (inline_expr pe e)
  | IAgg a d arg => IAgg a d (option_map (inline_expr pe) arg)
  end.
Definition inline_proj (pe : penv) (p : proj) : proj :=
  PJ (p_distinct p) (map (fun ia : item * N => (inline_item pe (fst ia), snd ia)) (p_items p))
     (map (fun ob : expr * bool => (inline_expr pe (fst ob), snd ob)) (p_order p)) (p_skip p) (p_limit p).
Definition inline_clause (pe : penv) (c : clause) : clause :=
  match c with
  | CMatch o ps w => CMatch o (map (inline_ppat pe) ps) (option_map (inline_expr pe) w)
  | CUnwind e x => CUnwind (inline_expr pe e) x
  | CWith p w => CWith (inline_proj pe p) (option_map (inline_expr pe) w)
  end.
Definition inline_squery (pe : penv) (s : squery) : squery :=
  SQ (map (inline_clause pe) (q_clauses s)) (inline_proj pe (q_ret s)).
Definition inline (pe : penv) (q : query) : query := Q (map (inline_squery pe) (q_parts q)) (q_all q).

(* ---------- correspondence ---------- *)
Inductive obs := ObsOk (rows : table) | ObsErr | ObsPanic.

Record case := Case {
  c_graph : graph;
  c_params : penv;
  c_query : query;
  c_must_ok : bool;        (* the query's shape answered Ok on the pinned tree: Err is not acceptable *)
  c_obs : obs }.

Fixpoint remove_first {A} (eqb : A -> A -> bool) (x : A) (l : list A) : option (list A) :=
  match l with
  | [] => None
  | y :: r => if eqb x y then Some r else option_map (cons y) (remove_first eqb x r)
  end.

(* xs is a sub-bag of ys *)
Fixpoint sub_bag (xs ys : table) : bool :=
  match xs with
  | [] => true
  | x :: xs' => match remove_first row_vals_eqb x ys with Some ys' => sub_bag xs' ys' | None => false end
  end.

(* the maximal runs of rows whose sort keys compare equal *)
Fixpoint runs (dirs : list bool) (l : list okeyed) : list table :=
  match l with
  | [] => []
  | a :: rest =>
      match runs dirs rest, rest with
      | r :: rs, b :: _ =>
          match key_cmp dirs (fst a) (fst b) with
          | Eq => (snd a :: r) :: rs
          | _ => [snd a] :: r :: rs
          end
      | _, _ => [[snd a]]
      end
  end.

(* The observed rows are the window [skip, skip+len) of SOME valid sort: walking the runs,
   the part of the window inside a run must be a sub-bag of that run. *)
Fixpoint check_runs (rs : list table) (pos skip : nat) (o : table) : bool :=
  match rs with
  | [] => match o with [] => true | _ => false end
  | r :: rest =>
      let m := length r in
      (* rows of this run that fall at or after [skip]; at most what is left of o *)
      let avail := Nat.sub (Nat.add pos m) (Nat.max pos skip) in
      let c := Nat.min avail (length o) in
      sub_bag (firstn c o) r && check_runs rest (Nat.add pos m) skip (skipn c o)
  end.

(* lists inside values sorted, for queries whose collect() order is not determined *)
Fixpoint norm_value (v : value) : value :=
  match v with
  | VList l => VList (sort_by (fun a b => match tot_cmp a b with Gt => false | _ => true end) (map norm_value l))
  | _ => v
  end.

Definition item_collects (i : item) : bool := match i with IAgg GCollect _ _ => true | _ => false end.
Definition proj_collects (p : proj) : bool := existsb (fun ia : item * N => item_collects (fst ia)) (p_items p).
Definition squery_collects (s : squery) : bool :=
  proj_collects (q_ret s)
  || existsb (fun c => match c with CWith p _ => proj_collects p | _ => false end) (q_clauses s).

Definition expected_len (p : proj) (n : nat) : nat := length (window p (repeat tt n)).

Definition check_squery (cf : cfg) (g : graph) (pe : penv) (s : squery) (o : table) : outcome bool :=
  obind (eval_squery_sorted cf g pe s) (fun ks =>
    let nrm := if squery_collects s then map (map norm_value) else (fun t : table => t) in
    let ks := map (fun k : okeyed => (fst k, if squery_collects s then map norm_value (snd k) else snd k)) ks in
    let o := nrm o in
    Ok (Nat.eqb (length o) (expected_len (q_ret s) (length ks))
        && check_runs (runs (map snd (p_order (q_ret s))) ks) 0 (nat_of_opt (p_skip (q_ret s)) 0) o)).

Definition bag_eqb (a b : table) : bool := Nat.eqb (length a) (length b) && sub_bag a b.

Definition check_rows (cf : cfg) (g : graph) (pe : penv) (q : query) (o : table) : outcome bool :=
  match q_parts q with
  | [s] => check_squery cf g pe s o
  | _ =>
      obind (eval_query_cfg cf g pe q) (fun t =>
        if existsb squery_collects (q_parts q)
        then Ok (bag_eqb (map (map norm_value) o) (map (map norm_value) t))
        else Ok (bag_eqb o t))
  end.

(* ---------- known findings (known_findings.txt) ----------
   Two kinds.  (1) Deviations the model can follow: [eng_cfg]; a case that fails against the
   reference but agrees with [eng_cfg] is in a known class.  (2) Syntactic classes on which the
   engine's behaviour is not modelled: such a case is not compared at all. *)
Definition opt_exists {A} (f : A -> bool) (o : option A) : bool := match o with Some x => f x | None => false end.

Fixpoint expr_vars (e : expr) : list N :=
  match e with
  | ELit _ | EParam _ => []
  | EVar x | EProp x _ => [x]
  | ECmp _ a b | EAnd a b | EOr a b | EXor a b | EArith _ a b | EIn a b => expr_vars a ++ expr_vars b
  | ENot a | EIsNull a | EIsNotNull a | ENeg a => expr_vars a
  | EList l | EFn _ l => flat_map expr_vars l
  end.

Definition ppat_varlen {A} (p : ppat A) : bool :=
  existsb (fun s : rpat A * npat A => match rp_len (fst s) with Some _ => true | None => false end) (snd p).

(* variable-length relationship patterns: the engine answers node reachability (one row per
   distinct end node, breadth first), not one row per trail *)
Definition known_varlen (s : squery) : bool :=
  existsb (fun c => match c with CMatch _ ps _ => existsb ppat_varlen ps | _ => false end) (q_clauses s).

(* the top-level conjuncts of a predicate *)
Fixpoint conjuncts (e : expr) : list expr :=
  match e with
  | EAnd a b => conjuncts a ++ conjuncts b
  | _ => [e]
  end.

Definition mentions (vars : list N) (e : expr) : bool := existsb (fun x => memN x vars) (expr_vars e).

(* mentions at least one variable, and only variables from [vars] *)
Definition only_mentions (vars : list N) (e : expr) : bool :=
  match expr_vars e with [] => false | xs => forallb (fun x => memN x vars) xs end.

(* OPTIONAL MATCH ... WHERE: a conjunct that mentions a variable bound before the OPTIONAL
   MATCH, or no variable at all, is applied to the incoming rows (or dropped) instead of
   deciding whether the optional part matched.  And the WHERE of a MATCH that follows an
   OPTIONAL MATCH (no WITH in between) is not reliably applied after the null padding (its
   conjuncts are distributed over the clauses by the variables they mention). *)
Fixpoint known_optwhere_from (bound optvars : list N) (seen_opt : bool) (cs : list clause) : bool :=
  match cs with
  | [] => false
  | CMatch true ps w :: rest =>
      let new := filter (fun x => negb (memN x bound)) (flat_map ppat_vars ps) in
      opt_exists (fun e => existsb (fun c => negb (only_mentions new c)) (conjuncts e)) w
      || known_optwhere_from (new ++ bound) (new ++ optvars) true rest
  | CMatch false ps w :: rest =>
      let new := filter (fun x => negb (memN x bound)) (flat_map ppat_vars ps) in
      (seen_opt && opt_exists (fun _ => true) w)
      || known_optwhere_from (new ++ bound) optvars seen_opt rest
  | CUnwind _ x :: rest => known_optwhere_from (x :: bound) optvars seen_opt rest
  | CWith p _ :: rest => known_optwhere_from (map snd (p_items p)) [] false rest
  end.

Definition known_optwhere (s : squery) : bool := known_optwhere_from [] [] false (q_clauses s).

(* MATCH ... UNWIND ... WITH: an UNWIND directly after a MATCH and directly before a WITH is
   applied after the WITH barrier, so its variable reads as null in the WITH *)
Fixpoint known_match_unwind_with (cs : list clause) : bool :=
  match cs with
  | [] => false
  | c :: rest =>
      (match c, rest with
       | CMatch _ _ _, CUnwind _ _ :: CWith _ _ :: _ => true
       | CUnwind _ _, CWith _ _ :: CUnwind _ _ :: _ => true
       | _, _ => false
       end) || known_match_unwind_with rest
  end.

(* after a WITH, a MATCH that puts labels or inline properties on a node variable the WITH
   carries over does not check them (the node is taken as it is) *)
Definition npat_constrains (bound : list N) (np : npat expr) : bool :=
  match np_var np with
  | Some x => memN x bound && (match np_labels np with [] => false | _ => true end
                               || match np_props np with [] => false | _ => true end)
  | None => false
  end.
Definition ppat_constrains_bound (bound : list N) (p : ppat expr) : bool :=
  npat_constrains bound (fst p) || existsb (fun s : rpat expr * npat expr => npat_constrains bound (snd s)) (snd p).

Fixpoint known_bound_after_with (after_with : bool) (bound : list N) (cs : list clause) : bool :=
  match cs with
  | [] => false
  | CMatch _ ps _ :: rest =>
      (after_with && existsb (ppat_constrains_bound bound) ps)
      || known_bound_after_with after_with (flat_map ppat_vars ps ++ bound) rest
  | CUnwind _ x :: rest => known_bound_after_with after_with (x :: bound) rest
  | CWith p _ :: rest => known_bound_after_with true (map snd (p_items p)) rest
  end.

(* two or more MATCH clauses with a WHERE of their own, then an UNWIND (no WITH in between): the
   WHERE of the earlier MATCH is lost *)
Fixpoint known_wheres_then_unwind (n : nat) (cs : list clause) : bool :=
  match cs with
  | [] => false
  | CMatch _ _ (Some _) :: rest => known_wheres_then_unwind (S n) rest
  | CMatch _ _ None :: rest => known_wheres_then_unwind n rest
  | CUnwind _ _ :: rest => Nat.leb 2 n || known_wheres_then_unwind n rest
  | CWith _ _ :: rest => known_wheres_then_unwind 0 rest
  end.

Definition Known_syntactic (q : query) : bool :=
  existsb (fun s => known_varlen s || known_optwhere s || known_match_unwind_with (q_clauses s)
                    || known_bound_after_with false [] (q_clauses s)
                    || known_wheres_then_unwind 0 (q_clauses s)) (q_parts q).

(* some projection of the query carries a LIMIT: the engine may stop evaluating before it reaches
   the row on which the reference semantics raises an arithmetic error *)
Definition has_limit (q : query) : bool :=
  existsb (fun s =>
             opt_exists (fun _ => true) (p_limit (q_ret s))
             || existsb (fun c => match c with CWith p _ => opt_exists (fun _ => true) (p_limit p) | _ => false end)
                        (q_clauses s)) (q_parts q).

Definition check_with (cf : cfg) (c : case) : bool :=
  match c_obs c with
  | ObsPanic => false
  | ObsErr =>
      match eval_query_cfg cf (c_graph c) (c_params c) (c_query c) with
      | Ok _ => negb (c_must_ok c)
      | _ => true
      end
  | ObsOk o =>
      match check_rows cf (c_graph c) (c_params c) (c_query c) o with
      | Ok b => b
      | ErrA => has_limit (c_query c)      (* rows beyond a LIMIT need not be evaluated *)
      | ErrT | Undet => true
      end
  end.

(* the case is in a known class: not modelled, or it is answered as [eng_cfg] says and not
   as the reference says *)
Definition Known_C01 (c : case) : bool :=
  match c_obs c with
  | ObsPanic => false
  | _ => Known_syntactic (c_query c) || (negb (check_with ref_cfg c) && check_with eng_cfg c)
  end.

(* = check_with ref_cfg c || Known_C01 c, arranged so that nothing is evaluated twice *)
Definition check_case (c : case) : bool :=
  match c_obs c with
  | ObsPanic => false
  | _ => Known_syntactic (c_query c) || check_with ref_cfg c || check_with eng_cfg c
  end.
