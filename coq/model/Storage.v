(* Model of src/persistence/storage.rs : PersistentStorage (RocksDB column
   families "nodes" and "edges"), as repaired for C17.  Executable; no proofs here.

   RocksDB is modelled as an ordered map from byte strings to values: a list of
   (key, value) kept strictly sorted by bytewise lexicographic key order, which is
   what an iterator walks.  `prefix_iterator_cf` without a prefix extractor is
   `seek_from` : every entry whose key is >= the prefix, in order, to the end. *)
From Coq Require Import List NArith Bool.
From Verif Require Import CheckLib.
Import ListNotations.
Open Scope N_scope.

Definition bytes := list N.

(* ---------- bytewise lexicographic order on keys ---------- *)
Fixpoint key_ltb (a b : bytes) : bool :=
  match a, b with
  | [], [] => false
  | [], _ :: _ => true
  | _ :: _, [] => false
  | x :: a', y :: b' => N.ltb x y || (N.eqb x y && key_ltb a' b')
  end.

Definition key_eqb (a b : bytes) : bool := list_eqb N.eqb a b.

Fixpoint has_prefix (p k : bytes) : bool :=
  match p, k with
  | [], _ => true
  | _ :: _, [] => false
  | x :: p', y :: k' => N.eqb x y && has_prefix p' k'
  end.

(* ---------- the ordered map ---------- *)
(* value: what the stored record carries that the scans return: (id, payload) *)
Definition value := (N * N)%type.
Definition cf := list (bytes * value).

Fixpoint cf_put (c : cf) (k : bytes) (v : value) : cf :=
  match c with
  | [] => [(k, v)]
  | (k', v') :: r =>
      if key_ltb k k' then (k, v) :: (k', v') :: r
      else if key_ltb k' k then (k', v') :: cf_put r k v
      else (k, v) :: r
  end.

Fixpoint cf_del (c : cf) (k : bytes) : cf :=
  match c with
  | [] => []
  | (k', v') :: r => if key_eqb k k' then r else (k', v') :: cf_del r k
  end.

Fixpoint cf_get (c : cf) (k : bytes) : option value :=
  match c with
  | [] => None
  | (k', v') :: r => if key_eqb k k' then Some v' else cf_get r k
  end.

Fixpoint drop_while {A} (f : A -> bool) (l : list A) : list A :=
  match l with
  | [] => []
  | x :: r => if f x then drop_while f r else l
  end.

Fixpoint take_while {A} (f : A -> bool) (l : list A) : list A :=
  match l with
  | [] => []
  | x :: r => if f x then x :: take_while f r else []
  end.

(* iterator positioned at the first key >= p, running to the end of the column family *)
Definition seek_from (p : bytes) (c : cf) : cf :=
  drop_while (fun e => key_ltb (fst e) p) c.

(* ---------- key formats ---------- *)
Definition hexdigit (d : N) : N := if N.ltb d 10 then 48 + d else 87 + d.

(* n lowercase hex digits of x, most significant first (format "{:016x}" for n = 16, x < 2^64) *)
Fixpoint hexn (n : nat) (x : N) : bytes :=
  match n with
  | O => []
  | S n' => hexn n' (x / 16) ++ [hexdigit (x mod 16)]
  end.

Definition hex16 (x : N) : bytes := hexn 16 x.

Definition colon : N := 58.
Definition tag_node : N := 110.   (* 'n' *)
Definition tag_edge : N := 101.   (* 'e' *)

(* "{tenant}:n:{id:016x}" / "{tenant}:e:{id:016x}" *)
Definition mk_key (tag : N) (t : bytes) (id : N) : bytes :=
  t ++ [colon; tag; colon] ++ hex16 id.

Definition node_key := mk_key tag_node.
Definition edge_key := mk_key tag_edge.

(* the id suffix has fixed width, so the tenant of a key is everything before
   the last 19 bytes (":n:" + 16 hex digits) *)
Definition suffix_len : nat := 19.

Definition key_tenant (k : bytes) : option bytes :=
  if Nat.ltb (length k) suffix_len then None
  else Some (firstn (length k - suffix_len) k).

Definition owned_by (t : bytes) (k : bytes) : bool :=
  match key_tenant k with
  | Some t' => key_eqb t t'
  | None => false
  end.

(* ---------- scans (repaired code) ----------
   seek to "{tenant}:", walk while the key still starts with that prefix (stop
   rule), and skip keys whose tenant part is a longer name beginning "{tenant}:" *)
Definition scan_entries (c : cf) (t : bytes) : cf :=
  let p := t ++ [colon] in
  filter (fun e => owned_by t (fst e))
         (take_while (fun e => has_prefix p (fst e)) (seek_from p c)).

Definition scan (c : cf) (t : bytes) : list value := map snd (scan_entries c t).

(* the ORIGINAL scan (kept for the refutation witness in the proofs file and for
   documentation): no stop rule, no ownership filter *)
Definition scan_original (c : cf) (t : bytes) : list value :=
  map snd (seek_from (t ++ [colon]) c).

Definition mem_bytes (x : bytes) (l : list bytes) : bool := existsb (key_eqb x) l.

Fixpoint dedup_bytes (l : list bytes) : list bytes :=
  match l with
  | [] => []
  | x :: r => if mem_bytes x r then dedup_bytes r else x :: dedup_bytes r
  end.

Fixpoint tenants_of_keys (l : list bytes) : list bytes :=
  match l with
  | [] => []
  | k :: r => match key_tenant k with
              | Some t => t :: tenants_of_keys r
              | None => tenants_of_keys r
              end
  end.

(* list_persisted_tenants: the distinct tenants of the keys of the "nodes" family *)
Definition list_tenants (c : cf) : list bytes :=
  dedup_bytes (tenants_of_keys (map fst c)).

(* ---------- the store and its operations ---------- *)
Record store := { nodes_cf : cf; edges_cf : cf }.

Definition empty : store := {| nodes_cf := []; edges_cf := [] |}.

Inductive op :=
| PutNode (t : bytes) (id p : N)
| DelNode (t : bytes) (id : N)
| PutEdge (t : bytes) (id p : N)
| DelEdge (t : bytes) (id : N).

Definition step (s : store) (o : op) : store :=
  match o with
  | PutNode t id p => {| nodes_cf := cf_put (nodes_cf s) (node_key t id) (id, p); edges_cf := edges_cf s |}
  | DelNode t id => {| nodes_cf := cf_del (nodes_cf s) (node_key t id); edges_cf := edges_cf s |}
  | PutEdge t id p => {| nodes_cf := nodes_cf s; edges_cf := cf_put (edges_cf s) (edge_key t id) (id, p) |}
  | DelEdge t id => {| nodes_cf := nodes_cf s; edges_cf := cf_del (edges_cf s) (edge_key t id) |}
  end.

Definition run (ops : list op) : store := fold_left step ops empty.

Definition get_node (s : store) (t : bytes) (id : N) : option value := cf_get (nodes_cf s) (node_key t id).
Definition get_edge (s : store) (t : bytes) (id : N) : option value := cf_get (edges_cf s) (edge_key t id).
Definition scan_nodes (s : store) (t : bytes) : list value := scan (nodes_cf s) t.
Definition scan_edges (s : store) (t : bytes) : list value := scan (edges_cf s) t.
Definition list_persisted_tenants (s : store) : list bytes := list_tenants (nodes_cf s).
(* PersistenceManager::recover = the two scans *)
Definition recover (s : store) (t : bytes) : list value * list value := (scan_nodes s t, scan_edges s t).

(* ---------- the abstract view the property is stated against ----------
   What is stored for (tenant, id) after a history is decided by the operations
   that name exactly that tenant and id: the payload of the last put, unless a
   delete came after it.  No keys, no other tenants. *)
Definition same_slot (t : bytes) (id : N) (t' : bytes) (id' : N) : bool := key_eqb t t' && N.eqb id id'.

Definition touch_node (t : bytes) (id : N) (cur : option N) (o : op) : option N :=
  match o with
  | PutNode t' id' p => if same_slot t id t' id' then Some p else cur
  | DelNode t' id' => if same_slot t id t' id' then None else cur
  | _ => cur
  end.

Definition touch_edge (t : bytes) (id : N) (cur : option N) (o : op) : option N :=
  match o with
  | PutEdge t' id' p => if same_slot t id t' id' then Some p else cur
  | DelEdge t' id' => if same_slot t id t' id' then None else cur
  | _ => cur
  end.

Definition stored_node (ops : list op) (t : bytes) (id : N) : option N := fold_left (touch_node t id) ops None.
Definition stored_edge (ops : list op) (t : bytes) (id : N) : option N := fold_left (touch_edge t id) ops None.

Definition op_id (o : op) : N :=
  match o with PutNode _ id _ | DelNode _ id | PutEdge _ id _ | DelEdge _ id => id end.
Definition op_tenant (o : op) : bytes :=
  match o with PutNode t _ _ | DelNode t _ | PutEdge t _ _ | DelEdge t _ => t end.

(* ids are u64 in the code *)
Definition u64_bound : N := 18446744073709551616.
Definition valid_op (o : op) : Prop := op_id o < u64_bound.

(* ---------- correspondence ---------- *)
Inductive event :=
| EOp (o : op)
| EScanNodes (t : bytes) (r : list value)
| EScanEdges (t : bytes) (r : list value)
| EGetNode (t : bytes) (id : N) (r : option value)
| EGetEdge (t : bytes) (id : N) (r : option value)
| EList (r : list bytes)
| ERecover (t : bytes) (rn re : list value).

Definition value_eqb (a b : value) : bool := N.eqb (fst a) (fst b) && N.eqb (snd a) (snd b).
Definition values_eqb := list_eqb value_eqb.

(* the listing comes out of a hash set: compare as duplicate-free sets *)
Definition same_set (a b : list bytes) : bool :=
  Nat.eqb (length a) (length b) && forallb (fun x => mem_bytes x b) a && forallb (fun x => mem_bytes x a) b.

Definition check_event (s : store) (e : event) : store * bool :=
  match e with
  | EOp o => (step s o, true)
  | EScanNodes t r => (s, values_eqb (scan_nodes s t) r)
  | EScanEdges t r => (s, values_eqb (scan_edges s t) r)
  | EGetNode t id r => (s, option_eqb value_eqb (get_node s t id) r)
  | EGetEdge t id r => (s, option_eqb value_eqb (get_edge s t id) r)
  | EList r => (s, same_set (list_persisted_tenants s) r)
  | ERecover t rn re => (s, values_eqb (fst (recover s t)) rn && values_eqb (snd (recover s t)) re)
  end.

Definition case := list event.

Fixpoint check_from (s : store) (l : list event) : bool :=
  match l with
  | [] => true
  | e :: r => let '(s', ok) := check_event s e in ok && check_from s' r
  end.

Definition check_case (c : case) : bool := check_from empty c.
