(* Model of the write path of the query executor as the code runs it:
   MutQueryExecutor::execute_plan_mut (src/query/executor/mod.rs) pulls rows from the root
   operator; every mutating operator (src/query/executor/operator.rs) applies its effect on
   the store row by row while the plan streams.  There is no undo log: the only cleanup is
   operator-local (a node whose property is refused by set_node_property is deleted again).
   On an error the partially mutated store stays and the error is returned.
   Executable; no proofs here. *)
From Coq Require Import List ZArith NArith Bool.
From Verif Require Import CheckLib.
Import ListNotations.
Open Scope N_scope.

(* ---------- values and the store ---------- *)
Inductive val := VNull | VInt (z : Z) | VStr (s : N).

Definition val_eqb (a b : val) : bool :=
  match a, b with
  | VNull, VNull => true
  | VInt x, VInt y => Z.eqb x y
  | VStr x, VStr y => N.eqb x y
  | _, _ => false
  end.

Definition is_null (v : val) : bool := match v with VNull => true | _ => false end.

Record node := { nid : N; nlabels : list N; nprops : list (N * val) }.
Record edge := { eid : N; esrc : N; edst : N; etype : N; eprops : list (N * val) }.

Record graph := {
  nodes : list node;
  edges : list edge;
  uniq : list (N * N);          (* unique constraints (label, key) *)
  next_node : N;
  next_edge : N
}.

(* what a dump can see: everything except the id counters *)
Definition obs (g : graph) : list node * list edge * list (N * N) := (nodes g, edges g, uniq g).

Definition mem (x : N) (l : list N) : bool := existsb (N.eqb x) l.

Definition get_assoc (k : N) (l : list (N * val)) : val :=
  match find (fun p => N.eqb (fst p) k) l with Some p => snd p | None => VNull end.

Fixpoint set_assoc (k : N) (v : val) (l : list (N * val)) : list (N * val) :=
  match l with
  | [] => if is_null v then [] else [(k, v)]
  | (k', v') :: r => if N.eqb k' k then (if is_null v then r else (k, v) :: r)
                     else (k', v') :: set_assoc k v r
  end.

Definition find_node (id : N) (g : graph) : option node :=
  find (fun n => N.eqb (nid n) id) (nodes g).

Definition has_constraint (g : graph) (l k : N) : bool :=
  existsb (fun c => N.eqb (fst c) l && N.eqb (snd c) k) (uniq g).

(* property_index.unique_constraint_other_holder *)
Definition other_holder (g : graph) (l k : N) (v : val) (id : N) : bool :=
  existsb (fun n => negb (N.eqb (nid n) id) && mem l (nlabels n) && val_eqb (get_assoc k (nprops n)) v)
          (nodes g).

Definition upd_node (id : N) (f : node -> node) (g : graph) : graph :=
  {| nodes := map (fun n => if N.eqb (nid n) id then f n else n) (nodes g);
     edges := edges g; uniq := uniq g; next_node := next_node g; next_edge := next_edge g |}.

Inductive err := ErrConstraint | ErrDivZero | ErrType | ErrUnbound | ErrPlan | ErrMissing.

Definition err_eqb (a b : err) : bool :=
  match a, b with
  | ErrConstraint, ErrConstraint | ErrDivZero, ErrDivZero | ErrType, ErrType
  | ErrUnbound, ErrUnbound | ErrPlan, ErrPlan | ErrMissing, ErrMissing => true
  | _, _ => false
  end.

(* the store calls the operators make *)
Inductive effect :=
| ECreateNode (labels : list N)                 (* create_node_with_labels *)
| ESetProp (id key : N) (v : val)               (* set_node_property: unique constraints checked *)
| EAddLabel (id label : N)                      (* add_label_to_node: unique constraints checked *)
| ERemoveProp (id key : N)                      (* remove_node_property *)
| EDeleteNode (id : N)                          (* delete_node: refused while relationships exist *)
| ECreateEdge (src dst ty : N)                  (* create_edge *)
| ESetEdgeProp (id key : N) (v : val).          (* set_edge_property_sparse *)

Definition incident (id : N) (g : graph) : bool :=
  existsb (fun e => N.eqb (esrc e) id || N.eqb (edst e) id) (edges g).

Definition remove_node (id : N) (g : graph) : graph :=
  {| nodes := filter (fun n => negb (N.eqb (nid n) id)) (nodes g);
     edges := edges g; uniq := uniq g; next_node := next_node g; next_edge := next_edge g |}.

Inductive outcome := Applied (g : graph) | Refused (e : err).

Definition apply_effect (e : effect) (g : graph) : outcome :=
  match e with
  | ECreateNode ls =>
      Applied {| nodes := nodes g ++ [{| nid := next_node g; nlabels := ls; nprops := [] |}];
                 edges := edges g; uniq := uniq g;
                 next_node := N.succ (next_node g); next_edge := next_edge g |}
  | ESetProp id k v =>
      match find_node id g with
      | None => Refused ErrMissing
      | Some n =>
          if negb (is_null v) &&
             existsb (fun l => has_constraint g l k && other_holder g l k v id) (nlabels n)
          then Refused ErrConstraint
          else Applied (upd_node id (fun n => {| nid := nid n; nlabels := nlabels n;
                                                  nprops := set_assoc k v (nprops n) |}) g)
      end
  | EAddLabel id l =>
      match find_node id g with
      | None => Refused ErrMissing
      | Some n =>
          if mem l (nlabels n) then Applied g
          else if existsb (fun c => N.eqb (fst c) l &&
                                    negb (is_null (get_assoc (snd c) (nprops n))) &&
                                    other_holder g l (snd c) (get_assoc (snd c) (nprops n)) id)
                          (uniq g)
          then Refused ErrConstraint
          else Applied (upd_node id (fun n => {| nid := nid n; nlabels := nlabels n ++ [l];
                                                  nprops := nprops n |}) g)
      end
  | ERemoveProp id k =>
      match find_node id g with
      | None => Refused ErrMissing
      | Some _ => Applied (upd_node id (fun n => {| nid := nid n; nlabels := nlabels n;
                                                    nprops := set_assoc k VNull (nprops n) |}) g)
      end
  | EDeleteNode id =>
      match find_node id g with
      | None => Refused ErrMissing
      | Some _ => if incident id g then Refused ErrConstraint else Applied (remove_node id g)
      end
  | ECreateEdge s d t =>
      match find_node s g, find_node d g with
      | Some _, Some _ =>
          Applied {| nodes := nodes g;
                     edges := edges g ++ [{| eid := next_edge g; esrc := s; edst := d; etype := t; eprops := [] |}];
                     uniq := uniq g; next_node := next_node g; next_edge := N.succ (next_edge g) |}
      | _, _ => Refused ErrMissing
      end
  | ESetEdgeProp id k v =>
      Applied {| nodes := nodes g;
                 edges := map (fun e => if N.eqb (eid e) id
                                        then {| eid := eid e; esrc := esrc e; edst := edst e; etype := etype e;
                                                eprops := set_assoc k v (eprops e) |}
                                        else e) (edges g);
                 uniq := uniq g; next_node := next_node g; next_edge := next_edge g |}
  end.

(* the node a successful store call worked on (None: not a single node) *)
Definition target_of (e : effect) (g : graph) : option N :=
  match e with
  | ECreateNode _ => Some (next_node g)
  | ESetProp id _ _ | EAddLabel id _ | ERemoveProp id _ => Some id
  | EDeleteNode _ | ECreateEdge _ _ _ | ESetEdgeProp _ _ _ => None
  end.

Definition created_of (e : effect) (g : graph) : list N :=
  match e with ECreateNode _ => [next_node g] | _ => [] end.

(* ---------- what one operator does for one input row ---------- *)
Inductive prog :=
| Done
| Fail (e : err)                                   (* an expression evaluation fails: `?` *)
| Do (eff : effect) (cleanup : option N) (k : prog)  (* store call; refused => delete node [cleanup]
                                                        (`let _ = store.delete_node`), return Err *)
| DoIgnore (eff : effect) (k : prog)               (* `let _ = store....` : a refusal is dropped *)
| Read (f : graph -> prog).                        (* a decision on the current store *)

Record res := {
  r_graph : graph;
  r_err : option err;
  r_applied : list (option N);   (* target of every store call that took effect, in order *)
  r_created : list N;            (* ids of the nodes created *)
  r_cleaned : option N           (* node removed again by the failing call's cleanup *)
}.

Definition cons_applied (t : option N) (c : list N) (r : res) : res :=
  {| r_graph := r_graph r; r_err := r_err r; r_applied := t :: r_applied r;
     r_created := c ++ r_created r; r_cleaned := r_cleaned r |}.

Fixpoint exec (p : prog) (g : graph) : res :=
  match p with
  | Done => {| r_graph := g; r_err := None; r_applied := []; r_created := []; r_cleaned := None |}
  | Fail e => {| r_graph := g; r_err := Some e; r_applied := []; r_created := []; r_cleaned := None |}
  | Do eff cl k =>
      match apply_effect eff g with
      | Applied g' => cons_applied (target_of eff g) (created_of eff g) (exec k g')
      | Refused e =>
          match cl with
          | Some c =>
              match apply_effect (EDeleteNode c) g with
              | Applied g' => {| r_graph := g'; r_err := Some e; r_applied := []; r_created := [];
                                 r_cleaned := Some c |}
              | Refused _ => {| r_graph := g; r_err := Some e; r_applied := []; r_created := [];
                                r_cleaned := None |}
              end
          | None => {| r_graph := g; r_err := Some e; r_applied := []; r_created := []; r_cleaned := None |}
          end
      end
  | DoIgnore eff k =>
      match apply_effect eff g with
      | Applied g' => cons_applied (target_of eff g) (created_of eff g) (exec k g')
      | Refused _ => exec k g
      end
  | Read f => exec (f g) g
  end.

Definition opt_eqb (a b : option N) : bool :=
  match a, b with Some x, Some y => N.eqb x y | None, None => true | _, _ => false end.

(* something the failing row did itself is still in the store *)
Definition in_row_residue (r : res) : bool :=
  match r_cleaned r with
  | Some c => negb (forallb (fun t => opt_eqb t (Some c)) (r_applied r)) || negb (mem c (r_created r))
  | None => negb (match r_applied r with [] => true | _ => false end)
  end.

(* ---------- the pipeline ---------- *)
Record row := { rx : val; ry : val; rn : N }.

Record stmt := {
  s_plan_err : bool;               (* refused by the parser / planner: nothing runs *)
  s_source : list (row + err);     (* what the operators below the write yield, in order *)
  s_barrier : bool;                (* the input is materialised before the first write (WITH barrier) *)
  s_write : row -> prog;           (* the mutating operator(s), per row *)
  s_write_first : bool;            (* the writer drains its input before it emits a row
                                      (MatchCreateEdgeOperator) / streams row by row (SET, MERGE) *)
  s_post : row -> graph -> option err   (* operators above the write (RETURN projection) *)
}.

Inductive class := PartialApply | HalfBuiltRow.

Record run_res := {
  g_out : graph;
  e_out : option err;
  prior : bool;          (* some row before the failing point changed the store *)
  inrow : bool           (* the failing row left something of its own *)
}.

Definition nonempty {A} (l : list A) : bool := match l with [] => false | _ => true end.

(* streaming writer: for each row  write ; post *)
Fixpoint run_stream (w : row -> prog) (post : row -> graph -> option err)
         (src : list (row + err)) (g : graph) (pr : bool) : run_res :=
  match src with
  | [] => {| g_out := g; e_out := None; prior := pr; inrow := false |}
  | inr e :: _ => {| g_out := g; e_out := Some e; prior := pr; inrow := false |}
  | inl r :: rest =>
      let x := exec (w r) g in
      match r_err x with
      | Some e => {| g_out := r_graph x; e_out := Some e; prior := pr; inrow := in_row_residue x |}
      | None =>
          match post r (r_graph x) with
          | Some e => {| g_out := r_graph x; e_out := Some e; prior := pr || nonempty (r_applied x); inrow := false |}
          | None => run_stream w post rest (r_graph x) (pr || nonempty (r_applied x))
          end
      end
  end.

Fixpoint run_post (post : row -> graph -> option err) (rows : list row) (g : graph) : option err :=
  match rows with
  | [] => None
  | r :: rest => match post r g with Some e => Some e | None => run_post post rest g end
  end.

Fixpoint lefts {A B} (l : list (A + B)) : list A :=
  match l with [] => [] | inl a :: r => a :: lefts r | inr _ :: r => lefts r end.

Fixpoint first_err {A} (l : list (A + err)) : option err :=
  match l with [] => None | inr e :: _ => Some e | inl _ :: r => first_err r end.

Definition run (g : graph) (s : stmt) : run_res :=
  if s_plan_err s then {| g_out := g; e_out := Some ErrPlan; prior := false; inrow := false |}
  else
    match (if s_barrier s then first_err (s_source s) else None) with
    | Some e => {| g_out := g; e_out := Some e; prior := false; inrow := false |}
    | None =>
        if s_write_first s then
          let r1 := run_stream (s_write s) (fun _ _ => None) (s_source s) g false in
          match e_out r1 with
          | Some _ => r1
          | None =>
              match run_post (s_post s) (lefts (s_source s)) (g_out r1) with
              | Some e => {| g_out := g_out r1; e_out := Some e; prior := prior r1; inrow := false |}
              | None => r1
              end
          end
        else run_stream (s_write s) (s_post s) (s_source s) g false
    end.

Definition class_of (r : run_res) : option class :=
  match e_out r with
  | None => None
  | Some _ => if prior r then Some PartialApply else if inrow r then Some HalfBuiltRow else None
  end.

(* "some mutation was applied before the failing row / item and nothing undoes it" *)
Definition Known_C05 (g : graph) (s : stmt) : bool :=
  match class_of (run g s) with Some _ => true | None => false end.

(* ---------- the statement shapes the harness generates, compiled as the operators run them ---------- *)
Inductive pexpr :=
| PX | PY                       (* the UNWIND variable / the WITH alias *)
| PConst (v : val)
| PDivBy (c : Z)                (* c / x *)
| PModBy (c : Z)                (* c % x *)
| PMulC (c : Z)                 (* x * c *)
| PSubC (c : Z)                 (* x - c *)
| PNeg                          (* -x *)
| PProp (k : N)                 (* n.k *)
| PDivByProp (c : Z) (k : N)    (* c / n.k *)
| PUnbound.                     (* a variable nothing binds *)

Definition eval (e : pexpr) (r : row) (g : graph) : val + err :=
  let num (v : val) (f : Z -> val + err) : val + err :=
      match v with VInt z => f z | VNull => inl VNull | VStr _ => inr ErrType end in
  let prop (k : N) : val :=
      match find_node (rn r) g with Some n => get_assoc k (nprops n) | None => VNull end in
  match e with
  | PX => inl (rx r)
  | PY => inl (ry r)
  | PConst v => inl v
  | PDivBy c => num (rx r) (fun z => if Z.eqb z 0 then inr ErrDivZero else inl (VInt (Z.quot c z)))
  | PModBy c => num (rx r) (fun z => if Z.eqb z 0 then inr ErrDivZero else inl (VInt (Z.rem c z)))
  | PMulC c => num (rx r) (fun z => inl (VInt (z * c)))
  | PSubC c => num (rx r) (fun z => inl (VInt (z - c)))
  | PNeg => num (rx r) (fun z => inl (VInt (- z)))
  | PProp k => inl (prop k)
  | PDivByProp c k => num (prop k) (fun z => if Z.eqb z 0 then inr ErrDivZero else inl (VInt (Z.quot c z)))
  | PUnbound => inr ErrUnbound
  end.

(* evaluate a list of property expressions, first failure wins *)
Fixpoint eval_props (ps : list (N * pexpr)) (r : row) (g : graph) : list (N * val) + err :=
  match ps with
  | [] => inl []
  | (k, e) :: rest =>
      match eval e r g with
      | inr x => inr x
      | inl v => match eval_props rest r g with inr x => inr x | inl t => inl ((k, v) :: t) end
      end
  end.

Fixpoint set_all (id : N) (kv : list (N * val)) (cl : option N) (k : prog) : prog :=
  match kv with
  | [] => k
  | (key, v) :: rest => Do (ESetProp id key v) cl (set_all id rest cl k)
  end.

(* MatchCreateEdgeOperator (with_nodes) / CreateNodeOperator building one node:
   create_node_with_labels; evaluate the property expressions (`?`, no cleanup);
   set_node_property each (refused => delete the node, Err) *)
Definition build_node (labels : list N) (props : list (N * pexpr)) (r : row) (k : N -> prog) : prog :=
  Read (fun g => let id := next_node g in
    Do (ECreateNode labels) None
      (Read (fun g1 => match eval_props props r g1 with
                       | inr e => Fail e
                       | inl kv => set_all id kv (Some id) (k id)
                       end))).

Definition post_of (ret : option pexpr) (r : row) (g : graph) : option err :=
  match ret with
  | None => None
  | Some e => match eval e r g with inr x => Some x | inl _ => None end
  end.

Definition xrow (v : val) : row := {| rx := v; ry := VNull; rn := 0 |}.
Definition nrow (id : N) : row := {| rx := VNull; ry := VNull; rn := id |}.

(* MergeOperator, single node pattern *)
Definition node_matches (labels : list N) (kv : list (N * val)) (n : node) : bool :=
  forallb (fun l => mem l (nlabels n)) labels &&
  forallb (fun p => negb (is_null (get_assoc (fst p) (nprops n))) && val_eqb (get_assoc (fst p) (nprops n)) (snd p)) kv.

Definition merge_node (labels : list N) (props : list (N * pexpr)) (oncreate : option (N * pexpr)) (r : row) : prog :=
  Read (fun g =>
    match eval_props props r g with
    | inr e => Fail e                                     (* resolved_props before anything is touched *)
    | inl kv =>
        match labels with
        | l0 :: _ =>
            if existsb (fun n => mem l0 (nlabels n) && node_matches labels kv n) (nodes g) then Done
            else
              let id := next_node g in
              Do (ECreateNode labels) None
                (set_all id kv (Some id)
                   (match oncreate with
                    | None => Done
                    | Some (k, e) =>
                        Read (fun g1 => match eval e r g1 with
                                        | inr x => Fail x               (* `?` : the node stays *)
                                        | inl v => DoIgnore (ESetProp id k v) Done
                                        end)
                    end))
        | [] => Fail ErrPlan
        end
    end).

(* SetPropertyOperator then LabelMutationOperator on one row: all right-hand sides are
   evaluated first (a failing one becomes null), then applied in order *)
Fixpoint eval_sets (items : list (N * pexpr)) (r : row) (g : graph) : list (N * val) :=
  match items with
  | [] => []
  | (k, e) :: rest => (k, match eval e r g with inl v => v | inr _ => VNull end) :: eval_sets rest r g
  end.

Fixpoint add_labels (id : N) (ls : list N) (k : prog) : prog :=
  match ls with [] => k | l :: rest => Do (EAddLabel id l) None (add_labels id rest k) end.

Definition set_row (items : list (N * pexpr)) (labels : list N) (r : row) : prog :=
  Read (fun g => set_all (rn r) (eval_sets items r g) None (add_labels (rn r) labels Done)).

Inductive template :=
(* UNWIND xs AS x CREATE (:labels {props}) [RETURN ret]       -- MatchCreateEdgeOperator::with_nodes *)
| TUnwindCreate (xs : list val) (labels : list N) (props : list (N * pexpr)) (ret : option pexpr)
(* UNWIND xs AS x WITH x, w AS y CREATE (:labels {key: y})     -- the WITH is a barrier *)
| TUnwindWithCreate (xs : list val) (w : pexpr) (labels : list N) (key : N)
(* CREATE (:l1 {..}), (:l2 {..}), ...                           -- CreateNodeOperator *)
| TCreateMany (ns : list (list N * list (N * val)))
(* MATCH (n:..) SET n.k = e, ..., n:L, ... [RETURN ret]         -- rows in scan order *)
| TMatchSet (ids : list N) (items : list (N * pexpr)) (labels : list N) (ret : option pexpr)
(* UNWIND xs AS x MERGE (n:labels {props}) [ON CREATE SET n.k = e] *)
| TUnwindMerge (xs : list val) (labels : list N) (props : list (N * pexpr)) (oncreate : option (N * pexpr))
(* MATCH (a), (b:..) WHERE id(a) = .. CREATE (a)-[:ty {key: e(b)}]->(b)   -- rows = the b's in scan order *)
| TMatchCreateEdge (a : N) (bs : list N) (ty key : N) (e : pexpr)
(* MATCH (a:..) CREATE (a)-[:ty]->(:labels {props})                     -- rows = the a's *)
| TMatchCreateNodeEdge (srcs : list N) (ty : N) (labels : list N) (props : list (N * pexpr))
(* refused by the parser *)
| TParseError.

Definition mk (src : list (row + err)) (barrier : bool) (w : row -> prog) (first : bool)
           (post : row -> graph -> option err) : stmt :=
  {| s_plan_err := false; s_source := src; s_barrier := barrier; s_write := w;
     s_write_first := first; s_post := post |}.

Definition empty_graph : graph := {| nodes := []; edges := []; uniq := []; next_node := 0; next_edge := 0 |}.

Definition compile (t : template) : stmt :=
  match t with
  | TUnwindCreate xs labels props ret =>
      mk (map (fun v => inl (xrow v)) xs) false
         (fun r => build_node labels props r (fun _ => Done)) true (post_of ret)
  | TUnwindWithCreate xs w labels key =>
      mk (map (fun v => match eval w (xrow v) empty_graph with
                        | inl y => inl {| rx := v; ry := y; rn := 0 |}
                        | inr e => inr e
                        end) xs) true
         (fun r => build_node labels [(key, PY)] r (fun _ => Done)) true (fun _ _ => None)
  | TCreateMany ns =>
      mk [inl (xrow VNull)] false
         (fun r => fold_right (fun n k => build_node (fst n) (map (fun p => (fst p, PConst (snd p))) (snd n)) r (fun _ => k))
                              Done ns)
         true (fun _ _ => None)
  | TMatchSet ids items labels ret =>
      mk (map (fun i => inl (nrow i)) ids) false (set_row items labels) false (post_of ret)
  | TUnwindMerge xs labels props oncreate =>
      mk (map (fun v => inl (xrow v)) xs) false (merge_node labels props oncreate) false (fun _ _ => None)
  | TMatchCreateEdge a bs ty key e =>
      mk (map (fun i => inl (nrow i)) bs) false
         (fun r => Read (fun g => let ei := next_edge g in
                     Do (ECreateEdge a (rn r) ty) None
                       (Read (fun g1 => match eval e r g1 with
                                        | inr x => Fail x
                                        | inl v => if is_null v then Done else Do (ESetEdgeProp ei key v) None Done
                                        end))))
         true (fun _ _ => None)
  | TMatchCreateNodeEdge srcs ty labels props =>
      mk (map (fun i => inl (nrow i)) srcs) false
         (fun r => build_node labels props r (fun id => Do (ECreateEdge (rn r) id ty) None Done))
         true (fun _ _ => None)
  | TParseError =>
      {| s_plan_err := true; s_source := []; s_barrier := false; s_write := fun _ => Done;
         s_write_first := false; s_post := fun _ _ => None |}
  end.

(* ---------- correspondence ---------- *)
(* graphs are compared up to the ids of the nodes / relationships the statement created *)
Definition incl_b {A} (eqb : A -> A -> bool) (a b : list A) : bool :=
  forallb (fun x => existsb (eqb x) b) a.

Definition prop_eqb (a b : N * val) : bool := N.eqb (fst a) (fst b) && val_eqb (snd a) (snd b).

Definition content_eqb (a b : node) : bool :=
  incl_b N.eqb (nlabels a) (nlabels b) && incl_b N.eqb (nlabels b) (nlabels a) &&
  incl_b prop_eqb (nprops a) (nprops b) && incl_b prop_eqb (nprops b) (nprops a).

(* old nodes must keep their id; new ones are compared by content *)
Definition node_eqb (old : list N) (a b : node) : bool :=
  (if mem (nid a) old || mem (nid b) old then N.eqb (nid a) (nid b) else true) && content_eqb a b.

Fixpoint remove_first {A} (p : A -> bool) (l : list A) : option (list A) :=
  match l with
  | [] => None
  | x :: r => if p x then Some r
              else match remove_first p r with Some r' => Some (x :: r') | None => None end
  end.

Fixpoint bag_eqb {A} (eqb : A -> A -> bool) (a b : list A) : bool :=
  match a with
  | [] => match b with [] => true | _ => false end
  | x :: r => match remove_first (eqb x) b with Some b' => bag_eqb eqb r b' | None => false end
  end.

Definition end_eqb (old : list N) (ga gb : graph) (ia ib : N) : bool :=
  match find_node ia ga, find_node ib gb with
  | Some a, Some b => node_eqb old a b
  | _, _ => false
  end.

Definition edge_eqb (old : list N) (ga gb : graph) (a b : edge) : bool :=
  N.eqb (etype a) (etype b) && end_eqb old ga gb (esrc a) (esrc b) && end_eqb old ga gb (edst a) (edst b) &&
  incl_b prop_eqb (eprops a) (eprops b) && incl_b prop_eqb (eprops b) (eprops a).

Definition graph_eqb (old : list N) (ga gb : graph) : bool :=
  bag_eqb (node_eqb old) (nodes ga) (nodes gb) && bag_eqb (edge_eqb old ga gb) (edges ga) (edges gb).

Definition wf_b (g : graph) : bool :=
  forallb (fun n => N.ltb (nid n) (next_node g)) (nodes g) &&
  forallb (fun e => N.ltb (esrc e) (next_node g) && N.ltb (edst e) (next_node g)) (edges g).

Definition class_code (c : option class) : N :=
  match c with None => 0 | Some PartialApply => 1 | Some HalfBuiltRow => 2 end.

(* one case: the graph before, the statement, and what the engine did: error class (None = Ok),
   the graph after, and the class the harness derived from the statement shape and the planted
   failure position (0 none, 1 partial-apply, 2 half-built-row) *)
Definition case := (graph * template * option err * (list node * list edge) * N)%type.

Definition check_case (c : case) : bool :=
  let '(g, t, oe, (ns, es), cls) := c in
  let r := run g (compile t) in
  let observed := {| nodes := ns; edges := es; uniq := uniq g; next_node := 0; next_edge := 0 |} in
  wf_b g &&
  option_eqb err_eqb (e_out r) oe &&
  graph_eqb (map nid (nodes g)) (g_out r) observed &&
  N.eqb (class_code (class_of r)) cls.
