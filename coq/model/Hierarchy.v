(* Model of src/index/hierarchy/{poset,oeh,monoid,manager}.rs : the OEH hierarchy index.
   Executable; no proofs here.

   Dense node indices and array positions are [nat]; integer measures are [Z]
   (RollupValue::Int(i128); the harness keeps |values| < 2^62 and n < 2^16 so an i128 sum
   cannot overflow).  RollupValue::Float is NOT modelled here (the harness checks float
   measures on the Rust side only, with a tolerance).

   Correspondence with the code, function by function:
     from_edges        Poset::from_edges (dense ids = order of first appearance), Kahn topo_sort_up
     preorder / nested build_nested_set / build_near_tree: tin[v] = position of v in the DFS
                       pre-order, tout[v] = tin[v] + |subtree v| - 1 (the code's counter-1 at pop
                       time), inv = the pre-order itself
     decompose_chains, build_chain, subsumes, descendants, descendant_count, set_measure,
     update_measure, rollup, lowest_common_ancestors : same names in oeh.rs
     fw_* / st_*       Fenwick / SegmentTree in monoid.rs
     m_*               HierarchyIndexManager entry: stale flag state machine *)
From Coq Require Import List NArith ZArith Bool Arith PeanoNat.
From Verif Require Import CheckLib.
Import ListNotations.

(* ---------- small helpers ---------- *)
Fixpoint upd {A} (l : list A) (i : nat) (v : A) : list A :=
  match l, i with
  | [], _ => []
  | _ :: r, O => v :: r
  | x :: r, S i' => x :: upd r i' v
  end.

Definition memn (x : nat) (l : list nat) : bool := existsb (Nat.eqb x) l.

Fixpoint index_of (x : nat) (l : list nat) : nat :=
  match l with
  | [] => 0
  | y :: r => if Nat.eqb x y then 0 else S (index_of x r)
  end.

Fixpoint insert_sorted (x : nat) (l : list nat) : list nat :=
  match l with
  | [] => [x]
  | y :: r => if x <? y then x :: l else if x =? y then l else y :: insert_sorted x r
  end.
Definition sort_dedup (l : list nat) : list nat := fold_right insert_sorted [] l.

(* ---------- poset ---------- *)
Record poset := {
  pn : nat;
  ppar : list (list nat);    (* parents[i]  *)
  pch : list (list nat);     (* children[i] *)
  ptopo : list nat           (* topo_up: every child before its parents *)
}.
Definition parents (p : poset) (i : nat) : list nat := nth i (ppar p) [].
Definition children (p : poset) (i : nat) : list nat := nth i (pch p) [].
Definition topo_down (p : poset) : list nat := rev (ptopo p).
Definition nodes (p : poset) : list nat := seq 0 (pn p).
Definition roots (p : poset) : list nat :=
  filter (fun i => match parents p i with [] => true | _ => false end) (nodes p).
Definition is_tree (p : poset) : bool :=
  forallb (fun l => length l <=? 1) (ppar p).
Definition extra_parent_count (p : poset) : nat :=
  fold_right (fun l a => (length l - 1) + a) 0 (ppar p).

Definition edge_mem (e : nat * nat) (l : list (nat * nat)) : bool :=
  existsb (fun f => Nat.eqb (fst e) (fst f) && Nat.eqb (snd e) (snd f)) l.

Fixpoint dedup_edges (l seen : list (nat * nat)) : list (nat * nat) :=
  match l with
  | [] => []
  | e :: r => if edge_mem e seen then dedup_edges r seen else e :: dedup_edges r (e :: seen)
  end.

Definition push_at (l : list (list nat)) (i v : nat) : list (list nat) :=
  upd l i (nth i l [] ++ [v]).

(* Kahn, children before parents; queue is FIFO *)
Fixpoint kahn (fuel : nat) (par : list (list nat)) (indeg : list nat) (queue order : list nat)
  : list nat :=
  match fuel with
  | O => rev order
  | S f =>
      match queue with
      | [] => rev order
      | u :: q =>
          let '(ig, q') :=
            fold_left (fun (st : list nat * list nat) (p : nat) =>
                         let '(ig, q) := st in
                         let d := nth p ig 0 - 1 in
                         (upd ig p d, if d =? 0 then q ++ [p] else q))
                      (nth u par []) (indeg, q) in
          kahn f par ig q' (u :: order)
      end
  end.

Inductive build_err := ENotAcyclic | ENotATree | EWidthTooHigh.

(* edges are (child, parent) over dense ids < n *)
Definition from_edges (n : nat) (edges : list (nat * nat)) : poset + build_err :=
  let es := dedup_edges edges [] in
  let par := fold_left (fun a e => push_at a (fst e) (snd e)) es (repeat [] n) in
  let ch := fold_left (fun a e => push_at a (snd e) (fst e)) es (repeat [] n) in
  let indeg := fold_left (fun a e => upd a (snd e) (S (nth (snd e) a 0))) es (repeat 0 n) in
  let q0 := filter (fun i => nth i indeg 0 =? 0) (seq 0 n) in
  let order := kahn n par indeg q0 [] in
  if length order =? n then inl {| pn := n; ppar := par; pch := ch; ptopo := order |}
  else inr ENotAcyclic.

(* Poset::from_edges on sparse ids: dense index = order of first appearance
   (extra nodes first, then child, parent of each edge) *)
Definition intern (ids : list nat) (x : nat) : list nat := if memn x ids then ids else ids ++ [x].
Definition intern_all (extra : list nat) (edges : list (nat * nat)) : list nat :=
  fold_left (fun ids e => intern (intern ids (fst e)) (snd e)) edges (fold_left intern extra []).

(* ---------- rollup values and monoids ---------- *)
Inductive rv := RNull | RInt (z : Z).
Inductive rop := OSum | OCount | OMin | OMax.

Definition rop_eqb (a b : rop) : bool :=
  match a, b with
  | OSum, OSum | OCount, OCount | OMin, OMin | OMax, OMax => true
  | _, _ => false
  end.
Definition rv_eqb (a b : rv) : bool :=
  match a, b with
  | RNull, RNull => true
  | RInt x, RInt y => Z.eqb x y
  | _, _ => false
  end.

Definition is_invertible (o : rop) : bool := match o with OSum | OCount => true | _ => false end.
Definition identity (o : rop) : rv := match o with OSum | OCount => RInt 0 | _ => RNull end.
Definition combine (o : rop) (a b : rv) : rv :=
  match a, b with
  | RNull, x => x
  | x, RNull => x
  | RInt x, RInt y =>
      match o with
      | OSum | OCount => RInt (x + y)
      | OMin => RInt (Z.min x y)
      | OMax => RInt (Z.max x y)
      end
  end.
Definition rv_of (m : option Z) (dflt : rv) : rv := match m with Some z => RInt z | None => dflt end.

(* ---------- Fenwick (integer) ---------- *)
Fixpoint lowbitp (p : positive) : positive :=
  match p with xO q => xO (lowbitp q) | _ => xH end.
(* j & j.wrapping_neg() *)
Definition lowbit (j : nat) : nat :=
  match N.of_nat j with N0 => 0 | Npos p => Pos.to_nat (lowbitp p) end.

(* while j <= n { t[j] += d; j += lowbit j } *)
Fixpoint fw_add_loop (fuel : nat) (t : list Z) (n j : nat) (d : Z) : list Z :=
  match fuel with
  | O => t
  | S f => if j <=? n then fw_add_loop f (upd t j (nth j t 0%Z + d)%Z) n (j + lowbit j) d else t
  end.
Definition fw_add (t : list Z) (pos : nat) (d : Z) : list Z :=
  let n := length t - 1 in fw_add_loop (S n) t n (pos + 1) d.

Definition fw_build (values : list Z) : list Z :=
  let n := length values in
  fst (fold_left (fun (st : list Z * nat) v => (fw_add (fst st) (snd st) v, S (snd st)))
                 values (repeat 0%Z (S n), 0)).

(* while i > 0 { acc += t[i]; i -= lowbit i } *)
Fixpoint fw_prefix_loop (fuel : nat) (t : list Z) (i : nat) (acc : Z) : Z :=
  match fuel with
  | O => acc
  | S f => if 0 <? i then fw_prefix_loop f t (i - lowbit i) (acc + nth i t 0%Z)%Z else acc
  end.
Definition fw_prefix (t : list Z) (i : nat) : Z :=
  let n := length t - 1 in
  let i := Nat.min i n in fw_prefix_loop (S n) t i 0%Z.
Definition fw_range (t : list Z) (lo hi : nat) : Z :=
  if hi <? lo then 0%Z else (fw_prefix t (hi + 1) - fw_prefix t lo)%Z.

(* ---------- segment tree ---------- *)
Record segtree := { st_tree : list rv; st_op : rop; st_size : nat; st_n : nat }.

Fixpoint npow2_loop (fuel s n : nat) : nat :=
  match fuel with O => s | S f => if n <=? s then s else npow2_loop f (2 * s) n end.
Definition next_pow2 (n : nat) : nat := npow2_loop (S n) 1 n.

Fixpoint copy_at {A} (t : list A) (i : nat) (vs : list A) : list A :=
  match vs with [] => t | v :: r => copy_at (upd t i v) (S i) r end.

Definition st_build (values : list rv) (o : rop) : segtree :=
  let n := length values in
  let size := next_pow2 (Nat.max n 1) in
  let t0 := copy_at (repeat (identity o) (2 * size)) size values in
  (* for i in (1..size).rev() *)
  let t := fold_left (fun t i => upd t i (combine o (nth (2 * i) t RNull) (nth (2 * i + 1) t RNull)))
                     (rev (seq 1 (size - 1))) t0 in
  {| st_tree := t; st_op := o; st_size := size; st_n := n |}.

Fixpoint st_range_loop (fuel : nat) (t : list rv) (o : rop) (l r : nat) (acc : rv) : rv :=
  match fuel with
  | O => acc
  | S f =>
      if l <? r then
        let '(acc, l) := if Nat.odd l then (combine o acc (nth l t RNull), l + 1) else (acc, l) in
        let '(acc, r) := if Nat.odd r then (combine o acc (nth (r - 1) t RNull), r - 1) else (acc, r) in
        st_range_loop f t o (l / 2) (r / 2) acc
      else acc
  end.
Definition st_range (s : segtree) (lo hi : nat) : rv :=
  if (hi <? lo) || (st_n s <=? lo) then identity (st_op s)
  else st_range_loop (S (st_size s)) (st_tree s) (st_op s)
                     (lo + st_size s) (Nat.min hi (st_n s - 1) + st_size s + 1) (identity (st_op s)).

Fixpoint st_set_loop (fuel : nat) (t : list rv) (o : rop) (i : nat) : list rv :=
  match fuel with
  | O => t
  | S f => if 1 <? i then
             let i := i / 2 in
             st_set_loop f (upd t i (combine o (nth (2 * i) t RNull) (nth (2 * i + 1) t RNull))) o i
           else t
  end.
Definition st_set (s : segtree) (pos : nat) (v : rv) : segtree :=
  if st_n s <=? pos then s
  else let i := pos + st_size s in
       {| st_tree := st_set_loop (S (st_size s)) (upd (st_tree s) i v) (st_op s) i;
          st_op := st_op s; st_size := st_size s; st_n := st_n s |}.

(* ---------- encodings ---------- *)
Inductive enc :=
| ENested (tin tout inv : list nat)
| ENear (tin tout inv : list nat) (exc : list (nat * nat))
| EChain (chain_of : list (nat * nat)) (chains : list (list nat)) (reach : list (list (nat * nat))).

(* DFS pre-order of the subtree of v; fuel bounds the depth *)
Fixpoint preorder (fuel : nat) (ch : nat -> list nat) (v : nat) : list nat :=
  match fuel with
  | O => []
  | S f => v :: flat_map (preorder f ch) (ch v)
  end.

Definition nested_arrays (n : nat) (ch : nat -> list nat) (rts : list nat)
  : list nat * list nat * list nat :=
  let order := flat_map (preorder (S n) ch) rts in
  let tin := map (fun v => index_of v order) (seq 0 n) in
  let tout := map (fun v => index_of v order + length (preorder (S n) ch v) - 1) (seq 0 n) in
  (tin, tout, order).

Definition build_nested (p : poset) : enc :=
  let '(tin, tout, inv) := nested_arrays (pn p) (children p) (roots p) in ENested tin tout inv.

(* near-tree: first parent is the forest parent, the others are exceptions *)
Definition forest_children (p : poset) : list (list nat) :=
  fold_left (fun a c => match parents p c with [] => a | f :: _ => push_at a f c end)
            (nodes p) (repeat [] (pn p)).
Definition raw_exceptions (p : poset) : list (nat * nat) :=
  flat_map (fun c => match parents p c with [] => [] | _ :: r => map (fun q => (c, q)) r end) (nodes p).

Fixpoint insert_exc (tin : list nat) (e : nat * nat) (l : list (nat * nat)) : list (nat * nat) :=
  match l with
  | [] => [e]
  | f :: r => if nth (fst e) tin 0 <? nth (fst f) tin 0 then e :: l else f :: insert_exc tin e r
  end.

Definition build_near (p : poset) : enc :=
  let fc := forest_children p in
  let '(tin, tout, inv) := nested_arrays (pn p) (fun v => nth v fc []) (roots p) in
  ENear tin tout inv (fold_left (fun a e => insert_exc tin e a) (raw_exceptions p) []).

(* chain decomposition *)
Fixpoint grow_chain (fuel : nat) (p : poset) (v : nat) (used : list bool) : list nat * list bool :=
  match fuel with
  | O => ([], used)
  | S f =>
      let used := upd used v true in
      match find (fun c => negb (nth c used false)) (children p v) with
      | Some c => let '(ch, used') := grow_chain f p c used in (v :: ch, used')
      | None => ([v], used)
      end
  end.

Definition decompose_chains (p : poset) : list (list nat) :=
  fst (fold_left (fun (st : list (list nat) * list bool) u =>
                    let '(chains, used) := st in
                    if nth u used false then st
                    else let '(c, used') := grow_chain (S (pn p)) p u used in (chains ++ [c], used'))
                 (topo_down p) ([], repeat false (pn p))).

Fixpoint amin_insert (c m : nat) (l : list (nat * nat)) : list (nat * nat) :=
  match l with
  | [] => [(c, m)]
  | (c', m') :: r =>
      if c <? c' then (c, m) :: l
      else if c =? c' then (c', Nat.min m' m) :: r
      else (c', m') :: amin_insert c m r
  end.

Fixpoint assoc (c : nat) (l : list (nat * nat)) : option nat :=
  match l with
  | [] => None
  | (c', m) :: r => if c =? c' then Some m else assoc c r
  end.

Definition chain_of_table (n : nat) (chains : list (list nat)) : list (nat * nat) :=
  fst (fold_left (fun (st : list (nat * nat) * nat) chain =>
         let '(tbl, cid) := st in
         (fst (fold_left (fun (s2 : list (nat * nat) * nat) v =>
                 (upd (fst s2) v (cid, snd s2), S (snd s2))) chain (tbl, 0)), S cid))
       chains (repeat (0, 0) n, 0)).

Definition build_chain (p : poset) : enc :=
  let chains := decompose_chains p in
  let chain_of := chain_of_table (pn p) chains in
  let reach :=
    fold_left (fun (rm : list (list (nat * nat))) v =>
                 let '(cid, pos) := nth v chain_of (0, 0) in
                 let acc := fold_left (fun acc c =>
                              fold_left (fun acc (e : nat * nat) => amin_insert (fst e) (snd e) acc)
                                        (nth c rm []) acc)
                            (children p v) [(cid, pos)] in
                 upd rm v acc)
              (ptopo p) (repeat [] (pn p)) in
  EChain chain_of chains reach.

(* probe / build *)
Definition exception_cap_for (n : nat) : nat := N.to_nat (N.min (N.of_nat n / 20) 100000).
Definition width_cap_for (n : nat) : nat := Nat.max 64 (Nat.sqrt (64 * n)).

Inductive force := FAuto | FNested | FChain | FNear.

Definition build_enc (p : poset) (f : force) : enc + build_err :=
  match f with
  | FNested => if is_tree p then inl (build_nested p) else inr ENotATree
  | FNear => inl (build_near p)
  | FChain => inl (build_chain p)
  | FAuto =>
      if is_tree p then inl (build_nested p)
      else if extra_parent_count p <=? exception_cap_for (pn p) then inl (build_near p)
      else let w := length (decompose_chains p) in
           if (width_cap_for (pn p) <? w) && (100 <? pn p) then inr EWidthTooHigh
           else inl (build_chain p)
  end.

(* ---------- the index ---------- *)
Inductive rdata :=
| RFenwick (t : list Z)
| RSeg (s : segtree)
| RChainSuffix (suf : list (list rv))
| RFoldSet.

Record index := {
  ix_poset : poset;
  ix_enc : enc;
  ix_measure : option (list (option Z));
  ix_rollups : list (rop * rdata)
}.

Definition inside (tin tout : list nat) (a b : nat) : bool :=
  (nth b tin 0 <=? nth a tin 0) && (nth a tout 0 <=? nth b tout 0).

Fixpoint via_exception (fuel : nat) (tin tout : list nat) (exc : list (nat * nat))
         (x y : nat) (seen : list nat) : bool * list nat :=
  match fuel with
  | O => (false, seen)
  | S f =>
      (fix loop (es : list (nat * nat)) (seen : list nat) : bool * list nat :=
         match es with
         | [] => (false, seen)
         | (c, q) :: r =>
             if negb (inside tin tout x c) then loop r seen
             else if inside tin tout q y then (true, seen)
             else if memn q seen then loop r seen
             else let '(b, seen') := via_exception f tin tout exc q y (q :: seen) in
                  if b then (true, seen') else loop r seen'
         end) exc seen
  end.

Definition subsumes (ix : index) (x y : nat) : bool :=
  match ix_enc ix with
  | ENested tin tout _ => inside tin tout x y
  | ENear tin tout _ exc =>
      if inside tin tout x y then true
      else fst (via_exception (S (length exc)) tin tout exc x y [])
  | EChain chain_of _ reach =>
      let '(cid, pos) := nth x chain_of (0, 0) in
      match assoc cid (nth y reach []) with
      | Some m => m <=? pos
      | None => false
      end
  end.

Definition slice (l : list nat) (lo hi : nat) : list nat := firstn (hi + 1 - lo) (skipn lo l).

Fixpoint near_desc_loop (fuel : nat) (tin tout inv : list nat) (exc : list (nat * nat))
         (frontier seen : list nat) : list nat :=
  match fuel with
  | O => seen
  | S f =>
      match frontier with
      | [] => seen
      | cur :: rest =>
          let seen := slice inv (nth cur tin 0) (nth cur tout 0) ++ seen in
          let frontier :=
            fold_left (fun fr (e : nat * nat) =>
                         if inside tin tout (snd e) cur && negb (memn (fst e) seen)
                         then fst e :: fr else fr) exc rest in
          near_desc_loop f tin tout inv exc frontier seen
      end
  end.

Definition descendants (ix : index) (y : nat) : list nat :=
  match ix_enc ix with
  | ENested tin tout inv => slice inv (nth y tin 0) (nth y tout 0)
  | ENear tin tout inv exc =>
      (* the code's `while let Some(cur) = frontier.pop()` has no bound; this fuel is proved sufficient *)
      sort_dedup (near_desc_loop (2 * (S (pn (ix_poset ix))) * (length exc + 2)) tin tout inv exc [y] [])
  | EChain _ chains reach =>
      flat_map (fun e : nat * nat => skipn (snd e) (nth (fst e) chains [])) (nth y reach [])
  end.

Definition descendant_count (ix : index) (y : nat) : nat :=
  match ix_enc ix with
  | ENested tin tout _ => nth y tout 0 - nth y tin 0 + 1
  | ENear _ _ _ _ => length (descendants ix y)
  | EChain _ chains reach =>
      fold_left (fun a (e : nat * nat) => a + (length (nth (fst e) chains []) - snd e))
                (nth y reach []) 0
  end.

Fixpoint assoc_op (o : rop) (l : list (rop * rdata)) : option rdata :=
  match l with
  | [] => None
  | (o', d) :: r => if rop_eqb o o' then Some d else assoc_op o r
  end.
Definition set_op (o : rop) (d : rdata) (l : list (rop * rdata)) : list (rop * rdata) :=
  (o, d) :: filter (fun e => negb (rop_eqb o (fst e))) l.

(* suffix folds of one chain: suf[i] = combine(v_i, suf[i+1]), suf[len] = identity *)
Fixpoint suffix_folds (o : rop) (vals : list rv) : list rv :=
  match vals with
  | [] => [identity o]
  | v :: r => let s := suffix_folds o r in combine o v (hd RNull s) :: s
  end.

Definition by_rank (n : nat) (tin : list nat) (measure : list (option Z)) (o : rop) : list rv :=
  fst (fold_left (fun (st : list rv * nat) m =>
                    (upd (fst st) (nth (snd st) tin 0)
                         (rv_of m (match o with OSum => RInt 0 | _ => RNull end)), S (snd st)))
                 measure (repeat RNull n, 0)).

Definition rv_int (v : rv) : Z := match v with RInt z => z | RNull => 0%Z end.

Definition rollup_data (ix : index) (measure : list (option Z)) (o : rop) : rdata :=
  match ix_enc ix with
  | ENested tin _ _ =>
      let br := by_rank (pn (ix_poset ix)) tin measure o in
      if is_invertible o then RFenwick (fw_build (map rv_int br)) else RSeg (st_build br o)
  | ENear _ _ _ _ => RFoldSet
  | EChain _ chains _ =>
      RChainSuffix (map (fun chain =>
                           suffix_folds o (map (fun v => rv_of (nth v measure None) (identity o)) chain))
                        chains)
  end.

Definition set_measure (ix : index) (measure : list (option Z)) (ops : list rop) : index :=
  {| ix_poset := ix_poset ix; ix_enc := ix_enc ix; ix_measure := Some measure;
     ix_rollups := fold_left (fun acc o => match o with
                                           | OCount => acc
                                           | _ => set_op o (rollup_data ix measure o) acc
                                           end) ops [] |}.

(* refold suf[0..=pos] of one chain from the (already updated) measure *)
Fixpoint refold (o : rop) (chain : list nat) (measure : list (option Z)) (suf : list rv) (i : nat)
  : list rv :=
  let s := upd suf i (combine o (rv_of (nth (nth i chain 0) measure None) (identity o))
                               (nth (S i) suf RNull)) in
  match i with O => s | S i' => refold o chain measure s i' end.

Definition update_rdata (ix : index) (measure : list (option Z)) (idx : nat)
           (old value : option Z) (o : rop) (d : rdata) : rdata :=
  let rank := match ix_enc ix with
              | ENested tin _ _ | ENear tin _ _ _ => Some (nth idx tin 0)
              | EChain _ _ _ => None
              end in
  match d with
  | RFenwick t =>
      match rank with
      | Some r =>
          if is_invertible o then
            let delta := match value, old with
                         | Some n, Some ol => (n - ol)%Z
                         | Some n, None => n
                         | None, Some ol => (- ol)%Z
                         | None, None => 0%Z
                         end in
            RFenwick (fw_add t r delta)
          else d
      | None => d
      end
  | RSeg s => match rank with Some r => RSeg (st_set s r (rv_of value (identity o))) | None => d end
  | RChainSuffix sufs =>
      match ix_enc ix with
      | EChain chain_of chains _ =>
          let '(cid, pos) := nth idx chain_of (0, 0) in
          RChainSuffix (upd sufs cid (refold o (nth cid chains []) measure (nth cid sufs []) pos))
      | _ => d
      end
  | RFoldSet => d
  end.

(* update_measure by dense index; returns None when the code returns false *)
Definition update_measure (ix : index) (idx : nat) (value : option Z) : option index :=
  match ix_measure ix with
  | None => None
  | Some m =>
      let old := nth idx m None in
      let m' := upd m idx value in
      Some {| ix_poset := ix_poset ix; ix_enc := ix_enc ix; ix_measure := Some m';
              ix_rollups := map (fun e : rop * rdata =>
                                   (fst e, update_rdata ix m' idx old value (fst e) (snd e)))
                                (ix_rollups ix) |}
  end.

Definition rollup (ix : index) (y : nat) (o : rop) : option rv :=
  match o with
  | OCount => Some (RInt (Z.of_nat (descendant_count ix y)))
  | _ =>
      match assoc_op o (ix_rollups ix), ix_enc ix with
      | Some (RFenwick t), ENested tin tout _ => Some (RInt (fw_range t (nth y tin 0) (nth y tout 0)))
      | Some (RSeg s), ENested tin tout _ => Some (st_range s (nth y tin 0) (nth y tout 0))
      | Some RFoldSet, ENear _ _ _ _ =>
          match ix_measure ix with
          | None => None
          | Some m =>
              Some (fold_left (fun acc d => match nth d m None with
                                            | Some z => combine o acc (RInt z)
                                            | None => acc
                                            end) (descendants ix y) (identity o))
          end
      | Some (RChainSuffix sufs), EChain _ _ reach =>
          Some (fold_left (fun acc (e : nat * nat) =>
                             combine o acc (nth (snd e) (nth (fst e) sufs []) RNull))
                          (nth y reach []) (identity o))
      | _, _ => None
      end
  end.

Fixpoint lca_walk (fuel : nat) (ix : index) (y cur : nat) : list nat :=
  match fuel with
  | O => []
  | S f => if subsumes ix y cur then [cur]
           else match parents (ix_poset ix) cur with
                | q :: _ => lca_walk f ix y q
                | [] => []
                end
  end.

Definition lowest_common_ancestors (ix : index) (x y : nat) : list nat :=
  match ix_enc ix with
  | ENested _ _ _ => lca_walk (S (pn (ix_poset ix))) ix y x
  | _ =>
      let common := filter (fun c => subsumes ix x c && subsumes ix y c) (nodes (ix_poset ix)) in
      filter (fun c => negb (existsb (fun d => negb (Nat.eqb d c) && subsumes ix d c) common)) common
  end.

Definition build_index (n : nat) (edges : list (nat * nat)) (f : force) : index + build_err :=
  match from_edges n edges with
  | inr e => inr e
  | inl p => match build_enc p f with
             | inr e => inr e
             | inl en => inl {| ix_poset := p; ix_enc := en; ix_measure := None; ix_rollups := [] |}
             end
  end.

(* ---------- specification (brute force over the covering relation) ---------- *)
(* executable reflexive-transitive closure: x reaches y through at most [fuel]-1 parent edges *)
Fixpoint reachb (fuel : nat) (par : nat -> list nat) (x y : nat) : bool :=
  match fuel with
  | O => false
  | S f => Nat.eqb x y || existsb (fun q => reachb f par q y) (par x)
  end.

Definition spec_subsumes (p : poset) (x y : nat) : bool := reachb (S (pn p)) (parents p) x y.
Definition spec_desc (p : poset) (y : nat) : list nat :=
  filter (fun x => spec_subsumes p x y) (nodes p).
Definition rollup_spec (p : poset) (measure : list (option Z)) (y : nat) (o : rop) : rv :=
  match o with
  | OCount => RInt (Z.of_nat (length (spec_desc p y)))
  | _ => fold_left (fun acc d => match nth d measure None with
                                 | Some z => combine o acc (RInt z)
                                 | None => acc
                                 end) (spec_desc p y) (identity o)
  end.
Definition spec_lca (p : poset) (x y : nat) : list nat :=
  let common := filter (fun c => spec_subsumes p x c && spec_subsumes p y c) (nodes p) in
  filter (fun c => negb (existsb (fun d => negb (Nat.eqb d c) && spec_subsumes p d c) common)) common.

(* ---------- manager entry: the stale-flag state machine ---------- *)
Record entry := {
  e_types : list nat;            (* spec.edge_types (interned names) *)
  e_prop : option nat;           (* spec.measure.property *)
  e_label : option nat;          (* spec.measure.label (interned); None = not restricted *)
  e_elig : option (list nat);    (* measure_nodes: dense indices carrying the measure label at
                                    build time; None = measure not restricted to a label *)
  e_index : option index;        (* None = declined *)
  e_stale : bool
}.
Definition usable (e : entry) : bool :=
  match e_index e with Some _ => negb (e_stale e) | None => false end.

Definition e_with (e : entry) (ix : option index) (st : bool) : entry :=
  {| e_types := e_types e; e_prop := e_prop e; e_label := e_label e; e_elig := e_elig e;
     e_index := ix; e_stale := st |}.

Inductive mop :=
| MEdgeWrite (ty : nat)                              (* create/delete edge of this type *)
| MMeasureWrite (prop node : nat) (v : option Z)     (* set property; node = dense index, or >= n when outside *)
| MPropRemove (prop node : nat)                      (* GraphStore::remove_node_property: reaches the
                                                        manager as a write of Null *)
| MLabelWrite (lab : nat)                            (* add_label_to_node / remove_label_from_node *)
| MRebuild (fresh : option index) (elig : option (list nat)).  (* the entry produced by build_entry *)

Definition eligible (e : entry) (node : nat) : bool :=
  match e_elig e with None => true | Some l => memn node l end.

Definition measure_write (e : entry) (prop node : nat) (v : option Z) : entry :=
  match e_prop e with
  | Some pr =>
      if Nat.eqb pr prop then
        match e_index e with
        | Some ix =>
            if node <? pn (ix_poset ix) then
              if eligible e node then
                match update_measure ix node v with
                | Some ix' => e_with e (Some ix') (e_stale e)
                | None => e_with e (e_index e) true
                end
              else e            (* hierarchy node without the measure label: not part of the measure *)
            else e_with e (e_index e) true
        | None => e_with e None true
        end
      else e
  | None => e
  end.

Definition m_step (e : entry) (o : mop) : entry :=
  match o with
  | MEdgeWrite ty => if memn ty (e_types e) then e_with e (e_index e) true else e
  | MMeasureWrite prop node v => measure_write e prop node v
  | MPropRemove prop node => measure_write e prop node None
  | MLabelWrite lab =>
      match e_label e with
      | Some l => if Nat.eqb l lab then e_with e (e_index e) true else e
      | None => e
      end
  | MRebuild fresh elig =>
      {| e_types := e_types e; e_prop := e_prop e; e_label := e_label e; e_elig := elig;
         e_index := fresh; e_stale := false |}
  end.

(* ghost: the measure the graph currently holds for the index's nodes (dense-indexed, label
   restriction applied), maintained next to the entry.  [synced] is what "after any sequence of
   measure updates the roll-ups equal the brute-force answers" needs from the manager. *)
Definition g_step (e : entry) (g : list (option Z)) (o : mop) : list (option Z) :=
  match o with
  | MEdgeWrite _ => g
  | MMeasureWrite prop node v =>
      match e_prop e with
      | Some pr => if Nat.eqb pr prop && eligible e node then upd g node v else g
      | None => g
      end
  | MPropRemove prop node =>
      match e_prop e with
      | Some pr => if Nat.eqb pr prop && eligible e node then upd g node None else g
      | None => g
      end
  | MLabelWrite _ => g      (* a write of the measure label makes the entry stale; the ghost is
                               re-read from the graph at the next rebuild *)
  | MRebuild fresh _ =>
      match fresh with
      | Some ix => match ix_measure ix with Some m => m | None => g end
      | None => g
      end
  end.

Fixpoint mg_run (e : entry) (g : list (option Z)) (ops : list mop) : entry * list (option Z) :=
  match ops with
  | [] => (e, g)
  | o :: r => mg_run (m_step e o) (g_step e g o) r
  end.

Definition synced (e : entry) (g : list (option Z)) : Prop :=
  usable e = true -> exists ix, e_index e = Some ix /\ ix_measure ix = Some g.

(* ---------- correspondence cases ---------- *)
Inductive step :=
| QSub (x y : N) (r : option bool)            (* None = the implementation panicked *)
| QDesc (y : N) (r : option (list N))
| QCount (y : N) (r : option N)
| QRoll (y : N) (o : rop) (r : option (option rv))
| QLca (x y : N) (r : option (list N))
| QAllSub (r : list bool)                     (* all pairs, row-major x then y *)
| SetMeasure (m : list (option Z)) (ops : list rop)
| UpdMeasure (node : N) (v : option Z) (r : bool).

(* enc: 0 nested 1 chain 2 near; err: 0 cycle 1 not-a-tree 2 width *)
Inductive built := BOk (code : N) | BErr (code : N).

(* manager histories (HierarchyIndexManager on a GraphStore); node ids are graph ids.
   Every step carries what was observed right after it: usable flag and rollup_id answers. *)
Definition mobs := (bool * list (N * rop * option rv))%type.
Inductive hstep :=
| HEdgeWrite (covering : bool)                                  (* create/delete of an edge *)
| HPropWrite (is_measure : bool) (node : N) (v : option Z)      (* set_column_property *)
| HPropRemove (is_measure : bool) (node : N)                    (* remove_node_property *)
| HLabelWrite (is_measure_label : bool)                         (* add/remove of a label on a node *)
| HRebuild (edges : list (N * N)) (elig : option (list N)) (measure : list (N * option Z)).
  (* graph as read by rebuild: IS_A edges, ids carrying the measure label (None = unrestricted),
     raw column values *)

Inductive case :=
| CDirect (n : N) (edges : list (N * N)) (f : N) (b : built) (script : list step)
  (* forced encoding: 0 auto 1 nested 2 chain 3 near *)
| CMgr (edges : list (N * N)) (elig : option (list N)) (measure : list (N * option Z)) (ops : list rop)
       (o0 : mobs) (hist : list (hstep * mobs)).

Definition enc_code (e : enc) : N :=
  match e with ENested _ _ _ => 0 | EChain _ _ _ => 1 | ENear _ _ _ _ => 2 end%N.
Definition err_code (e : build_err) : N :=
  match e with ENotAcyclic => 0 | ENotATree => 1 | EWidthTooHigh => 2 end%N.
Definition force_of (f : N) : force :=
  match f with 1 => FNested | 2 => FChain | 3 => FNear | _ => FAuto end%N.

Definition nl (l : list nat) : list N := map N.of_nat l.
Definition opt_rv_eqb := option_eqb rv_eqb.

Definition in_range (ix : index) (x : nat) : bool := x <? pn (ix_poset ix).

Definition check_step (ix : index) (s : step) : bool * index :=
  match s with
  | QSub x y r =>
      let (x, y) := (N.to_nat x, N.to_nat y) in
      (option_eqb Bool.eqb r (if in_range ix x && in_range ix y then Some (subsumes ix x y) else None), ix)
  | QDesc y r =>
      let y := N.to_nat y in
      (option_eqb (list_eqb N.eqb) r (if in_range ix y then Some (nl (descendants ix y)) else None), ix)
  | QCount y r =>
      let y := N.to_nat y in
      (option_eqb N.eqb r (if in_range ix y then Some (N.of_nat (descendant_count ix y)) else None), ix)
  | QRoll y o r =>
      let y := N.to_nat y in
      (option_eqb opt_rv_eqb r (if in_range ix y then Some (rollup ix y o) else None), ix)
  | QLca x y r =>
      let (x, y) := (N.to_nat x, N.to_nat y) in
      (option_eqb (list_eqb N.eqb) r
         (if in_range ix x && in_range ix y then Some (nl (lowest_common_ancestors ix x y)) else None), ix)
  | QAllSub r =>
      let ns := nodes (ix_poset ix) in
      (list_eqb Bool.eqb r (flat_map (fun x => map (fun y => subsumes ix x y) ns) ns), ix)
  | SetMeasure m ops => (true, set_measure ix m ops)
  | UpdMeasure node v r =>
      let node := N.to_nat node in
      if in_range ix node then
        match update_measure ix node v with
        | Some ix' => (Bool.eqb r true, ix')
        | None => (Bool.eqb r false, ix)
        end
      else (Bool.eqb r false, ix)
  end.

Fixpoint check_steps (ix : index) (l : list step) : bool :=
  match l with
  | [] => true
  | s :: r => let '(ok, ix') := check_step ix s in ok && check_steps ix' r
  end.

(* build_entry: Poset::from_store (sparse ids interned in edge order) + build + set_measure *)
Definition build_entry (edges : list (N * N)) (elig : option (list N))
           (measure : list (N * option Z)) (ops : list rop)
  : option (list nat * option index * option (list nat)) :=
  let es := map (fun e : N * N => (N.to_nat (fst e), N.to_nat (snd e))) edges in
  let ids := intern_all [] es in
  let dense := map (fun e : nat * nat => (index_of (fst e) ids, index_of (snd e) ids)) es in
  let has_label := fun id => match elig with
                             | None => true
                             | Some l => existsb (fun x => Nat.eqb (N.to_nat x) id) l
                             end in
  match build_index (length ids) dense FAuto with
  | inr ENotAcyclic => None                 (* create/rebuild return Err; nothing is replaced *)
  | inr _ => Some (ids, None, None)         (* declined: registered without an index *)
  | inl ix =>
      (* read_node_measure: the property of nodes carrying the label, nothing for the others *)
      let m := map (fun id => if has_label id then
                                match find (fun e : N * option Z => Nat.eqb (N.to_nat (fst e)) id) measure with
                                | Some e => snd e | None => None end
                              else None) ids in
      let el := match elig with
                | None => None
                | Some _ => Some (filter (fun d => has_label (nth d ids 0)) (seq 0 (length ids)))
                end in
      Some (ids, Some (set_measure ix m ops), el)
  end.

Record mstate := { ms_ids : list nat; ms_entry : entry }.

Definition dense_of (s : mstate) (node : N) : nat :=
  let id := N.to_nat node in
  if memn id (ms_ids s) then index_of id (ms_ids s) else length (ms_ids s).

Definition h_step (ops : list rop) (s : mstate) (h : hstep) : mstate :=
  match h with
  | HEdgeWrite cov =>
      {| ms_ids := ms_ids s; ms_entry := m_step (ms_entry s) (MEdgeWrite (if cov then 0 else 1)) |}
  | HPropWrite ism node v =>
      {| ms_ids := ms_ids s;
         ms_entry := m_step (ms_entry s) (MMeasureWrite (if ism then 0 else 1) (dense_of s node) v) |}
  | HPropRemove ism node =>
      {| ms_ids := ms_ids s;
         ms_entry := m_step (ms_entry s) (MPropRemove (if ism then 0 else 1) (dense_of s node)) |}
  | HLabelWrite isl =>
      {| ms_ids := ms_ids s; ms_entry := m_step (ms_entry s) (MLabelWrite (if isl then 0 else 1)) |}
  | HRebuild edges elig measure =>
      match build_entry edges elig measure ops with
      | Some (ids, ix, el) => {| ms_ids := ids; ms_entry := m_step (ms_entry s) (MRebuild ix el) |}
      | None => s
      end
  end.

Definition obs_ok (s : mstate) (o : mobs) : bool :=
  let '(u, rolls) := o in
  Bool.eqb u (usable (ms_entry s)) &&
  forallb (fun q : N * rop * option rv =>
             let '(id, op, r) := q in
             let id := N.to_nat id in
             opt_rv_eqb r
               (match e_index (ms_entry s) with
                | Some ix => if memn id (ms_ids s) then rollup ix (index_of id (ms_ids s)) op else None
                | None => None
                end)) rolls.

Fixpoint check_hist (ops : list rop) (s : mstate) (l : list (hstep * mobs)) : bool :=
  match l with
  | [] => true
  | (h, o) :: r => let s' := h_step ops s h in obs_ok s' o && check_hist ops s' r
  end.

Definition check_case (c : case) : bool :=
  match c with
  | CDirect n edges f b script =>
      let edges := map (fun e : N * N => (N.to_nat (fst e), N.to_nat (snd e))) edges in
      match build_index (N.to_nat n) edges (force_of f), b with
      | inr e, BErr code => N.eqb (err_code e) code
      | inl ix, BOk code => N.eqb (enc_code (ix_enc ix)) code && check_steps ix script
      | _, _ => false
      end
  | CMgr edges elig measure ops o0 hist =>
      match build_entry edges elig measure ops with
      | Some (ids, ix, el) =>
          let s := {| ms_ids := ids;
                      ms_entry := {| e_types := [0]; e_prop := Some 0;
                                     e_label := match elig with Some _ => Some 0 | None => None end;
                                     e_elig := el; e_index := ix; e_stale := false |} |} in
          obs_ok s o0 && check_hist ops s hist
      | None => false
      end
  end.
