(* Reference semantics for the write part of the Cypher fragment (C04):
   CREATE, MERGE (node / relationship pattern, ON CREATE / ON MATCH SET),
   SET (property, +=, labels), REMOVE (property, labels), DELETE / DETACH DELETE,
   preceded by reading clauses (MATCH / UNWIND / WITH of Cypher.v) and followed
   by an optional RETURN.  Update clauses work row at a time, in row order, each
   row seeing what the rows before it did (a MERGE in row i matches what row
   j < i created).  openCypher does not fix the row order: a statement whose
   outcome depends on it is [Undet] (decided here by running the rows in both
   directions).  A node deleted without DETACH may keep relationships until the
   end of the statement; if any relationship is left without an endpoint then,
   the statement is an error and nothing changes.
   Executable; no proofs here.  Builds on CypherCore.v / Cypher.v (read side). *)
From Coq Require Import List NArith ZArith Bool.
From Verif Require Import CypherCore Cypher.
Import ListNotations.
Open Scope N_scope.

(* ---------- statements ---------- *)
Inductive setitem :=
| SetProp (x k : N) (e : expr)                 (* SET x.k = e   (null removes) *)
| SetMap (x : N) (kvs : list (N * expr))    (* SET x += {k: e, ...} *)
| SetLabels (x : N) (ls : list N).             (* SET x:L1:L2 *)

Inductive remitem :=
| RemProp (x k : N)                            (* REMOVE x.k *)
| RemLabels (x : N) (ls : list N).             (* REMOVE x:L1:L2 *)

(* a relationship of a CREATE / MERGE pattern: exactly one type, a direction *)
Record crel := CR { cr_var : option N; cr_type : N; cr_out : bool; cr_props : list (N * expr) }.
Definition cpath := (npat expr * list (crel * npat expr))%type.

Inductive uclause :=
| UCreate (ps : list cpath)
| UMerge (p : cpath) (on_create on_match : list setitem)
| USet (items : list setitem)
| URemove (items : list remitem)
| UDelete (detach : bool) (xs : list N).

Record stmt := ST { s_reads : list clause; s_updates : list uclause; s_ret : option proj }.

(* ---------- configuration ----------
   [ref_w] is the reference (openCypher).  [eng_w] switches on the deviations of the
   pinned engine that are recorded as known findings (known_findings.txt), so that a
   statement in such a class is still compared - against what the engine is known to do. *)
Record wcfg := WC {
  wc_null_removes : bool;   (* storing null removes the property (engine: stores a null value) *)
  wc_set_errors : bool;     (* an error in the right-hand side of SET x.k = e is an error (engine: null) *)
  wc_merge_all : bool       (* MERGE binds every match (engine: the first one only) *) }.
Definition ref_w : wcfg := WC true true true.
Definition eng_w : wcfg := WC false false false.

(* ---------- graph primitives ---------- *)
Definition max_id (l : list N) : N := fold_left N.max l 0.
Definition fresh_node (g : graph) : N := 1 + max_id (map n_id (g_nodes g)).
Definition fresh_rel (g : graph) : N := 1 + max_id (map r_id (g_rels g)).

Fixpoint aset {A} (k : N) (v : A) (l : list (N * A)) : list (N * A) :=
  match l with
  | [] => [(k, v)]
  | (k', v') :: r => if N.eqb k k' then (k, v) :: r else (k', v') :: aset k v r
  end.
Definition adel {A} (k : N) (l : list (N * A)) : list (N * A) :=
  filter (fun kv => negb (N.eqb k (fst kv))) l.

(* storing null removes the property *)
Definition put_prop (wc : wcfg) (k : N) (v : value) (ps : list (N * value)) : list (N * value) :=
  match v with
  | VNull => if wc_null_removes wc then adel k ps else aset k v ps
  | _ => aset k v ps
  end.

(* what a property may hold: booleans, integers, strings, lists of those *)
Definition storable (v : value) : bool :=
  match v with
  | VNull | VBool _ | VInt _ | VStr _ => true
  | VList l => forallb (fun x => match x with VNull | VNode _ | VRel _ | VList _ => false | _ => true end) l
  | VNode _ | VRel _ => false
  end.

Definition map_node (g : graph) (i : N) (f : node -> node) : graph :=
  Build_graph (map (fun n => if N.eqb (n_id n) i then f n else n) (g_nodes g)) (g_rels g).
Definition map_rel (g : graph) (i : N) (f : rel -> rel) : graph :=
  Build_graph (g_nodes g) (map (fun r => if N.eqb (r_id r) i then f r else r) (g_rels g)).

Definition set_node_prop (wc : wcfg) (g : graph) (i k : N) (v : value) : graph :=
  map_node g i (fun n => Build_node (n_id n) (n_labels n) (put_prop wc k v (n_props n))).
Definition set_rel_prop (wc : wcfg) (g : graph) (i k : N) (v : value) : graph :=
  map_rel g i (fun r => Build_rel (r_id r) (r_src r) (r_tgt r) (r_type r) (put_prop wc k v (r_props r))).

Definition add_labels (ls : list N) (old : list N) : list N :=
  fold_left (fun acc l => if memN l acc then acc else acc ++ [l]) ls old.
Definition node_add_labels (g : graph) (i : N) (ls : list N) : graph :=
  map_node g i (fun n => Build_node (n_id n) (add_labels ls (n_labels n)) (n_props n)).
Definition node_remove_labels (g : graph) (i : N) (ls : list N) : graph :=
  map_node g i (fun n => Build_node (n_id n) (filter (fun l => negb (memN l ls)) (n_labels n)) (n_props n)).

Definition add_node (g : graph) (n : node) : graph := Build_graph (g_nodes g ++ [n]) (g_rels g).
Definition add_rel (g : graph) (r : rel) : graph := Build_graph (g_nodes g) (g_rels g ++ [r]).

Definition incident (i : N) (r : rel) : bool := N.eqb (r_src r) i || N.eqb (r_tgt r) i.

(* DELETE n: the node goes, its relationships stay (dangling until the end-of-statement check) *)
Definition delete_node (g : graph) (i : N) : graph :=
  Build_graph (filter (fun n => negb (N.eqb (n_id n) i)) (g_nodes g)) (g_rels g).
(* DETACH DELETE n: the node and every relationship that starts or ends at it *)
Definition detach_delete_node (g : graph) (i : N) : graph :=
  Build_graph (filter (fun n => negb (N.eqb (n_id n) i)) (g_nodes g))
              (filter (fun r => negb (incident i r)) (g_rels g)).
Definition delete_rel (g : graph) (i : N) : graph :=
  Build_graph (g_nodes g) (filter (fun r => negb (N.eqb (r_id r) i)) (g_rels g)).

Definition has_node (g : graph) (i : N) : bool := existsb (fun n => N.eqb (n_id n) i) (g_nodes g).
(* no relationship without its endpoints *)
Definition well_formed (g : graph) : bool :=
  forallb (fun r => has_node g (r_src r) && has_node g (r_tgt r)) (g_rels g).

(* ---------- one row of an update clause ---------- *)
Section Row.
  Variables (wc : wcfg) (cf : cfg) (pe : penv).

  Definition non_null_props (ps : list (N * value)) : list (N * value) :=
    filter (fun kv => negb (value_eqb (snd kv) VNull)) ps.

  Definition props_storable (ps : list (N * value)) : bool := forallb (fun kv => storable (snd kv)) ps.

  (* a pattern with its property maps evaluated *)
  Definition vrel := (option N * N * bool * list (N * value))%type.      (* var, type, outgoing, props *)
  Definition vpath := (npat value * list (vrel * npat value))%type.

  Definition resolve_cpath (g : graph) (r : row) (p : cpath) : outcome vpath :=
    obind (resolve_npat cf g pe r (fst p)) (fun n0 =>
    obind (omap (fun s : crel * npat expr =>
                   obind (resolve_props cf g pe r (cr_props (fst s))) (fun ps =>
                   obind (resolve_npat cf g pe r (snd s)) (fun n1 =>
                     Ok ((cr_var (fst s), cr_type (fst s), cr_out (fst s), ps), n1))))
                (snd p)) (fun segs => Ok (n0, segs))).

  (* the node a pattern position stands for: the one already bound to its variable
     (the position must then be bare), or a new node *)
  Definition create_npat (g : graph) (r : row) (np : npat value) : outcome (graph * row * N) :=
    match match np_var np with Some x => alookup x r | None => None end with
    | Some (VNode i) =>
        match np_labels np, np_props np with
        | [], [] => Ok (g, r, i)
        | _, _ => ErrT
        end
    | Some _ => ErrT
    | None =>
        if props_storable (np_props np) then
          let i := fresh_node g in
          let n := Build_node i (add_labels (np_labels np) []) (fold_left (fun acc kv => put_prop wc (fst kv) (snd kv) acc) (np_props np) []) in
          Ok (add_node g n, match np_var np with Some x => (x, VNode i) :: r | None => r end, i)
        else ErrT
    end.

  Fixpoint create_segs (g : graph) (r : row) (u : N) (segs : list (vrel * npat value)) : outcome (graph * row) :=
    match segs with
    | [] => Ok (g, r)
    | ((rv, ty, out, rps), np) :: rest =>
        match match rv with Some x => alookup x r | None => None end with
        | Some _ => ErrT                              (* a relationship variable cannot be bound already *)
        | None =>
            obind (create_npat g r np) (fun gri =>
              let '(g1, r1, w) := gri in
              if props_storable rps then
                let i := fresh_rel g1 in
                let e := Build_rel i (if out then u else w) (if out then w else u) ty
                                   (fold_left (fun acc kv => put_prop wc (fst kv) (snd kv) acc) rps []) in
                create_segs (add_rel g1 e) (match rv with Some x => (x, VRel i) :: r1 | None => r1 end) w rest
              else ErrT)
        end
    end.

  Definition create_vpath (g : graph) (r : row) (p : vpath) : outcome (graph * row) :=
    obind (create_npat g r (fst p)) (fun gri => let '(g1, r1, u) := gri in create_segs g1 r1 u (snd p)).

  Definition create_path (gr : graph * row) (p : cpath) : outcome (graph * row) :=
    obind (resolve_cpath (fst gr) (snd gr) p) (create_vpath (fst gr) (snd gr)).

  Fixpoint ofold {A B} (f : A -> B -> outcome A) (l : list B) (a : A) : outcome A :=
    match l with
    | [] => Ok a
    | b :: r => obind (f a b) (ofold f r)
    end.

  (* ---- SET / REMOVE ---- *)
  Definition set_prop_on (g : graph) (target : value) (k : N) (v : value) : outcome graph :=
    if storable v then
      match target with
      | VNode i => Ok (set_node_prop wc g i k v)
      | VRel i => Ok (set_rel_prop wc g i k v)
      | VNull => Ok g
      | _ => ErrT
      end
    else ErrT.

  Definition apply_set (r : row) (g : graph) (it : setitem) : outcome graph :=
    match it with
    | SetProp x k e =>
        match alookup x r with
        | None => ErrT
        | Some t =>
            match eval_expr cf g pe r e with
            | Ok v => set_prop_on g t k v
            | Undet => Undet
            | ErrT => if wc_set_errors wc then ErrT else set_prop_on g t k VNull
            | ErrA => if wc_set_errors wc then ErrA else set_prop_on g t k VNull
            end
        end
    | SetMap x kvs =>
        match alookup x r with
        | None => ErrT
        | Some t =>
            (* the map is evaluated first, then merged into the target *)
            obind (resolve_props cf g pe r kvs) (fun ps =>
              ofold (fun g kv => set_prop_on g t (fst kv) (snd kv)) ps g)
        end
    | SetLabels x ls =>
        match alookup x r with
        | Some (VNode i) => Ok (node_add_labels g i ls)
        | Some VNull => Ok g
        | _ => ErrT
        end
    end.

  Definition apply_remove (r : row) (g : graph) (it : remitem) : outcome graph :=
    match it with
    | RemProp x k =>
        match alookup x r with
        | Some (VNode i) => Ok (set_node_prop ref_w g i k VNull)
        | Some (VRel i) => Ok (set_rel_prop ref_w g i k VNull)
        | Some VNull => Ok g
        | _ => ErrT
        end
    | RemLabels x ls =>
        match alookup x r with
        | Some (VNode i) => Ok (node_remove_labels g i ls)
        | Some VNull => Ok g
        | _ => ErrT
        end
    end.

  Definition apply_delete (detach : bool) (r : row) (g : graph) (x : N) : outcome graph :=
    match alookup x r with
    | Some (VNode i) => Ok (if detach then detach_delete_node g i else delete_node g i)
    | Some (VRel i) => Ok (delete_rel g i)
    | Some VNull => Ok g
    | _ => ErrT
    end.

  (* ---- MERGE ---- *)
  Definition vpath_ppat (p : vpath) : ppat value :=
    (fst p, map (fun s : vrel * npat value =>
                   let '(rv, ty, out, rps) := fst s in
                   (RP rv [ty] (if out then DOut else DIn) rps None, snd s)) (snd p)).

  Definition vpath_has_null (p : vpath) : bool :=
    let bad := existsb (fun kv : N * value => value_eqb (snd kv) VNull) in
    bad (np_props (fst p))
    || existsb (fun s : vrel * npat value => bad (snd (fst s)) || bad (np_props (snd s))) (snd p).

  (* one input row: every match of the pattern (ON MATCH applied to each), or, when
     there is none, the whole pattern created (ON CREATE applied) *)
  Definition merge_row (p : cpath) (on_create on_match : list setitem) (g : graph) (r : row)
    : outcome (graph * list row) :=
    obind (resolve_cpath g r p) (fun vp =>
      if vpath_has_null vp then ErrT
      else
        match match_rows true g [vpath_ppat vp] r with
        | [] =>
            obind (create_vpath g r vp) (fun gr =>
            obind (ofold (apply_set (snd gr)) on_create (fst gr)) (fun g2 => Ok (g2, [snd gr])))
        | ms =>
            let ms := if wc_merge_all wc then ms else firstn 1 ms in
            obind (ofold (fun g m => ofold (apply_set m) on_match g) ms g) (fun g2 => Ok (g2, ms))
        end).

  (* ---- an update clause over all rows, in order ---- *)
  Definition per_row (f : graph -> row -> outcome (graph * list row)) (g : graph) (rows : list row)
    : outcome (graph * list row) :=
    ofold (fun (acc : graph * list row) r =>
             obind (f (fst acc) r) (fun gr => Ok (fst gr, snd acc ++ snd gr))) rows (g, []).

  Definition exec_uclause (u : uclause) (g : graph) (rows : list row) : outcome (graph * list row) :=
    match u with
    | UCreate ps => per_row (fun g r => obind (ofold create_path ps (g, r)) (fun gr => Ok (fst gr, [snd gr]))) g rows
    | UMerge p oc om => per_row (merge_row p oc om) g rows
    | USet items => per_row (fun g r => obind (ofold (apply_set r) items g) (fun g' => Ok (g', [r]))) g rows
    | URemove items => per_row (fun g r => obind (ofold (apply_remove r) items g) (fun g' => Ok (g', [r]))) g rows
    | UDelete d xs => per_row (fun g r => obind (ofold (apply_delete d r) xs g) (fun g' => Ok (g', [r]))) g rows
    end.

  Definition exec_updates (us : list uclause) (g : graph) (rows : list row) : outcome (graph * list row) :=
    ofold (fun (acc : graph * list row) u => exec_uclause u (fst acc) (snd acc)) us (g, rows).

  Definition ret_table (g : graph) (rows : list row) (ret : option proj) : outcome table :=
    match ret with
    | None => Ok []
    | Some p => obind (project_sorted cf g pe true p rows) (fun ks => Ok (map (fun k : keyed => map snd (snd k)) (window p ks)))
    end.

  (* the statement with its rows taken in the given order, or reversed *)
  Definition exec_ordered (rev_rows : bool) (g : graph) (s : stmt) : outcome (graph * table) :=
    obind (eval_clauses cf g pe (s_reads s) [[]]) (fun rows =>
    obind (exec_updates (s_updates s) g (if rev_rows then rev rows else rows)) (fun gr =>
      if well_formed (fst gr) then
        obind (ret_table (fst gr) (snd gr) (s_ret s)) (fun t => Ok (fst gr, t))
      else ErrT)).
End Row.

(* ---------- comparing graphs: exactly on the ids of [old], up to a renaming of the rest ---------- *)
Fixpoint insert_kv (kv : N * value) (l : list (N * value)) : list (N * value) :=
  match l with
  | [] => [kv]
  | y :: r => if N.leb (fst kv) (fst y) then kv :: l else y :: insert_kv kv r
  end.
Definition norm_props (ps : list (N * value)) : list (N * value) := fold_right insert_kv [] ps.
Definition props_eqb (a b : list (N * value)) : bool :=
  list_eqb (fun x y : N * value => N.eqb (fst x) (fst y) && value_eqb (snd x) (snd y)) (norm_props a) (norm_props b).
Definition set_eqb (a b : list N) : bool := forallb (fun x => memN x b) a && forallb (fun x => memN x a) b.

Definition node_same (a b : node) : bool := set_eqb (n_labels a) (n_labels b) && props_eqb (n_props a) (n_props b).

(* sigma : model id -> observed id, on new nodes; identity elsewhere *)
Definition rename (sigma : list (N * N)) (i : N) : N := match alookup i sigma with Some j => j | None => i end.

Definition rel_key_eqb (a b : rel) : bool :=
  N.eqb (r_src a) (r_src b) && N.eqb (r_tgt a) (r_tgt b) && N.eqb (r_type a) (r_type b) && props_eqb (r_props a) (r_props b).

Fixpoint rels_sub_bag (xs ys : list rel) : bool :=
  match xs with
  | [] => true
  | x :: xs' => match remove_first rel_key_eqb x ys with Some ys' => rels_sub_bag xs' ys' | None => false end
  end.

Definition graph_eq_under (old_nodes old_rels : list N) (sigma : list (N * N)) (gm go : graph) : bool :=
  (* nodes: every model node has its (renamed) counterpart with the same content, and the counts agree *)
  Nat.eqb (length (g_nodes gm)) (length (g_nodes go))
  && forallb (fun n => match find_node go (rename sigma (n_id n)) with Some m => node_same n m | None => false end) (g_nodes gm)
  (* old relationships by id, new ones as a bag of (endpoints, type, properties) *)
  && Nat.eqb (length (g_rels gm)) (length (g_rels go))
  && forallb (fun r => if memN (r_id r) old_rels
                       then match find_rel go (r_id r) with Some q => rel_key_eqb r q | None => false end
                       else true) (g_rels gm)
  && rels_sub_bag
       (map (fun r => Build_rel 0 (rename sigma (r_src r)) (rename sigma (r_tgt r)) (r_type r) (r_props r))
            (filter (fun r => negb (memN (r_id r) old_rels)) (g_rels gm)))
       (filter (fun r => negb (memN (r_id r) old_rels)) (g_rels go)).

Fixpoint perms {A} (l : list A) : list (list A) :=
  match l with
  | [] => [[]]
  | x :: r =>
      flat_map (fun p => (fix ins (pre post : list A) : list (list A) :=
                            (pre ++ x :: post) ::
                            match post with [] => [] | y :: post' => ins (pre ++ [y]) post' end) [] p)
               (perms r)
  end.

(* old = the ids of the graph before the statement *)
Definition graph_iso (old_nodes old_rels : list N) (gm go : graph) : bool :=
  let newm := filter (fun i => negb (memN i old_nodes)) (map n_id (g_nodes gm)) in
  let newo := filter (fun i => negb (memN i old_nodes)) (map n_id (g_nodes go)) in
  if Nat.eqb (length newm) (length newo) then
    if graph_eq_under old_nodes old_rels (combine newm newo) gm go then true
    else if Nat.leb (length newm) 5
         then existsb (fun p => graph_eq_under old_nodes old_rels (combine newm p) gm go) (perms newo)
         else false
  else false.

(* ---------- the statement ---------- *)
Definition exec_stmt_cfg (wc : wcfg) (cf : cfg) (g : graph) (s : stmt) : outcome (graph * table) :=
  match exec_ordered wc cf [] false g s, exec_ordered wc cf [] true g s with
  | Ok (g1, t1), Ok (g2, t2) =>
      if graph_iso (map n_id (g_nodes g)) (map r_id (g_rels g)) g1 g2 && bag_eqb t1 t2
      then Ok (g1, t1) else Undet
  | Ok _, _ | _, Ok _ => Undet
  | e, _ => e
  end.

Definition exec_stmt (g : graph) (s : stmt) : outcome (graph * table) := exec_stmt_cfg ref_w ref_cfg g s.

(* ---------- correspondence ---------- *)
(* the harness writes the reading clauses and the RETURN as a one-part query of Cypher.v *)
Definition mk_stmt (q : query) (has_ret : bool) (us : list uclause) : stmt :=
  match q_parts q with
  | s :: _ => ST (q_clauses s) us (if has_ret then Some (q_ret s) else None)
  | [] => ST [] us None
  end.

Inductive wobs :=
| WOk (after : graph) (rows : table)
| WErr (after : graph)
| WPanic.

Record wcase := WCase { w_graph : graph; w_stmt : stmt; w_obs : wobs }.

Definition check_with (wc : wcfg) (c : wcase) : bool :=
  let g := w_graph c in
  match w_obs c with
  | WPanic => false
  | WErr after =>
      match exec_stmt_cfg wc ref_cfg g (w_stmt c) with
      | Ok _ => false
      | Undet => true
      (* refused: nothing may have changed *)
      | _ => graph_iso (map n_id (g_nodes g)) (map r_id (g_rels g)) g after
      end
  | WOk after rows =>
      match exec_stmt_cfg wc ref_cfg g (w_stmt c) with
      | Ok (g1, t1) => graph_iso (map n_id (g_nodes g)) (map r_id (g_rels g)) g1 after && bag_eqb t1 rows
      | Undet => true
      | _ => false
      end
  end.

(* the case is answered as [eng_w] says and not as the reference says: a known class *)
Definition Known_C04 (c : wcase) : bool := negb (check_with ref_w c) && check_with eng_w c.

(* = check_with ref_w c || Known_C04 c *)
Definition check_wcase (c : wcase) : bool := check_with ref_w c || check_with eng_w c.
