(* Model of src/raft/storage.rs : RaftStorage (log Vec<LogEntry>, snapshot
   metadata; append_entries, delete_entries_from, create_snapshot, get_entry,
   get_entries, get_last_log_index_term, get_snapshot_metadata) -- the code as
   repaired (append truncates from the appended index, snapshot keeps the tail).
   None of these operations does arithmetic on u64, indexes a slice or unwraps,
   so there is no Panic outcome.  Executable; no proofs here. *)
From Coq Require Import List NArith ZArith Bool.
From Coq Require Uint63.
From Verif Require Import CheckLib.
Import ListNotations.
Open Scope N_scope.

Record entry := E { eidx : N; eterm : N; edata : list N }.

Record state := { log : list entry;            (* Vec<LogEntry>, in vector order *)
                  snap : option (N * N) }.     (* snapshot_metadata (index, term) *)

Inductive op :=
| Append (es : list entry)        (* append_entries(es) *)
| DeleteFrom (i : N)              (* delete_entries_from(i) *)
| Snapshot (i t : N).             (* create_snapshot(i, t, _) *)

Definition init : state := {| log := []; snap := None |}.

(* one iteration of the loop in append_entries:
   log.retain(|e| e.index < entry.index); log.push(entry) *)
Definition append1 (l : list entry) (e : entry) : list entry :=
  filter (fun x => eidx x <? eidx e) l ++ [e].

Definition step (s : state) (o : op) : state :=
  match o with
  | Append es => {| log := fold_left append1 es (log s); snap := snap s |}
  | DeleteFrom i => {| log := filter (fun x => eidx x <? i) (log s); snap := snap s |}
  | Snapshot i t => {| log := filter (fun x => i <? eidx x) (log s); snap := Some (i, t) |}
  end.

Definition run (ops : list op) : state := fold_left step ops init.

(* get_entry: first element of the vector with that index *)
Definition get_entry (s : state) (i : N) : option entry :=
  find (fun x => eidx x =? i) (log s).

(* get_entries(start, end): elements with start <= index < end, in vector order *)
Definition get_entries (s : state) (a b : N) : list entry :=
  filter (fun x => (a <=? eidx x) && (eidx x <? b)) (log s).

Fixpoint last_opt {A} (l : list A) : option A :=
  match l with
  | [] => None
  | [x] => Some x
  | _ :: r => last_opt r
  end.

(* get_last_log_index_term: last element of the vector, else snapshot, else (0,0) *)
Definition last_index_term (s : state) : N * N :=
  match last_opt (log s) with
  | Some e => (eidx e, eterm e)
  | None => match snap s with Some p => p | None => (0, 0) end
  end.

(* ---- reference: Raft's log as a partial map index -> entry ---- *)
Record rstate := { rmap : N -> option entry; rsnap : option (N * N) }.

Definition rinit : rstate := {| rmap := fun _ => None; rsnap := None |}.

(* an appended entry replaces whatever was at its index and removes everything after *)
Definition r_append1 (m : N -> option entry) (e : entry) : N -> option entry :=
  fun i => if i <? eidx e then m i else if i =? eidx e then Some e else None.

Definition rstep (r : rstate) (o : op) : rstate :=
  match o with
  | Append es => {| rmap := fold_left r_append1 es (rmap r); rsnap := rsnap r |}
  | DeleteFrom k => {| rmap := fun i => if i <? k then rmap r i else None; rsnap := rsnap r |}
  | Snapshot k t => {| rmap := fun i => if k <? i then rmap r i else None; rsnap := Some (k, t) |}
  end.

Definition rrun (ops : list op) : rstate := fold_left rstep ops rinit.

(* extensional equality of reference states *)
Definition req (a b : rstate) : Prop :=
  (forall i, rmap a i = rmap b i) /\ rsnap a = rsnap b.

(* what the implementation state denotes *)
Definition abs (s : state) : rstate := {| rmap := get_entry s; rsnap := snap s |}.

(* ---- correspondence ---- *)
Definition entry_eqb (a b : entry) : bool :=
  (eidx a =? eidx b) && (eterm a =? eterm b) && list_eqb N.eqb (edata a) (edata b).

Definition pair_eqb (a b : N * N) : bool := (fst a =? fst b) && (snd a =? snd b).

(* observation after an operation:
   get_entry i for i = 0..6, get_entries(0,7), get_entries(2,5),
   get_entries(0, 2^64-1), get_last_log_index_term, get_snapshot_metadata *)
Definition obs := (list (option entry) * list entry * list entry * list entry * (N * N) * option (N * N))%type.

Definition probe : list N := [0; 1; 2; 3; 4; 5; 6].
Definition umax : N := 18446744073709551615.

Definition observe (s : state) : obs :=
  (map (get_entry s) probe, get_entries s 0 7, get_entries s 2 5, get_entries s 0 umax,
   last_index_term s, snap s).

Definition obs_eqb (a b : obs) : bool :=
  let '(g1, r1, q1, w1, l1, s1) := a in
  let '(g2, r2, q2, w2, l2, s2) := b in
  list_eqb (option_eqb entry_eqb) g1 g2 && list_eqb entry_eqb r1 r2 && list_eqb entry_eqb q1 q2
  && list_eqb entry_eqb w1 w2 && pair_eqb l1 l2 && option_eqb pair_eqb s1 s2.

Fixpoint trace (s : state) (ops : list op) : list obs :=
  match ops with
  | [] => []
  | o :: r => let s' := step s o in observe s' :: trace s' r
  end.

(* -- exhaustive blocks: both sides enumerate every sequence of [depth] further
   operations over the same alphabet in the same order and fold the observation
   after the last operation of each sequence into one 63-bit number (machine
   integers, arithmetic modulo 2^63; used only here, never in a theorem) -- *)
Definition hint := Uint63.int.
Definition mix (h : hint) (x : N) : hint :=
  Uint63.add (Uint63.add (Uint63.add (Uint63.lsl h (Uint63.of_Z 5)) h) (Uint63.of_Z (Z.of_N x))) (Uint63.of_Z 1).

Definition enc_entry (h : hint) (e : entry) : hint :=
  fold_left mix (edata e) (mix (mix (mix h 7) (eidx e)) (eterm e)).
Definition enc_oentry (h : hint) (o : option entry) : hint :=
  match o with None => mix h 3 | Some e => enc_entry h e end.
Definition enc_list (h : hint) (l : list entry) : hint := mix (fold_left enc_entry l (mix h 11)) 13.
Definition enc_obs (h : hint) (o : obs) : hint :=
  let '(g, r, q, w, l, s) := o in
  let h := fold_left enc_oentry g h in
  let h := enc_list (enc_list (enc_list h r) q) w in
  let h := mix (mix h (fst l)) (snd l) in
  match s with None => mix h 5 | Some p => mix (mix (mix h 9) (fst p)) (snd p) end.

Fixpoint seqN (start : N) (n : nat) : list N :=
  match n with O => [] | S k => start :: seqN (start + 1) k end.

(* alphabet at sequence position [pos] (the payload of an appended entry is its
   position, so a replaced entry is distinguishable from the one replacing it):
   append [(i,t,[pos])] i in 1..imax, t in 1..tmax; delete_from i; snapshot (i,t) *)
Definition alphabet (imax tmax : nat) (pos : N) : list op :=
  flat_map (fun i => map (fun t => Append [E i t [pos]]) (seqN 1 tmax)) (seqN 1 imax)
  ++ map DeleteFrom (seqN 1 imax)
  ++ flat_map (fun i => map (fun t => Snapshot i t) (seqN 1 tmax)) (seqN 1 imax).

Fixpoint block_hash (imax tmax : nat) (depth : nat) (pos : N) (s : state) (h : hint) : hint :=
  match depth with
  | O => enc_obs h (observe s)
  | S d => fold_left (fun h o => block_hash imax tmax d (pos + 1) (step s o) h)
                     (alphabet imax tmax pos) h
  end.

Inductive case :=
| Seq (ops : list op) (observed : list obs)     (* observation after every operation *)
| Block (prefix : list op) (imax tmax depth : nat) (hash : N).

Definition check_case (c : case) : bool :=
  match c with
  | Seq ops observed => list_eqb obs_eqb (observe init :: trace init ops) observed
  | Block prefix imax tmax depth hash =>
      Z.eqb (Uint63.to_Z (block_hash imax tmax depth (N.of_nat (length prefix)) (run prefix) (Uint63.of_Z 0)))
            (Z.of_N hash)
  end.
