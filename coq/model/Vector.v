(* Model of src/vector/index.rs (VectorIndex::add / remove / search, as repaired:
   one entry per node, removal, declared metric) and of the vector wiring in
   src/graph/store.rs (which graph events add / remove entries; node-id allocator
   with the free list).  Executable; no proofs here.

   Floating-point arithmetic is NOT re-derived: the distance between a query and a
   stored vector under the index's declared metric is the Section variable [dist]
   (None = non-finite, skipped by the code), ordered by [leb].  The approximate
   HNSW structure is the Section variable [ann] (whatever candidate ids it proposes). *)
From Coq Require Import List NArith Bool.
Import ListNotations.
Open Scope N_scope.

Definition nlen {A} (l : list A) : N := N.of_nat (length l).
Definition memN (x : N) (l : list N) : bool := existsb (N.eqb x) l.

(* association lists keyed by node id: first match / update in place *)
Fixpoint aget {A} (id : N) (l : list (N * A)) : option A :=
  match l with
  | [] => None
  | e :: r => if N.eqb (fst e) id then Some (snd e) else aget id r
  end.

Fixpoint aset {A} (id : N) (x : A) (l : list (N * A)) : list (N * A) :=
  match l with
  | [] => []
  | e :: r => if N.eqb (fst e) id then (id, x) :: r else e :: aset id x r
  end.

Section Index.
Variable V : Type.                        (* vectors *)
Variable D : Type.                        (* distances *)
Variable okdim : V -> bool.               (* the vector has the index's dimension *)
Variable dist : V -> V -> option D.       (* declared metric, query -> stored; None = non-finite *)
Variable leb : D -> D -> bool.            (* <= on distances *)
Variable ann : list (N * V) -> V -> N -> list N.   (* HNSW: candidate node ids, arbitrary *)

Definition entry := (N * V)%type.
Definition index := list entry.           (* stored_vectors, in storage order *)

Definition has (id : N) (l : index) : bool := existsb (fun e => N.eqb (fst e) id) l.

Definition lookup (id : N) (l : index) : option V := aget id l.

(* update in place: stored_vectors[pos].vector = vector *)
Definition replace (id : N) (v : V) (l : index) : index := aset id v l.

(* Vec::swap_remove at the node's position: the last entry takes its place *)
Fixpoint swap_remove (id : N) (l : index) : index :=
  match l with
  | [] => []
  | e :: r => if N.eqb (fst e) id
              then match r with [] => [] | _ :: _ => last r e :: removelast r end
              else e :: swap_remove id r
  end.

(* VectorIndex::add : a vector of the wrong dimension is an error and drops the
   node's (outdated) entry; otherwise replace the node's entry or append one *)
Definition idx_add (l : index) (id : N) (v : V) : index :=
  if okdim v then (if has id l then replace id v l else l ++ [(id, v)])
  else swap_remove id l.

Definition score1 (q : V) (e : entry) : list (N * D) :=
  match dist q (snd e) with Some d => [(fst e, d)] | None => [] end.

(* (node, distance) for every entry with a finite distance, in storage order *)
Definition scored (q : V) (l : index) : list (N * D) := flat_map (score1 q) l.

(* stable sort by distance (slice::sort_by is stable) *)
Fixpoint insert (x : N * D) (l : list (N * D)) : list (N * D) :=
  match l with
  | [] => [x]
  | y :: r => if leb (snd x) (snd y) then x :: y :: r else y :: insert x r
  end.
Definition sort (l : list (N * D)) : list (N * D) := fold_right insert [] l.

(* brute_force_search *)
Definition exact (l : index) (q : V) (want : N) : list (N * D) :=
  firstn (N.to_nat want) (sort (scored q l)).

(* candidate ids once each, first occurrence kept *)
Fixpoint dedup (seen c : list N) : list N :=
  match c with
  | [] => []
  | x :: r => if memN x seen then dedup seen r else x :: dedup (x :: seen) r
  end.

(* candidates that still have an entry, scored against their CURRENT vector *)
Definition rescored (l : index) (q : V) (cands : list N) : list (N * D) :=
  flat_map (fun id => match lookup id l with Some v => score1 q (id, v) | None => [] end)
           (dedup [] cands).

(* VectorIndex::search; None = DimensionMismatch error for the query *)
Definition search (l : index) (q : V) (k : N) : option (list (N * D)) :=
  if negb (okdim q) then None else
  let n := nlen l in
  if N.eqb n 0 then Some [] else
  let want := N.min k n in
  if N.leb n 128 then Some (exact l q want)
  else
    let r := firstn (N.to_nat want) (sort (rescored l q (ann l q want))) in
    if N.ltb (nlen r) want then Some (exact l q want) else Some r.

(* ---------------- store-side wiring ---------------- *)
(* value of the indexed property: a vector (any dimension) or something else *)
Inductive pval := PVec (v : V) | POther.

(* what matters of a node for the index on (L, P): does it carry label L, and
   its value at property P *)
Record node := { nlabel : bool; nprop : option pval }.

Record state := {
  nodes : list (N * node);    (* live nodes *)
  free : list N;              (* free_node_ids (a stack) *)
  next : N;                   (* next_node_id *)
  idx : index }.

Definition init : state := {| nodes := []; free := []; next := 1; idx := [] |}.

Definition get (id : N) (m : list (N * node)) : option node := aget id m.
Definition set (id : N) (nd : node) (m : list (N * node)) : list (N * node) := aset id nd m.

Definition del (id : N) (m : list (N * node)) : list (N * node) :=
  filter (fun p => negb (N.eqb (fst p) id)) m.

Inductive op :=
| Create (lbl : bool) (p : option pval)   (* CREATE (n[:L] {P: p}) *)
| SetProp (id : N) (p : pval)             (* SET n.P = p *)
| RemoveProp (id : N)                     (* REMOVE n.P *)
| AddLabel (id : N)                       (* SET n:L *)
| RemoveLabel (id : N)                    (* REMOVE n:L *)
| Delete (id : N)                         (* DELETE n *)
| Search (q : V) (k : N)                  (* CALL db.index.vector.queryNodes(L, P, q, k) *)
| Noise.                                  (* writes to other labels / properties *)

Inductive out :=
| OId (id : N)
| ORes (r : option (list (N * D)))
| ONone.

Definition step (s : state) (o : op) : state * out :=
  match o with
  | Create lbl p =>
      let '(id, fr, nx) :=
        match free s with
        | f :: r => (f, r, next s)
        | [] => (next s, [], next s + 1)
        end in
      let ix := if lbl then match p with Some (PVec v) => idx_add (idx s) id v | _ => idx s end
                else idx s in
      ({| nodes := (id, {| nlabel := lbl; nprop := p |}) :: nodes s;
          free := fr; next := nx; idx := ix |}, OId id)
  | SetProp id p =>
      match get id (nodes s) with
      | None => (s, ONone)
      | Some nd =>
          let ix := if nlabel nd
                    then match p with PVec v => idx_add (idx s) id v | POther => swap_remove id (idx s) end
                    else idx s in
          ({| nodes := set id {| nlabel := nlabel nd; nprop := Some p |} (nodes s);
              free := free s; next := next s; idx := ix |}, ONone)
      end
  | RemoveProp id =>
      match get id (nodes s) with
      | None => (s, ONone)
      | Some nd =>
          ({| nodes := set id {| nlabel := nlabel nd; nprop := None |} (nodes s);
              free := free s; next := next s;
              idx := if nlabel nd then swap_remove id (idx s) else idx s |}, ONone)
      end
  | AddLabel id =>
      match get id (nodes s) with
      | None => (s, ONone)
      | Some nd =>
          ({| nodes := set id {| nlabel := true; nprop := nprop nd |} (nodes s);
              free := free s; next := next s;
              idx := match nprop nd with Some (PVec v) => idx_add (idx s) id v | _ => idx s end |},
           ONone)
      end
  | RemoveLabel id =>
      match get id (nodes s) with
      | None => (s, ONone)
      | Some nd =>
          if nlabel nd then
            ({| nodes := set id {| nlabel := false; nprop := nprop nd |} (nodes s);
                free := free s; next := next s; idx := swap_remove id (idx s) |}, ONone)
          else (s, ONone)
      end
  | Delete id =>
      match get id (nodes s) with
      | None => (s, ONone)
      | Some nd =>
          ({| nodes := del id (nodes s); free := id :: free s; next := next s;
              idx := if nlabel nd then swap_remove id (idx s) else idx s |}, ONone)
      end
  | Search q k => (s, ORes (search (idx s) q k))
  | Noise => (s, ONone)
  end.

Definition run (ops : list op) : state := fold_left (fun s o => fst (step s o)) ops init.

End Index.

Arguments PVec {V} v.
Arguments POther {V}.
Arguments Create {V} lbl p.
Arguments SetProp {V} id p.
Arguments RemoveProp {V} id.
Arguments AddLabel {V} id.
Arguments RemoveLabel {V} id.
Arguments Delete {V} id.
Arguments Search {V} q k.
Arguments Noise {V}.
Arguments OId {D} id.
Arguments ORes {D} r.
Arguments ONone {D}.
Arguments nodes {V} s.
Arguments free {V} s.
Arguments next {V} s.
Arguments idx {V} s.
Arguments nlabel {V} n.
Arguments nprop {V} n.
Arguments init {V}.

(* ---------------- correspondence cases ---------------- *)
(* A concrete vector is (its number in the case's pool, does it have the index's
   dimension).  The distance oracle is the RANK ORDER the harness computed with
   the declared metric in f64: per query vector, for each pool vector, Some rank
   (equal ranks = tie) or None (non-finite distance). *)
Definition cvec := (N * bool)%type.
Definition table := list (N * list (N * option N)).

Definition assoc {A} (k : N) (l : list (N * A)) : option A := aget k l.

Definition tdist (t : table) (q v : cvec) : option N :=
  match assoc (fst q) t with
  | Some row => match assoc (fst v) row with Some r => r | None => None end
  | None => None
  end.

Definition cokdim (v : cvec) : bool := snd v.

(* in the case evaluation the HNSW proposes nothing: the model then answers with
   the exact scan, and for indexes above 128 entries only the relational part of
   the result is compared (see [search_ok]) *)
Definition cann (l : list (N * cvec)) (q : cvec) (k : N) : list N := [].

Definition cstep (t : table) := step cvec N cokdim (tdist t) N.leb cann.

(* what the implementation showed for one operation, and the index length after it *)
Inductive cobs :=
| CId (id : N)                       (* node id given by CREATE *)
| CRes (r : option (list N))         (* node ids returned by the search; None = error *)
| CNone.

Fixpoint nodupN (l : list N) : bool :=
  match l with
  | [] => true
  | x :: r => negb (memN x r) && nodupN r
  end.

Fixpoint list_eqbN (a b : list N) : bool :=
  match a, b with
  | [], [] => true
  | x :: a', y :: b' => N.eqb x y && list_eqbN a' b'
  | _, _ => false
  end.

Fixpoint nondecr (l : list N) : bool :=
  match l with
  | x :: ((y :: _) as r) => N.leb x y && nondecr r
  | _ => true
  end.

(* rank of an observed node under the model's index: its CURRENT vector's rank *)
Definition obs_ranks (t : table) (ix : list (N * cvec)) (q : cvec) (ids : list N) : option (list N) :=
  fold_right (fun id acc =>
                match acc, lookup cvec id ix with
                | Some rs, Some v => match tdist t q v with Some r => Some (r :: rs) | None => None end
                | _, _ => None
                end) (Some []) ids.

(* ties are unordered: the observed result must consist of distinct nodes that have
   an entry, and its rank sequence (by current vector) must equal the model's; above
   128 entries (HNSW) only: distinct, live, current ranks non-decreasing, same length *)
Definition search_ok (t : table) (ix : list (N * cvec)) (q : cvec)
           (model : option (list (N * N))) (observed : option (list N)) : bool :=
  match model, observed with
  | None, None => true
  | Some m, Some ids =>
      nodupN ids &&
      match obs_ranks t ix q ids with
      | None => false
      | Some rs =>
          if N.leb (nlen ix) 128 then list_eqbN rs (map snd m)
          else nondecr rs && N.eqb (nlen rs) (nlen m)
      end
  | _, _ => false
  end.

Definition case := (table * list (op cvec * cobs * N))%type.

Fixpoint check_ops (t : table) (s : state cvec) (l : list (op cvec * cobs * N)) : bool :=
  match l with
  | [] => true
  | (o, ob, len) :: r =>
      let '(s', out) := cstep t s o in
      let ok :=
        match out, ob with
        | OId id, CId id' => N.eqb id id'
        | ORes m, CRes ids =>
            match o with
            | Search q _ => search_ok t (idx s) q m ids
            | _ => false
            end
        | ONone, CNone => true
        | _, _ => false
        end in
      ok && N.eqb (nlen (idx s')) len && check_ops t s' r
  end.

Definition check_case (c : case) : bool :=
  let '(t, l) := c in check_ops t init l.
