(* Model of src/nlq/mod.rs : NLQPipeline::extract_cypher, is_safe_query (as repaired: first
   keyword is a read keyword AND the statement parses AND plans as a read) and the verdict of
   text_to_cypher on the language model's response text.  Slicing is explicit: an index out
   of range is the outcome XPanic.  Bytes stand for UTF-8 text; trimming and upper-casing are
   modelled for ASCII (Rust's are Unicode-aware).  Executable; no proofs here. *)
From Coq Require Import List NArith Bool.
From Verif Require Import CheckLib QueryCache Routing.
Import ListNotations.
Open Scope N_scope.

Definition fence : bytes := [96; 96; 96].
Definition fence_cypher : bytes := [96; 96; 96; 99; 121; 112; 104; 101; 114].

(* str::find : byte index of the first occurrence *)
Fixpoint find (p s : bytes) : option nat :=
  if starts_with p s then Some O
  else match s with
       | [] => None
       | _ :: r => match find p r with Some i => Some (S i) | None => None end
       end.

(* &s[n..] and &s[a..b] : None = index out of range (a panic in Rust) *)
Definition slice_from (s : bytes) (n : nat) : option bytes :=
  if Nat.leb n (length s) then Some (skipn n s) else None.
Definition slice (s : bytes) (a b : nat) : option bytes :=
  if Nat.leb a b && Nat.leb b (length s) then Some (firstn (b - a) (skipn a s)) else None.

Inductive xres := XPanic | XSome (q : bytes).

(* str::lines on text without a trailing newline: split at LF, a CR directly before the LF
   belongs to the line ending *)
Definition strip_cr (l : bytes) : bytes :=
  match rev l with 13 :: r => rev r | _ => l end.
Fixpoint split_lf (cur : bytes) (s : bytes) : list bytes :=
  match s with
  | [] => [rev cur]
  | c :: r => if c =? 10 then strip_cr (rev cur) :: split_lf [] r else split_lf (c :: cur) r
  end.
Definition lines (s : bytes) : list bytes := match s with [] => [] | _ => split_lf [] s end.

Definition kw_return : bytes := [82;69;84;85;82;78].
Definition kw_with : bytes := [87;73;84;72].
Definition kw_unwind : bytes := [85;78;87;73;78;68].
Definition kw_optional : bytes := [79;80;84;73;79;78;65;76].
Definition kw_where : bytes := [87;72;69;82;69].
Definition kw_order : bytes := [79;82;68;69;82].
Definition kw_limit : bytes := [76;73;77;73;84].

Definition line_kws : list bytes :=
  [kw_match; kw_return; kw_with; kw_unwind; kw_call; kw_optional; kw_where; kw_order; kw_limit].

Definition cypher_line (l : bytes) : bool :=
  let u := to_upper (trim l) in existsb (fun k => starts_with k u) line_kws.

Fixpoint join_sp (ls : list bytes) : bytes :=
  match ls with
  | [] => []
  | [l] => l
  | l :: r => l ++ 32 :: join_sp r
  end.

(* trim_start_matches(p) : strip the prefix p as often as it occurs (p non-empty) *)
Fixpoint strip_pre (fuel : nat) (p s : bytes) : bytes :=
  match fuel with
  | O => s
  | S f => if starts_with p s then strip_pre f p (skipn (length p) s) else s
  end.
Definition trim_start_matches (p s : bytes) : bytes := strip_pre (length s) p s.
Definition trim_end_matches (p s : bytes) : bytes := rev (trim_start_matches (rev p) (rev s)).

Definition extract (response : bytes) : xres :=
  let t := trim response in
  let unfenced :=
    match filter cypher_line (lines t) with
    | [] => XSome (trim (trim_end_matches fence (trim_start_matches fence (trim_start_matches fence_cypher t))))
    | ls => XSome (join_sp ls)
    end in
  match find fence t with
  | None => unfenced
  | Some start =>
      match slice_from t (start + 3) with
      | None => XPanic
      | Some after =>
          let cs := match find [10] after with Some i => S i | None => O end in
          match slice_from after cs with
          | None => XPanic
          | Some rest =>
              match find fence rest with
              | None => unfenced
              | Some e => match slice after cs (cs + e) with
                          | None => XPanic
                          | Some code => XSome (trim code)
                          end
              end
          end
      end
  end.

Definition read_kws : list bytes := [kw_match; kw_return; kw_unwind; kw_call; kw_with].
Definition prefix_ok (q : bytes) : bool :=
  let u := to_upper (trim q) in existsb (fun k => starts_with k u) read_kws.

Section Verdict.
  (* the engine's view of the statement: parse_query succeeds and QueryEngine::query_is_write
     on an empty store says Some false *)
  Variable plans_as_read : bytes -> bool.

  Definition is_safe (q : bytes) : bool := prefix_ok q && plans_as_read q.

  Inductive verdict := VPanic | VRejected | VAccepted (q : bytes).

  (* text_to_cypher on the model's response text *)
  Definition text_to_cypher (response : bytes) : verdict :=
    match extract response with
    | XPanic => VPanic
    | XSome q => if is_safe q then VAccepted q else VRejected
    end.
End Verdict.

(* the token-level stand-in for parse + plan: it parses (observed) and no write keyword occurs *)
Definition plans_as_read_tok (parses : bytes -> bool) (q : bytes) : bool :=
  parses q && negb (is_write_tok (lexw q)).

(* ---------- correspondence ----------
   case = response text; what extract_cypher returned; whether that statement parses; the
   engine's write decision on it (None: no parse / no plan); is_safe_query on it; and what
   text_to_cypher handed back through the provider stub (None = rejected) *)
Definition case := (bytes * bytes * bool * option bool * bool * option bytes)%type.

Definition check_case (c : case) : bool :=
  let '(resp, ext_impl, parses, w, safe_impl, out_impl) := c in
  match extract resp with
  | XPanic => false
  | XSome q =>
      let engine_read := parses && match w with Some false => true | _ => false end in
      let safe := is_safe (fun _ => engine_read) q in
      bytes_eqb q ext_impl
      && Bool.eqb safe safe_impl
      && option_eqb bytes_eqb (if safe then Some q else None) out_impl
      && match w with
         | Some b => if parses then Bool.eqb (is_write_tok (lexw q)) b else true
         | None => true
         end
  end.
