(* Model of src/graph/store.rs : GraphStore (the in-memory graph and its
   redundant representations), as repaired for C06.  Executable; no proofs here.

   What is kept from the code: the node arena, the compact edge arrays
   (edge_endpoints with the (0,0) "deleted" sentinel, edge_type_ids with UNSET,
   sparse edge_properties), the two column stores (through their abstract
   row -> key -> value map), the two-tier adjacency (mutable write buffer +
   immutable frozen CSR tier, both directions), the free lists and next-id
   counters, label_index, edge_type_index, the interned type table, and the
   frozen tombstone counter.

   Representation choices (all observationally irrelevant for the read views,
   which are compared as bags):
   - Vec<T> indexed by id and HashMap<id,T> are total functions N -> T with a
     default; [upd] is assignment.
   - Vec<Vec<(nbr,eid)>> adjacency (per-node lists) and the CSR segments are flat
     lists of (node, nbr, eid); a node's slice is the sub-list with that node.
     The order inside a slice is not modelled; binary search in a sorted slice is
     modelled by its result on sorted input (all entries with the key).  The only
     window in which a node's outgoing slice can be unsorted - a stub append to that
     node's slice before the next compaction - is tracked per node by the ghost set
     [unsorted]; unsortedness from any other cause is a disagreement in [check_case].
   - HashSet/HashMap-of-HashSet indexes are duplicate-free flat lists of pairs.
   - edge types are interned by an injective table; the model stores the type
     itself and keeps the set of interned types.
   - the MVCC version is constant in C06 histories (no transaction commits), so a
     node's version chain has at most one entry: [nodes id : option node]. *)
From Coq Require Import List NArith Bool PeanoNat Arith.
From Verif Require Import CheckLib.
Import ListNotations.
Open Scope N_scope.

Definition upd {A} (f : N -> A) (k : N) (v : A) : N -> A :=
  fun x => if N.eqb x k then v else f x.

Definition props := list (N * N).

Definition prem (k : N) (m : props) : props :=
  filter (fun p => negb (N.eqb (fst p) k)) m.
Definition pset (k v : N) (m : props) : props := (k, v) :: prem k m.
Definition pset_all (ps : props) (m : props) : props :=
  fold_left (fun acc p => pset (fst p) (snd p) acc) ps m.

Definition memN (x : N) (l : list N) : bool := existsb (N.eqb x) l.
Definition set_add (x : N) (l : list N) : list N := if memN x l then l else x :: l.
Definition set_rem (x : N) (l : list N) : list N := filter (fun y => negb (N.eqb y x)) l.
Definition dedup (l : list N) : list N := fold_right set_add [] l.

Definition pair_eqb (a b : N * N) : bool := N.eqb (fst a) (fst b) && N.eqb (snd a) (snd b).
Definition memP (x : N * N) (l : list (N * N)) : bool := existsb (pair_eqb x) l.
Definition pset_add (x : N * N) (l : list (N * N)) : list (N * N) := if memP x l then l else x :: l.
Definition pset_rem (x : N * N) (l : list (N * N)) : list (N * N) :=
  filter (fun y => negb (pair_eqb y x)) l.

Record node := { n_labels : list N; n_props : props }.

(* one adjacency entry: (node whose slice it is in, neighbour, edge id) *)
Record aent := { a_node : N; a_nbr : N; a_eid : N }.

Record nstate := {
  nodes : N -> option node;          (* nodes: Vec<Vec<Node>> *)
  ncols : N -> props;                (* node_columns, row -> properties *)
  next_node : N;
  free_nodes : list N;               (* free_node_ids; head = top of the stack *)
  lidx : list (N * N)                (* label_index as (label, node) pairs *)
}.

Record estate := {
  endp : N -> N * N;                 (* edge_endpoints; (0,0) = deleted / never created *)
  etype : N -> option N;             (* edge_type_ids; None = UNSET *)
  eprops : N -> option props;        (* edge_properties (sparse) *)
  ecols : N -> props;                (* edge_columns *)
  next_edge : N;
  free_edges : list N;
  tidx : list (N * N);               (* edge_type_index as (type, edge) pairs *)
  interned : list N;                 (* edge_type_to_id keys *)
  bout : list aent;                  (* outgoing write buffer *)
  bin : list aent;                   (* incoming write buffer *)
  fsegs_out : list (list aent);      (* frozen outgoing CSR segments, oldest first *)
  fsegs_in : list (list aent);       (* frozen incoming CSR segments *)
  fdead : N;                         (* frozen_dead_edges *)
  unsorted : list N;                 (* ghost: nodes whose outgoing slice got a stub append since
                                        the last compaction *)
  tstale : bool                      (* ghost: a stub edge since the last finish_bulk_load *)
}.

(* all frozen entries of a direction, segment after segment *)
Definition fout (s : estate) : list aent := concat (fsegs_out s).
Definition fin (s : estate) : list aent := concat (fsegs_in s).

Record state := { ns : nstate; es : estate }.

Definition init : state :=
  {| ns := {| nodes := fun _ => None; ncols := fun _ => []; next_node := 1; free_nodes := [];
              lidx := [] |};
     es := {| endp := fun _ => (0, 0); etype := fun _ => None; eprops := fun _ => None;
              ecols := fun _ => []; next_edge := 1; free_edges := []; tidx := []; interned := [];
              bout := []; bin := []; fsegs_out := []; fsegs_in := []; fdead := 0;
              unsorted := []; tstale := false |} |}.

(* ---------- results ---------- *)
Inductive res := ROk (v : N) | RErr (class : N).
Definition E_NODE_NOT_FOUND := 1.
Definition E_EDGE_NOT_FOUND := 2.
Definition E_BAD_SOURCE := 3.
Definition E_BAD_TARGET := 4.

(* ---------- id allocation: free_ids.pop() else next_id++ ----------
   Which free id is popped depends on the order in which delete_node walked the
   adjacency slices, i.e. on the position std's binary search picks among equal keys.
   The model does not fix that order: it takes any id of the free list, namely the one
   the implementation reported ([hint]); a hint that is not on the free list is ignored.
   Every theorem holds for every hint, hence for the implementation's pop order. *)
Definition alloc (free : list N) (next : N) (hint : N) : N * list N * N :=
  if memN hint free then (hint, set_rem hint free, next)
  else match free with
       | id :: r => (id, r, next)
       | [] => (next, [], next + 1)
       end.

Definition live_n (s : nstate) (n : N) : bool :=
  match nodes s n with Some _ => true | None => false end.
Definition zero2 (p : N * N) : bool := N.eqb (fst p) 0 && N.eqb (snd p) 0.
Definition live_e (s : estate) (e : N) : bool := negb (zero2 (endp s e)).

(* ---------- node operations ---------- *)
(* create_node_with_labels / create_node_with_properties / create_node_stub:
   [cols] says whether the properties are also written to the column store. *)
Definition create_node (s : nstate) (hint : N) (labels : list N) (ps : props) (cols : bool) : nstate * N :=
  let '(id, fr, nx) := alloc (free_nodes s) (next_node s) hint in
  let ls := dedup labels in
  ({| nodes := upd (nodes s) id (Some {| n_labels := ls; n_props := pset_all ps [] |});
      ncols := if cols then upd (ncols s) id (pset_all ps (ncols s id)) else ncols s;
      next_node := nx; free_nodes := fr;
      lidx := fold_left (fun acc l => pset_add (l, id) acc) ls (lidx s) |}, id).

(* set_node_property (repaired: the node is looked up before the column write) *)
Definition set_nprop (s : nstate) (id k v : N) : nstate * res :=
  match nodes s id with
  | None => (s, RErr E_NODE_NOT_FOUND)
  | Some nd =>
      ({| nodes := upd (nodes s) id (Some {| n_labels := n_labels nd; n_props := pset k v (n_props nd) |});
          ncols := upd (ncols s) id (pset k v (ncols s id));
          next_node := next_node s; free_nodes := free_nodes s; lidx := lidx s |}, ROk 0)
  end.

(* remove_node_property: column first (any row), then the node if it exists *)
Definition rem_nprop (s : nstate) (id k : N) : nstate :=
  let nodes' := match nodes s id with
                | None => nodes s
                | Some nd => upd (nodes s) id
                               (Some {| n_labels := n_labels nd; n_props := prem k (n_props nd) |})
                end in
  {| nodes := nodes'; ncols := upd (ncols s) id (prem k (ncols s id));
     next_node := next_node s; free_nodes := free_nodes s; lidx := lidx s |}.

Definition add_label (s : nstate) (id l : N) : nstate * res :=
  match nodes s id with
  | None => (s, RErr E_NODE_NOT_FOUND)
  | Some nd =>
      ({| nodes := upd (nodes s) id
                     (Some {| n_labels := set_add l (n_labels nd); n_props := n_props nd |});
          ncols := ncols s; next_node := next_node s; free_nodes := free_nodes s;
          lidx := pset_add (l, id) (lidx s) |}, ROk 0)
  end.

Definition rem_label (s : nstate) (id l : N) : nstate * res :=
  match nodes s id with
  | None => (s, RErr E_NODE_NOT_FOUND)
  | Some nd =>
      if memN l (n_labels nd) then
        ({| nodes := upd (nodes s) id
                       (Some {| n_labels := set_rem l (n_labels nd); n_props := n_props nd |});
            ncols := ncols s; next_node := next_node s; free_nodes := free_nodes s;
            lidx := pset_rem (l, id) (lidx s) |}, ROk 1)
      else (s, ROk 0)
  end.

(* the node part of delete_node *)
Definition drop_node (s : nstate) (id : N) (nd : node) : nstate :=
  {| nodes := upd (nodes s) id None; ncols := upd (ncols s) id [];
     next_node := next_node s; free_nodes := id :: free_nodes s;
     lidx := fold_left (fun acc l => pset_rem (l, id) acc) (n_labels nd) (lidx s) |}.

(* ---------- edge operations ---------- *)
Definition get_edge (s : estate) (e : N) : option (N * N * N * props) :=
  if live_e s e then
    match etype s e with
    | Some t => Some (fst (endp s e), snd (endp s e), t,
                      match eprops s e with Some p => p | None => [] end)
    | None => None
    end
  else None.

(* sorted insert into a node's write-buffer slice (create_edge: binary_search_by_key on the
   neighbour id, insert at the returned position).  In the flat list the new entry goes before
   the first entry of the same node whose neighbour id is >= the new one, i.e. at the lower
   bound of its slice; std may pick any position inside a run of equal neighbour ids, which
   changes the order inside that run only (views are compared as bags). *)
Fixpoint ins_sorted (x : aent) (l : list aent) : list aent :=
  match l with
  | [] => [x]
  | y :: r => if N.eqb (a_node y) (a_node x) && N.leb (a_nbr x) (a_nbr y) then x :: l
              else y :: ins_sorted x r
  end.

(* create_edge_stub: push at the end, unsorted *)
Definition buf_add (stub : bool) (x : aent) (l : list aent) : list aent :=
  if stub then l ++ [x] else ins_sorted x l.

(* FrozenAdjacency::from_vec_of_vec: every node's slice stably sorted by neighbour id.  A stable
   insertion sort of the flat list by neighbour id sorts every slice and keeps its ties in order. *)
Fixpoint ins_nbr (x : aent) (l : list aent) : list aent :=
  match l with
  | [] => [x]
  | y :: r => if N.leb (a_nbr x) (a_nbr y) then x :: l else y :: ins_nbr x r
  end.
Definition sort_nbr (l : list aent) : list aent := fold_right ins_nbr [] l.

(* create_edge / create_edge_with_properties / create_edge_stub after endpoint validation *)
Definition add_edge (s : estate) (hint a b t : N) (ps : props) (stub : bool) : estate * N :=
  let '(id, fr, nx) := alloc (free_edges s) (next_edge s) hint in
  ({| endp := upd (endp s) id (a, b);
      etype := upd (etype s) id (Some t);
      eprops := match ps with [] => eprops s | _ => upd (eprops s) id (Some (pset_all ps [])) end;
      ecols := match ps with [] => ecols s | _ => upd (ecols s) id (pset_all ps (ecols s id)) end;
      next_edge := nx; free_edges := fr;
      tidx := if stub then tidx s else pset_add (t, id) (tidx s);
      interned := set_add t (interned s);
      bout := buf_add stub {| a_node := a; a_nbr := b; a_eid := id |} (bout s);
      bin := buf_add stub {| a_node := b; a_nbr := a; a_eid := id |} (bin s);
      fsegs_out := fsegs_out s; fsegs_in := fsegs_in s; fdead := fdead s;
      unsorted := if stub then set_add a (unsorted s) else unsorted s;
      tstale := tstale s || stub |}, id).

Definition create_edge (s : state) (hint a b t : N) (ps : props) (stub : bool) : state * res :=
  if negb (live_n (ns s) a) then (s, RErr E_BAD_SOURCE)
  else if negb (live_n (ns s) b) then (s, RErr E_BAD_TARGET)
  else let '(es', id) := add_edge (es s) hint a b t ps stub in
       ({| ns := ns s; es := es' |}, ROk id).

Definition not_entry (n e : N) (x : aent) : bool := negb (N.eqb (a_node x) n && N.eqb (a_eid x) e).

(* delete_edge (repaired) *)
Definition delete_edge (s : estate) (e : N) : estate * res :=
  match get_edge s e with
  | None => (s, RErr E_EDGE_NOT_FOUND)
  | Some (a, b, t, _) =>
      let bout' := filter (not_entry a e) (bout s) in
      let in_buffer := Nat.ltb (length bout') (length (bout s)) in
      ({| endp := upd (endp s) e (0, 0);
          etype := upd (etype s) e None;
          eprops := upd (eprops s) e None;
          ecols := upd (ecols s) e [];
          next_edge := next_edge s;
          free_edges := if in_buffer then e :: free_edges s else free_edges s;
          tidx := pset_rem (t, e) (tidx s);
          interned := interned s;
          bout := bout';
          bin := filter (not_entry b e) (bin s);
          fsegs_out := fsegs_out s; fsegs_in := fsegs_in s;
          fdead := if in_buffer then fdead s else fdead s + 1;
          unsorted := unsorted s; tstale := tstale s |}, ROk 0)
  end.

(* set_edge_property (repaired: EdgeNotFound for a missing edge) *)
Definition set_eprop (s : estate) (e k v : N) : estate * res :=
  if live_e s e then
    ({| endp := endp s; etype := etype s;
        eprops := upd (eprops s) e (Some (pset k v (match eprops s e with Some p => p | None => [] end)));
        ecols := upd (ecols s) e (pset k v (ecols s e));
        next_edge := next_edge s; free_edges := free_edges s; tidx := tidx s;
        interned := interned s; bout := bout s; bin := bin s; fsegs_out := fsegs_out s; fsegs_in := fsegs_in s;
        fdead := fdead s; unsorted := unsorted s; tstale := tstale s |}, ROk 0)
  else (s, RErr E_EDGE_NOT_FOUND).

(* remove_edge_property: column row first, then the sparse map if the edge exists
   (get_edge_properties_mut creates an empty entry) *)
Definition rem_eprop (s : estate) (e k : N) : estate :=
  {| endp := endp s; etype := etype s;
     eprops := if live_e s e
               then upd (eprops s) e (Some (prem k (match eprops s e with Some p => p | None => [] end)))
               else eprops s;
     ecols := upd (ecols s) e (prem k (ecols s e));
     next_edge := next_edge s; free_edges := free_edges s; tidx := tidx s;
     interned := interned s; bout := bout s; bin := bin s; fsegs_out := fsegs_out s; fsegs_in := fsegs_in s;
     fdead := fdead s; unsorted := unsorted s; tstale := tstale s |}.

(* compact_adjacency *)
Definition compact (s : estate) : estate :=
  match bout s, bin s with
  | [], [] =>                         (* nothing to compact; empty slices are sorted *)
      {| endp := endp s; etype := etype s; eprops := eprops s; ecols := ecols s;
         next_edge := next_edge s; free_edges := free_edges s; tidx := tidx s;
         interned := interned s; bout := []; bin := []; fsegs_out := fsegs_out s; fsegs_in := fsegs_in s;
         fdead := fdead s; unsorted := []; tstale := tstale s |}
  | _, _ =>
      {| endp := endp s; etype := etype s; eprops := eprops s; ecols := ecols s;
         next_edge := next_edge s; free_edges := free_edges s; tidx := tidx s;
         interned := interned s; bout := []; bin := [];
         fsegs_out := fsegs_out s ++ [sort_nbr (bout s)]; fsegs_in := fsegs_in s ++ [sort_nbr (bin s)];
         fdead := fdead s; unsorted := []; tstale := tstale s |}
  end.

Fixpoint range_from (start : N) (len : nat) : list N :=
  match len with
  | O => []
  | S k => start :: range_from (N.succ start) k
  end.
(* 0 .. n-1 *)
Definition range (n : N) : list N := range_from 0 (N.to_nat n).

(* rebuild_edge_type_index *)
Definition rebuild_tidx (s : estate) : list (N * N) :=
  flat_map (fun e => if live_e s e then match etype s e with Some t => [(t, e)] | None => [] end
                     else []) (range (next_edge s)).

(* finish_bulk_load = compact_adjacency; rebuild_edge_type_index; (catalog, vector: not modelled) *)
Definition finish_bulk (s : estate) : estate :=
  let c := compact s in
  {| endp := endp c; etype := etype c; eprops := eprops c; ecols := ecols c;
     next_edge := next_edge c; free_edges := free_edges c; tidx := rebuild_tidx c;
     interned := interned c; bout := bout c; bin := bin c; fsegs_out := fsegs_out c; fsegs_in := fsegs_in c;
     fdead := fdead c; unsorted := unsorted c; tstale := false |}.

Definition delete_edge_ignore (s : estate) (e : N) : estate := fst (delete_edge s e).

Definition slice (l : list aent) (n : N) : list aent := filter (fun x => N.eqb (a_node x) n) l.

(* delete_node (repaired): node part, then every incident edge from both tiers *)
Definition delete_node (s : state) (id : N) : state * res :=
  match nodes (ns s) id with
  | None => (s, RErr E_NODE_NOT_FOUND)
  | Some nd =>
      let e0 := es s in
      let incident := map a_eid (slice (fout e0) id ++ slice (bout e0) id
                                 ++ slice (fin e0) id ++ slice (bin e0) id) in
      ({| ns := drop_node (ns s) id nd;
          es := fold_left delete_edge_ignore incident e0 |}, ROk 0)
  end.

(* ---------- operations ---------- *)
Inductive op :=
| CreateNode (hint : N) (labels : list N)
| CreateNodeP (hint : N) (labels : list N) (ps : props)
| CreateNodeStub (hint : N) (label : N)
| SetNodeProp (id k v : N)
| RemoveNodeProp (id k : N)
| AddLabel (id l : N)
| RemoveLabel (id l : N)
| DeleteNode (id : N)
| CreateEdge (hint a b t : N)
| CreateEdgeP (hint a b t : N) (ps : props)
| CreateEdgeStub (hint a b t : N)
| SetEdgeProp (e k v : N)
| RemoveEdgeProp (e k : N)
| DeleteEdge (e : N)
| Compact
| FinishBulk.

Definition on_ns (s : state) (r : nstate * res) : state * res :=
  ({| ns := fst r; es := es s |}, snd r).
Definition on_es (s : state) (r : estate * res) : state * res :=
  ({| ns := ns s; es := fst r |}, snd r).

Definition step (s : state) (o : op) : state * res :=
  match o with
  | CreateNode h ls => let '(n', id) := create_node (ns s) h ls [] false in on_ns s (n', ROk id)
  | CreateNodeP h ls ps => let '(n', id) := create_node (ns s) h ls ps true in on_ns s (n', ROk id)
  | CreateNodeStub h l => let '(n', id) := create_node (ns s) h [l] [] false in on_ns s (n', ROk id)
  | SetNodeProp id k v => on_ns s (set_nprop (ns s) id k v)
  | RemoveNodeProp id k => on_ns s (rem_nprop (ns s) id k, ROk 0)
  | AddLabel id l => on_ns s (add_label (ns s) id l)
  | RemoveLabel id l => on_ns s (rem_label (ns s) id l)
  | DeleteNode id => delete_node s id
  | CreateEdge h a b t => create_edge s h a b t [] false
  | CreateEdgeP h a b t ps => create_edge s h a b t ps false
  | CreateEdgeStub h a b t => create_edge s h a b t [] true
  | SetEdgeProp e k v => on_es s (set_eprop (es s) e k v)
  | RemoveEdgeProp e k => on_es s (rem_eprop (es s) e k, ROk 0)
  | DeleteEdge e => on_es s (delete_edge (es s) e)
  | Compact => on_es s (compact (es s), ROk 0)
  | FinishBulk => on_es s (finish_bulk (es s), ROk 0)
  end.

Definition run (ops : list op) : state := fold_left (fun s o => fst (step s o)) ops init.

(* ---------- read views (the public read API) ---------- *)
Definition get_node (s : state) (n : N) : option node := nodes (ns s) n.

Definition adj_out (s : estate) (n : N) : list aent := slice (fout s) n ++ slice (bout s) n.
Definition adj_in (s : estate) (n : N) : list aent := slice (fin s) n ++ slice (bin s) n.

Definition edge_tuple (s : estate) (e : N) : list (N * N * N * N) :=
  match get_edge s e with
  | Some (a, b, t, _) => [(e, a, b, t)]
  | None => []
  end.

(* get_outgoing_edges / get_incoming_edges : (id, source, target, type) of each edge *)
Definition outgoing_edges (s : state) (n : N) : list (N * N * N * N) :=
  flat_map (fun x => edge_tuple (es s) (a_eid x)) (adj_out (es s) n).
Definition incoming_edges (s : state) (n : N) : list (N * N * N * N) :=
  flat_map (fun x => edge_tuple (es s) (a_eid x)) (adj_in (es s) n).

(* get_outgoing_edge_targets / get_incoming_edge_sources: the neighbour comes from the
   adjacency entry, the type from edge_type_ids *)
Definition out_targets (s : state) (n : N) : list (N * N * N * N) :=
  flat_map (fun x => match etype (es s) (a_eid x) with
                     | Some t => [(a_eid x, n, a_nbr x, t)]
                     | None => []
                     end) (adj_out (es s) n).
Definition in_sources (s : state) (n : N) : list (N * N * N * N) :=
  flat_map (fun x => match etype (es s) (a_eid x) with
                     | Some t => [(a_eid x, a_nbr x, n, t)]
                     | None => []
                     end) (adj_in (es s) n).

Definition type_is (s : estate) (t : N) (x : aent) : bool :=
  match etype s (a_eid x) with Some t' => N.eqb t' t | None => false end.

(* outgoing_degree_for_type / incoming_degree_for_type *)
Definition out_degree (s : state) (n t : N) : N :=
  if memN t (interned (es s)) then N.of_nat (length (filter (type_is (es s) t) (adj_out (es s) n)))
  else 0.
Definition in_degree (s : state) (n t : N) : N :=
  if memN t (interned (es s)) then N.of_nat (length (filter (type_is (es s) t) (adj_in (es s) n)))
  else 0.

(* specification of edges_between: the entries of the source's slices whose neighbour is the
   target and whose relationship resolves to (a, b) with an accepted type *)
Definition match_entry (s : estate) (a b : N) (ty : option N) (x : aent) : list N :=
  match get_edge s (a_eid x) with
  | Some (a', b', t, _) =>
      if N.eqb a' a && N.eqb b' b && match ty with Some t' => N.eqb t t' | None => true end
      then [a_eid x] else []
  | None => []
  end.

Definition edges_between_spec (s : state) (a b : N) (ty : option N) : list N :=
  flat_map (fun x => if N.eqb (a_nbr x) b then match_entry (es s) a b ty x else [])
           (adj_out (es s) a).

(* ---- search_adjacency_slice as written ----
   slice::binary_search_by_key (std >= 1.82: branch-free halving loop, then one final compare),
   walk back to the first entry of the equal run, scan forward while the neighbour matches. *)
Definition dummy_ent : aent := {| a_node := 0; a_nbr := 0; a_eid := 0 |}.
Definition nbr_at (l : list aent) (i : nat) : N := a_nbr (nth i l dummy_ent).

(* while size > 1 { half = size/2; mid = base+half; base = if l[mid] > key {base} else {mid}; size -= half } *)
Fixpoint bs_loop (fuel : nat) (l : list aent) (key : N) (base size : nat) : option nat :=
  match fuel with
  | O => None                                        (* out of fuel: explicit, never a result *)
  | S f =>
      if Nat.leb size 1 then Some base
      else let half := Nat.div2 size in
           let mid := (base + half)%nat in
           bs_loop f l key (if N.ltb key (nbr_at l mid) then base else mid) (size - half)%nat
  end.

Inductive bsres := BsOk (pos : nat) | BsErr (pos : nat) | BsFuel.

(* ceil(log2 n) halvings, plus the step that sees size <= 1 *)
Definition bs_fuel (n : nat) : nat := S (Nat.log2_up n).

Definition binary_search (l : list aent) (key : N) : bsres :=
  match l with
  | [] => BsErr 0
  | _ =>
      match bs_loop (bs_fuel (length l)) l key 0 (length l) with
      | None => BsFuel
      | Some base =>
          if N.eqb (nbr_at l base) key then BsOk base
          else BsErr (base + if N.ltb (nbr_at l base) key then 1 else 0)
      end
  end.

(* while p > 0 && entries[p-1].0 == key { p -= 1 } *)
Fixpoint walk_back (l : list aent) (key : N) (p : nat) : nat :=
  match p with
  | O => O
  | S q => if N.eqb (nbr_at l q) key then walk_back l key q else p
  end.

(* for i in start.. { if nid != key { break } .. } *)
Fixpoint take_run (key : N) (l : list aent) : list aent :=
  match l with
  | [] => []
  | x :: r => if N.eqb (a_nbr x) key then x :: take_run key r else []
  end.

(* the entries the scan visits; None = the binary search ran out of fuel *)
Definition search_run (l : list aent) (key : N) : option (list aent) :=
  match binary_search l key with
  | BsFuel => None
  | BsErr _ => Some []
  | BsOk pos => Some (take_run key (skipn (walk_back l key pos) l))
  end.

Definition search_slice (s : estate) (entries : list aent) (a b : N) (ty : option N) : option (list N) :=
  match search_run entries b with
  | None => None
  | Some run => Some (flat_map (match_entry s a b ty) run)
  end.

Fixpoint concat_opt {A} (l : list (option (list A))) : option (list A) :=
  match l with
  | [] => Some []
  | None :: _ => None
  | Some x :: r => match concat_opt r with Some y => Some (x ++ y) | None => None end
  end.

(* edges_between: each frozen segment searched on its own, then the write buffer *)
Definition edges_between (s : state) (a b : N) (ty : option N) : option (list N) :=
  concat_opt (map (fun seg => search_slice (es s) (slice seg a) a b ty) (fsegs_out (es s)) ++
              [search_slice (es s) (slice (bout (es s)) a) a b ty]).

(* get_nodes_by_label: ids *)
Definition nodes_by_label (s : state) (l : N) : list N :=
  flat_map (fun p => if N.eqb (fst p) l && live_n (ns s) (snd p) then [snd p] else []) (lidx (ns s)).

(* get_edges_by_type: ids *)
Definition edges_by_type (s : state) (t : N) : list N :=
  flat_map (fun p => if N.eqb (fst p) t then
                       match get_edge (es s) (snd p) with Some _ => [snd p] | None => [] end
                     else []) (tidx (es s)).

Definition node_count (s : state) : N :=
  N.of_nat (length (filter (live_n (ns s)) (range (next_node (ns s))))).
Definition edge_count (s : state) : N :=
  N.of_nat (length (fout (es s))) - fdead (es s) + N.of_nat (length (bout (es s))).

(* ---------- the logical graph ---------- *)
Record lgraph := {
  lnodes : N -> option node;
  lrels : N -> option (N * N * N * props)          (* source, target, type, properties *)
}.

Definition abs (s : state) : lgraph :=
  {| lnodes := nodes (ns s); lrels := get_edge (es s) |}.

Definition lg_equiv (g h : lgraph) : Prop :=
  (forall n, lnodes g n = lnodes h n) /\ (forall e, lrels g e = lrels h e).

Definition lg_incident (g : lgraph) (id e : N) : bool :=
  match lrels g e with
  | Some (a, b, _, _) => N.eqb a id || N.eqb b id
  | None => false
  end.

(* the effect of an operation on the logical graph, given the result the store reported
   (the id it allocated, or the error) *)
Definition lg_step (g : lgraph) (o : op) (r : res) : lgraph :=
  let setn id nd := {| lnodes := upd (lnodes g) id nd; lrels := lrels g |} in
  let setr e x := {| lnodes := lnodes g; lrels := upd (lrels g) e x |} in
  match o, r with
  | CreateNode _ ls, ROk id => setn id (Some {| n_labels := dedup ls; n_props := [] |})
  | CreateNodeP _ ls ps, ROk id => setn id (Some {| n_labels := dedup ls; n_props := pset_all ps [] |})
  | CreateNodeStub _ l, ROk id => setn id (Some {| n_labels := [l]; n_props := [] |})
  | SetNodeProp id k v, ROk _ =>
      match lnodes g id with
      | Some nd => setn id (Some {| n_labels := n_labels nd; n_props := pset k v (n_props nd) |})
      | None => g
      end
  | RemoveNodeProp id k, _ =>
      match lnodes g id with
      | Some nd => setn id (Some {| n_labels := n_labels nd; n_props := prem k (n_props nd) |})
      | None => g
      end
  | AddLabel id l, ROk _ =>
      match lnodes g id with
      | Some nd => setn id (Some {| n_labels := set_add l (n_labels nd); n_props := n_props nd |})
      | None => g
      end
  | RemoveLabel id l, ROk _ =>
      match lnodes g id with
      | Some nd => setn id (Some {| n_labels := set_rem l (n_labels nd); n_props := n_props nd |})
      | None => g
      end
  | DeleteNode id, ROk _ =>
      {| lnodes := upd (lnodes g) id None;
         lrels := fun e => if lg_incident g id e then None else lrels g e |}
  | CreateEdge _ a b t, ROk e => setr e (Some (a, b, t, []))
  | CreateEdgeP _ a b t ps, ROk e => setr e (Some (a, b, t, pset_all ps []))
  | CreateEdgeStub _ a b t, ROk e => setr e (Some (a, b, t, []))
  | SetEdgeProp e k v, ROk _ =>
      match lrels g e with
      | Some (a, b, t, p) => setr e (Some (a, b, t, pset k v p))
      | None => g
      end
  | RemoveEdgeProp e k, _ =>
      match lrels g e with
      | Some (a, b, t, p) => setr e (Some (a, b, t, prem k p))
      | None => g
      end
  | DeleteEdge e, ROk _ => setr e None
  | _, _ => g                                     (* errors, Compact, FinishBulk *)
  end.

(* read views of the logical graph, over edge ids below [bound] *)
Definition lg_rel_ids (g : lgraph) (bound : N) (p : N * N * N * props -> bool) : list N :=
  filter (fun e => match lrels g e with Some x => p x | None => false end) (range bound).

Definition lg_tuple (g : lgraph) (e : N) : list (N * N * N * N) :=
  match lrels g e with Some (a, b, t, _) => [(e, a, b, t)] | None => [] end.

Definition lg_outgoing (g : lgraph) (bound n : N) : list (N * N * N * N) :=
  flat_map (lg_tuple g) (lg_rel_ids g bound (fun '(a, _, _, _) => N.eqb a n)).
Definition lg_incoming (g : lgraph) (bound n : N) : list (N * N * N * N) :=
  flat_map (lg_tuple g) (lg_rel_ids g bound (fun '(_, b, _, _) => N.eqb b n)).
Definition lg_out_degree (g : lgraph) (bound n t : N) : N :=
  N.of_nat (length (lg_rel_ids g bound (fun '(a, _, t', _) => N.eqb a n && N.eqb t' t))).
Definition lg_in_degree (g : lgraph) (bound n t : N) : N :=
  N.of_nat (length (lg_rel_ids g bound (fun '(_, b, t', _) => N.eqb b n && N.eqb t' t))).
Definition lg_between (g : lgraph) (bound a b : N) (ty : option N) : list N :=
  lg_rel_ids g bound (fun '(a', b', t, _) =>
    N.eqb a' a && N.eqb b' b && match ty with Some t' => N.eqb t t' | None => true end).
Definition lg_by_type (g : lgraph) (bound t : N) : list N :=
  lg_rel_ids g bound (fun '(_, _, t', _) => N.eqb t' t).
Definition lg_by_label (g : lgraph) (bound l : N) : list N :=
  filter (fun n => match lnodes g n with Some nd => memN l (n_labels nd) | None => false end)
         (range bound).
Definition lg_node_count (g : lgraph) (bound : N) : N :=
  N.of_nat (length (filter (fun n => match lnodes g n with Some _ => true | None => false end)
                           (range bound))).
Definition lg_edge_count (g : lgraph) (bound : N) : N :=
  N.of_nat (length (lg_rel_ids g bound (fun _ => true))).

(* ---------- correspondence: dump of every read view, as rows of numbers ---------- *)
Fixpoint row_ltb (a b : list N) : bool :=
  match a, b with
  | [], [] => false
  | [], _ :: _ => true
  | _ :: _, [] => false
  | x :: a', y :: b' => if N.ltb x y then true else if N.ltb y x then false else row_ltb a' b'
  end.
Fixpoint row_insert (r : list N) (l : list (list N)) : list (list N) :=
  match l with
  | [] => [r]
  | x :: t => if row_ltb x r then x :: row_insert r t else r :: l
  end.
Definition sort_rows (l : list (list N)) : list (list N) := fold_right row_insert [] l.
Definition flat_sorted (l : list (list N)) : list N := concat (sort_rows l).

Definition t4 (x : N * N * N * N) : list N := let '(a, b, c, d) := x in [a; b; c; d].
Definition pp (p : N * N) : list N := [fst p; snd p].
Definition props_row (p : props) : list N := flat_sorted (map pp p).
Definition ids_row (l : list N) : list N := flat_sorted (map (fun x => [x]) l).

Definition node_row (o : option node) : list N :=
  match o with
  | None => [0]
  | Some nd => 1 :: N.of_nat (length (n_labels nd)) :: ids_row (n_labels nd) ++ props_row (n_props nd)
  end.
Definition edge_row (o : option (N * N * N * props)) : list N :=
  match o with
  | None => [0]
  | Some (a, b, t, p) => 1 :: a :: b :: t :: props_row p
  end.

Definition TYPES : list N := [0; 1; 2; 3].
Definition LABELS : list N := [0; 1; 2; 3].

Definition dump_node (s : state) (n : N) : list (list N) :=
  [ node_row (get_node s n);
    props_row (ncols (ns s) n);
    flat_sorted (map t4 (outgoing_edges s n));
    flat_sorted (map t4 (incoming_edges s n));
    flat_sorted (map t4 (out_targets s n));
    flat_sorted (map t4 (in_sources s n));
    map (out_degree s n) TYPES ++ map (in_degree s n) TYPES ].

Definition dump_edge (s : state) (e : N) : list (list N) :=
  [ edge_row (get_edge (es s) e); props_row (ecols (es s) e) ].

Definition between_row (o : option (list N)) : list N :=
  match o with Some r => ids_row r | None => [15; 15; 15] end.      (* fuel exhaustion never matches *)

Definition dump_between (s : state) (maxn : N) : list (list N) :=
  flat_map (fun a =>
    if memN a (unsorted (es s)) then [] else
    flat_map (fun b =>
      let r := edges_between s a b None in
      between_row r ::
      match r with
      | Some [] => []
      | _ => map (fun t => between_row (edges_between s a b (Some t))) TYPES
      end) (range_from 1 (N.to_nat maxn))) (range_from 1 (N.to_nat maxn)).

(* ids 0..maxn and 0..maxe are dumped; edges_between is dumped for every source node whose
   slice has had no stub append since the last compaction, edges_by_type only outside the
   bulk-load window *)
Definition dump (s : state) (maxn maxe : N) : list (list N) :=
  flat_map (dump_node s) (range (maxn + 1)) ++
  flat_map (dump_edge s) (range (maxe + 1)) ++
  dump_between s maxn ++
  map (fun l => ids_row (nodes_by_label s l)) LABELS ++
  (if tstale (es s) then [] else map (fun t => ids_row (edges_by_type s t)) TYPES) ++
  [[node_count s; edge_count s]].

Definition res_row (r : res) : list N :=
  match r with ROk v => [0; v] | RErr c => [1; c] end.

(* a row of small numbers (< 16) as one number: hexadecimal digits after a leading 1 *)
Definition pack (r : list N) : N := fold_left (fun acc d => acc * 16 + d) r 1.
Definition rows_eqb (a : list (list N)) (b : list N) : bool := list_eqb N.eqb (map pack a) b.

(* one case: the operations, after each the implementation's result and (where observed)
   its dump *)
Definition case := list (op * list N * option (N * N * list N))%type.

Fixpoint check_from (s : state) (c : case) : bool :=
  match c with
  | [] => true
  | (o, rr, d) :: rest =>
      let '(s', r) := step s o in
      list_eqb N.eqb (res_row r) rr &&
      match d with
      | Some (maxn, maxe, rows) => rows_eqb (dump s' maxn maxe) rows
      | None => true
      end && check_from s' rest
  end.

Definition check_case (c : case) : bool := check_from init c.
