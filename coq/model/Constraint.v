(* Model of unique-constraint enforcement (C11):
   src/index/manager.rs   unique_constraints : (label, key) -> PropertyIndex (value -> holder set),
                          constraint_insert / constraint_remove / unique_constraint_other_holder /
                          constrained_properties
   src/graph/store.rs     set_node_property, remove_node_property, add_label_to_node,
                          remove_label_from_node, delete_node (constraint maintenance, repaired)
   src/query/executor/operator.rs  CreateConstraintOperator (duplicate check + backfill through the
                          merged row+column view), CreateNodeOperator (create, set the properties one
                          by one, delete the half-built node on refusal).
   Values are opaque codes (N): two PropertyValues get the same code iff they are equal as BTreeMap
   keys (PropertyValue's Ord); null is the absence of a value.  Node identity is the creation
   ordinal (the store's id recycling is not observable once no stale holder exists).
   The constraint index is the flat relation (label, key, value, holder).
   Executable; no proofs here. *)
From Coq Require Import List NArith Bool.
Import ListNotations.
Open Scope N_scope.

Record node := { nid : N; nlabels : list N; nprops : list (N * N) }.

Definition entry := (N * N * N * N)%type.            (* label, key, value, holder *)
Definition e_label (e : entry) : N := let '(l, _, _, _) := e in l.
Definition e_key (e : entry) : N := let '(_, k, _, _) := e in k.
Definition e_val (e : entry) : N := let '(_, _, v, _) := e in v.
Definition e_holder (e : entry) : N := let '(_, _, _, h) := e in h.

Definition entry_eqb (a b : entry) : bool :=
  let '(l1, k1, v1, h1) := a in
  let '(l2, k2, v2, h2) := b in
  N.eqb l1 l2 && N.eqb k1 k2 && N.eqb v1 v2 && N.eqb h1 h2.

Record state := {
  nodes : list node;
  cons : list (N * N);          (* unique constraints (label, key) *)
  idx : list entry;             (* constraint index *)
  next : N                      (* next creation ordinal *)
}.

Definition empty : state := {| nodes := []; cons := []; idx := []; next := 1 |}.

(* ---- small containers ---- *)
Definition memN (x : N) (l : list N) : bool := existsb (N.eqb x) l.
Definition pget (k : N) (ps : list (N * N)) : option N :=
  match find (fun p => N.eqb (fst p) k) ps with Some p => Some (snd p) | None => None end.
Definition premove (k : N) (ps : list (N * N)) : list (N * N) :=
  filter (fun p => negb (N.eqb (fst p) k)) ps.
Definition pset (k v : N) (ps : list (N * N)) : list (N * N) := (k, v) :: premove k ps.

Definition mem_entry (e : entry) (l : list entry) : bool := existsb (entry_eqb e) l.
(* PropertyIndex::insert for each entry (sets: inserting twice is inserting once) *)
Definition insert_all (es : list entry) (i : list entry) : list entry :=
  fold_right (fun e acc => if mem_entry e acc then acc else e :: acc) i es.
(* PropertyIndex::remove for each entry *)
Definition remove_all (es : list entry) (i : list entry) : list entry :=
  filter (fun e => negb (mem_entry e es)) i.

Definition has_con (c : list (N * N)) (l k : N) : bool :=
  existsb (fun p => N.eqb (fst p) l && N.eqb (snd p) k) c.

Definition find_node (id : N) (ns : list node) : option node :=
  find (fun n => N.eqb (nid n) id) ns.
Definition upd_node (n' : node) (ns : list node) : list node :=
  map (fun n => if N.eqb (nid n) (nid n') then n' else n) ns.
Definition del_node (id : N) (ns : list node) : list node :=
  filter (fun n => negb (N.eqb (nid n) id)) ns.

(* ---- what a node holds ---- *)
(* the entries node n holds under label l (for the constrained keys of l, optionally only key k0):
   release_constrained_values / the check+record loop of add_label_to_node *)
Definition entries_for (c : list (N * N)) (n : node) (l : N) (only : option N) : list entry :=
  flat_map (fun p =>
    let '(l', k') := p in
    if N.eqb l' l && (match only with Some k0 => N.eqb k' k0 | None => true end) then
      match pget k' (nprops n) with
      | Some v => [(l, k', v, nid n)]
      | None => []
      end
    else []) c.

(* over all labels the node carries *)
Definition entries_all (c : list (N * N)) (n : node) (only : option N) : list entry :=
  flat_map (fun l => entries_for c n l only) (nlabels n).

(* unique_constraint_other_holder: some holder other than [e]'s own holds the same (label,key,value) *)
Definition other_holder (i : list entry) (e : entry) : bool :=
  existsb (fun x => N.eqb (e_label x) (e_label e) && N.eqb (e_key x) (e_key e) &&
                    N.eqb (e_val x) (e_val e) && negb (N.eqb (e_holder x) (e_holder e))) i.

Inductive res := ROk | RViolation | RRefused.

Definition res_eqb (a b : res) : bool :=
  match a, b with
  | ROk, ROk | RViolation, RViolation | RRefused, RRefused => true
  | _, _ => false
  end.

Definition with_graph (s : state) (ns : list node) (i : list entry) : state :=
  {| nodes := ns; cons := cons s; idx := i; next := next s |}.

(* ---- store operations on one live node ---- *)

(* set_node_property(id, k, Some v | None = null) *)
Definition set_prop (s : state) (id k : N) (v : option N) : state * res :=
  match find_node id (nodes s) with
  | None => (s, ROk)                                   (* MATCH found nothing: no write *)
  | Some n =>
      let n' := {| nid := nid n; nlabels := nlabels n;
                   nprops := match v with Some x => pset k x (nprops n) | None => premove k (nprops n) end |} in
      let added := entries_all (cons s) n' (Some k) in      (* empty when v is null *)
      if existsb (other_holder (idx s)) added then (s, RViolation)
      else
        let removed := entries_all (cons s) n (Some k) in    (* the overwritten value *)
        (with_graph s (upd_node n' (nodes s)) (insert_all added (remove_all removed (idx s))), ROk)
  end.

(* remove_node_property(id, k) *)
Definition remove_prop (s : state) (id k : N) : state * res :=
  match find_node id (nodes s) with
  | None => (s, ROk)
  | Some n =>
      let n' := {| nid := nid n; nlabels := nlabels n; nprops := premove k (nprops n) |} in
      (with_graph s (upd_node n' (nodes s)) (remove_all (entries_all (cons s) n (Some k)) (idx s)), ROk)
  end.

(* add_label_to_node(id, l) *)
Definition add_label (s : state) (id l : N) : state * res :=
  match find_node id (nodes s) with
  | None => (s, ROk)
  | Some n =>
      let added := entries_for (cons s) n l None in
      if existsb (other_holder (idx s)) added then (s, RViolation)
      else
        let n' := {| nid := nid n; nlabels := if memN l (nlabels n) then nlabels n else l :: nlabels n;
                     nprops := nprops n |} in
        (with_graph s (upd_node n' (nodes s)) (insert_all added (idx s)), ROk)
  end.

(* remove_label_from_node(id, l) *)
Definition remove_label (s : state) (id l : N) : state * res :=
  match find_node id (nodes s) with
  | None => (s, ROk)
  | Some n =>
      if memN l (nlabels n) then
        let n' := {| nid := nid n; nlabels := filter (fun x => negb (N.eqb x l)) (nlabels n);
                     nprops := nprops n |} in
        (with_graph s (upd_node n' (nodes s)) (remove_all (entries_for (cons s) n l None) (idx s)), ROk)
      else (s, ROk)
  end.

(* delete_node(id) *)
Definition delete (s : state) (id : N) : state * res :=
  match find_node id (nodes s) with
  | None => (s, ROk)
  | Some n =>
      (with_graph s (del_node id (nodes s)) (remove_all (entries_all (cons s) n None) (idx s)), ROk)
  end.

(* CreateNodeOperator: create_node_with_labels (no properties, so nothing is held yet), then
   set_node_property for each property; the first refusal deletes the half-built node *)
Fixpoint set_props (s : state) (id : N) (ps : list (N * N)) : state * res :=
  match ps with
  | [] => (s, ROk)
  | (k, v) :: r =>
      match set_prop s id k (Some v) with
      | (s', ROk) => set_props s' id r
      | (_, e) => (fst (delete s id), e)
      end
  end.

Definition create_node (s : state) (ls : list N) (ps : list (N * N)) : state * res :=
  let id := next s in
  let s0 := {| nodes := {| nid := id; nlabels := ls; nprops := [] |} :: nodes s;
               cons := cons s; idx := idx s; next := N.succ id |} in
  set_props s0 id ps.

(* CreateConstraintOperator *)
Fixpoint has_dup (vs : list N) : bool :=
  match vs with
  | [] => false
  | v :: r => memN v r || has_dup r
  end.

Definition create_constraint (s : state) (l k : N) : state * res :=
  let c' := if has_con (cons s) l k then cons s else (l, k) :: cons s in
  (* the current value of every node of the label (merged view), nulls skipped *)
  let entries := flat_map (fun n => if memN l (nlabels n)
                                    then match pget k (nprops n) with Some v => [(l, k, v, nid n)] | None => [] end
                                    else []) (nodes s) in
  if has_dup (map e_val entries) then (s, RRefused)
  else ({| nodes := nodes s; cons := c'; idx := insert_all entries (idx s); next := next s |}, ROk).

Inductive op :=
| CreateConstraint (l k : N)
| CreateNode (ls : list N) (ps : list (N * N))
| SetProp (id k : N) (v : option N)
| RemoveProp (id k : N)
| AddLabel (id l : N)
| RemoveLabel (id l : N)
| Delete (id : N).

Definition step (s : state) (o : op) : state * res :=
  match o with
  | CreateConstraint l k => create_constraint s l k
  | CreateNode ls ps => create_node s ls ps
  | SetProp id k v => set_prop s id k v
  | RemoveProp id k => remove_prop s id k
  | AddLabel id l => add_label s id l
  | RemoveLabel id l => remove_label s id l
  | Delete id => delete s id
  end.

Definition run (ops : list op) : state := fold_left (fun s o => fst (step s o)) ops empty.

(* ---- correspondence ---- *)
(* what a statement history shows: per statement the result class and the graph
   (id, has label 1, has label 2, value of key 1, value of key 2), ordered by id *)
Definition nobs := (N * bool * bool * option N * option N)%type.
Definition obs := (res * list nobs)%type.

Fixpoint insert_sorted (x : nobs) (l : list nobs) : list nobs :=
  match l with
  | [] => [x]
  | y :: r => if N.leb (fst (fst (fst (fst x)))) (fst (fst (fst (fst y)))) then x :: l else y :: insert_sorted x r
  end.

Definition snapshot (s : state) : list nobs :=
  fold_right insert_sorted []
    (map (fun n => (nid n, memN 1 (nlabels n), memN 2 (nlabels n), pget 1 (nprops n), pget 2 (nprops n))) (nodes s)).

Fixpoint trace (s : state) (ops : list op) : list obs :=
  match ops with
  | [] => []
  | o :: r => let '(s', e) := step s o in (e, snapshot s') :: trace s' r
  end.

Definition optN_eqb (a b : option N) : bool :=
  match a, b with
  | Some x, Some y => N.eqb x y
  | None, None => true
  | _, _ => false
  end.

Definition nobs_eqb (a b : nobs) : bool :=
  let '(i1, l1, m1, k1, j1) := a in
  let '(i2, l2, m2, k2, j2) := b in
  N.eqb i1 i2 && Bool.eqb l1 l2 && Bool.eqb m1 m2 && optN_eqb k1 k2 && optN_eqb j1 j2.

Fixpoint list_eqb' {A} (eqb : A -> A -> bool) (a b : list A) : bool :=
  match a, b with
  | [], [] => true
  | x :: a', y :: b' => eqb x y && list_eqb' eqb a' b'
  | _, _ => false
  end.

Definition obs_eqb (a b : obs) : bool :=
  res_eqb (fst a) (fst b) && list_eqb' nobs_eqb (snd a) (snd b).

Definition case := (list op * list obs)%type.

Definition check_case (c : case) : bool :=
  let '(ops, observed) := c in list_eqb' obs_eqb (trace empty ops) observed.
