(* C26 — graph algorithms of crates/samyama-graph-algorithms (community.rs,
   pathfinding.rs, flow.rs, mst.rs, topology.rs, lcc.rs).

   Two levels, both executable, no proofs here:
   (1) executable *specifications* (reference definitions): reachability /
       shortest-path cost by |V| rounds of relaxation, components as
       reachability classes, minimum cut by enumeration of source-side sets,
       minimum spanning-tree weight by enumeration of (|C|-1)-edge subsets,
       triangles and clustering coefficients by definition;
   (2) models of the algorithms as written: bfs, dijkstra, prim_mst (+ add_edges,
       repaired: lightest parallel edge for an incoming neighbour; the original
       first-parallel-edge lookup is kept as [add_edges_first] for the regression
       witness), each on explicit fuel with an explicit out-of-fuel outcome.

   A graph is what GraphView holds: [gn] dense node indices 0..gn-1 and the edge
   list in CSR order (grouped by source, sources ascending, each group in the
   order of the out-adjacency list).  successors(u) / predecessors(u) of the CSR
   are [succs] / [preds] below.  Weights are naturals (the harness feeds integer
   weights, so every f64 sum of the implementation is exact). *)
From Coq Require Import List NArith Bool Arith.
From Verif Require Import CheckLib.
Import ListNotations.

Definition edge := (nat * nat * N)%type.
Definition esrc (e : edge) : nat := fst (fst e).
Definition edst (e : edge) : nat := snd (fst e).
Definition ew (e : edge) : N := snd e.

Record graph := { gn : nat; ge : list edge }.

Definition wfb (g : graph) : bool :=
  forallb (fun e => (esrc e <? gn g) && (edst e <? gn g)) (ge g).

(* view.successors(u) zipped with view.weights(u) *)
Definition succs (g : graph) (u : nat) : list (nat * N) :=
  map (fun e => (edst e, ew e)) (filter (fun e => esrc e =? u) (ge g)).
(* view.predecessors(u): one entry per edge v->u, sources ascending *)
Definition preds (g : graph) (u : nat) : list nat :=
  map esrc (filter (fun e => edst e =? u) (ge g)).

Definition rev_edge (e : edge) : edge := (edst e, esrc e, ew e).
(* the undirected multigraph: every edge usable in both directions *)
Definition sym (g : graph) : graph := {| gn := gn g; ge := ge g ++ map rev_edge (ge g) |}.
(* hop metric: every edge costs 1 *)
Definition unitw (g : graph) : graph :=
  {| gn := gn g; ge := map (fun e => (esrc e, edst e, 1%N)) (ge g) |}.

(* ------------------------------------------------------------------ *)
(* (1) executable specifications                                        *)
(* ------------------------------------------------------------------ *)

Definition omin (a b : option N) : option N :=
  match a, b with
  | None, x => x
  | x, None => x
  | Some x, Some y => Some (N.min x y)
  end.
Definition oadd (a : option N) (w : N) : option N :=
  match a with Some x => Some (x + w)%N | None => None end.

Definition dvec := list (option N).
Definition dget (d : dvec) (v : nat) : option N := nth v d None.

(* one relaxation of node v over all edges into v *)
Definition relax1 (g : graph) (d : dvec) (v : nat) : option N :=
  fold_left (fun acc e => if edst e =? v then omin acc (oadd (dget d (esrc e)) (ew e)) else acc)
            (ge g) (dget d v).
Definition relax (g : graph) (d : dvec) : dvec := map (relax1 g d) (seq 0 (gn g)).
Definition dinit (g : graph) (s : nat) : dvec :=
  map (fun v => if v =? s then Some 0%N else None) (seq 0 (gn g)).

Fixpoint iter {A} (k : nat) (f : A -> A) (x : A) : A :=
  match k with 0 => x | S k' => f (iter k' f x) end.

(* |V| rounds (|V|-1 suffice) *)
Definition bf (g : graph) (s : nat) : dvec := iter (gn g) (relax g) (dinit g s).

(* cheapest walk cost s ~> t, None when unreachable *)
Definition sp_cost (g : graph) (s t : nat) : option N := dget (bf g s) t.
Definition hop_dist (g : graph) (s t : nat) : option N := sp_cost (unitw g) s t.
Definition is_some {A} (o : option A) : bool := match o with Some _ => true | None => false end.
Definition reachb (g : graph) (s t : nat) : bool := is_some (sp_cost g s t).

(* components = classes of mutual reachability, each sorted, ordered by least member *)
Definition comp_of (g : graph) (u : nat) : list nat :=
  let du := bf g u in
  filter (fun v => is_some (dget du v) && reachb g v u) (seq 0 (gn g)).
Definition components (g : graph) : list (list nat) :=
  flat_map (fun u => match comp_of g u with
                     | x :: r => if x =? u then [x :: r] else []
                     | [] => []
                     end) (seq 0 (gn g)).
Definition scc_spec (g : graph) : list (list nat) := components g.
Definition wcc_spec (g : graph) : list (list nat) := components (sym g).

(* a vertex list is a path of the graph with total cost c (some choice of parallel edges) *)
Fixpoint path_sums (g : graph) (p : list nat) : list N :=
  match p with
  | [] => []
  | u :: r =>
      match r with
      | [] => [0%N]
      | v :: _ =>
          let ws := map snd (filter (fun x => fst x =? v) (succs g u)) in
          nodup N.eq_dec (flat_map (fun c => map (fun w => (w + c)%N) ws) (path_sums g r))
      end
  end.
Definition path_costb (g : graph) (p : list nat) (c : N) : bool :=
  existsb (N.eqb c) (path_sums g p).
Definition path_fromto (p : list nat) (s t : nat) : bool :=
  match p with
  | [] => false
  | x :: _ => (x =? s) && (last p x =? t)
  end.

(* minimum cut: all source-side sets containing s and not t *)
Definition cut_cap (g : graph) (S : nat -> bool) : N :=
  fold_right (fun e acc => if S (esrc e) && negb (S (edst e)) then (ew e + acc)%N else acc) 0%N (ge g).
Fixpoint masks (n : nat) : list (list bool) :=
  match n with
  | 0 => [[]]
  | S k => flat_map (fun m => [true :: m; false :: m]) (masks k)
  end.
Definition mask_fn (m : list bool) (v : nat) : bool := nth v m false.
Definition min_list (l : list N) : option N :=
  fold_right (fun x acc => omin (Some x) acc) None l.
Definition mincut (g : graph) (s t : nat) : option N :=
  min_list (map (fun m => cut_cap g (mask_fn m))
                (filter (fun m => mask_fn m s && negb (mask_fn m t)) (masks (gn g)))).

(* minimum spanning tree of node 0's undirected component *)
Fixpoint choose {A} (k : nat) (l : list A) : list (list A) :=
  match k with
  | 0 => [[]]
  | S k' => match l with
            | [] => []
            | x :: r => map (cons x) (choose k' r) ++ choose k r
            end
  end.
Definition tweight (T : list edge) : N := fold_right (fun e a => (ew e + a)%N) 0%N T.
Definition connects (n : nat) (T : list edge) (C : list nat) : bool :=
  let d := bf (sym {| gn := n; ge := T |}) 0 in
  forallb (fun v => is_some (dget d v)) C.
Definition mst_spec (g : graph) : option N :=
  let C := comp_of (sym g) 0 in
  min_list (map tweight (filter (fun T => connects (gn g) T C) (choose (length C - 1) (ge g)))).

(* triangles: u < v < w pairwise adjacent in the undirected graph *)
Definition arcb (g : graph) (u v : nat) : bool :=
  existsb (fun e => (esrc e =? u) && (edst e =? v)) (ge g).
Definition adjb (g : graph) (u v : nat) : bool := arcb g u v || arcb g v u.
Definition triples (n : nat) : list (nat * (nat * nat)) :=
  filter (fun t => (fst t <? fst (snd t)) && (fst (snd t) <? snd (snd t)))
         (list_prod (seq 0 n) (list_prod (seq 0 n) (seq 0 n))).
Definition is_tri (g : graph) (t : nat * (nat * nat)) : bool :=
  adjb g (fst t) (fst (snd t)) && adjb g (fst (snd t)) (snd (snd t)) && adjb g (fst t) (snd (snd t)).
Definition tri_list (g : graph) := filter (is_tri g) (triples (gn g)).
Definition triangles_spec (g : graph) : N := N.of_nat (length (tri_list g)).

(* local clustering coefficient, undirected: edges among the distinct neighbours
   (self excluded) over deg*(deg-1)/2, as a fraction (numerator, denominator); 0 when deg < 2 *)
Definition nbrs (g : graph) (v : nat) : list nat :=
  filter (fun u => negb (u =? v) && adjb g u v) (seq 0 (gn g)).
Definition nbr_pairs (g : graph) (v : nat) : list (nat * nat) :=
  filter (fun p => (fst p <? snd p) && adjb g (fst p) (snd p)) (list_prod (nbrs g v) (nbrs g v)).
Definition lcc_u (g : graph) (v : nat) : N * N :=
  let d := length (nbrs g v) in
  if d <? 2 then (0%N, 1%N)
  else (N.of_nat (length (nbr_pairs g v)), N.of_nat (d * (d - 1) / 2)).

(* directed (Fagiolo 2007): a = adjacency without self-loops, b = a + a^T,
   T_i = sum_{j,k} b_ij b_ik b_jk ; coefficient T_i / (2 (d_tot (d_tot - 1) - 2 d_bi)) *)
Definition darc (g : graph) (u v : nat) : bool := negb (u =? v) && arcb g u v.
Definition b2n (b : bool) : nat := if b then 1 else 0.
Definition bi (g : graph) (u v : nat) : nat := b2n (darc g u v) + b2n (darc g v u).
Definition sumn (l : list nat) : nat := fold_right Nat.add 0 l.
Definition fag_num (g : graph) (i : nat) : nat :=
  let ns := seq 0 (gn g) in
  sumn (map (fun j => sumn (map (fun k => bi g i j * bi g i k * bi g j k) ns)) ns).
Definition fag_den (g : graph) (i : nat) : nat :=
  let ns := seq 0 (gn g) in
  let dtot := sumn (map (bi g i) ns) in
  let dbi := sumn (map (fun j => b2n (darc g i j && darc g j i)) ns) in
  2 * (dtot * (dtot - 1) - 2 * dbi).
Definition lcc_d (g : graph) (i : nat) : N * N :=
  if length (nbrs g i) <? 2 then (0%N, 1%N)
  else if fag_num g i =? 0 then (0%N, 1%N)
  else if fag_den g i =? 0 then (0%N, 1%N)
  else (N.of_nat (fag_num g i), N.of_nat (fag_den g i)).

(* ------------------------------------------------------------------ *)
(* (2) the algorithms as written                                        *)
(* ------------------------------------------------------------------ *)

Inductive pres :=
| RNone                                  (* None *)
| RPath (p : list nat) (c : N)           (* Some(PathResult{path, cost}) *)
| RFuel.                                 (* model fuel exhausted (never a code outcome) *)

Fixpoint alookup {A} (k : nat) (l : list (nat * A)) : option A :=
  match l with
  | [] => None
  | (k', v) :: r => if k' =? k then Some v else alookup k r
  end.

(* follow parent pointers back from [cur]; the accumulator is already source-first *)
Fixpoint recon (fuel : nat) (par : nat -> option nat) (cur : nat) (acc : list nat) : option (list nat) :=
  match fuel with
  | 0 => None
  | S f => match par cur with
           | None => Some (cur :: acc)
           | Some p => recon f par p (cur :: acc)
           end
  end.

(* pathfinding.rs bfs: FIFO queue, visited : index -> parent *)
Definition bfs_par (vis : list (nat * option nat)) (i : nat) : option nat :=
  match alookup i vis with Some (Some p) => Some p | _ => None end.

Definition bfs_expand (cur : nat) (st : list nat * list (nat * option nat)) (nx : nat) :=
  let '(q, vis) := st in
  if is_some (alookup nx vis) then (q, vis) else (q ++ [nx], (nx, Some cur) :: vis).

Fixpoint bfs_loop (fuel : nat) (g : graph) (t : nat) (q : list nat) (vis : list (nat * option nat)) : pres :=
  match fuel with
  | 0 => RFuel
  | S f =>
      match q with
      | [] => RNone
      | cur :: q' =>
          if cur =? t then
            match recon (S (length vis)) (bfs_par vis) t [] with
            | Some p => RPath p (N.of_nat (length p - 1))
            | None => RFuel
            end
          else
            let '(q2, vis2) := fold_left (bfs_expand cur) (map fst (succs g cur)) (q', vis) in
            bfs_loop f g t q2 vis2
      end
  end.

Definition bfs_model (g : graph) (s t : nat) : pres :=
  if (s <? gn g) && (t <? gn g) then bfs_loop (S (S (gn g))) g t [s] [(s, None)] else RNone.

(* a priority queue as a list; pop = a minimal key, the first such in insertion order
   (std BinaryHeap breaks ties differently; only cost/weight totals are compared) *)
Fixpoint pop_min {A} (key : A -> N) (l : list A) : option (A * list A) :=
  match l with
  | [] => None
  | x :: r => match pop_min key r with
              | None => Some (x, [])
              | Some (y, r') => if (key x <=? key y)%N then Some (x, r) else Some (y, x :: r')
              end
  end.

(* pathfinding.rs dijkstra *)
Definition dij_relax (cost : N) (node : nat)
           (st : list (N * nat) * list (nat * N) * list (nat * nat)) (vw : nat * N) :=
  let '(h, d, p) := st in
  let '(v, w) := vw in
  let nc := (cost + w)%N in
  if match alookup v d with Some dv => (nc <? dv)%N | None => true end
  then (h ++ [(nc, v)], (v, nc) :: d, (v, node) :: p)
  else (h, d, p).

Fixpoint dij_loop (fuel : nat) (g : graph) (t : nat)
         (heap : list (N * nat)) (dist : list (nat * N)) (parent : list (nat * nat)) : pres :=
  match fuel with
  | 0 => RFuel
  | S f =>
      match pop_min fst heap with
      | None => RNone
      | Some ((cost, node), heap') =>
          if node =? t then
            match recon (S (S (gn g))) (fun i => alookup i parent) t [] with
            | Some p => RPath p cost
            | None => RFuel
            end
          else if match alookup node dist with Some d => (d <? cost)%N | None => false end
          then dij_loop f g t heap' dist parent
          else
            let '(h2, d2, p2) := fold_left (dij_relax cost node) (succs g node) (heap', dist, parent) in
            dij_loop f g t h2 d2 p2
      end
  end.

Definition dijkstra_model (g : graph) (s t : nat) : pres :=
  if (s <? gn g) && (t <? gn g)
  then dij_loop (S (S (length (ge g)))) g t [(0%N, s)] [(s, 0%N)] []
  else RNone.

(* mst.rs prim_mst *)
Definition hentry := (N * nat * nat)%type.          (* weight, source, target *)
Definition hkey (h : hentry) : N := fst (fst h).
Definition memb (x : nat) (l : list nat) : bool := existsb (Nat.eqb x) l.

(* weights of all parallel edges v -> u, in adjacency order *)
Definition par_weights (g : graph) (v u : nat) : list N :=
  map snd (filter (fun x => fst x =? u) (succs g v)).

Definition add_out (g : graph) (u : nat) (visited : list nat) (heap : list hentry) : list hentry :=
  fold_left (fun h vw => if memb (fst vw) visited then h else h ++ [(snd vw, u, fst vw)])
            (succs g u) heap.

(* repaired: the lightest of the parallel edges v -> u *)
Definition add_in (g : graph) (u : nat) (visited : list nat) (heap : list hentry) : list hentry :=
  fold_left (fun h v => if memb v visited then h
                        else match min_list (par_weights g v u) with
                             | Some w => h ++ [(w, u, v)]
                             | None => h
                             end)
            (preds g u) heap.
(* original: position(|x| x == u), i.e. the first parallel edge *)
Definition add_in_first (g : graph) (u : nat) (visited : list nat) (heap : list hentry) : list hentry :=
  fold_left (fun h v => if memb v visited then h
                        else match par_weights g v u with
                             | w :: _ => h ++ [(w, u, v)]
                             | [] => h
                             end)
            (preds g u) heap.

Definition add_edges (g : graph) (u : nat) (visited : list nat) (heap : list hentry) : list hentry :=
  add_in g u visited (add_out g u visited heap).
Definition add_edges_first (g : graph) (u : nat) (visited : list nat) (heap : list hentry) : list hentry :=
  add_in_first g u visited (add_out g u visited heap).

Inductive mres :=
| MRes (total : N) (edges : list edge)    (* MSTResult: (source, target, weight) in insertion order *)
| MFuel.

Fixpoint prim_loop (adde : graph -> nat -> list nat -> list hentry -> list hentry)
         (fuel : nat) (g : graph) (heap : list hentry) (visited : list nat)
         (total : N) (acc : list edge) : mres :=
  match fuel with
  | 0 => MFuel
  | S f =>
      match pop_min hkey heap with
      | None => MRes total (rev acc)
      | Some ((w, src, tgt), heap') =>
          if memb tgt visited then prim_loop adde f g heap' visited total acc
          else
            let visited' := tgt :: visited in
            prim_loop adde f g (adde g tgt visited' heap') visited' (total + w)%N ((src, tgt, w) :: acc)
      end
  end.

Definition prim_with (adde : graph -> nat -> list nat -> list hentry -> list hentry) (g : graph) : mres :=
  if gn g =? 0 then MRes 0%N []
  else prim_loop adde (S (2 * length (ge g))) g (adde g 0 [0] []) [0] 0%N [].
Definition prim_model : graph -> mres := prim_with add_edges.
Definition prim_original : graph -> mres := prim_with add_edges_first.

(* topology.rs count_triangles as written: for u, for v in N(u) with v > u, for w in N(v)
   with w > v, count when w in N(u); N(x) = successors ∪ predecessors as a set (x itself
   included when it has a self-loop). Set iteration order does not influence a count. *)
Definition nset (g : graph) (u : nat) : list nat :=
  filter (fun v => adjb g u v) (seq 0 (gn g)).
Definition count_triangles_model (g : graph) : N :=
  N.of_nat (sumn (map (fun u =>
    sumn (map (fun v => if v <=? u then 0 else
      sumn (map (fun w => if w <=? v then 0 else b2n (memb w (nset g u))) (nset g v)))
      (nset g u))) (seq 0 (gn g)))).

(* ------------------------------------------------------------------ *)
(* correspondence                                                       *)
(* ------------------------------------------------------------------ *)

(* what the implementation returned for one (source, target):
   bfs, dijkstra : Some (path as indices, cost) ; max flow : Some value *)
Definition pobs := (nat * nat * option (list nat * N) * option (list nat * N) * option N)%type.

(* n, edges, wcc, scc, triangles, lcc undirected, lcc directed, mst total, mst edges, pairs *)
Definition case :=
  (nat * list edge * list (list nat) * list (list nat) * N * list (N * N) * list (N * N)
   * N * list edge * list pobs)%type.

Definition nat_list_eqb := list_eqb Nat.eqb.
Definition frac_eqb (a b : N * N) : bool :=
  negb (snd a =? 0)%N && negb (snd b =? 0)%N && (fst a * snd b =? fst b * snd a)%N.

Definition pres_eq_exact (r : pres) (o : option (list nat * N)) : bool :=
  match r, o with
  | RNone, None => true
  | RPath p c, Some (p', c') => nat_list_eqb p p' && (c =? c')%N
  | _, _ => false
  end.
Definition pres_eq_cost (r : pres) (o : option (list nat * N)) : bool :=
  match r, o with
  | RNone, None => true
  | RPath _ c, Some (_, c') => (c =? c')%N
  | _, _ => false
  end.

(* the returned path is a path of [g] from s to t with the reported cost, and that cost is [spec] *)
Definition path_ok (g : graph) (s t : nat) (spec : option N) (o : option (list nat * N)) : bool :=
  match spec, o with
  | None, None => true
  | Some c, Some (p, c') => (c =? c')%N && path_fromto p s t && path_costb g p c'
  | _, _ => false
  end.

Definition check_pair (g : graph) (x : pobs) : bool :=
  let '(s, t, b, d, f) := x in
  pres_eq_exact (bfs_model g s t) b
  && path_ok (unitw g) s t (hop_dist g s t) b
  && pres_eq_cost (dijkstra_model g s t) d
  && path_ok g s t (sp_cost g s t) d
  && option_eqb N.eqb (mincut g s t) f.

(* the reported tree edges are edges of the undirected multigraph, sum to the total,
   and connect node 0's component with |C|-1 edges *)
Definition und_edge_in (g : graph) (e : edge) : bool :=
  existsb (fun e' => ((esrc e' =? esrc e) && (edst e' =? edst e) && (ew e' =? ew e)%N)
                     || ((esrc e' =? edst e) && (edst e' =? esrc e) && (ew e' =? ew e)%N)) (ge g).
Definition tree_ok (g : graph) (total : N) (T : list edge) : bool :=
  let C := comp_of (sym g) 0 in
  forallb (und_edge_in g) T && (tweight T =? total)%N && (length T =? length C - 1)
  && connects (gn g) T C.

Definition mres_total (r : mres) : option N :=
  match r with MRes t _ => Some t | MFuel => None end.

Definition check_case (c : case) : bool :=
  let '(n, es, wcc, scc, tri, lu, ld, mst, mste, prs) := c in
  let g := {| gn := n; ge := es |} in
  wfb g
  && list_eqb nat_list_eqb (wcc_spec g) wcc
  && list_eqb nat_list_eqb (scc_spec g) scc
  && (triangles_spec g =? tri)%N
  && (count_triangles_model g =? tri)%N
  && list_eqb frac_eqb (map (lcc_u g) (seq 0 n)) lu
  && list_eqb frac_eqb (map (lcc_d g) (seq 0 n)) ld
  && option_eqb N.eqb (mst_spec g) (Some mst)
  && option_eqb N.eqb (mres_total (prim_model g)) (Some mst)
  && tree_ok g mst mste
  && forallb (check_pair g) prs.

(* the harness prints every number as an N literal; convert once here *)
Definition tn := N.to_nat.
Definition nedge (e : N * N * N) : edge := (tn (fst (fst e)), tn (snd (fst e)), snd e).
Definition npath (o : option (list N * N)) : option (list nat * N) :=
  match o with Some (p, c) => Some (map tn p, c) | None => None end.
Definition npobs := (N * N * option (list N * N) * option (list N * N) * option N)%type.
Definition ncase :=
  (N * list (N * N * N) * list (list N) * list (list N) * N * list (N * N) * list (N * N)
   * N * list (N * N * N) * list npobs)%type.
Definition check_ncase (c : ncase) : bool :=
  let '(n, es, wcc, scc, tri, lu, ld, mst, mste, prs) := c in
  check_case (tn n, map nedge es, map (map tn) wcc, map (map tn) scc, tri, lu, ld, mst,
              map nedge mste,
              map (fun x : npobs => let '(s, t, b, d, f) := x in (tn s, tn t, npath b, npath d, f)) prs).
