(* Model of src/protocol/resp.rs (RespValue::encode / RespValue::decode as repaired:
   parse on a cursor, advance the buffer only past a whole frame, length and nesting
   limits, CR/LF written as a space in line-type replies) and of the decode loop of
   src/protocol/server.rs (handle_connection).  Executable; no proofs here. *)
From Coq Require Import List NArith ZArith Bool.
From Verif Require Import CheckLib.
Import ListNotations.
Open Scope N_scope.

Definition bytes := list N.

Inductive rv :=
| SStr (s : bytes)            (* SimpleString(String) : the UTF-8 bytes of the String *)
| RErr (s : bytes)            (* Error(String) *)
| RInt (z : Z)                (* Integer(i64) *)
| Bulk (o : option bytes)     (* BulkString(Option<Vec<u8>>) *)
| Arr (l : list rv)           (* Array(Vec<RespValue>) *)
| RNull.                      (* Null *)

(* RespError classes: Protocol(..) and InvalidEncoding(..); Incomplete is an outcome *)
Inductive err := EProto | EEnc.

Definition crlf : bytes := [13; 10].
Definition I64_MAX : Z := 9223372036854775807.
Definition I64_MIN : Z := (-9223372036854775808)%Z.
Definition USIZE_MAX : Z := 18446744073709551615.
Definition MAX_BULK : Z := 536870912.        (* MAX_BULK_LEN = 512 MiB *)
Definition MAX_DEPTH : nat := 32.            (* MAX_NESTING_DEPTH *)

(* ------------------------------------------------------------------ *)
(* UTF-8 validation exactly as core::str::from_utf8 (no overlong forms, no surrogates,
   nothing above U+10FFFF), as a byte-at-a-time automaton.                             *)
Inductive ust := U0 | U1 | U2 | U3 | UE0 | UED | UF0 | UF4.

Definition inr (lo hi x : N) : bool := (lo <=? x) && (x <=? hi).

Definition ustep (s : ust) (x : N) : option ust :=
  match s with
  | U0 => if x <=? 127 then Some U0
          else if inr 194 223 x then Some U1
          else if x =? 224 then Some UE0
          else if inr 225 236 x || inr 238 239 x then Some U2
          else if x =? 237 then Some UED
          else if x =? 240 then Some UF0
          else if inr 241 243 x then Some U3
          else if x =? 244 then Some UF4
          else None
  | U1 => if inr 128 191 x then Some U0 else None
  | U2 => if inr 128 191 x then Some U1 else None
  | U3 => if inr 128 191 x then Some U2 else None
  | UE0 => if inr 160 191 x then Some U1 else None
  | UED => if inr 128 159 x then Some U1 else None
  | UF0 => if inr 144 191 x then Some U2 else None
  | UF4 => if inr 128 143 x then Some U2 else None
  end.

Fixpoint urun (s : ust) (b : bytes) : bool :=
  match b with
  | [] => match s with U0 => true | _ => false end
  | x :: t => match ustep s x with Some s' => urun s' t | None => false end
  end.

Definition utf8_valid (b : bytes) : bool := urun U0 b.

(* ------------------------------------------------------------------ *)
(* Decimal text.  Printing is Rust's Display for integers; reading is
   <i64 as FromStr>::from_str / <usize as FromStr>::from_str: optional sign ('+' for
   both, '-' only for the signed type), at least one ASCII digit, nothing else,
   Err on overflow of the target type.                                             *)
Fixpoint uint_bytes (u : Decimal.uint) : bytes :=
  match u with
  | Decimal.Nil => []
  | Decimal.D0 u => 48 :: uint_bytes u | Decimal.D1 u => 49 :: uint_bytes u
  | Decimal.D2 u => 50 :: uint_bytes u | Decimal.D3 u => 51 :: uint_bytes u
  | Decimal.D4 u => 52 :: uint_bytes u | Decimal.D5 u => 53 :: uint_bytes u
  | Decimal.D6 u => 54 :: uint_bytes u | Decimal.D7 u => 55 :: uint_bytes u
  | Decimal.D8 u => 56 :: uint_bytes u | Decimal.D9 u => 57 :: uint_bytes u
  end.

Fixpoint bytes_uint (l : bytes) : option Decimal.uint :=
  match l with
  | [] => Some Decimal.Nil
  | x :: t =>
      match bytes_uint t with
      | None => None
      | Some u =>
          if x =? 48 then Some (Decimal.D0 u) else if x =? 49 then Some (Decimal.D1 u)
          else if x =? 50 then Some (Decimal.D2 u) else if x =? 51 then Some (Decimal.D3 u)
          else if x =? 52 then Some (Decimal.D4 u) else if x =? 53 then Some (Decimal.D5 u)
          else if x =? 54 then Some (Decimal.D6 u) else if x =? 55 then Some (Decimal.D7 u)
          else if x =? 56 then Some (Decimal.D8 u) else if x =? 57 then Some (Decimal.D9 u)
          else None
      end
  end.

Definition dec_N (n : N) : bytes := uint_bytes (N.to_uint n).

(* value of a non-empty all-digit string *)
Definition digits (l : bytes) : option N :=
  match l with
  | [] => None
  | _ => match bytes_uint l with Some u => Some (N.of_uint u) | None => None end
  end.

Definition dec_Z (z : Z) : bytes :=
  if (z <? 0)%Z then 45 :: dec_N (Z.to_N (- z)) else dec_N (Z.to_N z).

Definition dec_nat (n : nat) : bytes := dec_N (N.of_nat n).

Definition upto (m : Z) (o : option N) : option Z :=
  match o with
  | Some n => if (Z.of_N n <=? m)%Z then Some (Z.of_N n) else None
  | None => None
  end.

Definition parse_i64 (l : bytes) : option Z :=
  match l with
  | [] => None
  | x :: t =>
      if x =? 45 then
        match digits t with
        | Some n => if (I64_MIN <=? - Z.of_N n)%Z then Some (- Z.of_N n)%Z else None
        | None => None
        end
      else if x =? 43 then upto I64_MAX (digits t)
      else upto I64_MAX (digits l)
  end.

Definition parse_usize (l : bytes) : option Z :=
  match l with
  | [] => None
  | x :: t => if x =? 43 then upto USIZE_MAX (digits t) else upto USIZE_MAX (digits l)
  end.

(* ------------------------------------------------------------------ *)
(* find_crlf: split at the first "\r\n" *)
Fixpoint split_line (b : bytes) : option (bytes * bytes) :=
  match b with
  | [] => None
  | x :: t =>
      match t with
      | [] => None
      | y :: t' =>
          if (x =? 13) && (y =? 10) then Some ([], t')
          else match split_line t with
               | Some (l, r) => Some (x :: l, r)
               | None => None
               end
      end
  end.

(* no "\r\n" inside *)
Fixpoint nocrlf (l : bytes) : bool :=
  match l with
  | [] => true
  | x :: t => match t with
              | [] => true
              | y :: _ => negb ((x =? 13) && (y =? 10)) && nocrlf t
              end
  end.

(* ------------------------------------------------------------------ *)
(* parse_inline_tokens.  The Rust code walks chars; every character it tests is ASCII
   and bytes >= 0x80 only ever occur inside multi-byte characters, which are copied
   unchanged, so walking bytes gives the same tokens.  [esc] = the previous byte was a
   backslash inside quotes; [cur] is the current token reversed; [acc] the tokens so far
   reversed.  None = "Unclosed quote". *)
Definition flush (cur : bytes) (acc : list bytes) : list bytes :=
  match cur with [] => acc | _ => rev cur :: acc end.

Fixpoint toks (l : bytes) (inq esc : bool) (cur : bytes) (acc : list bytes) : option (list bytes) :=
  match l with
  | [] => if inq then None else Some (rev (flush cur acc))
  | x :: t =>
      if esc then
        let cur' :=
          if x =? 110 then 10 :: cur          (* \n *)
          else if x =? 116 then 9 :: cur      (* \t *)
          else if x =? 114 then 13 :: cur     (* \r *)
          else if x =? 34 then 34 :: cur      (* backslash quote *)
          else if x =? 92 then 92 :: cur      (* backslash backslash *)
          else x :: 92 :: cur in
        toks t inq false cur' acc
      else if x =? 34 then toks t (negb inq) false cur acc
      else if ((x =? 32) || (x =? 9)) && negb inq then toks t inq false [] (flush cur acc)
      else if (x =? 92) && inq then toks t inq true cur acc
      else toks t inq false (x :: cur) acc
  end.

Definition inline_tokens (l : bytes) : option (list bytes) := toks l false false [] [].

(* ------------------------------------------------------------------ *)
(* encode *)
Definition san (x : N) : N := if (x =? 13) || (x =? 10) then 32 else x.

Fixpoint encode (v : rv) : bytes :=
  match v with
  | SStr s => 43 :: map san s ++ crlf
  | RErr s => 45 :: map san s ++ crlf
  | RInt z => 58 :: dec_Z z ++ crlf
  | Bulk None => [36; 45; 49; 13; 10]
  | Bulk (Some d) => 36 :: dec_nat (length d) ++ crlf ++ d ++ crlf
  | Arr l => 42 :: dec_nat (length l) ++ crlf ++ flat_map encode l
  | RNull => [95; 13; 10]
  end.

(* the value a reader gets back: CR and LF of line-type payloads became spaces *)
Fixpoint sanitize (v : rv) : rv :=
  match v with
  | SStr s => SStr (map san s)
  | RErr s => RErr (map san s)
  | Arr l => Arr (map sanitize l)
  | _ => v
  end.

(* ------------------------------------------------------------------ *)
(* parse_frame.  Outcomes: a whole frame and what follows it; incomplete (k = false:
   Ok(None), k = true: Err(Incomplete)); malformed, with what is left after the bytes
   that are dropped; a Rust panic (arithmetic overflow / slice index); fuel of the
   model's own loops exhausted. *)
Inductive pres :=
| PDone (v : rv) (rest : bytes)
| PMore (k : bool)
| PFail (e : err) (rest : bytes)
| PPanic
| PAbort.

Definition is_tag (c : N) : bool :=
  (c =? 43) || (c =? 45) || (c =? 58) || (c =? 36) || (c =? 42) || (c =? 95).

(* "$<l>\r\n" has been read, [r] follows it *)
Definition parse_bulk (mb : Z) (l r : bytes) : pres :=
  if utf8_valid l then
    match parse_i64 l with
    | None => PFail EProto r
    | Some n =>
        if (n =? -1)%Z then PDone (Bulk None) r
        else if (n <? 0)%Z || (mb <? n)%Z then PFail EProto r
        else if (USIZE_MAX <? n + 2)%Z then PPanic            (* len + 2 on usize *)
        else if (Z.of_nat (length r) <? n + 2)%Z then PMore true
        else
          let k := Z.to_nat n in
          match skipn k r with
          | x :: y :: r' =>
              if (x =? 13) && (y =? 10) then PDone (Bulk (Some (firstn k r))) r'
              else PFail EProto (skipn k r)
          | _ => PPanic                                          (* slice index out of range *)
          end
    end
  else PFail EEnc r.

(* the element loop of an array: [n] elements still to read from [r] *)
Fixpoint elems (p : bytes -> pres) (fuel : nat) (n : N) (r : bytes) (acc : list rv) : pres :=
  if n =? 0 then PDone (Arr (rev acc)) r
  else match fuel with
       | O => PAbort
       | S f =>
           match p r with
           | PDone v r' => elems p f (N.pred n) r' (v :: acc)
           | PMore _ => PMore true
           | PFail e r' => PFail e r'
           | PPanic => PPanic
           | PAbort => PAbort
           end
       end.

Definition parse_inline (l r : bytes) : pres :=
  if utf8_valid l then
    match inline_tokens l with
    | None => PFail EProto r
    | Some [] => PFail EProto r
    | Some ts => PDone (Arr (map (fun t => Bulk (Some t)) ts)) r
    end
  else PFail EEnc r.

(* [d] = how many more array levels may be entered (MAX_NESTING_DEPTH - depth) *)
Fixpoint parse (mb : Z) (d : nat) (b : bytes) : pres :=
  match b with
  | [] => PMore false
  | c :: t =>
      if is_tag c then
        match split_line t with
        | None => PMore false
        | Some (l, r) =>
            if c =? 43 then (if utf8_valid l then PDone (SStr l) r else PFail EEnc r)
            else if c =? 45 then (if utf8_valid l then PDone (RErr l) r else PFail EEnc r)
            else if c =? 58 then
              (if utf8_valid l then
                 match parse_i64 l with
                 | Some z => PDone (RInt z) r
                 | None => PFail EProto r
                 end
               else PFail EEnc r)
            else if c =? 36 then parse_bulk mb l r
            else if c =? 42 then
              (if utf8_valid l then
                 match parse_usize l with
                 | None => PFail EProto r
                 | Some n =>
                     match d with
                     | O => PFail EProto r
                     | S d' => elems (parse mb d') (S (length r)) (Z.to_N n) r []
                     end
                 end
               else PFail EEnc r)
            else match l with [] => PDone RNull r | _ => PFail EProto r end
        end
      else
        match split_line b with
        | None => PMore false
        | Some (l, r) => parse_inline l r
        end
  end.

(* RespValue::decode on a buffer [b]: outcome and the buffer afterwards *)
Inductive dres :=
| Done (v : rv) (rest : bytes)
| More (k : bool) (rest : bytes)
| Fail (e : err) (rest : bytes)
| Panic
| Abort.

Definition decode_with (mb : Z) (d : nat) (b : bytes) : dres :=
  match parse mb d b with
  | PDone v r => Done v r
  | PMore k => More k b
  | PFail e r => Fail e r
  | PPanic => Panic
  | PAbort => Abort
  end.

Definition decode (b : bytes) : dres := decode_with MAX_BULK MAX_DEPTH b.

(* ------------------------------------------------------------------ *)
(* allocation meter: an upper bound on the bytes requested from the allocator by one
   decode call.  ELEM: amortised cost of one Vec<RespValue>::push (32-byte elements,
   capacities 4, 8, 16, ...: at most 4 slots requested per element pushed); ERRMSG: the
   String inside a RespError; an inline command of line length L: token buffer growth
   (<= 4L+8), token copies (<= L), Vec<String> growth (96 per token) and the result
   vector (32 per token), at most (L+1)/2 tokens. *)
Definition ELEM : Z := 128.
Definition ERRMSG : Z := 256.
Definition zlen (l : bytes) : Z := Z.of_nat (length l).
Definition inline_cost (l : bytes) : Z := (69 * zlen l + 72)%Z.

Definition cost_bulk (mb : Z) (l r : bytes) : Z :=
  match parse_bulk mb l r with
  | PDone (Bulk (Some d)) _ => zlen d
  | PFail _ _ => ERRMSG
  | _ => 0%Z
  end.

Fixpoint cost_elems (p : bytes -> pres) (c : bytes -> Z) (fuel : nat) (n : N) (r : bytes) : Z :=
  if n =? 0 then 0%Z
  else match fuel with
       | O => 0%Z
       | S f =>
           match p r with
           | PDone _ r' => (c r + ELEM + cost_elems p c f (N.pred n) r')%Z
           | _ => c r
           end
       end.

Definition cost_inline (l : bytes) : Z :=
  if utf8_valid l then
    match inline_tokens l with
    | None | Some [] => (inline_cost l + ERRMSG)%Z
    | Some _ => inline_cost l
    end
  else ERRMSG.

Fixpoint cost (mb : Z) (d : nat) (b : bytes) : Z :=
  match b with
  | [] => 0%Z
  | c :: t =>
      if is_tag c then
        match split_line t with
        | None => 0%Z
        | Some (l, r) =>
            if (c =? 43) || (c =? 45) then (if utf8_valid l then zlen l else ERRMSG)
            else if c =? 58 then
              (if utf8_valid l then match parse_i64 l with Some _ => 0%Z | None => ERRMSG end
               else ERRMSG)
            else if c =? 36 then cost_bulk mb l r
            else if c =? 42 then
              (if utf8_valid l then
                 match parse_usize l with
                 | None => ERRMSG
                 | Some n =>
                     match d with
                     | O => ERRMSG
                     | S d' =>
                         cost_elems (parse mb d') (cost mb d') (S (length r)) (Z.to_N n) r
                     end
                 end
               else ERRMSG)
            else match l with [] => 0%Z | _ => ERRMSG end
        end
      else
        match split_line b with
        | None => 0%Z
        | Some (l, _) => cost_inline l
        end
  end.

Definition alloc (b : bytes) : Z := cost MAX_BULK MAX_DEPTH b.

(* ------------------------------------------------------------------ *)
(* the decode loop of handle_connection: append what was read, decode until the decoder
   asks for more; a protocol error is reported and the loop waits for the next read. *)
Inductive event :=
| Frame (v : rv)          (* a command handed to CommandHandler (answered once) *)
| ProtoErr (e : err)      (* "-ERR ..." written *)
| Crashed                 (* decoder panicked *)
| Stuck.                  (* fuel of [drain] exhausted *)

Fixpoint drain (fuel : nat) (b : bytes) : bytes * list event :=
  match fuel with
  | O => (b, [Stuck])
  | S f =>
      match decode b with
      | Done v r => let (b', ev) := drain f r in (b', Frame v :: ev)
      | More _ _ => (b, [])
      | Fail e r => (r, [ProtoErr e])
      | Panic | Abort => (b, [Crashed])
      end
  end.

(* one socket read of [chunk] with [buf] already buffered *)
Definition feed (buf chunk : bytes) : bytes * list event :=
  drain (S (length (buf ++ chunk))) (buf ++ chunk).

Fixpoint run (buf : bytes) (chunks : list bytes) : bytes * list event :=
  match chunks with
  | [] => (buf, [])
  | c :: cs =>
      let (b1, e1) := feed buf c in
      let (b2, e2) := run b1 cs in
      (b2, e1 ++ e2)
  end.

(* ------------------------------------------------------------------ *)
(* specification vocabulary used by the theorems *)

Fixpoint depth (v : rv) : nat :=
  match v with
  | Arr l => S (list_max (map depth l))
  | _ => 0%nat
  end.

(* what the Rust types guarantee about a RespValue, plus the decoder's bulk limit [mb]:
   Strings are UTF-8, integers are i64, lengths fit usize *)
Fixpoint repr (mb : Z) (v : rv) : Prop :=
  match v with
  | SStr s | RErr s => utf8_valid s = true
  | RInt z => (I64_MIN <= z <= I64_MAX)%Z
  | Bulk None => True
  | Bulk (Some d) => (zlen d <= mb)%Z
  | Arr l => (Z.of_nat (length l) <= USIZE_MAX)%Z /\
             (fix all (l : list rv) : Prop :=
                match l with [] => True | x :: t => repr mb x /\ all t end) l
  | RNull => True
  end.

(* no CR and no LF in line-type payloads (then sanitize is the identity) *)
Definition clean_line (s : bytes) : Prop := Forall (fun x => x <> 13 /\ x <> 10) s.

Fixpoint clean (v : rv) : Prop :=
  match v with
  | SStr s | RErr s => clean_line s
  | Arr l => (fix all (l : list rv) : Prop :=
                match l with [] => True | x :: t => clean x /\ all t end) l
  | _ => True
  end.

(* a well-formed value for a decoder with limits [mb], [d] *)
Definition wf (mb : Z) (d : nat) (v : rv) : Prop :=
  repr mb v /\ clean v /\ (depth v <= d)%nat.

(* a well-formed inline command line (without its CRLF) *)
Definition wf_inline (l : bytes) : Prop :=
  match l with
  | [] => False
  | c :: _ => is_tag c = false
  end /\ nocrlf l = true /\ utf8_valid l = true /\
  exists t ts, inline_tokens l = Some (t :: ts).

Definition inline_value (l : bytes) : rv :=
  match inline_tokens l with
  | Some ts => Arr (map (fun t => Bulk (Some t)) ts)
  | None => RNull
  end.

(* what a client may send: a RESP value or an inline command line *)
Inductive frame := FVal (v : rv) | FInline (line : bytes).

Definition frame_bytes (f : frame) : bytes :=
  match f with FVal v => encode v | FInline l => l ++ crlf end.

Definition frame_value (f : frame) : rv :=
  match f with FVal v => v | FInline l => inline_value l end.

Definition frame_wf (f : frame) : Prop :=
  match f with FVal v => wf MAX_BULK MAX_DEPTH v | FInline l => wf_inline l end.

(* ------------------------------------------------------------------ *)
(* correspondence cases *)

(* compact spelling of byte strings in generated case files: the number 0x1 b_{k-1} .. b_1 b_0
   (two hex digits per byte, first byte of the string last) stands for [b_0; b_1; ..; b_{k-1}] *)
Fixpoint bn_go (f : nat) (n : N) : bytes :=
  match f with
  | O => []
  | S f' => if n <=? 1 then [] else N.land n 255 :: bn_go f' (N.shiftr n 8)
  end.
Definition bn (n : N) : bytes := bn_go (N.size_nat n) n.
Definition bl (l : list N) : bytes := flat_map bn l.

Definition bytes_eqb (a b : bytes) : bool := list_eqb N.eqb a b.

Fixpoint rv_eqb (a b : rv) : bool :=
  match a, b with
  | SStr x, SStr y => bytes_eqb x y
  | RErr x, RErr y => bytes_eqb x y
  | RInt x, RInt y => Z.eqb x y
  | Bulk x, Bulk y => option_eqb bytes_eqb x y
  | Arr x, Arr y =>
      (fix go (x y : list rv) : bool :=
         match x, y with
         | [], [] => true
         | p :: x', q :: y' => rv_eqb p q && go x' y'
         | _, _ => false
         end) x y
  | RNull, RNull => true
  | _, _ => false
  end.

Definition err_eqb (a b : err) : bool :=
  match a, b with EProto, EProto | EEnc, EEnc => true | _, _ => false end.

Definition dres_eqb (a b : dres) : bool :=
  match a, b with
  | Done v r, Done v' r' => rv_eqb v v' && bytes_eqb r r'
  | More k r, More k' r' => Bool.eqb k k' && bytes_eqb r r'
  | Fail e r, Fail e' r' => err_eqb e e' && bytes_eqb r r'
  | Panic, Panic => true
  | Abort, Abort => true
  | _, _ => false
  end.

Definition event_eqb (a b : event) : bool :=
  match a, b with
  | Frame v, Frame w => rv_eqb v w
  | ProtoErr e, ProtoErr f => err_eqb e f
  | Crashed, Crashed => true
  | Stuck, Stuck => true
  | _, _ => false
  end.

Inductive case :=
(* RespValue::decode on [input]: what it returned, the buffer afterwards (inside the
   dres), and the bytes requested from the allocator during the call (-1: not measured) *)
| CDecode (input : bytes) (o : dres) (allocated : Z)
(* the server decode loop fed [chunks]: events in order, buffer at the end *)
| CStream (chunks : list bytes) (evs : list event) (final : bytes)
(* RespValue::encode of [v] *)
| CEncode (v : rv) (encoded : bytes)
(* a reply built by CommandHandler: the value, its encoding, decoding the encoding *)
| CReply (v : rv) (encoded : bytes) (o : dres).

Definition check_case (c : case) : bool :=
  match c with
  | CDecode input o a =>
      dres_eqb (decode input) o && ((a <=? alloc input)%Z)
  | CStream chunks evs final =>
      let (b, e) := run [] chunks in
      list_eqb event_eqb e evs && bytes_eqb b final
  | CEncode v enc => bytes_eqb (encode v) enc
  | CReply v enc o =>
      bytes_eqb (encode v) enc && dres_eqb (decode enc) o
  end.
