(* C27 — iterative algorithms of crates/samyama-graph-algorithms:
   pagerank.rs page_rank (over exact rationals instead of f64) and cdlp.rs cdlp (exact).

   The graph is what GraphView holds: n dense indices and the edge list in CSR order
   (sources ascending).  out_degree(u) = number of edges leaving u (parallel edges
   counted), predecessors(v) = one entry per edge into v.  No proofs here. *)
From Coq Require Import List NArith ZArith QArith Qabs Qreduction Bool Arith.
From Verif Require Import CheckLib.
Import ListNotations.
Close Scope Q_scope.

Definition iedge := (nat * nat)%type.

Definition outdeg (es : list iedge) (u : nat) : nat :=
  length (filter (fun e => fst e =? u) es).
Definition ipreds (es : list iedge) (v : nat) : list nat :=
  map fst (filter (fun e => snd e =? v) es).
Definition isuccs (es : list iedge) (u : nat) : list nat :=
  map snd (filter (fun e => fst e =? u) es).

(* ------------------------------------------------------------------ *)
(* PageRank                                                             *)
(* ------------------------------------------------------------------ *)

Definition qsum (l : list Q) : Q := fold_right Qplus 0%Q l.
Definition qn (k : nat) : Q := inject_Z (Z.of_nat k).
Definition sget (s : list Q) (i : nat) : Q := nth i s 0%Q.

(* initial score 1/N *)
Definition pr_init (n : nat) : list Q := repeat (Qred (1 / qn n)%Q) n.

(* sum over predecessors u of PR(u)/out_degree(u) (sources without out-edges skipped,
   which cannot occur for a predecessor of a consistent view) *)
Definition pr_incoming (es : list iedge) (s : list Q) (i : nat) : Q :=
  qsum (map (fun u => if 0 <? outdeg es u then (sget s u / qn (outdeg es u))%Q else 0%Q) (ipreds es i)).

(* dangling mass / N, or 0 when redistribution is off *)
Definition pr_dangling (n : nat) (es : list iedge) (dangling : bool) (s : list Q) : Q :=
  if dangling
  then (qsum (map (fun i => if outdeg es i =? 0 then sget s i else 0%Q) (seq 0 n)) / qn n)%Q
  else 0%Q.

(* next_scores[i] = (1-d)/N + d * (sum_incoming + dangling_contrib) *)
Definition pr_score (n : nat) (es : list iedge) (d : Q) (dangling : bool) (s : list Q) (i : nat) : Q :=
  ((1 - d) / qn n + d * (pr_incoming es s i + pr_dangling n es dangling s))%Q.

(* one iteration; every score is kept in lowest terms (Qred x == x) so that the exact
   evaluation stays small *)
Definition pr_step (n : nat) (es : list iedge) (d : Q) (dangling : bool) (s : list Q) : list Q :=
  map (fun i => Qred (pr_score n es d dangling s i)) (seq 0 n).

Definition qabs_diff (a b : Q) : Q := Qabs (a - b)%Q.
Fixpoint l1diff (a b : list Q) : Q :=
  match a, b with
  | x :: a', y :: b' => (qabs_diff x y + l1diff a' b')%Q
  | _, _ => 0%Q
  end.
Definition qltb (a b : Q) : bool := negb (Qle_bool b a).

(* for _ in 0..iterations { step; if total_diff < tolerance { break } } *)
Fixpoint pr_iter (k : nat) (n : nat) (es : list iedge) (d tol : Q) (dangling : bool) (s : list Q) : list Q :=
  match k with
  | 0 => s
  | S k' =>
      let s' := pr_step n es d dangling s in
      if qltb (Qred (l1diff s' s)) tol then s' else pr_iter k' n es d tol dangling s'
  end.

Definition page_rank (n : nat) (es : list iedge) (d : Q) (iterations : nat) (tol : Q) (dangling : bool) : list Q :=
  if n =? 0 then [] else pr_iter iterations n es d tol dangling (pr_init n).

(* ------------------------------------------------------------------ *)
(* CDLP                                                                 *)
(* ------------------------------------------------------------------ *)

Definition lget (lab : list N) (i : nat) : N := nth i lab 0%N.

(* labels of out- then in-neighbours, with multiplicity *)
Definition nbr_labels (es : list iedge) (lab : list N) (v : nat) : list N :=
  map (lget lab) (isuccs es v ++ ipreds es v).

Definition cnt (x : N) (l : list N) : nat := length (filter (N.eqb x) l).
(* a is strictly preferred to b: more frequent, or as frequent and smaller *)
Definition better (ls : list N) (a b : N) : bool :=
  (cnt b ls <? cnt a ls) || ((cnt a ls =? cnt b ls) && (a <? b)%N).
(* min over the labels of maximal count *)
Definition best (ls : list N) (d : N) : N :=
  fold_left (fun acc x => if better ls x acc then x else acc) ls d.

Definition cdlp_label (es : list iedge) (lab : list N) (v : nat) : N :=
  match nbr_labels es lab v with
  | [] => lget lab v                 (* isolated: keeps its label *)
  | x :: r => best (x :: r) x
  end.

(* synchronous step: every node reads the previous labelling only *)
Definition cdlp_step (n : nat) (es : list iedge) (lab : list N) : list N :=
  map (cdlp_label es lab) (seq 0 n).

Definition labels_eqb := list_eqb N.eqb.

(* for _ in 0..max_iterations { iterations += 1; step; swap; if converged break } *)
Fixpoint cdlp_run (k : nat) (n : nat) (es : list iedge) (lab : list N) (iters : N) : list N * N :=
  match k with
  | 0 => (lab, iters)
  | S k' =>
      let lab' := cdlp_step n es lab in
      if labels_eqb lab' lab then (lab', (iters + 1)%N)
      else cdlp_run k' n es lab' (iters + 1)%N
  end.

(* ids = index_to_node: the initial labels *)
Definition cdlp (n : nat) (es : list iedge) (ids : list N) (max_iterations : nat) : list N * N :=
  if n =? 0 then ([], 0%N) else cdlp_run max_iterations n es ids 0%N.

(* the same step with the nodes processed in an arbitrary order into a buffer with
   arbitrary previous contents (new_labels holds a stale labelling after the swap) *)
Fixpoint upd {A} (l : list A) (i : nat) (x : A) : list A :=
  match l, i with
  | [], _ => []
  | _ :: r, 0 => x :: r
  | y :: r, S i' => y :: upd r i' x
  end.
Definition cdlp_step_sched (es : list iedge) (lab : list N) (order : list nat) (buf : list N) : list N :=
  fold_left (fun b v => upd b v (cdlp_label es lab v)) order buf.

(* ------------------------------------------------------------------ *)
(* correspondence                                                       *)
(* ------------------------------------------------------------------ *)

(* damping, iterations, tolerance, dangling redistribution, observed scores (exact value of each f64) *)
Definition prrun := (Q * N * Q * bool * list Q)%type.
(* max_iterations, observed labels, observed iteration count *)
Definition cdrun := (N * list N * N)%type.
(* n, edges, node ids, PageRank runs, CDLP runs *)
Definition case := (N * list (N * N) * list N * list prrun * list cdrun)%type.

(* validation tolerance for f64 against the exact rational iteration *)
Definition pr_eps : Q := (1 # 1000000000)%Q.

Fixpoint close_all (a b : list Q) : bool :=
  match a, b with
  | [], [] => true
  | x :: a', y :: b' => Qle_bool (qabs_diff x y) pr_eps && close_all a' b'
  | _, _ => false
  end.

Definition check_pr (n : nat) (es : list iedge) (r : prrun) : bool :=
  let '(d, it, tol, dang, obs) := r in
  close_all (page_rank n es d (N.to_nat it) tol dang) obs.

Definition check_cd (n : nat) (es : list iedge) (ids : list N) (r : cdrun) : bool :=
  let '(mi, labs, its) := r in
  let '(ml, mits) := cdlp n es ids (N.to_nat mi) in
  labels_eqb ml labs && (mits =? its)%N.

Definition check_case (c : case) : bool :=
  let '(n, es, ids, prs, cds) := c in
  let n' := N.to_nat n in
  let es' := map (fun e => (N.to_nat (fst e), N.to_nat (snd e))) es in
  forallb (fun e => (fst e <? n') && (snd e <? n')) es'
  && (length ids =? n')
  && forallb (check_pr n' es') prs
  && forallb (check_cd n' es' ids) cds.
