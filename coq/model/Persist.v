(* C16 — src/persistence/mod.rs : PersistenceManager persist_* / recover, as repaired
   (property updates rewrite the stored entity; deletions refuse unknown tenants before
   any write; recover does not fail for a tenant the quota registry does not know).
   Executable; no proofs here.

   Durable state: RocksDB as two association lists keyed by (tenant, id) — one per column
   family — with atomic put / delete (RocksDB's own durability across a PROCESS crash is
   trusted: a put that returned is there after the crash).  The WAL is an append-only list
   of entries; recovery never reads it (its durability is C15's subject, not claimed here).
   Volatile state (lost at a crash or restart): the tenant registry with quotas and the
   usage counters of TenantManager.

   Every persist_* is a sequence of atomic steps; the hook points
   pm.<op>.after_quota / after_wal / after_storage sit between them and are the crash
   positions: a crash is described by the number [d] of DURABLE steps (WAL append, storage
   write) of the operation in flight that were completed (0, 1 or 2).

   Tenants, labels, property keys and values are numbers (indices into the harness pools);
   label 0 is the empty string.  Label sets and property maps are kept canonical (sorted)
   by the harness and by RaftSm.v. *)
From Coq Require Import List NArith Bool.
From Verif Require Import CheckLib.
Import ListNotations.
Open Scope N_scope.

Definition props := list (N * N).
Definition nval := (list N * props)%type.            (* labels, properties *)
Definition eval := (N * N * N * props)%type.         (* source, target, type, properties *)
Definition key := (N * N)%type.                      (* tenant, id *)

Definition key_eqb (a b : key) : bool := N.eqb (fst a) (fst b) && N.eqb (snd a) (snd b).

(* ---- an ordered key/value store with atomic put / delete ---- *)
Fixpoint kv_get {V} (m : list (key * V)) (k : key) : option V :=
  match m with
  | [] => None
  | (k', v) :: r => if key_eqb k' k then Some v else kv_get r k
  end.
Fixpoint kv_put {V} (m : list (key * V)) (k : key) (v : V) : list (key * V) :=
  match m with
  | [] => [(k, v)]
  | (k', v') :: r => if key_eqb k' k then (k, v) :: r else (k', v') :: kv_put r k v
  end.
Fixpoint kv_del {V} (m : list (key * V)) (k : key) : list (key * V) :=
  match m with
  | [] => []
  | (k', v') :: r => if key_eqb k' k then kv_del r k else (k', v') :: kv_del r k
  end.

(* the graph that is on disk: what recovery can see *)
Record store := { s_nodes : list (key * nval); s_edges : list (key * eval) }.
Definition empty_store : store := {| s_nodes := []; s_edges := [] |}.

Inductive op :=
| CreateNode (t id : N) (labels : list N) (p : props)
| CreateEdge (t id src tgt ty : N) (p : props)
| DeleteNode (t id : N)
| DeleteEdge (t id : N)
| UpdateNode (t id : N) (p : props)
| UpdateEdge (t id : N) (p : props)
(* clean restart: the registry is rebuilt (default tenant + the listed ones), then every
   persisted tenant is recovered as main.rs does *)
| Reopen (regs : list (N * (option N * option N))).

(* ---- the SPECIFICATION: the effect of an acknowledged operation on the graph ---- *)
Definition effect (g : store) (o : op) : store :=
  match o with
  | CreateNode t id ls p => {| s_nodes := kv_put (s_nodes g) (t, id) (ls, p); s_edges := s_edges g |}
  | CreateEdge t id a b ty p => {| s_nodes := s_nodes g; s_edges := kv_put (s_edges g) (t, id) (a, b, ty, p) |}
  | DeleteNode t id => {| s_nodes := kv_del (s_nodes g) (t, id); s_edges := s_edges g |}
  | DeleteEdge t id => {| s_nodes := s_nodes g; s_edges := kv_del (s_edges g) (t, id) |}
  | UpdateNode t id p =>
      match kv_get (s_nodes g) (t, id) with
      | Some (ls, _) => {| s_nodes := kv_put (s_nodes g) (t, id) (ls, p); s_edges := s_edges g |}
      | None => g
      end
  | UpdateEdge t id p =>
      match kv_get (s_edges g) (t, id) with
      | Some (a, b, ty, _) => {| s_nodes := s_nodes g; s_edges := kv_put (s_edges g) (t, id) (a, b, ty, p) |}
      | None => g
      end
  | Reopen _ => g
  end.

Definition spec (acked : list op) : store := fold_left effect acked empty_store.

(* what recovery of one tenant should return *)
Definition view (g : store) (t : N) : list (N * nval) * list (N * eval) :=
  (map (fun kv => (snd (fst kv), snd kv)) (filter (fun kv => N.eqb (fst (fst kv)) t) (s_nodes g)),
   map (fun kv => (snd (fst kv), snd kv)) (filter (fun kv => N.eqb (fst (fst kv)) t) (s_edges g))).

(* ---- the IMPLEMENTATION state ---- *)
Inductive wentry :=
| WCreateNode (t id : N) | WCreateEdge (t id : N) | WDeleteNode (t id : N) | WDeleteEdge (t id : N)
| WUpdateNode (t id : N) | WUpdateEdge (t id : N).

Definition quotas := (option N * option N)%type.     (* max_nodes, max_edges *)
Definition counts := (N * N)%type.                   (* node_count, edge_count *)

Record pstate := {
  disk : store;                       (* durable *)
  wal : list wentry;                  (* the log, in append order *)
  regs : list (N * quotas);           (* volatile: TenantManager.tenants *)
  usage : list (N * counts)           (* volatile: TenantManager.usage *)
}.

Fixpoint alist_get {V} (m : list (N * V)) (k : N) : option V :=
  match m with
  | [] => None
  | (k', v) :: r => if N.eqb k' k then Some v else alist_get r k
  end.
Fixpoint alist_set {V} (m : list (N * V)) (k : N) (v : V) : list (N * V) :=
  match m with
  | [] => [(k, v)]
  | (k', v') :: r => if N.eqb k' k then (k, v) :: r else (k', v') :: alist_set r k v
  end.

Definition default_quotas : quotas := (Some 1000000, Some 10000000).

(* TenantManager::new : the default tenant (number 0) only *)
Definition fresh_regs : list (N * quotas) := [(0, default_quotas)].
Definition fresh_usage : list (N * counts) := [(0, (0, 0))].

(* create_tenant: AlreadyExists leaves the registry alone *)
Definition register (st : list (N * quotas) * list (N * counts)) (r : N * quotas) :=
  let '(rg, us) := st in
  match alist_get rg (fst r) with
  | Some _ => (rg, us)
  | None => (rg ++ [r], us ++ [(fst r, (0, 0))])
  end.

Definition init (rs : list (N * quotas)) : pstate :=
  let '(rg, us) := fold_left register rs (fresh_regs, fresh_usage) in
  {| disk := empty_store; wal := []; regs := rg; usage := us |}.

Inductive kind := KNode | KEdge.

Definition over (q : option N) (u : N) : bool :=
  match q with Some m => N.leb m u | None => false end.

(* TenantManager::reserve : NotFound / QuotaExceeded, else count one more *)
Definition reserve (s : pstate) (t : N) (k : kind) : option pstate :=
  match alist_get (regs s) t, alist_get (usage s) t with
  | Some (qn, qe), Some (un, ue) =>
      match k with
      | KNode => if over qn un then None
                 else Some {| disk := disk s; wal := wal s; regs := regs s; usage := alist_set (usage s) t (un + 1, ue) |}
      | KEdge => if over qe ue then None
                 else Some {| disk := disk s; wal := wal s; regs := regs s; usage := alist_set (usage s) t (un, ue + 1) |}
      end
  | _, _ => None
  end.

(* decrement_usage (saturating); unknown tenant: nothing to count *)
Definition release (s : pstate) (t : N) (k : kind) : pstate :=
  match alist_get (usage s) t with
  | Some (un, ue) =>
      {| disk := disk s; wal := wal s; regs := regs s;
         usage := alist_set (usage s) t (match k with KNode => (un - 1, ue) | KEdge => (un, ue - 1) end) |}
  | None => s
  end.

Definition log (s : pstate) (w : wentry) : pstate :=
  {| disk := disk s; wal := wal s ++ [w]; regs := regs s; usage := usage s |}.
Definition with_disk (s : pstate) (g : store) : pstate :=
  {| disk := g; wal := wal s; regs := regs s; usage := usage s |}.

Definition wentry_of (o : op) : option wentry :=
  match o with
  | CreateNode t id _ _ => Some (WCreateNode t id)
  | CreateEdge t id _ _ _ _ => Some (WCreateEdge t id)
  | DeleteNode t id => Some (WDeleteNode t id)
  | DeleteEdge t id => Some (WDeleteEdge t id)
  | UpdateNode t id _ => Some (WUpdateNode t id)
  | UpdateEdge t id _ => Some (WUpdateEdge t id)
  | Reopen _ => None
  end.

(* PersistenceManager::recover for one tenant: the two scans; the usage counters are SET
   to the counts when the registry knows the tenant *)
Definition count_of {V} (m : list (key * V)) (t : N) : N :=
  N.of_nat (length (filter (fun kv => N.eqb (fst (fst kv)) t) m)).
Definition recover_usage (g : store) (us : list (N * counts)) (t : N) : list (N * counts) :=
  match alist_get us t with
  | Some _ => alist_set us t (count_of (s_nodes g) t, count_of (s_edges g) t)
  | None => us
  end.
Definition recover (s : pstate) (t : N) : (list (N * nval) * list (N * eval)) * pstate :=
  (view (disk s) t,
   {| disk := disk s; wal := wal s; regs := regs s; usage := recover_usage (disk s) (usage s) t |}).

(* tenants that have a node in storage (list_persisted_tenants reads the nodes CF) *)
Definition persisted_tenants (g : store) : list N := map (fun kv => fst (fst kv)) (s_nodes g).

(* a new process on the same directory *)
Definition reopen (s : pstate) (rs : list (N * quotas)) : pstate :=
  let '(rg, us) := fold_left register rs (fresh_regs, fresh_usage) in
  let us' := fold_left (recover_usage (disk s)) (persisted_tenants (disk s)) us in
  {| disk := disk s; wal := wal s; regs := rg; usage := us' |}.

(* the gate in front of the durable steps: Some = the operation goes on, None = it returns
   an error before writing anything *)
Definition gate (s : pstate) (o : op) : option pstate :=
  match o with
  | CreateNode t _ _ _ => reserve s t KNode
  | CreateEdge t _ _ _ _ _ => reserve s t KEdge
  | DeleteNode t _ | DeleteEdge t _ =>
      match alist_get (regs s) t with Some _ => Some s | None => None end
  | UpdateNode _ _ _ | UpdateEdge _ _ _ => Some s
  | Reopen _ => Some s
  end.

(* bookkeeping after the storage write (volatile only) *)
Definition settle (before : store) (s : pstate) (o : op) : pstate :=
  match o with
  | CreateNode t id _ _ =>
      match kv_get (s_nodes before) (t, id) with Some _ => release s t KNode | None => s end
  | CreateEdge t id _ _ _ _ =>
      match kv_get (s_edges before) (t, id) with Some _ => release s t KEdge | None => s end
  (* the unit is freed only if the entity was actually stored *)
  | DeleteNode t id =>
      match kv_get (s_nodes before) (t, id) with Some _ => release s t KNode | None => s end
  | DeleteEdge t id =>
      match kv_get (s_edges before) (t, id) with Some _ => release s t KEdge | None => s end
  | _ => s
  end.

(* the first [d] durable steps of an admitted operation: 1 = WAL append, 2 = + storage write *)
Definition durable_steps (d : nat) (s : pstate) (o : op) : pstate :=
  match wentry_of o with
  | None => s
  | Some w =>
      match d with
      | O => s
      | S O => log s w
      | S (S _) => with_disk (log s w) (effect (disk s) o)
      end
  end.

(* a whole operation: state and whether it was acknowledged (returned Ok) *)
Definition run_op (s : pstate) (o : op) : pstate * bool :=
  match o with
  | Reopen rs => (reopen s rs, true)
  | _ =>
      match gate s o with
      | None => (s, false)
      | Some s1 => (settle (disk s) (durable_steps 2 s1 o) o, true)
      end
  end.

Fixpoint run (s : pstate) (ops : list op) : pstate * list bool :=
  match ops with
  | [] => (s, [])
  | o :: r => let '(s1, a) := run_op s o in
              let '(s2, acks) := run s1 r in (s2, a :: acks)
  end.

(* the operations of [ops] that were acknowledged *)
Fixpoint acked (ops : list op) (acks : list bool) : list op :=
  match ops, acks with
  | o :: r, true :: ar => o :: acked r ar
  | _ :: r, false :: ar => acked r ar
  | _, _ => []
  end.

(* process killed while [o] was in flight with d durable steps done (the hook point was
   reached, so the operation had been admitted); None when no hook point exists there *)
Definition crash_in (s : pstate) (o : op) (d : nat) : option pstate :=
  match o with
  | Reopen _ => None
  | _ => match gate s o with
         | None => None
         | Some s1 => Some (durable_steps d s1 o)
         end
  end.

(* ---- correspondence ---- *)
(* initial tenants, history, crash position (index of the operation in flight, durable steps
   done) or None for a run to the end, acknowledgements observed for the completed operations,
   and for every tenant of the pool what recover returned in a NEW process (nodes, edges,
   each sorted by id) *)
Definition case :=
  (list (N * quotas) * list op * option (N * N) * list bool
   * list (N * option (list (N * nval) * list (N * eval))))%type.

Fixpoint insert_by_id {V} (x : N * V) (l : list (N * V)) : list (N * V) :=
  match l with
  | [] => [x]
  | y :: r => if N.leb (fst x) (fst y) then x :: l else y :: insert_by_id x r
  end.
Definition sort_by_id {V} (l : list (N * V)) : list (N * V) := fold_right insert_by_id [] l.

Definition props_eqb : props -> props -> bool :=
  list_eqb (fun a b => N.eqb (fst a) (fst b) && N.eqb (snd a) (snd b)).
Definition nval_eqb (a b : nval) : bool := list_eqb N.eqb (fst a) (fst b) && props_eqb (snd a) (snd b).
Definition eval_eqb (a b : eval) : bool :=
  let '(a1, a2, a3, a4) := a in let '(b1, b2, b3, b4) := b in
  N.eqb a1 b1 && N.eqb a2 b2 && N.eqb a3 b3 && props_eqb a4 b4.

Definition view_eqb (m o : list (N * nval) * list (N * eval)) : bool :=
  list_eqb (fun a b => N.eqb (fst a) (fst b) && nval_eqb (snd a) (snd b)) (sort_by_id (fst m)) (fst o)
  && list_eqb (fun a b => N.eqb (fst a) (fst b) && eval_eqb (snd a) (snd b)) (sort_by_id (snd m)) (snd o).

Definition check_case (c : case) : bool :=
  let '(rs, ops, crash, acks_obs, rec_obs) := c in
  let s0 := init rs in
  let final : option (pstate * list bool) :=
    match crash with
    | None => Some (run s0 ops)
    | Some (i, d) =>
        let '(s1, acks) := run s0 (firstn (N.to_nat i) ops) in
        match nth_error ops (N.to_nat i) with
        | None => None
        | Some o => match crash_in s1 o (N.to_nat d) with
                    | Some s2 => Some (s2, acks)
                    | None => None
                    end
        end
    end in
  match final with
  | None => false
  | Some (s, acks) =>
      list_eqb Bool.eqb acks acks_obs
      && forallb (fun r => match snd r with
                           | None => false     (* recover must succeed for every tenant *)
                           | Some o => view_eqb (fst (recover (reopen s []) (fst r))) o
                           end) rec_obs
  end.
