(* Model of the read/write routing of the two front ends after the repair:
   src/protocol/command.rs (handle_graph_query) and src/http/handler.rs (query_handler) ask
   QueryEngine::statement_is_write (src/query/mod.rs) and keep their old substring guess only
   for text that does not parse or plan.  Also: a token-level classifier is_write_tok that
   stands for "parse + plan + is_write" in the correspondence.  Executable; no proofs here. *)
From Coq Require Import List NArith Bool.
From Verif Require Import CheckLib QueryCache.
Import ListNotations.
Open Scope N_scope.

(* ---------- tokens: identifiers (upper-cased) and single punctuation bytes, outside string
   literals and comments; a string literal is the one-byte token [39] ---------- *)
Definition is_idch (c : N) : bool :=
  ((48 <=? c) && (c <=? 57)) || ((65 <=? c) && (c <=? 90)) || ((97 <=? c) && (c <=? 122)) || (c =? 95).

Definition flush (cur : bytes) (rest : list bytes) : list bytes :=
  match cur with [] => rest | _ => rev cur :: rest end.

Fixpoint lexw_from (m : mode) (cur : bytes) (l : bytes) : list bytes :=
  match l with
  | [] => flush cur []
  | c :: r =>
      let km := step_cls m c (slash_next r) in
      match fst km with
      | KWd => if is_idch c then lexw_from (snd km) (upper c :: cur) r
               else flush cur ([c] :: lexw_from (snd km) [] r)
      | KSq => flush cur ([39] :: lexw_from (snd km) [] r)
      | _ => flush cur (lexw_from (snd km) [] r)
      end
  end.

Definition lexw (s : bytes) : list bytes := lexw_from MOut [] s.

Definition kw_create  : bytes := [67;82;69;65;84;69].
Definition kw_merge   : bytes := [77;69;82;71;69].
Definition kw_set     : bytes := [83;69;84].
Definition kw_remove  : bytes := [82;69;77;79;86;69].
Definition kw_delete  : bytes := [68;69;76;69;84;69].
Definition kw_foreach : bytes := [70;79;82;69;65;67;72].
Definition kw_drop    : bytes := [68;82;79;80].
Definition kw_rebuild : bytes := [82;69;66;85;73;76;68].
Definition kw_explain : bytes := [69;88;80;76;65;73;78].
Definition kw_call    : bytes := [67;65;76;76].

Definition write_kws : list bytes :=
  [kw_create; kw_merge; kw_set; kw_remove; kw_delete; kw_foreach; kw_drop; kw_rebuild].

Fixpoint starts_with (p s : bytes) : bool :=
  match p, s with
  | [], _ => true
  | a :: p', b :: s' => (a =? b) && starts_with p' s'
  | _ :: _, [] => false
  end.

Definition kw_detach : bytes := [68;69;84;65;67;72].

(* The grammar is scannerless and its keywords have no word boundary: `DELETEn` is DELETE n,
   `DETACHDELETE n` is DETACH DELETE n.  So a token counts when it *begins* with a write / DDL
   keyword (in particular when it is one). *)
Definition is_write_kw (t : bytes) : bool :=
  existsb (fun k => starts_with k t) (kw_detach :: write_kws).

(* ... unless the position is one where the grammar reads a name or an expression, so that the
   token is a variable / alias / procedure / index name (`RETURN delete`, `WHERE set > 1`,
   `AS created`, `(settings)`): directly after one of these keywords or punctuation bytes *)
Definition expr_prev_kws : list bytes :=
  [ [82;69;84;85;82;78] (* RETURN *); [87;73;84;72] (* WITH *); [87;72;69;82;69] (* WHERE *);
    [65;78;68] (* AND *); [79;82] (* OR *); [88;79;82] (* XOR *); [78;79;84] (* NOT *);
    [73;78] (* IN *); [65;83] (* AS *); [66;89] (* BY *); [68;73;83;84;73;78;67;84] (* DISTINCT *);
    [85;78;87;73;78;68] (* UNWIND *); [87;72;69;78] (* WHEN *); [84;72;69;78] (* THEN *);
    [69;76;83;69] (* ELSE *); [67;65;83;69] (* CASE *); [67;79;78;84;65;73;78;83] (* CONTAINS *);
    [89;73;69;76;68] (* YIELD *); [67;65;76;76] (* CALL *); [77;65;84;67;72] (* MATCH *);
    [73;78;68;69;88] (* INDEX *); [67;79;78;83;84;82;65;73;78;84] (* CONSTRAINT *);
    [65;83;83;69;82;84] (* ASSERT *); [82;69;81;85;73;82;69] (* REQUIRE *);
    [44]; [40]; [91]; [61]; [43]; [45]; [42]; [47]; [37]; [60]; [62]; [94] ].
Definition expr_prev (prev : bytes) : bool := existsb (bytes_eqb prev) expr_prev_kws.

(* a name, not a keyword: property / label / parameter position, or a map key *)
Definition name_prefix (prev : bytes) : bool :=
  bytes_eqb prev [46] || bytes_eqb prev [58] || bytes_eqb prev [36].
Definition next_is_colon (r : list bytes) : bool :=
  match r with t :: _ => bytes_eqb t [58] | [] => false end.

Fixpoint has_write (prev : bytes) (ts : list bytes) : bool :=
  match ts with
  | [] => false
  | t :: r => (is_write_kw t && negb (name_prefix prev) && negb (expr_prev prev) && negb (next_is_colon r))
              || has_write t r
  end.

(* EXPLAIN never executes; a CALL { ... } subquery stays on the read path (writes inside it are
   refused there); otherwise a statement writes iff a write / DDL keyword occurs *)
Definition is_write_tok (ts : list bytes) : bool :=
  match ts with
  | t :: r =>
      if starts_with kw_explain t then false
      else if bytes_eqb t kw_call && match r with u :: _ => bytes_eqb u [123] | [] => false end then false
      else has_write [] ts
  | [] => false
  end.

(* ---------- the old substring guesses (kept as fallback), over ASCII ---------- *)
Fixpoint contains (p s : bytes) : bool :=
  starts_with p s || match s with [] => false | _ :: s' => contains p s' end.
Definition ends_with (p s : bytes) : bool := starts_with (rev p) (rev s).

Definition is_trim_ws (c : N) : bool := is_ws c || (c =? 11) || (c =? 12).
Fixpoint trim_start (s : bytes) : bytes :=
  match s with c :: r => if is_trim_ws c then trim_start r else s | [] => [] end.
Definition trim (s : bytes) : bytes := rev (trim_start (rev (trim_start s))).
Definition to_upper (s : bytes) : bytes := map upper s.
Definition sp (k : bytes) : bytes := 32 :: k ++ [32].

Definition heur_resp (q : bytes) : bool :=
  let u := to_upper (trim q) in
  starts_with kw_create u || starts_with kw_delete u || starts_with kw_set u || starts_with kw_merge u
  || contains (sp kw_create) u || contains (sp kw_delete) u || contains (sp kw_set) u || contains (sp kw_merge) u.

Definition kw_match : bytes := [77;65;84;67;72].
Definition heur_http (q : bytes) : bool :=
  let u := to_upper (trim q) in
  starts_with kw_create u || starts_with kw_set u || starts_with kw_delete u || starts_with kw_merge u
  || (starts_with kw_match u &&
      (contains (sp kw_create) u || contains (sp kw_set) u || contains (sp kw_delete) u
       || contains (sp kw_merge) u || contains (sp kw_remove) u
       || ends_with (32 :: kw_create) u || ends_with (32 :: kw_set) u
       || ends_with (32 :: kw_delete) u || ends_with (32 :: kw_merge) u)).

(* ---------- outcome model: front end vs engine ---------- *)
Section Front.
  Variables ast store res perr : Type.
  Variable parse : bytes -> ast + perr.                 (* QueryEngine::cached_parse (C03: = parse_query) *)
  Variable classify : ast -> store -> option bool.      (* QueryEngine::query_is_write; None = cannot be planned *)
  Variable exec_ro : ast -> store -> res.               (* QueryExecutor::execute: holds &GraphStore *)
  Variable exec_rw : ast -> store -> store * res.       (* MutQueryExecutor::execute *)
  Variable res_perr : perr -> res.
  Variable heuristic : bytes -> bool.                   (* the front end's old guess *)

  (* QueryEngine::execute / execute_mut *)
  Definition engine_read (q : bytes) (g : store) : res :=
    match parse q with inr e => res_perr e | inl a => exec_ro a g end.
  Definition engine_mut (q : bytes) (g : store) : store * res :=
    match parse q with inr e => (g, res_perr e) | inl a => exec_rw a g end.

  Definition routed_write (q : bytes) (g : store) : bool :=
    match parse q with
    | inr _ => heuristic q
    | inl a => match classify a g with Some b => b | None => heuristic q end
    end.

  (* handle_graph_query / query_handler: write lock + execute_mut, or read lock + execute *)
  Definition front_end (q : bytes) (g : store) : store * res :=
    if routed_write q g then engine_mut q g else (g, engine_read q g).

  (* the statement run directly on the engine: the mutable entry point exactly for what the
     planner calls a write, the read-only one otherwise *)
  Definition is_write (q : bytes) (g : store) : bool :=
    match parse q with
    | inl a => match classify a g with Some true => true | _ => false end
    | inr _ => false
    end.
  Definition engine (q : bytes) (g : store) : store * res :=
    if is_write q g then engine_mut q g else (g, engine_read q g).
End Front.

(* ---------- correspondence: the token classifier against the engine's own decision ----------
   case = query text, QueryEngine::statement_is_write on it (None: does not parse / plan) *)
Definition case := (bytes * option bool)%type.

Definition check_case (c : case) : bool :=
  let '(q, w) := c in
  match w with
  | Some b => Bool.eqb (is_write_tok (lexw q)) b
  | None => true
  end.
