(* Reference semantics for a Cypher fragment, part 1: values, the logical
   property graph, expressions and their evaluation (three-valued logic, i64
   arithmetic with overflow as an error, orderability).  Executable; no proofs
   here.  Names (variables, labels, relationship types, property keys,
   parameters) are numbers; the harness renders them as text
   (label k = chr(65+k), type k = chr(82+k), key k = "p<k>", variable k = "v<k>"). *)
From Coq Require Import List NArith ZArith Bool.
Import ListNotations.
Open Scope N_scope.

(* ---------- outcomes ---------- *)
(* ErrT: openCypher raises a type error (operand outside the operator's domain);
   ErrA: openCypher raises an arithmetic error (overflow, division by zero);
   Undet: the answer is not determined (SKIP/LIMIT in the middle of a pipeline
   over an order with ties). *)
Inductive outcome (A : Type) := Ok (a : A) | ErrT | ErrA | Undet.
Arguments Ok {A} a.
Arguments ErrT {A}.
Arguments ErrA {A}.
Arguments Undet {A}.

Definition obind {A B} (o : outcome A) (f : A -> outcome B) : outcome B :=
  match o with Ok a => f a | ErrT => ErrT | ErrA => ErrA | Undet => Undet end.

(* all results, or the dominating failure: undetermined, then a type error, then
   an arithmetic error (row evaluation order is not specified by openCypher) *)
Fixpoint oseq {A} (l : list (outcome A)) : outcome (list A) :=
  match l with
  | [] => Ok []
  | o :: r =>
      match o, oseq r with
      | Undet, _ | _, Undet => Undet
      | ErrT, _ | _, ErrT => ErrT
      | ErrA, _ | _, ErrA => ErrA
      | Ok a, Ok l' => Ok (a :: l')
      end
  end.

Definition omap {A B} (f : A -> outcome B) (l : list A) : outcome (list B) := oseq (map f l).

(* ---------- values ---------- *)
Inductive value :=
| VNull
| VBool (b : bool)
| VInt (z : Z)
| VStr (s : list N)          (* bytes; the generator uses ASCII only *)
| VList (l : list value)
| VNode (id : N)
| VRel (id : N).

Fixpoint list_eqb {A} (eqb : A -> A -> bool) (a b : list A) : bool :=
  match a, b with
  | [], [] => true
  | x :: a', y :: b' => eqb x y && list_eqb eqb a' b'
  | _, _ => false
  end.

(* structural equality (the equivalence used by DISTINCT, grouping, UNION) *)
Fixpoint value_eqb (a b : value) : bool :=
  match a, b with
  | VNull, VNull => true
  | VBool x, VBool y => Bool.eqb x y
  | VInt x, VInt y => Z.eqb x y
  | VStr x, VStr y => list_eqb N.eqb x y
  | VList x, VList y =>
      (fix go (x y : list value) : bool :=
         match x, y with
         | [], [] => true
         | u :: x', v :: y' => value_eqb u v && go x' y'
         | _, _ => false
         end) x y
  | VNode x, VNode y => N.eqb x y
  | VRel x, VRel y => N.eqb x y
  | _, _ => false
  end.

Definition memN (x : N) (l : list N) : bool := existsb (N.eqb x) l.
Definition mem_value (x : value) (l : list value) : bool := existsb (value_eqb x) l.

(* ---------- the logical graph ---------- *)
Record node := { n_id : N; n_labels : list N; n_props : list (N * value) }.
Record rel := { r_id : N; r_src : N; r_tgt : N; r_type : N; r_props : list (N * value) }.
Record graph := { g_nodes : list node; g_rels : list rel }.

Fixpoint alookup {A} (k : N) (l : list (N * A)) : option A :=
  match l with
  | [] => None
  | (k', v) :: r => if N.eqb k k' then Some v else alookup k r
  end.

Definition prop_of (k : N) (ps : list (N * value)) : value :=
  match alookup k ps with Some v => v | None => VNull end.

Definition find_node (g : graph) (i : N) : option node := find (fun n => N.eqb (n_id n) i) (g_nodes g).
Definition find_rel (g : graph) (i : N) : option rel := find (fun r => N.eqb (r_id r) i) (g_rels g).

Definition label_str (l : N) : list N := [65 + l].
Definition type_str (t : N) : list N := [82 + t].

(* ---------- three-valued logic ---------- *)
Definition tri := option bool.           (* None = unknown *)
Definition and3 (a b : tri) : tri :=
  match a, b with
  | Some false, _ | _, Some false => Some false
  | Some true, Some true => Some true
  | _, _ => None
  end.
Definition or3 (a b : tri) : tri :=
  match a, b with
  | Some true, _ | _, Some true => Some true
  | Some false, Some false => Some false
  | _, _ => None
  end.
Definition xor3 (a b : tri) : tri :=
  match a, b with
  | Some x, Some y => Some (xorb x y)
  | _, _ => None
  end.
Definition not3 (a : tri) : tri := option_map negb a.

Definition tri_value (t : tri) : value := match t with Some b => VBool b | None => VNull end.
Definition to_tri (v : value) : outcome tri :=
  match v with VBool b => Ok (Some b) | VNull => Ok None | _ => ErrT end.

(* Cypher equality: unknown when a null has to be looked at *)
Fixpoint eq3 (a b : value) : tri :=
  match a, b with
  | VNull, _ | _, VNull => None
  | VBool x, VBool y => Some (Bool.eqb x y)
  | VInt x, VInt y => Some (Z.eqb x y)
  | VStr x, VStr y => Some (list_eqb N.eqb x y)
  | VNode x, VNode y => Some (N.eqb x y)
  | VRel x, VRel y => Some (N.eqb x y)
  | VList x, VList y =>
      if Nat.eqb (length x) (length y) then
        (fix go (x y : list value) : tri :=
           match x, y with
           | u :: x', v :: y' => and3 (eq3 u v) (go x' y')
           | _, _ => Some true
           end) x y
      else Some false
  | _, _ => Some false
  end.

Fixpoint lex_cmp (a b : list N) : comparison :=
  match a, b with
  | [], [] => Eq
  | [], _ => Lt
  | _, [] => Gt
  | x :: a', y :: b' => match N.compare x y with Eq => lex_cmp a' b' | c => c end
  end.

(* Cypher ordering comparison ( < <= > >= ): defined within integers, strings, booleans *)
Definition cmp3 (a b : value) : option comparison :=
  match a, b with
  | VInt x, VInt y => Some (Z.compare x y)
  | VStr x, VStr y => Some (lex_cmp x y)
  | VBool x, VBool y => Some (match x, y with false, true => Lt | true, false => Gt | _, _ => Eq end)
  | _, _ => None
  end.

(* ---------- orderability (ORDER BY, min, max): a total preorder ----------
   List < String < Boolean < Integer < null.  openCypher leaves the relative order of
   nodes and of relationships to the implementation; here they sort with null and compare
   equal to each other, so no particular order among them is demanded. *)
Definition rank (v : value) : N :=
  match v with
  | VList _ => 2 | VStr _ => 3 | VBool _ => 4 | VInt _ => 5 | VNull | VNode _ | VRel _ => 6
  end.

Fixpoint ord_cmp (a b : value) : comparison :=
  match a, b with
  | VNull, VNull => Eq
  | VBool x, VBool y => match x, y with false, true => Lt | true, false => Gt | _, _ => Eq end
  | VInt x, VInt y => Z.compare x y
  | VStr x, VStr y => lex_cmp x y
  | VList x, VList y =>
      (fix go (x y : list value) : comparison :=
         match x, y with
         | [], [] => Eq
         | [], _ => Lt
         | _, [] => Gt
         | u :: x', v :: y' => match ord_cmp u v with Eq => go x' y' | c => c end
         end) x y
  | _, _ => N.compare (rank a) (rank b)
  end.

(* a total structural order (entities by id), used only to normalise collected lists *)
Definition rank_tot (v : value) : N :=
  match v with
  | VNode _ => 0 | VRel _ => 1 | VList _ => 2 | VStr _ => 3 | VBool _ => 4 | VInt _ => 5 | VNull => 6
  end.
Fixpoint tot_cmp (a b : value) : comparison :=
  match a, b with
  | VNull, VNull => Eq
  | VBool x, VBool y => match x, y with false, true => Lt | true, false => Gt | _, _ => Eq end
  | VInt x, VInt y => Z.compare x y
  | VStr x, VStr y => lex_cmp x y
  | VNode x, VNode y => N.compare x y
  | VRel x, VRel y => N.compare x y
  | VList x, VList y =>
      (fix go (x y : list value) : comparison :=
         match x, y with
         | [], [] => Eq
         | [], _ => Lt
         | _, [] => Gt
         | u :: x', v :: y' => match tot_cmp u v with Eq => go x' y' | c => c end
         end) x y
  | _, _ => N.compare (rank_tot a) (rank_tot b)
  end.

(* ---------- configuration ----------
   The reference semantics is [ref_cfg].  [eng_cfg] switches on the deviations of the
   pinned engine that are recorded as known findings (known_findings.txt), so that a case
   in such a class is still compared - against what the engine is known to do. *)
Record cfg := CF {
  cf_eq3_lists : bool;       (* = and <> on two lists are three-valued (a null inside makes them unknown) *)
  cf_path_iso : bool;        (* relationship isomorphism also across the comma-separated paths of a MATCH *)
  cf_with_empty_agg : bool;  (* WITH <aggregates only> over no rows yields one row *)
  cf_sum_distinct : bool;    (* sum(DISTINCT x) removes duplicates *)
  cf_collect_distinct_entities : bool; (* collect(DISTINCT x) keeps nodes and relationships *)
  cf_orderby_errors : bool   (* an error in an ORDER BY expression is an error (not a null key) *) }.
Definition ref_cfg : cfg := CF true true true true true true.
Definition eng_cfg : cfg := CF false false false false false false.

(* ---------- expressions ---------- *)
Inductive cmpop := OEq | ONe | OLt | OLe | OGt | OGe.
Inductive arith := AAdd | ASub | AMul | ADiv | AMod.
Inductive fn := FId | FLabels | FType | FSize | FCoalesce.

Inductive expr :=
| ELit (v : value)
| EVar (x : N)
| EProp (x : N) (k : N)
| EParam (p : N)
| ECmp (o : cmpop) (a b : expr)
| EAnd (a b : expr)
| EOr (a b : expr)
| EXor (a b : expr)
| ENot (a : expr)
| EIsNull (a : expr)
| EIsNotNull (a : expr)
| EArith (o : arith) (a b : expr)
| ENeg (a : expr)
| EIn (a b : expr)
| EList (l : list expr)
| EFn (f : fn) (args : list expr).

Definition row := list (N * value).
Definition penv := list (N * value).        (* parameter environment *)

Definition i64_min : Z := (-9223372036854775808)%Z.
Definition i64_max : Z := 9223372036854775807%Z.
Definition in_i64 (z : Z) : bool := (Z.leb i64_min z && Z.leb z i64_max)%bool.
Definition mk_int (z : Z) : outcome value := if in_i64 z then Ok (VInt z) else ErrA.

Definition eval_arith (o : arith) (a b : value) : outcome value :=
  match a, b with
  | VNull, _ | _, VNull => Ok VNull
  | VInt x, VInt y =>
      match o with
      | AAdd => mk_int (x + y)
      | ASub => mk_int (x - y)
      | AMul => mk_int (x * y)
      | ADiv => if Z.eqb y 0 then ErrA else mk_int (Z.quot x y)
      | AMod => if Z.eqb y 0 then ErrA else mk_int (Z.rem x y)
      end
  | VStr x, VStr y => match o with AAdd => Ok (VStr (x ++ y)) | _ => ErrT end
  | VList x, VList y => match o with AAdd => Ok (VList (x ++ y)) | _ => ErrT end
  | VList x, y => match o with AAdd => Ok (VList (x ++ [y])) | _ => ErrT end
  | x, VList y => match o with AAdd => Ok (VList (x :: y)) | _ => ErrT end
  | _, _ => ErrT
  end.

Definition eq_cfg (cf : cfg) (a b : value) : tri :=
  match a, b with
  | VList _, VList _ => if cf_eq3_lists cf then eq3 a b else Some (value_eqb a b)
  | _, _ => eq3 a b
  end.

Definition eval_cmp (cf : cfg) (o : cmpop) (a b : value) : value :=
  match o with
  | OEq => tri_value (eq_cfg cf a b)
  | ONe => tri_value (not3 (eq_cfg cf a b))
  | _ =>
      match a, b with
      | VNull, _ | _, VNull => VNull
      | _, _ =>
          match cmp3 a b with
          | None => VNull
          | Some c =>
              VBool (match o, c with
                     | OLt, Lt | OLe, Lt | OLe, Eq | OGt, Gt | OGe, Gt | OGe, Eq => true
                     | _, _ => false
                     end)
          end
      end
  end.

Definition in3 (a : value) (l : list value) : tri :=
  fold_right (fun x acc => or3 (eq3 a x) acc) (Some false) l.

Definition nat_z (n : nat) : Z := Z.of_nat n.

Definition eval_fn (g : graph) (f : fn) (args : list value) : outcome value :=
  match f with
  | FCoalesce =>
      Ok (match find (fun v => negb (value_eqb v VNull)) args with Some v => v | None => VNull end)
  | _ =>
      match args with
      | [VNull] => Ok VNull
      | [v] =>
          match f, v with
          | FId, VNode i => Ok (VInt (Z.of_N i))
          | FId, VRel i => Ok (VInt (Z.of_N i))
          | FLabels, VNode i =>
              match find_node g i with
              | Some n => Ok (VList (map (fun l => VStr (label_str l)) (n_labels n)))
              | None => ErrT
              end
          | FType, VRel i =>
              match find_rel g i with
              | Some r => Ok (VStr (type_str (r_type r)))
              | None => ErrT
              end
          | FSize, VList l => Ok (VInt (nat_z (length l)))
          | FSize, VStr s => Ok (VInt (nat_z (length s)))
          | _, _ => ErrT
          end
      | _ => ErrT
      end
  end.

Definition eval_prop (g : graph) (v : value) (k : N) : outcome value :=
  match v with
  | VNull => Ok VNull
  | VNode i => match find_node g i with Some n => Ok (prop_of k (n_props n)) | None => ErrT end
  | VRel i => match find_rel g i with Some r => Ok (prop_of k (r_props r)) | None => ErrT end
  | _ => ErrT
  end.

Definition bool2 (f : tri -> tri -> tri) (a b : value) : outcome value :=
  obind (to_tri a) (fun x => obind (to_tri b) (fun y => Ok (tri_value (f x y)))).

Fixpoint eval_expr (cf : cfg) (g : graph) (ps : penv) (r : row) (e : expr) : outcome value :=
  match e with
  | ELit v => Ok v
  | EVar x => match alookup x r with Some v => Ok v | None => ErrT end
  | EProp x k => match alookup x r with Some v => eval_prop g v k | None => ErrT end
  | EParam p => match alookup p ps with Some v => Ok v | None => ErrT end
  | ECmp o a b =>
      obind (eval_expr cf g ps r a) (fun x => obind (eval_expr cf g ps r b) (fun y => Ok (eval_cmp cf o x y)))
  | EAnd a b => obind (eval_expr cf g ps r a) (fun x => obind (eval_expr cf g ps r b) (fun y => bool2 and3 x y))
  | EOr a b => obind (eval_expr cf g ps r a) (fun x => obind (eval_expr cf g ps r b) (fun y => bool2 or3 x y))
  | EXor a b => obind (eval_expr cf g ps r a) (fun x => obind (eval_expr cf g ps r b) (fun y => bool2 xor3 x y))
  | ENot a => obind (eval_expr cf g ps r a) (fun x => obind (to_tri x) (fun t => Ok (tri_value (not3 t))))
  | EIsNull a => obind (eval_expr cf g ps r a) (fun x => Ok (VBool (value_eqb x VNull)))
  | EIsNotNull a => obind (eval_expr cf g ps r a) (fun x => Ok (VBool (negb (value_eqb x VNull))))
  | EArith o a b =>
      obind (eval_expr cf g ps r a) (fun x => obind (eval_expr cf g ps r b) (fun y => eval_arith o x y))
  | ENeg a =>
      obind (eval_expr cf g ps r a) (fun x =>
        match x with VInt z => mk_int (- z) | VNull => Ok VNull | _ => ErrT end)
  | EIn a b =>
      obind (eval_expr cf g ps r a) (fun x => obind (eval_expr cf g ps r b) (fun y =>
        match y with VList l => Ok (tri_value (in3 x l)) | VNull => Ok VNull | _ => ErrT end))
  | EList l =>
      obind ((fix go (l : list expr) : outcome (list value) :=
                match l with
                | [] => Ok []
                | a :: l' => obind (eval_expr cf g ps r a) (fun x => obind (go l') (fun xs => Ok (x :: xs)))
                end) l) (fun xs => Ok (VList xs))
  | EFn f args =>
      obind ((fix go (l : list expr) : outcome (list value) :=
                match l with
                | [] => Ok []
                | a :: l' => obind (eval_expr cf g ps r a) (fun x => obind (go l') (fun xs => Ok (x :: xs)))
                end) args) (fun xs => eval_fn g f xs)
  end.

(* a predicate as WHERE reads it: Some true keeps the row *)
Definition eval_pred (cf : cfg) (g : graph) (ps : penv) (r : row) (e : expr) : outcome bool :=
  obind (eval_expr cf g ps r e) (fun v => obind (to_tri v) (fun t =>
    Ok (match t with Some true => true | _ => false end))).

(* ---------- parameter inlining (C35) ---------- *)
Fixpoint inline_expr (ps : penv) (e : expr) : expr :=
  match e with
  | ELit _ | EVar _ | EProp _ _ => e
  | EParam p => match alookup p ps with Some v => ELit v | None => EParam p end
  | ECmp o a b => ECmp o (inline_expr ps a) (inline_expr ps b)
  | EAnd a b => EAnd (inline_expr ps a) (inline_expr ps b)
  | EOr a b => EOr (inline_expr ps a) (inline_expr ps b)
  | EXor a b => EXor (inline_expr ps a) (inline_expr ps b)
  | ENot a => ENot (inline_expr ps a)
  | EIsNull a => EIsNull (inline_expr ps a)
  | EIsNotNull a => EIsNotNull (inline_expr ps a)
  | EArith o a b => EArith o (inline_expr ps a) (inline_expr ps b)
  | ENeg a => ENeg (inline_expr ps a)
  | EIn a b => EIn (inline_expr ps a) (inline_expr ps b)
  | EList l => EList (map (inline_expr ps) l)
  | EFn f args => EFn f (map (inline_expr ps) args)
  end.
