(* Model of the MVCC version store of src/graph/store.rs : node version chains
   (create_node*, set_node_property copy-on-write, get_node_at_version), the
   relationship property version log (create_edge with its creation image, set_edge_property
   with its pre-image,
   get_edge_at_version), get_node_for_txn / get_edge_for_txn, gc_versions,
   gc_watermark, gc_auto.  The transaction table is model/Txn.v.
   Executable; no proofs here.

   Version chains and logs are lists, oldest first (Vec push order).  A node
   version carries its property map (labels never change in the modelled
   operations); property maps are sorted association lists key -> value. *)
From Coq Require Import List NArith Bool.
From Verif Require Import Txn.
Import ListNotations.
Open Scope N_scope.

Definition props := list (N * N).

(* HashMap::insert on a property map, canonical (sorted by key) *)
Fixpoint pset (k v : N) (p : props) : props :=
  match p with
  | [] => [(k, v)]
  | (k', v') :: r =>
      if N.eqb k k' then (k, v) :: r
      else if N.ltb k k' then (k, v) :: p
      else (k', v') :: pset k v r
  end.

Record ver := { v_ver : N; v_props : props }.   (* Node.version / EdgeVersionEntry.version *)

Record store := {
  tx : Txn.state;                  (* current_version, transaction table, last-commit maps *)
  next_node : N;
  next_edge : N;
  nodes : list (N * list ver);     (* nodes[id] : version chain *)
  live : list N;                   (* relationships that exist (endpoints set, type set) *)
  eprops : list (N * props);       (* edge_properties (sparse) *)
  elog : list (N * list ver)       (* edge_version_log (sparse) *)
}.

Definition init : store :=
  {| tx := Txn.init; next_node := 1; next_edge := 1; nodes := []; live := []; eprops := []; elog := [] |}.

Definition curv (s : store) : N := cur (tx s).

(* iter().rev().find(p): the last element satisfying p *)
Fixpoint rfind {A} (p : A -> bool) (l : list A) : option A :=
  match l with
  | [] => None
  | x :: r => match rfind p r with
              | Some y => Some y
              | None => if p x then Some x else None
              end
  end.

(* iter().rposition(p): index of the last element satisfying p *)
Fixpoint rposition {A} (p : A -> bool) (l : list A) : option nat :=
  match l with
  | [] => None
  | x :: r => match rposition p r with
              | Some i => Some (S i)
              | None => if p x then Some O else None
              end
  end.

(* get_node_at_version *)
Definition read_node (s : store) (id v : N) : option ver :=
  match lookup id (nodes s) with
  | None => None
  | Some chain => rfind (fun e => N.leb (v_ver e) v) chain
  end.

Definition has_node (s : store) (id : N) : bool :=
  match read_node s id (curv s) with Some _ => true | None => false end.

Definition has_edge (s : store) (id : N) : bool := mem id (live s).

Definition cur_eprops (s : store) (id : N) : props :=
  match lookup id (eprops s) with Some p => p | None => [] end.

(* get_edge_at_version: (edge version, properties).  The first entry of a log is keyed by
   the version the relationship exists from (creation image, or the pre-image pushed under
   version 1 by the first update of a relationship created at version 1): when every entry
   is newer than v the relationship did not exist yet (or that history was collected). *)
Definition read_edge (s : store) (id v : N) : option ver :=
  if negb (has_edge s id) then None
  else
    match lookup id (elog s) with
    | Some log =>
        match rfind (fun e => N.leb (v_ver e) v) log with
        | Some entry =>
            let r :=
              if existsb (fun e => N.ltb v (v_ver e)) log || N.ltb v (curv s)
              then {| v_ver := v_ver entry; v_props := v_props entry |}      (* historical snapshot *)
              else {| v_ver := v_ver entry; v_props := cur_eprops s id |} in (* current read *)
            if N.ltb v (v_ver r) then None else Some r
        | None => None
        end
    | None =>
        (* created at version 1, never updated since *)
        if N.ltb v 1 then None else Some {| v_ver := 1; v_props := cur_eprops s id |}
    end.

(* get_node_for_txn / get_edge_for_txn *)
Definition node_for_txn (s : store) (t id : N) : option ver :=
  match read_version (tx s) t with
  | None => None
  | Some v => read_node s id v
  end.

Definition edge_for_txn (s : store) (t id : N) : option ver :=
  match read_version (tx s) t with
  | None => None
  | Some v => read_edge s id v
  end.

(* gc_versions on one chain / log: nothing when len <= 1; otherwise drain everything before
   the last entry with version <= w (nothing when there is none); returns the pruned count *)
Definition gc_list (w : N) (l : list ver) : list ver * N :=
  match l with
  | [] | [_] => (l, 0)
  | _ =>
      match rposition (fun e => N.leb (v_ver e) w) l with
      | Some idx => (skipn idx l, N.of_nat idx)
      | None => (l, 0)
      end
  end.

Definition gc_map (w : N) (m : list (N * list ver)) : list (N * list ver) :=
  map (fun p => (fst p, fst (gc_list w (snd p)))) m.

Definition gc_count (w : N) (m : list (N * list ver)) : N :=
  fold_left (fun a p => a + snd (gc_list w (snd p))) m 0.

(* (a log that is empty after pruning would be removed; a log is never emptied because the
   entry at the found index is kept, and an already empty log is skipped by the len <= 1 test) *)
Definition with_tx (s : store) (t : Txn.state) : store :=
  {| tx := t; next_node := next_node s; next_edge := next_edge s; nodes := nodes s;
     live := live s; eprops := eprops s; elog := elog s |}.

Definition gc (s : store) (w : N) : store :=
  {| tx := gc_txns (tx s) w; next_node := next_node s; next_edge := next_edge s;
     nodes := gc_map w (nodes s); live := live s; eprops := eprops s;
     elog := gc_map w (elog s) |}.

Definition gc_auto (s : store) : store := gc s (watermark (tx s)).

Inductive mop :=
| CreateNode (p : props)          (* create_node (p = []) / create_node_with_properties *)
| SetNode (n k v : N)             (* set_node_property *)
| CreateEdge (src tgt : N)        (* create_edge *)
| SetEdge (e k v : N)             (* set_edge_property *)
| Tx (o : Txn.op)                 (* transaction API; Gc w / GcAuto are the full gc_versions / gc_auto *)
| CreateEdgeP (src tgt : N) (p : props)   (* create_edge + set_edge_property_sparse per property (Cypher CREATE / MERGE) *)
| RemoveEdge (e k : N).           (* remove_edge_property (Cypher REMOVE r.k, SET r = {..}) *)

Inductive mres :=
| MId (id : N)                    (* created id *)
| MOk | MErr
| MTx (r : Txn.result)
| MGc (pn pe : N).                (* (nodes_pruned, edge_entries_pruned) *)

Fixpoint olast {A} (l : list A) : option A :=
  match l with
  | [] => None
  | [x] => Some x
  | _ :: r => olast r
  end.

Fixpoint upd_last {A} (f : A -> A) (l : list A) : list A :=
  match l with
  | [] => []
  | [x] => [f x]
  | x :: r => x :: upd_last f r
  end.

Definition set_node (s : store) (n k v : N) : store * mres :=
  match lookup n (nodes s) with
  | None => (s, MErr)
  | Some chain =>
      match olast chain with
      | None => (s, MErr)
      | Some latest =>
          let chain' :=
            if N.ltb (v_ver latest) (curv s)
            then chain ++ [{| v_ver := curv s; v_props := pset k v (v_props latest) |}]   (* copy on write *)
            else upd_last (fun e => {| v_ver := v_ver e; v_props := pset k v (v_props e) |}) chain in
          ({| tx := tx s; next_node := next_node s; next_edge := next_edge s;
              nodes := set n chain' (nodes s); live := live s; eprops := eprops s; elog := elog s |}, MOk)
      end
  end.

(* removal / membership on a property map *)
Definition eprem (k : N) (p : props) : props := filter (fun x => negb (N.eqb (fst x) k)) p.
Definition ephas (k : N) (p : props) : bool := existsb (fun x => N.eqb (fst x) k) p.

(* log_edge_creation + set_edge_property_sparse: a relationship created after version 1 starts
   its log with the image it is created with, keyed by the creation version; the loader's
   setter (CREATE / MERGE fill the properties through it right after create_edge) keeps that
   same-version entry equal to the live properties, so the image is the relationship as created *)
Definition log_creation (s : store) (id : N) (p : props) : list (N * list ver) :=
  if N.ltb 1 (curv s)
  then set id [{| v_ver := curv s; v_props := p |}] (elog s)
  else elog s.

(* create_edge followed by set_edge_property_sparse for every (key, value) of [p] *)
Definition create_edge (s : store) (a b : N) (p : props) : store * mres :=
  if has_node s a && has_node s b then
    let id := next_edge s in
    let p' := fold_left (fun m kv => pset (fst kv) (snd kv) m) p (cur_eprops s id) in
    ({| tx := tx s; next_node := next_node s; next_edge := id + 1; nodes := nodes s;
        live := live s ++ [id];
        eprops := match p with [] => eprops s | _ => set id p' (eprops s) end;
        elog := log_creation s id p' |}, MId id)
  else (s, MErr).

(* edge_pre_image / log_edge_post_image: a versioned change of a relationship's properties to
   [post]: pre-image under version 1 at the first change of a relationship created at version 1
   made at a later version, then the post-image keyed at current_version (coalescing) *)
Definition edge_update (s : store) (e : N) (post : props) : store :=
  let log0 := match lookup e (elog s) with Some l => l | None => [] end in
  let log := match log0 with
             | [] => if N.ltb 1 (curv s) then [{| v_ver := 1; v_props := cur_eprops s e |}] else []
             | _ => log0
             end in
  let log' :=
    match olast log with
    | Some l0 => if N.eqb (v_ver l0) (curv s)
                 then upd_last (fun x => {| v_ver := v_ver x; v_props := post |}) log
                 else log ++ [{| v_ver := curv s; v_props := post |}]
    | None => log ++ [{| v_ver := curv s; v_props := post |}]
    end in
  {| tx := tx s; next_node := next_node s; next_edge := next_edge s; nodes := nodes s;
     live := live s; eprops := set e post (eprops s); elog := set e log' (elog s) |}.

(* set_edge_property *)
Definition set_edge (s : store) (e k v : N) : store * mres :=
  if negb (has_edge s e) then (s, MErr)
  else (edge_update s e (pset k v (cur_eprops s e)), MOk).

(* remove_edge_property: a versioned change when the relationship has the property, else nothing *)
Definition remove_edge (s : store) (e k : N) : store * mres :=
  if has_edge s e && ephas k (cur_eprops s e)
  then (edge_update s e (eprem k (cur_eprops s e)), MOk)
  else (s, MOk).

Definition step (s : store) (o : mop) : store * mres :=
  match o with
  | CreateNode p =>
      let id := next_node s in
      ({| tx := tx s; next_node := id + 1; next_edge := next_edge s;
          nodes := set id [{| v_ver := curv s; v_props := p |}] (nodes s);
          live := live s; eprops := eprops s; elog := elog s |}, MId id)
  | SetNode n k v => set_node s n k v
  | CreateEdge a b => create_edge s a b []
  | SetEdge e k v => set_edge s e k v
  | Tx (Gc w) => (gc s w, MGc (gc_count w (nodes s)) (gc_count w (elog s)))
  | Tx GcAuto => let w := watermark (tx s) in
                 (gc s w, MGc (gc_count w (nodes s)) (gc_count w (elog s)))
  | Tx o' => let (t', r) := Txn.step (tx s) o' in (with_tx s t', MTx r)
  | CreateEdgeP a b p => create_edge s a b p
  | RemoveEdge e k => remove_edge s e k
  end.

Definition run_from (s : store) (ops : list mop) : store :=
  fold_left (fun s o => fst (step s o)) ops s.
Definition run (ops : list mop) : store := run_from init ops.

(* ---- correspondence ----------------------------------------------------
   After every operation: its result, current_version, the status codes of the
   transactions 1..k (as in Txn.v), and every read packed into numbers:
     nr : for node ids 1..nn, versions 0..current+1, get_node_at_version
     er : for relationship ids 1..ne, versions 0..current+1, get_edge_at_version
     tr : for transactions 1..k, get_node_for_txn of every node then get_edge_for_txn
          of every relationship
   one read = 0 (None) or 1 + 2 * (version + 256 * packed properties) < 2^16, where the
   properties over keys 0..1 with values 0..3 pack as sum (value+1) * 8^key; a list of
   reads packs base 2^16, first read = lowest digit (printed in hexadecimal). *)
Definition enc_props (p : props) : N :=
  fold_left (fun a kv => a + (snd kv + 1) * 8 ^ (fst kv)) p 0.

Definition enc_read (r : option ver) : N :=
  match r with
  | None => 0
  | Some e => 1 + 2 * (v_ver e + 256 * enc_props (v_props e))
  end.

Definition versions_upto (c : N) : list N := map N.of_nat (seq 0 (N.to_nat c + 2)).

Definition node_reads (s : store) (nn : N) : N :=
  pack 65536 (flat_map (fun id => map (fun v => enc_read (read_node s id v)) (versions_upto (curv s)))
                       (ids_upto (N.to_nat nn))).

Definition edge_reads (s : store) (ne : N) : N :=
  pack 65536 (flat_map (fun id => map (fun v => enc_read (read_edge s id v)) (versions_upto (curv s)))
                       (ids_upto (N.to_nat ne))).

Definition txn_reads (s : store) (nn ne k : N) : N :=
  pack 65536 (flat_map (fun t => map (fun id => enc_read (node_for_txn s t id)) (ids_upto (N.to_nat nn)) ++
                                 map (fun id => enc_read (edge_for_txn s t id)) (ids_upto (N.to_nat ne)))
                       (ids_upto (N.to_nat k))).

(* Ob: result, current_version, statuses; ObR: the same plus all reads (the harness records the
   reads before and after every GC and at the end of the case) *)
Inductive obs := Ob (r : mres) (c : N) (sts : N) | ObR (r : mres) (c : N) (sts nr er tr : N).
Inductive case := Case (nn ne k : N) (ops : list mop) (os : list obs).

Definition mres_eqb (a b : mres) : bool :=
  match a, b with
  | MId x, MId y => N.eqb x y
  | MOk, MOk | MErr, MErr => true
  | MTx x, MTx y => result_eqb x y
  | MGc a1 b1, MGc a2 b2 => N.eqb a1 a2 && N.eqb b1 b2
  | _, _ => false
  end.

Definition obs_ok (nn ne k : N) (s : store) (res : mres) (o : obs) : bool :=
  match o with
  | Ob r c sts =>
      mres_eqb res r && N.eqb (curv s) c &&
      N.eqb (pack 4 (map (status_code (tx s)) (ids_upto (N.to_nat k)))) sts
  | ObR r c sts nr er tr =>
      mres_eqb res r && N.eqb (curv s) c &&
      N.eqb (pack 4 (map (status_code (tx s)) (ids_upto (N.to_nat k)))) sts &&
      N.eqb (node_reads s nn) nr && N.eqb (edge_reads s ne) er && N.eqb (txn_reads s nn ne k) tr
  end.

Fixpoint check_from (nn ne k : N) (s : store) (ops : list mop) (os : list obs) : bool :=
  match ops, os with
  | [], [] => true
  | o :: ops', ob :: os' =>
      let (s', res) := step s o in
      obs_ok nn ne k s' res ob && check_from nn ne k s' ops' os'
  | _, _ => false
  end.

Definition check_case (c : case) : bool :=
  match c with Case nn ne k ops os => check_from nn ne k init ops os end.
