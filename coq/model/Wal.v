(* Model of src/persistence/wal.rs (as repaired for C15): the WAL directory as an
   association list  file number -> bytes  (the file "wal-%016x.log" is modelled by
   its number; lexicographic order of the fixed-width hex names = numeric order),
   append / reopen (Wal::new) / checkpoint / replay, and crash (truncation of the
   newest file followed by reopen).  Executable; no proofs here. *)
From Coq Require Import List NArith ZArith Bool.
From Verif Require Import CheckLib Bincode.
Import ListNotations.
Open Scope N_scope.

Definition file := (N * bytes)%type.
Definition dir := list file.

(* Wal { path, current_file, sequence } ; BufWriter contents are taken as written
   (a crash loses a suffix of the newest file: see [truncate_newest]) *)
Record state := { sdir : dir; counter : N; cur : option N }.

Definition init : state := {| sdir := []; counter := 0; cur := None |}.

(* one record on disk: u32 length prefix (data.len() as u32) + bincode record *)
Definition frame (r : record) : bytes :=
  let b := encode_record r in u32 (nlen b) ++ b.

(* OpenOptions create+append: write at the end of the named file, creating it if absent *)
Fixpoint dir_append (name : N) (bs : bytes) (d : dir) : dir :=
  match d with
  | [] => [(name, bs)]
  | (n, c) :: r => if n =? name then (n, c ++ bs) :: r else (n, c) :: dir_append name bs r
  end.

(* Wal::append ; None = "sequence += 1" overflows u64 (panic in debug builds) *)
Definition append (s : state) (e : entry) : option state :=
  let c := counter s + 1 in
  if two64 <=? c then None
  else
    let name := match cur s with Some n => n | None => c end in
    Some {| sdir := dir_append name (frame (mk_record c e)) (sdir s);
            counter := c; cur := Some name |}.

(* ---- reading one file (read_record in a loop) ---- *)
Inductive tail := Clean | Torn | Bad | Fuel.

(* records read, how the file ended, number of bytes covered by the records read *)
Fixpoint scan (fuel : nat) (bs : bytes) : list record * tail * N :=
  match fuel with
  | O => ([], Fuel, 0)
  | S f =>
      match bs with
      | [] => ([], Clean, 0)
      | _ =>
          if nlen bs <? 4 then ([], Torn, 0)
          else
            let len := unle (firstn 4 bs) in
            let rest := skipn 4 bs in
            if nlen rest <? len then ([], Torn, 0)
            else
              match decode_record (firstn (N.to_nat len) rest) with
              | Some r =>
                  let '(rs, t, g) := scan f (skipn (N.to_nat len) rest) in
                  (r :: rs, t, 4 + len + g)
              | None => ([], Bad, 0)
              end
      end
  end.

Definition scan_file (bs : bytes) : list record * tail * N := scan (S (length bs)) bs.

Fixpoint last_seq (rs : list record) (dflt : N) : N :=
  match rs with
  | [] => dflt
  | r :: rest => last_seq rest (seq r)
  end.

(* ---- Wal::replay ---- *)
Inductive outcome := Done (last : N) | Failed.

Fixpoint replay_files (fs : list file) (from last : N) : list record * outcome :=
  match fs with
  | [] => ([], Done last)
  | (_, bs) :: rest =>
      let '(rs, t, _) := scan_file bs in
      let kept := filter (fun r => from <=? seq r) rs in
      let last' := last_seq kept last in
      match t with
      | Clean => let '(rs2, o) := replay_files rest from last' in (kept ++ rs2, o)
      | Torn => match rest with
                | [] => (kept, Done last')      (* torn tail of the newest file = end of the log *)
                | _ => (kept, Failed)           (* anywhere else it is corruption *)
                end
      | Bad | Fuel => (kept, Failed)
      end
  end.

Fixpoint insert (f : file) (l : dir) : dir :=
  match l with
  | [] => [f]
  | g :: r => if fst f <=? fst g then f :: l else g :: insert f r
  end.
Definition sort_dir (d : dir) : dir := fold_right insert [] d.

Definition replay (d : dir) (from : N) : list record * outcome :=
  replay_files (sort_dir d) from from.

(* ---- Wal::new : find_latest_sequence ---- *)
Definition newest (d : dir) : option file :=
  fold_left (fun acc f => match acc with
                          | None => Some f
                          | Some g => if fst g <? fst f then Some f else acc
                          end) d None.

Definition set_file (name : N) (bs : bytes) (d : dir) : dir :=
  map (fun f => if fst f =? name then (fst f, bs) else f) d.

Definition reopen (s : state) : state :=
  match newest (sdir s) with
  | None => {| sdir := sdir s; counter := 0; cur := None |}
  | Some (n, bs) =>
      let '(rs, t, g) := scan_file bs in
      {| sdir := match t with
                 | Torn => set_file n (firstn (N.to_nat g) bs) (sdir s)   (* drop the torn tail *)
                 | _ => sdir s
                 end;
         counter := last_seq rs n; cur := None |}
  end.

(* Wal::checkpoint : marker record, flush, close the file *)
Definition checkpoint (s : state) (arg : N) (ts : Z) : option state :=
  match append s (CheckpointE arg ts) with
  | Some s' => Some {| sdir := sdir s'; counter := counter s'; cur := None |}
  | None => None
  end.

(* a crash leaves a prefix of the newest file *)
Definition truncate_newest (k : N) (d : dir) : dir :=
  match newest d with
  | None => d
  | Some (n, bs) => set_file n (firstn (N.to_nat k) bs) d
  end.

Inductive op :=
| Append (e : entry)
| Reopen
| Checkpoint (arg : N) (ts : Z)
| Crash (k : N).

Definition step (s : state) (o : op) : option state :=
  match o with
  | Append e => append s e
  | Reopen => Some (reopen s)
  | Checkpoint a ts => checkpoint s a ts
  | Crash k => Some (reopen {| sdir := truncate_newest k (sdir s); counter := counter s; cur := None |})
  end.

Fixpoint run_from (s : state) (ops : list op) : option state :=
  match ops with
  | [] => Some s
  | o :: r => match step s o with Some s' => run_from s' r | None => None end
  end.
Definition run (ops : list op) : option state := run_from init ops.

(* ---- faults applied to a directory before replay ---- *)
Fixpoint set_nth (p : nat) (v : N) (bs : bytes) : bytes :=
  match bs, p with
  | [], _ => []
  | _ :: r, O => v :: r
  | b :: r, S p' => b :: set_nth p' v r
  end.

Definition flip_dir (name pos v : N) (d : dir) : dir :=
  map (fun f => if fst f =? name then (fst f, set_nth (N.to_nat pos) v (snd f)) else f) d.

Inductive fault := Trunc (k : N) | Flip (name pos v : N).

Definition apply_fault (f : fault) (d : dir) : dir :=
  match f with
  | Trunc k => truncate_newest k d
  | Flip n p v => flip_dir n p v d
  end.

(* the recorded class (known finding seq-field-flip): the position lies inside the
   8-byte sequence field of a record of the file (that field is outside the checksum) *)
Fixpoint in_seq_field (fuel : nat) (bs : bytes) (p : N) : bool :=
  match fuel with
  | O => false
  | S f =>
      if nlen bs <? 4 then false
      else
        let len := unle (firstn 4 bs) in
        if p <? 4 then false
        else if p <? 12 then true
        else if p <? 4 + len then false
        else in_seq_field f (skipn (N.to_nat (4 + len)) bs) (p - (4 + len))
  end.

Definition Known_C15 (d : dir) (name pos : N) : bool :=
  existsb (fun f => (fst f =? name) && in_seq_field (S (length (snd f))) (snd f) pos) d.

(* ---- correspondence ---- *)
Definition entry_eqb (a b : entry) : bool :=
  match a, b with
  | CreateNode t i l p, CreateNode t' i' l' p' =>
      bytes_eqb t t' && (i =? i') && list_eqb bytes_eqb l l' && bytes_eqb p p'
  | CreateEdge t i s d y p, CreateEdge t' i' s' d' y' p' =>
      bytes_eqb t t' && (i =? i') && (s =? s') && (d =? d') && bytes_eqb y y' && bytes_eqb p p'
  | DeleteNode t i, DeleteNode t' i' => bytes_eqb t t' && (i =? i')
  | DeleteEdge t i, DeleteEdge t' i' => bytes_eqb t t' && (i =? i')
  | UpdateNodeProps t i p v, UpdateNodeProps t' i' p' v' =>
      bytes_eqb t t' && (i =? i') && bytes_eqb p p' && (v =? v')
  | UpdateEdgeProps t i p v, UpdateEdgeProps t' i' p' v' =>
      bytes_eqb t t' && (i =? i') && bytes_eqb p p' && (v =? v')
  | CheckpointE s t, CheckpointE s' t' => (s =? s') && Z.eqb t t'
  | _, _ => false
  end.

Fixpoint prefixb (a b : list entry) : bool :=
  match a, b with
  | [], _ => true
  | x :: a', y :: b' => entry_eqb x y && prefixb a' b'
  | _, _ => false
  end.

Definition out_eqb (a : outcome) (b : option N) : bool :=
  match a, b with
  | Done x, Some y => x =? y
  | Failed, None => true
  | _, _ => false
  end.

Definition file_eqb (a b : file) : bool := (fst a =? fst b) && bytes_eqb (snd a) (snd b).

(* counters after every operation *)
Fixpoint trace (s : state) (ops : list op) : option (list N * state) :=
  match ops with
  | [] => Some ([], s)
  | o :: r =>
      match step s o with
      | Some s' => match trace s' r with
                   | Some (l, sf) => Some (counter s' :: l, sf)
                   | None => None
                   end
      | None => None
      end
  end.

(* fault, from_sequence, (number of entries delivered, delivered is a prefix of the
   entries of the intact log, Some last_sequence | None = error) *)
Definition probe := (fault * N * (N * bool * option N))%type.

Definition check_probe (d : dir) (orig : list entry) (p : probe) : bool :=
  let '(f, from, (n, pre, o)) := p in
  let '(rs, out) := replay (apply_fault f d) from in
  (nlen rs =? n) && Bool.eqb (prefixb (map ent rs) orig) pre && out_eqb out o.

(* operations, current_sequence() after each, the directory read back (sorted by name),
   replay(0) of it (entries, result), fault probes *)
Definition case := (list op * list N * dir * (list entry * option N) * list probe)%type.

Definition check_case (c : case) : bool :=
  let '(ops, seqs, files, (ents, res), probes) := c in
  match trace init ops with
  | None => false
  | Some (l, s) =>
      let d := sdir s in
      let '(rs, out) := replay d 0 in
      list_eqb N.eqb l seqs
      && list_eqb file_eqb (sort_dir d) files
      && list_eqb entry_eqb (map ent rs) ents
      && out_eqb out res
      && forallb (check_probe d ents) probes
  end.
