(* Model of src/rdf/serialization/{ntriples,turtle,rdfxml}.rs : the adapters between
   crate::rdf::Triple (oxrdf terms) and rio_api terms, and the text that
   rio_turtle::{NTriplesFormatter,TurtleFormatter} and rio_xml::RdfXmlFormatter write,
   with decoders that specify what rio's parsers read back on that text.
   Strings are lists of Unicode code points.  Executable; no proofs here. *)
From Coq Require Import List NArith Bool Ascii String.
From Verif Require Import CheckLib.
Import ListNotations.
Open Scope N_scope.

Definition str := list N.
Definition s2l (s : string) : str := map N_of_ascii (list_ascii_of_string s).
Definition str_eqb : str -> str -> bool := list_eqb N.eqb.

Definition inr (lo hi c : N) : bool := (lo <=? c) && (c <=? hi).

(* ---------- character classes ---------- *)
(* PN_CHARS_BASE of N-Triples/Turtle = the non-ASCII-punctuation part of XML NameStartChar *)
Definition pn_base (c : N) : bool :=
  inr 65 90 c || inr 97 122 c || inr 0xC0 0xD6 c || inr 0xD8 0xF6 c || inr 0xF8 0x2FF c ||
  inr 0x370 0x37D c || inr 0x37F 0x1FFF c || inr 0x200C 0x200D c || inr 0x2070 0x218F c ||
  inr 0x2C00 0x2FEF c || inr 0x3001 0xD7FF c || inr 0xF900 0xFDCF c || inr 0xFDF0 0xFFFD c ||
  inr 0x10000 0xEFFFF c.
Definition digit (c : N) : bool := inr 48 57 c.
Definition pn_extra (c : N) : bool :=
  (c =? 45) || digit c || (c =? 0xB7) || inr 0x300 0x36F c || inr 0x203F 0x2040 c.
(* rio_turtle: is_possible_pn_chars_u_* (no ':'), is_possible_pn_chars_* *)
Definition pn_u (c : N) : bool := pn_base c || (c =? 95).
Definition pn_chars (c : N) : bool := pn_u c || pn_extra c.

(* rio_xml utils.rs: is_name_start_char / is_name_char (both contain ':') *)
Definition name_start (c : N) : bool := (c =? 58) || pn_u c.
Definition name_char (c : N) : bool := name_start c || pn_extra c || (c =? 46).

(* ---------- terms ---------- *)
Inductive subject := SIri (i : str) | SBlank (b : str).
(* rio_api::model::Literal *)
Inductive literal := LSimple (v : str) | LLang (v l : str) | LTyped (v dt : str).
Inductive object := OIri (i : str) | OBlank (b : str) | OLit (l : literal).
Definition rio_triple := (subject * str * object)%type.
(* oxrdf literal content as the repo holds it *)
Inductive rlit := RString (v : str) | RLang (v l : str) | RTyped (v dt : str).
Inductive robject := ROIri (i : str) | ROBlank (b : str) | ROLit (l : rlit).
Definition triple := (subject * str * robject)%type.

Definition XSD_STRING : str := Eval vm_compute in s2l "http://www.w3.org/2001/XMLSchema#string".
Definition RDF_NS : str := Eval vm_compute in s2l "http://www.w3.org/1999/02/22-rdf-syntax-ns#".
(* quick-xml's NsReader refuses to bind a named prefix to one of the two reserved namespaces *)
Definition XMLNS_NS : str := Eval vm_compute in s2l "http://www.w3.org/2000/xmlns/".
Definition XML_NS : str := Eval vm_compute in s2l "http://www.w3.org/XML/1998/namespace".

Definition subject_eqb (a b : subject) : bool :=
  match a, b with
  | SIri x, SIri y | SBlank x, SBlank y => str_eqb x y
  | _, _ => false
  end.
Definition rlit_eqb (a b : rlit) : bool :=
  match a, b with
  | RString x, RString y => str_eqb x y
  | RLang x l, RLang y m | RTyped x l, RTyped y m => str_eqb x y && str_eqb l m
  | _, _ => false
  end.
Definition robject_eqb (a b : robject) : bool :=
  match a, b with
  | ROIri x, ROIri y | ROBlank x, ROBlank y => str_eqb x y
  | ROLit x, ROLit y => rlit_eqb x y
  | _, _ => false
  end.
Definition triple_eqb (a b : triple) : bool :=
  let '(s1, p1, o1) := a in let '(s2, p2, o2) := b in
  subject_eqb s1 s2 && str_eqb p1 p2 && robject_eqb o1 o2.

(* ---------- well-formedness: what the validating constructors let through ---------- *)
(* IRIREF cannot carry: controls and space, < > dquote { } | ^ ` backslash   (NamedNode::new, via oxiri,
   rejects all of them; it rejects more, which the model does not describe) *)
Definition iri_char_ok (c : N) : bool :=
  negb ((c <=? 32) || (c =? 60) || (c =? 62) || (c =? 34) || (c =? 123) || (c =? 125) ||
        (c =? 124) || (c =? 94) || (c =? 96) || (c =? 92)).
Definition iri_ok (i : str) : bool := forallb iri_char_ok i.

(* oxrdf validate_blank_node_identifier *)
Definition bn_start (c : N) : bool := pn_u c || digit c || (c =? 58).
Definition bn_cont (c : N) : bool := pn_chars c || (c =? 58) || (c =? 46).
Fixpoint last_is_dot (s : str) : bool :=
  match s with
  | [] => false
  | [c] => c =? 46
  | _ :: r => last_is_dot r
  end.
Definition bnode_ok (b : str) : bool :=
  match b with
  | [] => false
  | c :: r => bn_start c && forallb bn_cont r && negb (last_is_dot b)
  end.

(* language tags: oxrdf lowercases and checks BCP47 well-formedness; the model keeps the
   N-Triples LANGTAG shape  [a-zA-Z]+ ('-' [a-zA-Z0-9]+)*  (a superset) *)
Definition alpha (c : N) : bool := inr 65 90 c || inr 97 122 c.
Definition lower (c : N) : N := if inr 65 90 c then c + 32 else c.
Definition lang_char (c : N) : bool := alpha c || digit c || (c =? 45).
Fixpoint lang_subtags (first : bool) (cur : N) (s : str) : bool :=
  (* cur = length of the current subtag *)
  match s with
  | [] => negb (cur =? 0)
  | c :: r =>
      if c =? 45 then negb (cur =? 0) && lang_subtags false 0 r
      else (if first then alpha c else alpha c || digit c) && lang_subtags first (cur + 1) r
  end.
Definition lang_shape (l : str) : bool := lang_subtags true 0 l.
Definition lang_ok (l : str) : bool := lang_shape l && forallb (fun c => negb (inr 65 90 c)) l.

Definition wf_subject (s : subject) : bool :=
  match s with SIri i => iri_ok i | SBlank b => bnode_ok b end.
Definition wf_rlit (l : rlit) : bool :=
  match l with
  | RString _ => true
  | RLang _ l => lang_ok l
  | RTyped _ dt => iri_ok dt && negb (str_eqb dt XSD_STRING)
  end.
Definition wf_robject (o : robject) : bool :=
  match o with ROIri i => iri_ok i | ROBlank b => bnode_ok b | ROLit l => wf_rlit l end.
Definition wf_triple (t : triple) : bool :=
  let '(s, p, o) := t in wf_subject s && iri_ok p && wf_robject o.

(* ---------- the adapter (identical in the three files) ---------- *)
Definition to_rio_lit (l : rlit) : literal :=
  match l with
  | RString v => LSimple v                 (* datatype() == xsd:string *)
  | RLang v l => LLang v l
  | RTyped v dt => if str_eqb dt XSD_STRING then LSimple v else LTyped v dt
  end.
Definition to_rio_obj (o : robject) : object :=
  match o with ROIri i => OIri i | ROBlank b => OBlank b | ROLit l => OLit (to_rio_lit l) end.
Definition to_rio (t : triple) : rio_triple := let '(s, p, o) := t in (s, p, to_rio_obj o).

(* Literal::new_typed_literal collapses xsd:string *)
Definition mk_typed (v dt : str) : rlit := if str_eqb dt XSD_STRING then RString v else RTyped v dt.
Definition from_rio_lit (l : literal) : option rlit :=
  match l with
  | LSimple v => Some (RString v)
  | LLang v l => if lang_shape l then Some (RLang v (map lower l)) else None
  | LTyped v dt => if iri_ok dt then Some (mk_typed v dt) else None
  end.
Definition from_rio_subject (s : subject) : option subject :=
  match s with
  | SIri i => if iri_ok i then Some s else None
  | SBlank b => if bnode_ok b then Some s else None
  end.
Definition from_rio_obj (o : object) : option robject :=
  match o with
  | OIri i => if iri_ok i then Some (ROIri i) else None
  | OBlank b => if bnode_ok b then Some (ROBlank b) else None
  | OLit l => match from_rio_lit l with Some r => Some (ROLit r) | None => None end
  end.
Definition from_rio (t : rio_triple) : option triple :=
  let '(s, p, o) := t in
  match from_rio_subject s, iri_ok p, from_rio_obj o with
  | Some s', true, Some o' => Some (s', p, o')
  | _, _, _ => None
  end.
Fixpoint map_opt {A B} (f : A -> option B) (l : list A) : option (list B) :=
  match l with
  | [] => Some []
  | x :: r => match f x, map_opt f r with
              | Some y, Some ys => Some (y :: ys)
              | _, _ => None
              end
  end.

(* ---------- N-Triples / Turtle term syntax ---------- *)
(* rio_api fmt_quoted_str: exactly LF, CR, dquote and backslash are escaped *)
Definition esc_char (c : N) : str :=
  if c =? 10 then [92; 110] else if c =? 13 then [92; 114]
  else if c =? 34 then [92; 34] else if c =? 92 then [92; 92] else [c].
Fixpoint escape (s : str) : str :=
  match s with [] => [] | c :: r => esc_char c ++ escape r end.

Definition enc_iri (i : str) : str := 60 :: i ++ [62].
Definition enc_bnode (b : str) : str := 95 :: 58 :: b.
Definition enc_lit (l : literal) : str :=
  match l with
  | LSimple v => 34 :: escape v ++ [34]
  | LLang v l => 34 :: escape v ++ 34 :: 64 :: l
  | LTyped v dt => 34 :: escape v ++ 34 :: 94 :: 94 :: enc_iri dt
  end.
Definition enc_subject (s : subject) : str :=
  match s with SIri i => enc_iri i | SBlank b => enc_bnode b end.
Definition enc_object (o : object) : str :=
  match o with OIri i => enc_iri i | OBlank b => enc_bnode b | OLit l => enc_lit l end.
(* Display of rio_api Triple: "{s} {p} {o}" *)
Definition enc_spo (t : rio_triple) : str :=
  let '(s, p, o) := t in enc_subject s ++ 32 :: enc_iri p ++ 32 :: enc_object o.

(* --- decoding (rio_turtle shared.rs) --- *)
Definition hexval (c : N) : option N :=
  if digit c then Some (c - 48) else if inr 97 102 c then Some (c - 87)
  else if inr 65 70 c then Some (c - 55) else None.
Definition scalar (c : N) : bool := (c <? 0xD800) || (inr 0xE000 0x10FFFF c).

Inductive ust := UN | UE | UH (k : nat) (acc : N).
Definition cons_fst (c : N) (r : option (str * str)) : option (str * str) :=
  match r with Some (v, rest) => Some (c :: v, rest) | None => None end.

(* parse_string_literal_quote_inner after the opening quote: value and the text after the
   closing quote.  ECHAR: t b n r f dquote quote backslash ; UCHAR: uXXXX UXXXXXXXX *)
Fixpoint unq (st : ust) (s : str) : option (str * str) :=
  match s with
  | [] => None
  | c :: r =>
      match st with
      | UN => if c =? 34 then Some ([], r)
              else if c =? 92 then unq UE r
              else if (c =? 10) || (c =? 13) then None
              else cons_fst c (unq UN r)
      | UE => if c =? 116 then cons_fst 9 (unq UN r)
              else if c =? 98 then cons_fst 8 (unq UN r)
              else if c =? 110 then cons_fst 10 (unq UN r)
              else if c =? 114 then cons_fst 13 (unq UN r)
              else if c =? 102 then cons_fst 12 (unq UN r)
              else if c =? 34 then cons_fst 34 (unq UN r)
              else if c =? 39 then cons_fst 39 (unq UN r)
              else if c =? 92 then cons_fst 92 (unq UN r)
              else if c =? 117 then unq (UH 4 0) r
              else if c =? 85 then unq (UH 8 0) r
              else None
      | UH k a =>
          match hexval c with
          | None => None
          | Some h =>
              let a' := a * 16 + h in
              match k with
              | O => None
              | S O => if scalar a' then cons_fst a' (unq UN r) else None
              | S k' => unq (UH k' a') r
              end
          end
      end
  end.

(* parse_iriref after '<': raw characters up to '>', UCHAR escapes only *)
Fixpoint uniri (st : ust) (s : str) : option (str * str) :=
  match s with
  | [] => None
  | c :: r =>
      match st with
      | UN => if c =? 62 then Some ([], r)
              else if c =? 92 then uniri UE r
              else if (c =? 10) || (c =? 13) then None
              else cons_fst c (uniri UN r)
      | UE => if c =? 117 then uniri (UH 4 0) r
              else if c =? 85 then uniri (UH 8 0) r
              else None
      | UH k a =>
          match hexval c with
          | None => None
          | Some h =>
              let a' := a * 16 + h in
              match k with
              | O => None
              | S O => if scalar a' then cons_fst a' (uniri UN r) else None
              | S k' => uniri (UH k' a') r
              end
          end
      end
  end.
(* the parsers then validate the IRI (oxiri); the model keeps the character condition *)
Definition dec_iri (s : str) : option (str * str) :=
  match uniri UN s with
  | Some (i, rest) => if iri_ok i then Some (i, rest) else None
  | None => None
  end.

(* parse_blank_node_label after "_:" :  (PN_CHARS_U | [0-9]) ((PN_CHARS | '.')* PN_CHARS)?
   with rio's one-character look-ahead for '.' *)
Definition dot_next_ok (c : N) : bool := ((c <=? 127) && pn_chars c) || (127 <? c).
Fixpoint label_tail (s : str) : str * str :=
  match s with
  | [] => ([], [])
  | c :: r =>
      if c =? 46 then
        match r with
        | c' :: _ => if dot_next_ok c' then let (l, rest) := label_tail r in (c :: l, rest)
                     else ([], s)
        | [] => ([], s)
        end
      else if pn_chars c then let (l, rest) := label_tail r in (c :: l, rest)
      else ([], s)
  end.
Definition dec_label (s : str) : option (str * str) :=
  match s with
  | c :: r => if pn_u c || digit c then let (l, rest) := label_tail r in Some (c :: l, rest)
              else None
  | [] => None
  end.

Fixpoint span (p : N -> bool) (s : str) : str * str :=
  match s with
  | [] => ([], [])
  | c :: r => if p c then let (a, b) := span p r in (c :: a, b) else ([], s)
  end.

Definition dec_subject (s : str) : option (subject * str) :=
  match s with
  | 60 :: r => match dec_iri r with Some (i, rest) => Some (SIri i, rest) | None => None end
  | 95 :: 58 :: r => match dec_label r with Some (b, rest) => Some (SBlank b, rest) | None => None end
  | _ => None
  end.
Definition dec_pred (s : str) : option (str * str) :=
  match s with 60 :: r => dec_iri r | _ => None end.
Definition dec_object (s : str) : option (object * str) :=
  match s with
  | 60 :: r => match dec_iri r with Some (i, rest) => Some (OIri i, rest) | None => None end
  | 95 :: 58 :: r => match dec_label r with Some (b, rest) => Some (OBlank b, rest) | None => None end
  | 34 :: r =>
      match unq UN r with
      | Some (v, rest) =>
          match rest with
          | 64 :: r' => let (l, rest') := span lang_char r' in
                        if lang_shape l then Some (OLit (LLang v (map lower l)), rest') else None
          | 94 :: 94 :: 60 :: r' =>
              match dec_iri r' with Some (dt, rest') => Some (OLit (LTyped v dt), rest') | None => None end
          | _ => Some (OLit (LSimple v), rest)
          end
      | None => None
      end
  | _ => None
  end.

Fixpoint strip (p s : str) : option str :=
  match p, s with
  | [], _ => Some s
  | a :: p', b :: s' => if a =? b then strip p' s' else None
  | _ :: _, [] => None
  end.

(* "{s} {p} {o}" *)
Definition dec_spo (s : str) : option (rio_triple * str) :=
  match dec_subject s with
  | Some (sj, 32 :: r1) =>
      match dec_pred r1 with
      | Some (p, 32 :: r2) =>
          match dec_object r2 with
          | Some (o, r3) => Some ((sj, p, o), r3)
          | None => None
          end
      | _ => None
      end
  | _ => None
  end.

(* ---------- N-Triples document ---------- *)
Definition NT_END : str := [32; 46; 10].          (* " .\n" *)
Fixpoint enc_nt (ts : list rio_triple) : str :=
  match ts with [] => [] | t :: r => enc_spo t ++ NT_END ++ enc_nt r end.

(* fuel = number of characters; running out of fuel is an error, never a result *)
Definition at_end (s : str) : option (list rio_triple) :=
  match s with [] => Some [] | _ => None end.
Fixpoint dec_nt (fuel : nat) (s : str) : option (list rio_triple) :=
  match fuel with
  | O => at_end s
  | S f =>
      match dec_spo s with
      | Some (t, r) =>
          match strip NT_END r with
          | Some r' => match dec_nt f r' with Some l => Some (t :: l) | None => None end
          | None => None
          end
      | None => at_end s
      end
  end.

Definition ser_nt (ts : list triple) : str := enc_nt (map to_rio ts).
Definition parse_nt (s : str) : option (list triple) :=
  match dec_nt (List.length s) s with Some l => map_opt from_rio l | None => None end.

(* ---------- Turtle document as TurtleFormatter groups it ---------- *)
Definition TTL_COMMA : str := [32; 44; 32].        (* " , " *)
Definition TTL_SEMI : str := [32; 59; 10; 9].      (* " ;\n\t" *)
Fixpoint enc_ttl_rest (cs : subject) (cp : str) (ts : list rio_triple) : str :=
  match ts with
  | [] => NT_END                                   (* finish: " .\n" *)
  | (s, p, o) :: r =>
      (if subject_eqb cs s then
         if str_eqb cp p then TTL_COMMA ++ enc_object o
         else TTL_SEMI ++ enc_iri p ++ 32 :: enc_object o
       else NT_END ++ enc_spo (s, p, o)) ++ enc_ttl_rest s p r
  end.
Definition enc_ttl (ts : list rio_triple) : str :=
  match ts with
  | [] => []
  | (s, p, o) :: r => enc_spo (s, p, o) ++ enc_ttl_rest s p r
  end.

(* after a complete triple with subject cs and predicate cp *)
Fixpoint dec_ttl_rest (fuel : nat) (cs : subject) (cp : str) (s : str) : option (list rio_triple) :=
  match fuel with
  | O => None
  | S f =>
      match strip TTL_COMMA s with
      | Some r =>
          match dec_object r with
          | Some (o, r') =>
              match dec_ttl_rest f cs cp r' with Some l => Some ((cs, cp, o) :: l) | None => None end
          | None => None
          end
      | None =>
          match strip TTL_SEMI s with
          | Some r =>
              match dec_pred r with
              | Some (p, 32 :: r1) =>
                  match dec_object r1 with
                  | Some (o, r') =>
                      match dec_ttl_rest f cs p r' with Some l => Some ((cs, p, o) :: l) | None => None end
                  | None => None
                  end
              | _ => None
              end
          | None =>
              match strip NT_END s with
              | Some r =>
                  match dec_spo r with
                  | Some ((sj, p, o), r') =>
                      match dec_ttl_rest f sj p r' with Some l => Some ((sj, p, o) :: l) | None => None end
                  | None => at_end r
                  end
              | None => None
              end
          end
      end
  end.
Definition dec_ttl (s : str) : option (list rio_triple) :=
  match dec_spo s with
  | Some ((sj, p, o), r) =>
      match dec_ttl_rest (List.length s) sj p r with Some l => Some ((sj, p, o) :: l) | None => None end
  | None => at_end s
  end.

Definition ser_ttl (ts : list triple) : str := enc_ttl (map to_rio ts).
Definition parse_ttl (s : str) : option (list triple) :=
  match dec_ttl s with Some l => map_opt from_rio l | None => None end.

(* ---------- known class (N-Triples and Turtle): labels rio cannot read back ----------
   oxrdf accepts ':' anywhere in a blank-node identifier and '.' runs inside it;
   rio_turtle's BLANK_NODE_LABEL has no ':' and stops at ".." *)
Fixpoint has_dotdot (s : str) : bool :=
  match s with
  | a :: ((b :: _) as r) => ((a =? 46) && (b =? 46)) || has_dotdot r
  | _ => false
  end.
Definition label_unreadable (b : str) : bool := existsb (N.eqb 58) b || has_dotdot b.
Definition known_label (t : triple) : bool :=
  let '(s, _, o) := t in
  (match s with SBlank b => label_unreadable b | _ => false end) ||
  (match o with ROBlank b => label_unreadable b | _ => false end).

(* ---------- RDF/XML as RdfXmlFormatter writes it ---------- *)
(* quick-xml escape(): lt gt amp apos quot *)
Definition xesc_char (c : N) : str :=
  if c =? 60 then [38; 108; 116; 59]
  else if c =? 62 then [38; 103; 116; 59]
  else if c =? 38 then [38; 97; 109; 112; 59]
  else if c =? 39 then [38; 97; 112; 111; 115; 59]
  else if c =? 34 then [38; 113; 117; 111; 116; 59]
  else [c].
Fixpoint xml_escape (s : str) : str :=
  match s with [] => [] | c :: r => xesc_char c ++ xml_escape r end.

(* inverse on the five predefined entities (anything else after '&' is an error;
   character references are not produced by the formatter and not modelled) *)
Definition X_LT : str := [108; 116; 59].
Definition X_GT : str := [103; 116; 59].
Definition X_AMP : str := [97; 109; 112; 59].
Definition X_APOS : str := [97; 112; 111; 115; 59].
Definition X_QUOT : str := [113; 117; 111; 116; 59].
Definition xml_entity (r : str) : option (N * str) :=
  match strip X_LT r with Some t => Some (60, t) | None =>
  match strip X_GT r with Some t => Some (62, t) | None =>
  match strip X_AMP r with Some t => Some (38, t) | None =>
  match strip X_APOS r with Some t => Some (39, t) | None =>
  match strip X_QUOT r with Some t => Some (34, t) | None => None end end end end end.
Fixpoint xml_unescape_f (fuel : nat) (s : str) : option str :=
  match s with
  | [] => Some []
  | c :: r =>
      match fuel with
      | O => None
      | S f =>
          if c =? 38 then
            match xml_entity r with
            | Some (d, t) => match xml_unescape_f f t with Some u => Some (d :: u) | None => None end
            | None => None
            end
          else if c =? 60 then None
          else match xml_unescape_f f r with Some u => Some (c :: u) | None => None end
      end
  end.
Definition xml_unescape (s : str) : option str := xml_unescape_f (List.length s) s.

(* rio_xml formatter.rs split_iri: (namespace, local name); local name may be empty *)
Definition local_char (c : N) : bool := name_char c && negb (c =? 58).
Definition local_start (c : N) : bool := name_start c && negb (c =? 58).
Definition split_iri (i : str) : str * str :=
  let (suf_rev, pre_rev) := span local_char (rev i) in
  match pre_rev with
  | [] => (i, [])                                     (* rfind found nothing *)
  | _ =>
      let (skipped, loc) := span (fun c => negb (local_start c)) (rev suf_rev) in
      match loc with
      | [] => (i, [])
      | _ => (rev pre_rev ++ skipped, loc)
      end
  end.

Definition X_HEAD : str := Eval vm_compute in
  s2l "<?xml version=""1.0"" encoding=""UTF-8""?><rdf:RDF xmlns:rdf=""http://www.w3.org/1999/02/22-rdf-syntax-ns#"">".
Definition X_DESC_END : str := Eval vm_compute in s2l "</rdf:Description>".
Definition X_RDF_END : str := Eval vm_compute in s2l "</rdf:RDF>".
Definition X_DESC : str := Eval vm_compute in s2l "<rdf:Description".
Definition X_PROP : str := Eval vm_compute in s2l "prop:".
(* attribute openers, each  space name = dquote *)
Definition A_XMLNS : str := Eval vm_compute in s2l " xmlns=""".
Definition A_XMLNS_PROP : str := Eval vm_compute in s2l " xmlns:prop=""".
Definition A_ABOUT : str := Eval vm_compute in s2l " rdf:about=""".
Definition A_NODEID : str := Eval vm_compute in s2l " rdf:nodeID=""".
Definition A_RES : str := Eval vm_compute in s2l " rdf:resource=""".
Definition A_LANG : str := Eval vm_compute in s2l " xml:lang=""".
Definition A_DT : str := Eval vm_compute in s2l " rdf:datatype=""".
Definition xattr (k : str) (v : str) : str := k ++ xml_escape v ++ [34].

Definition xml_prop (p : str) (o : object) : str :=
  let (ns, loc) := split_iri p in
  let qn := match loc with [] => X_PROP | _ => loc end in
  let xmlns := match loc with [] => xattr A_XMLNS_PROP ns | _ => xattr A_XMLNS ns end in
  let '(oattr, content) :=
    match o with
    | OIri i => (xattr A_RES i, None)
    | OBlank b => (xattr A_NODEID b, None)
    | OLit (LSimple v) => ([], Some v)
    | OLit (LLang v l) => (xattr A_LANG l, Some v)
    | OLit (LTyped v dt) => (xattr A_DT dt, Some v)
    end in
  match content with
  | Some v => 60 :: qn ++ xmlns ++ oattr ++ 62 :: xml_escape v ++ 60 :: 47 :: qn ++ [62]
  | None => 60 :: qn ++ xmlns ++ oattr ++ [47; 62]
  end.
Definition xml_desc_open (s : subject) : str :=
  X_DESC ++ (match s with SIri i => xattr A_ABOUT i | SBlank b => xattr A_NODEID b end) ++ [62].
Fixpoint enc_xml_from (cur : option subject) (ts : list rio_triple) : str :=
  match ts with
  | [] => (match cur with Some _ => X_DESC_END | None => [] end) ++ X_RDF_END
  | (s, p, o) :: r =>
      (match cur with
       | Some c => if subject_eqb c s then [] else X_DESC_END ++ xml_desc_open s
       | None => xml_desc_open s
       end) ++ xml_prop p o ++ enc_xml_from (Some s) r
  end.
Definition ser_xml (ts : list triple) : str := X_HEAD ++ enc_xml_from None (map to_rio ts).

(* Known classes for RDF/XML (rio_xml parser.rs): what it does not read back as written *)
Definition is_ws (c : N) : bool := (c =? 32) || (c =? 9) || (c =? 10) || (c =? 13).
(* parse_text_event drops a text node made only of blanks *)
Definition ws_only (v : str) : bool := negb (match v with [] => true | _ => false end) && forallb is_ws v.
(* rdf:nodeID must be an NCName *)
Definition ncname (b : str) : bool :=
  match b with
  | [] => false
  | c :: r => name_start c && forallb name_char r && negb (existsb (N.eqb 58) b)
  end.
(* rdf: names a property element may not have (RESERVED_RDF_ELEMENTS + rdf:Description),
   and rdf:li, which is renumbered to rdf:_n *)
Definition RESERVED_LOCAL : list str := Eval vm_compute in
  [s2l "about"; s2l "aboutEach"; s2l "aboutEachPrefix"; s2l "bagID"; s2l "datatype"; s2l "ID";
   s2l "li"; s2l "nodeID"; s2l "parseType"; s2l "RDF"; s2l "resource"; s2l "Description"].
Definition reserved_pred (p : str) : bool :=
  existsb (fun l => str_eqb p (RDF_NS ++ l)) RESERVED_LOCAL.
Definition lit_value (l : rlit) : str :=
  match l with RString v | RLang v _ | RTyped v _ => v end.
Definition known_xml_nodeid (t : triple) : bool :=
  let '(s, _, o) := t in
  (match s with SBlank b => negb (ncname b) | _ => false end) ||
  (match o with ROBlank b => negb (ncname b) | _ => false end).
Definition known_xml_ws (t : triple) : bool :=
  let '(_, _, o) := t in match o with ROLit l => ws_only (lit_value l) | _ => false end.
Definition known_xml_reserved (t : triple) : bool := let '(_, p, _) := t in reserved_pred p.
(* a predicate that is exactly the xmlns namespace IRI: no local name, so the formatter
   declares xmlns:prop with it, which quick-xml refuses *)
Definition known_xml_nsbind (t : triple) : bool :=
  let '(_, p, _) := t in str_eqb p XMLNS_NS.
Definition known_xml (t : triple) : bool :=
  known_xml_nodeid t || known_xml_ws t || known_xml_reserved t || known_xml_nsbind t.


(* --- decoding: what rio_xml's RdfXmlParser (plus the adapter) reads on that text --- *)
(* attribute value up to the closing dquote, unescaped *)
Definition read_attr (s : str) : option (str * str) :=
  let (raw, r) := span (fun c => negb (c =? 34)) s in
  match r with
  | 34 :: r' => match xml_unescape raw with Some v => Some (v, r') | None => None end
  | _ => None
  end.
(* element text up to the next tag; parse_text_event ignores a text node made only of blanks *)
Definition read_text (s : str) : option (str * str) :=
  let (raw, r) := span (fun c => negb (c =? 60)) s in
  match xml_unescape raw with
  | Some v => Some (match raw with
                    | [] => v
                    | _ => if forallb is_ws raw then [] else v
                    end, r)
  | None => None
  end.
(* ">" text "</qn>" *)
Definition xml_body (qn : str) (s : str) : option (str * str) :=
  match s with
  | 62 :: r =>
      match read_text r with
      | Some (v, r') =>
          match strip (60 :: 47 :: qn ++ [62]) r' with Some r'' => Some (v, r'') | None => None end
      | None => None
      end
  | _ => None
  end.
Definition X_EMPTY_END : str := [47; 62].            (* "/>" *)
(* after the namespace declaration of a property element *)
Definition dec_xml_object (qn : str) (s : str) : option (object * str) :=
  match strip A_RES s with
  | Some r =>
      match read_attr r with
      | Some (i, r') =>
          match strip X_EMPTY_END r' with
          | Some r'' => if iri_ok i then Some (OIri i, r'') else None
          | None => None
          end
      | None => None
      end
  | None =>
  match strip A_NODEID s with
  | Some r =>
      match read_attr r with
      | Some (b, r') =>
          match strip X_EMPTY_END r' with
          | Some r'' => if ncname b then Some (OBlank b, r'') else None
          | None => None
          end
      | None => None
      end
  | None =>
  match strip A_LANG s with
  | Some r =>
      match read_attr r with
      | Some (l, r') =>
          match xml_body qn r' with
          | Some (v, r'') => if lang_shape l then Some (OLit (LLang v (map lower l)), r'') else None
          | None => None
          end
      | None => None
      end
  | None =>
  match strip A_DT s with
  | Some r =>
      match read_attr r with
      | Some (dt, r') =>
          match xml_body qn r' with
          | Some (v, r'') => if iri_ok dt then Some (OLit (LTyped v dt), r'') else None
          | None => None
          end
      | None => None
      end
  | None =>
      match xml_body qn s with
      | Some (v, r'') => Some (OLit (LSimple v), r'')
      | None => None
      end
  end end end end.

(* decimal digits of n (rdf:li is renumbered rdf:_1, rdf:_2, ... inside one node element) *)
Fixpoint digits_f (fuel : nat) (n : N) (acc : str) : str :=
  match fuel with
  | O => acc
  | S f => let acc' := (48 + n mod 10) :: acc in
           if n / 10 =? 0 then acc' else digits_f f (n / 10) acc'
  end.
Definition digits (n : N) : str := digits_f (S (N.to_nat (N.log2 n))) n [].
Definition RDF_LI : str := Eval vm_compute in s2l "http://www.w3.org/1999/02/22-rdf-syntax-ns#li".
Definition RDF_UNDERSCORE : str := Eval vm_compute in s2l "http://www.w3.org/1999/02/22-rdf-syntax-ns#_".

Definition L_PROP : str := [112; 114; 111; 112].      (* "prop" *)
(* a property element: "<" qname, namespace declaration, object.  Result: predicate,
   object, the rdf:li counter, the remaining text *)
Definition dec_xml_prop (li : N) (s : str) : option (str * object * N * str) :=
  match s with
  | 60 :: r =>
      let (nm, r1) := span local_char r in
      match (match r1 with
             | 58 :: r2 =>                               (* only the prefix the formatter declares *)
                 if str_eqb nm L_PROP then
                   match strip A_XMLNS_PROP r2 with
                   | Some r3 => match read_attr r3 with
                                | Some (ns, r4) =>
                                    if str_eqb ns XMLNS_NS || str_eqb ns XML_NS then None
                                    else Some (ns, nm ++ [58], r4)
                                | None => None
                                end
                   | None => None
                   end
                 else None
             | _ =>
                 match nm with
                 | [] => None
                 | _ => match strip A_XMLNS r1 with
                        | Some r3 => match read_attr r3 with
                                     | Some (ns, r4) => Some (ns ++ nm, nm, r4)
                                     | None => None
                                     end
                        | None => None
                        end
                 end
             end) with
      | Some (p, qn, r4) =>
          match (if str_eqb p RDF_LI then Some (RDF_UNDERSCORE ++ digits (li + 1), li + 1)
                 else if reserved_pred p then None else Some (p, li)) with
          | Some (p', li') =>
              match dec_xml_object qn r4 with
              | Some (o, r5) => Some (p', o, li', r5)
              | None => None
              end
          | None => None
          end
      | None => None
      end
  | _ => None
  end.

(* "<rdf:Description" + rdf:about / rdf:nodeID + ">" *)
Definition dec_xml_desc (s : str) : option (subject * str) :=
  match strip X_DESC s with
  | Some r =>
      match strip A_ABOUT r with
      | Some r1 => match read_attr r1 with
                   | Some (i, 62 :: r2) => if iri_ok i then Some (SIri i, r2) else None
                   | _ => None
                   end
      | None =>
          match strip A_NODEID r with
          | Some r1 => match read_attr r1 with
                       | Some (b, 62 :: r2) => if ncname b then Some (SBlank b, r2) else None
                       | _ => None
                       end
          | None => None
          end
      end
  | None => None
  end.

(* inside rdf:RDF; cur = the open rdf:Description's subject, li its rdf:li counter *)
Fixpoint dec_xml_from (fuel : nat) (cur : option subject) (li : N) (s : str) : option (list rio_triple) :=
  match fuel with
  | O => None
  | S f =>
      match cur with
      | None =>
          match strip X_RDF_END s with
          | Some r => at_end r
          | None => match dec_xml_desc s with
                    | Some (sj, r) => dec_xml_from f (Some sj) 0 r
                    | None => None
                    end
          end
      | Some sj =>
          match strip X_DESC_END s with
          | Some r => dec_xml_from f None 0 r
          | None =>
              match dec_xml_prop li s with
              | Some (p, o, li', r) =>
                  match dec_xml_from f cur li' r with Some l => Some ((sj, p, o) :: l) | None => None end
              | None => None
              end
          end
      end
  end.
Definition dec_xml (s : str) : option (list rio_triple) :=
  match strip X_HEAD s with
  | Some r => dec_xml_from (List.length s) None 0 r
  | None => None
  end.
Definition parse_xml (s : str) : option (list triple) :=
  match dec_xml s with Some l => map_opt from_rio l | None => None end.

(* ---------- correspondence ---------- *)
Definition opt_triples_eqb (a b : option (list triple)) : bool :=
  option_eqb (list_eqb triple_eqb) a b.

Record case := {
  c_checked : bool;                   (* every term built with the validating constructors;
                                         false: one IRI made with oxrdf's new_unchecked *)
  c_triples : list triple;
  c_nt : str; c_ttl : str; c_xml : str;               (* RdfSerializer::serialize *)
  c_nt_back : option (list triple);                    (* RdfParser::parse of c_nt; None = Err *)
  c_ttl_back : option (list triple);
  c_xml_back : option (list triple);
  (* candidate strings offered to the constructors and whether they were accepted *)
  c_iris : list (str * bool);
  c_labels : list (str * bool);
  c_langs : list (str * option str)                    (* Some = stored (lowercased) tag *)
}.

Definition implb' (a b : bool) : bool := negb a || b.

Definition check_case (c : case) : bool :=
  let ts := c_triples c in
  let wf := forallb wf_triple ts in
  implb' (c_checked c) wf
  && str_eqb (ser_nt ts) (c_nt c)
  && str_eqb (ser_ttl ts) (c_ttl c)
  && str_eqb (ser_xml ts) (c_xml c)
  && opt_triples_eqb (parse_nt (c_nt c)) (c_nt_back c)
  && opt_triples_eqb (parse_ttl (c_ttl c)) (c_ttl_back c)
  && opt_triples_eqb (parse_xml (c_xml c)) (c_xml_back c)
  && (if wf then
        (* the round trip fails exactly on the known classes *)
        Bool.eqb (opt_triples_eqb (c_nt_back c) (Some ts)) (negb (existsb known_label ts))
        && Bool.eqb (opt_triples_eqb (c_ttl_back c) (Some ts)) (negb (existsb known_label ts))
        && Bool.eqb (opt_triples_eqb (c_xml_back c) (Some ts)) (negb (existsb known_xml ts))
      else
        (* an IRI with a character IRIREF cannot carry: nothing comes back unchanged *)
        negb (opt_triples_eqb (c_nt_back c) (Some ts))
        && negb (opt_triples_eqb (c_ttl_back c) (Some ts))
        && negb (opt_triples_eqb (c_xml_back c) (Some ts)))
  (* the model's well-formedness covers everything the constructors accept *)
  && forallb (fun x => implb' (snd x) (iri_ok (fst x))) (c_iris c)
  && forallb (fun x => Bool.eqb (snd x) (bnode_ok (fst x))) (c_labels c)
  && forallb (fun x => match snd x with
                       | Some l => lang_shape (fst x) && str_eqb l (map lower (fst x)) && lang_ok l
                       | None => true
                       end) (c_langs c).
