(* Effect model of what the server persists (C19).
   src/protocol/command.rs handle_graph_query: a write statement runs on the in-memory store
   (execute_mut); afterwards exactly the Value::Node / Value::Edge that occur in the RESULT ROWS
   are written to storage (persist_create_node / persist_create_edge = put of the entity as it
   is at the end of the statement).  Nothing else is: no deletion, no entity that is not
   returned.  src/http/handler.rs query_handler persists nothing.  src/main.rs recovery =
   storage scan: every stored node, then every stored relationship whose endpoints exist
   (insert_recovered_edge refuses the others).
   A statement is represented by its effect (what it did to the served graph) and the
   entities its rows return; the Cypher semantics itself is not modelled here.
   Executable; no proofs here. *)
From Coq Require Import List ZArith NArith Bool.
From Verif Require Import CheckLib.
Import ListNotations.
Open Scope N_scope.

Record ncontent := { c_labels : list N; c_props : list (N * Z) }.
Record econtent := { c_src : N; c_dst : N; c_type : N; c_eprops : list (N * Z) }.

(* id-keyed maps as association lists; `put` replaces *)
Definition nmap := list (N * ncontent).
Definition emap := list (N * econtent).

Fixpoint lookup {A} (id : N) (m : list (N * A)) : option A :=
  match m with
  | [] => None
  | (k, v) :: r => if N.eqb k id then Some v else lookup id r
  end.

Fixpoint put {A} (id : N) (v : A) (m : list (N * A)) : list (N * A) :=
  match m with
  | [] => [(id, v)]
  | (k, w) :: r => if N.eqb k id then (id, v) :: r else (k, w) :: put id v r
  end.

Fixpoint del {A} (id : N) (m : list (N * A)) : list (N * A) :=
  match m with
  | [] => []
  | (k, w) :: r => if N.eqb k id then del id r else (k, w) :: del id r
  end.

Record graph := { g_nodes : nmap; g_edges : emap }.
Definition empty : graph := {| g_nodes := []; g_edges := [] |}.

(* what a statement did to the served graph *)
Inductive change :=
| PutNode (id : N) (c : ncontent)        (* created, or properties / labels changed *)
| PutEdge (id : N) (c : econtent)
| DelNode (id : N)
| DelEdge (id : N).

Inductive eref := RNode (id : N) | REdge (id : N).    (* an entity value in a result row *)
Inductive channel := Resp | Http.

(* s_write: routed to execute_mut (statement_is_write); a read goes to the read-only executor and
   nothing is persisted for it, whatever it returns *)
Record stmt := { s_chan : channel; s_write : bool; s_delta : list change; s_returned : list eref }.

Definition apply_change (g : graph) (c : change) : graph :=
  match c with
  | PutNode id x => {| g_nodes := put id x (g_nodes g); g_edges := g_edges g |}
  | PutEdge id x => {| g_nodes := g_nodes g; g_edges := put id x (g_edges g) |}
  | DelNode id => {| g_nodes := del id (g_nodes g); g_edges := g_edges g |}
  | DelEdge id => {| g_nodes := g_nodes g; g_edges := del id (g_edges g) |}
  end.

(* ack_effect: the graph the server serves after the statement *)
Definition ack_effect (g : graph) (s : stmt) : graph := fold_left apply_change (s_delta s) g.

(* persisted_effect: what handle_graph_query writes, given the graph at the end of the statement *)
Definition persist_ref (served : graph) (st : graph) (r : eref) : graph :=
  match r with
  | RNode id => match lookup id (g_nodes served) with
                | Some c => {| g_nodes := put id c (g_nodes st); g_edges := g_edges st |}
                | None => st
                end
  | REdge id => match lookup id (g_edges served) with
                | Some c => {| g_nodes := g_nodes st; g_edges := put id c (g_edges st) |}
                | None => st
                end
  end.

Definition persisted_effect (served_after : graph) (st : graph) (s : stmt) : graph :=
  match s_chan s with
  | Http => st                                                   (* query_handler: nothing *)
  | Resp => if s_write s then fold_left (persist_ref served_after) (s_returned s) st else st
  end.

(* (served graph, storage) after a history of acknowledged statements *)
Definition step (p : graph * graph) (s : stmt) : graph * graph :=
  let served' := ack_effect (fst p) s in (served', persisted_effect served' (snd p) s).

Definition run (h : list stmt) : graph * graph := fold_left step h (empty, empty).

Definition has_node (id : N) (m : nmap) : bool := match lookup id m with Some _ => true | None => false end.

(* main.rs: list_persisted_tenants -> recover -> insert_recovered_node / insert_recovered_edge *)
Definition recover (st : graph) : graph :=
  {| g_nodes := g_nodes st;
     g_edges := filter (fun e => has_node (c_src (snd e)) (g_nodes st) && has_node (c_dst (snd e)) (g_nodes st))
                       (g_edges st) |}.

(* ---------- the classes, one per losing path ---------- *)
Inductive class := RespWriteNotReturned | RespDelete | HttpAnyWrite.

Definition eref_eqb (a b : eref) : bool :=
  match a, b with
  | RNode x, RNode y | REdge x, REdge y => N.eqb x y
  | _, _ => false
  end.

Definition returned (s : stmt) (r : eref) : bool := existsb (eref_eqb r) (s_returned s).

Definition is_delete (c : change) : bool := match c with DelNode _ | DelEdge _ => true | _ => false end.

Definition put_returned (s : stmt) (c : change) : bool :=
  match c with
  | PutNode id _ => returned s (RNode id)
  | PutEdge id _ => returned s (REdge id)
  | _ => true
  end.

Definition class_of (s : stmt) : option class :=
  match s_delta s with
  | [] => None                                            (* a read, or a write that changed nothing *)
  | _ =>
      match s_chan s with
      | Http => Some HttpAnyWrite
      | Resp =>
          if existsb is_delete (s_delta s) then Some RespDelete
          else if forallb (put_returned s) (s_delta s) then None
          else Some RespWriteNotReturned
      end
  end.

Definition Known_C19 (h : list stmt) : bool :=
  existsb (fun s => match class_of s with Some _ => true | None => false end) h.

(* the executor never creates a relationship between nodes that do not exist *)
Definition change_ok (g : graph) (c : change) : bool :=
  match c with
  | PutEdge _ x => has_node (c_src x) (g_nodes g) && has_node (c_dst x) (g_nodes g)
  | _ => true
  end.
(* ... and the read-only executor changes nothing *)
Definition stmt_ok (g : graph) (s : stmt) : bool :=
  let g' := ack_effect g s in
  forallb (change_ok g') (s_delta s) && (s_write s || match s_delta s with [] => true | _ => false end).

Fixpoint history_ok (g : graph) (h : list stmt) : bool :=
  match h with
  | [] => true
  | s :: r => stmt_ok g s && history_ok (ack_effect g s) r
  end.

(* ---------- correspondence ---------- *)
Definition props_eqb (a b : list (N * Z)) : bool :=
  let inc x y := forallb (fun p => existsb (fun q => N.eqb (fst p) (fst q) && Z.eqb (snd p) (snd q)) y) x in
  inc a b && inc b a.
Definition labels_eqb (a b : list N) : bool :=
  forallb (fun x => existsb (N.eqb x) b) a && forallb (fun x => existsb (N.eqb x) a) b.
Definition ncontent_eqb (a b : ncontent) : bool :=
  labels_eqb (c_labels a) (c_labels b) && props_eqb (c_props a) (c_props b).
Definition econtent_eqb (a b : econtent) : bool :=
  N.eqb (c_src a) (c_src b) && N.eqb (c_dst a) (c_dst b) && N.eqb (c_type a) (c_type b) &&
  props_eqb (c_eprops a) (c_eprops b).

Definition map_eqb {A} (eqb : A -> A -> bool) (a b : list (N * A)) : bool :=
  let inc x y := forallb (fun p => match lookup (fst p) y with Some v => eqb (snd p) v | None => false end) x in
  inc a b && inc b a.

Definition graph_eqb (a b : graph) : bool :=
  map_eqb ncontent_eqb (g_nodes a) (g_nodes b) && map_eqb econtent_eqb (g_edges a) (g_edges b).

Definition class_code (c : option class) : N :=
  match c with None => 0 | Some RespWriteNotReturned => 1 | Some RespDelete => 2 | Some HttpAnyWrite => 3 end.

(* one case: the acknowledged statements (effect observed as the difference of the served graph,
   returned entities read off the reply, class derived by the harness from the statement's shape),
   the graph served before the shutdown and the graph served after the restart *)
Definition case := (list (stmt * N) * graph * graph)%type.

Definition check_case (c : case) : bool :=
  let '(h, served, recovered) := c in
  let stmts := map fst h in
  let r := run stmts in
  history_ok empty stmts &&
  forallb (fun p => N.eqb (class_code (class_of (fst p))) (snd p)) h &&
  graph_eqb (fst r) served &&
  graph_eqb (recover (snd r)) recovered.
