(* Model of crates/samyama-optimization : the shape shared by the solvers under
   src/algorithms (jaya.rs and 28 siblings) -- an ELITIST SEARCH SKELETON --
   plus Pareto dominance / the rank-0 front of nsga2.rs and moo.rs.
   Executable; no proofs here.

   Floats are not modelled.  A finite f64 is represented by its ORDER KEY
   (sign-magnitude bit pattern read as a signed integer, so that < and == on
   non-NaN floats are < and = on keys, -0.0 and +0.0 share key 0); the only
   float operations the skeleton performs are comparisons, clamp and "a draw
   inside [lo,hi)", all of which are order operations.  The RNG (ChaCha12) and
   the update rules are an arbitrary ORACLE; the objective is an arbitrary
   function. *)
From Coq Require Import List ZArith NArith Bool.
From Verif Require Import CheckLib.
Import ListNotations.
Open Scope Z_scope.

Inductive panic := EmptyRange | ClampInverted | EmptyPopulation.

Inductive outcome (A : Type) := Ok (a : A) | Panic (p : panic).
Arguments Ok {A} a.
Arguments Panic {A} p.

Definition bind {A B} (o : outcome A) (k : A -> outcome B) : outcome B :=
  match o with Ok a => k a | Panic p => Panic p end.

Definition point := list Z.
Record ind := { vars : point; fit : Z }.

(* f64::clamp(self, min, max): assert!(min <= max) *)
Definition clamp (x lo hi : Z) : outcome Z :=
  if hi <? lo then Panic ClampInverted
  else Ok (if x <? lo then lo else if hi <? x then hi else x).

(* rand::Rng::gen_range(lo..hi) on floats: assert!(!range.is_empty()) i.e. lo < hi,
   otherwise "cannot sample empty range"; the value is somewhere in [lo,hi),
   chosen by the raw draw r. *)
Definition gen_range (r lo hi : Z) : outcome Z :=
  if lo <? hi then Ok (lo + r mod (hi - lo)) else Panic EmptyRange.

(* common.rs rng::sample_range (the repaired initialisation draw): a pinned
   variable (lo == hi) takes its only value; otherwise gen_range. *)
Definition sample (r lo hi : Z) : outcome Z :=
  if lo =? hi then Ok lo else gen_range r lo hi.

(* one vector, coordinate by coordinate (coordinate 0 first, as the loops do) *)
Fixpoint build (g : nat -> Z -> Z -> outcome Z) (j : nat) (bs : list (Z * Z)) : outcome point :=
  match bs with
  | [] => Ok []
  | (lo, hi) :: r =>
      bind (g j lo hi) (fun v => bind (build g (S j) r) (fun t => Ok (v :: t)))
  end.

Fixpoint sequence {A} (l : list (outcome A)) : outcome (list A) :=
  match l with
  | [] => Ok []
  | o :: r => bind o (fun a => bind (sequence r) (fun t => Ok (a :: t)))
  end.

Fixpoint in_boxb (bs : list (Z * Z)) (x : point) : bool :=
  match bs, x with
  | [], [] => true
  | (lo, hi) :: r, v :: t => (lo <=? v) && (v <=? hi) && in_boxb r t
  | _, _ => false
  end.

(* ---- scheduling: a generation computed by parts, in any order, and put back by index ---- *)
Definition par_results {A} (g : nat -> A) (parts : list (list nat)) : list (nat * A) :=
  flat_map (map (fun i => (i, g i))) parts.

Fixpoint lookup {A} (i : nat) (l : list (nat * A)) : option A :=
  match l with
  | [] => None
  | (k, a) :: r => if Nat.eqb k i then Some a else lookup i r
  end.

Fixpoint assemble {A} (idxs : list nat) (res : list (nat * A)) : option (list A) :=
  match idxs with
  | [] => Some []
  | i :: r => match lookup i res, assemble r res with
              | Some a, Some t => Some (a :: t)
              | _, _ => None
              end
  end.

Section Skeleton.
  Variable f : point -> Z.                       (* Problem::fitness *)
  Variable bounds : list (Z * Z).                (* Problem::bounds, zipped *)
  Variable init_raw : N -> nat -> nat -> Z.      (* solver_rng(seed): draw for (individual, coordinate) *)
  (* child_rng(seed, iter, idx) + the solver's update rule: ANY function of the
     seed, the iteration, the index and the previous population *)
  Variable cand_raw : N -> nat -> nat -> list ind -> nat -> Z.
  Variable accept : ind -> ind -> bool.          (* population replacement policy: old, new *)

  Definition eval (x : point) : ind := {| vars := x; fit := f x |}.

  Definition better (a b : ind) : bool := fit a <? fit b.

  (* find_best: first strict minimum *)
  Definition best_of (a : ind) (l : list ind) : ind :=
    fold_left (fun b c => if better c b then c else b) l a.

  Definition init_one (seed : N) (idx : nat) : outcome ind :=
    bind (build (fun j lo hi => sample (init_raw seed idx j) lo hi) 0 bounds)
         (fun x => Ok (eval x)).

  (* clamp -> evaluate *)
  Definition candidate (seed : N) (iter : nat) (prev : list ind) (idx : nat) : outcome ind :=
    bind (build (fun j lo hi => clamp (cand_raw seed iter idx prev j) lo hi) 0 bounds)
         (fun x => Ok (eval x)).

  Fixpoint select (old new : list ind) : list ind :=
    match old, new with
    | o :: r, c :: t => (if accept o c then c else o) :: select r t
    | _, _ => []
    end.

  Record state := {
    pop : list ind;        (* the population *)
    arch : ind;            (* best individual seen so far (gbest / alpha / best_ind) *)
    hist : list Z;         (* history of the archive best *)
    phist : list Z;        (* history of the population best *)
    evals : list ind;      (* every evaluation so far, in order *)
    hpos : list nat        (* number of evaluations made when each history entry was pushed *)
  }.

  Definition pop_best (s : state) : ind :=
    match pop s with a :: r => best_of a r | [] => arch s end.

  Definition init_state (seed : N) (n : nat) : outcome state :=
    bind (sequence (map (init_one seed) (seq 0 n)))
      (fun p => match p with
                | [] => Panic EmptyPopulation        (* population[0] *)
                | a :: r => Ok {| pop := p; arch := best_of a r; hist := []; phist := [];
                                  evals := p; hpos := [] |}
                end).

  (* the candidates of one generation: a map over the indices of a function of
     (seed, iter, idx) and the previous population only *)
  Definition candidates (seed : N) (iter : nat) (prev : list ind) : outcome (list ind) :=
    sequence (map (candidate seed iter prev) (seq 0 (length prev))).

  (* the same generation computed by parts (one list of indices per worker, any
     order, overlaps allowed) and put back in index order *)
  Definition candidates_sched (parts : list (list nat)) (seed : N) (iter : nat)
             (prev : list ind) : outcome (list ind) :=
    match assemble (seq 0 (length prev)) (par_results (candidate seed iter prev) parts) with
    | Some l => sequence l
    | None => Panic EmptyPopulation
    end.

  (* record best -> candidates -> replace -> archive *)
  Definition generation (seed : N) (iter : nat) (s : state) : outcome state :=
    bind (candidates seed iter (pop s))
      (fun cs => Ok {| pop := select (pop s) cs;
                       arch := best_of (arch s) cs;
                       hist := hist s ++ [fit (arch s)];
                       phist := phist s ++ [fit (pop_best s)];
                       evals := evals s ++ cs;
                       hpos := hpos s ++ [length (evals s)] |}).

  Fixpoint iterate (seed : N) (iter todo : nat) (s : state) : outcome state :=
    match todo with
    | O => Ok s
    | S t => bind (generation seed iter s) (iterate seed (S iter) t)
    end.

  Definition run (seed : N) (n iters : nat) : outcome state :=
    bind (init_state seed n) (iterate seed 0 iters).

  (* what solve() returns: archive-best solvers (pso, gwo, sa, bat, abc, gsa, cuckoo, fpa, firefly) *)
  Definition archive_result (s : state) : point * Z * list Z :=
    (vars (arch s), fit (arch s), hist s).
  (* population-best solvers (jaya, rao, tlbo, de, ...; ga with its carried elite) *)
  Definition population_result (s : state) : point * Z * list Z :=
    (vars (pop_best s), fit (pop_best s), phist s).
End Skeleton.

(* greedy replacement: if new_fitness < ind.fitness *)
Definition greedy (o c : ind) : bool := fit c <? fit o.

(* ---- Pareto (nsga2.rs dominates / moo.rs constrained_dominates) ---- *)
Definition mo := (list Z * Z)%type.           (* objective keys, constraint violation key *)

Fixpoint pareto (a b : list Z) (strict : bool) : bool :=
  match a, b with
  | x :: a', y :: b' => if y <? x then false else pareto a' b' (strict || (x <? y))
  | _, _ => strict
  end.

Definition dominates (a b : mo) : bool :=
  let '(f1, v1) := a in
  let '(f2, v2) := b in
  if (v1 =? 0) && (0 <? v2) then true
  else if (0 <? v1) && (v2 =? 0) then false
  else if (0 <? v1) && (0 <? v2) then v1 <? v2
  else pareto f1 f2 false.

Definition nondominated (l : list mo) (x : mo) : bool :=
  negb (existsb (fun y => dominates y x) l).

(* the non-dominated filter *)
Definition front (l : list mo) : list mo := filter (nondominated l) l.

(* fast non-dominated sort, rank 0: member i has rank 0 iff its dominance count,
   accumulated over j <> i with the code's if / else-if, is zero *)
Fixpoint dom_count (x : mo) (i j : nat) (l : list mo) : nat :=
  match l with
  | [] => O
  | y :: r =>
      ((if Nat.eqb i j then 0
        else if dominates x y then 0
        else if dominates y x then 1 else 0) + dom_count x i (S j) r)%nat
  end.

Fixpoint fnds_go (all : list mo) (i : nat) (l : list mo) : list mo :=
  match l with
  | [] => []
  | x :: r => if Nat.eqb (dom_count x i 0 all) 0 then x :: fnds_go all (S i) r
              else fnds_go all (S i) r
  end.

Definition fnds_front (l : list mo) : list mo := fnds_go l 0 l.

(* ================= correspondence ================= *)
(* running minimum of the first p logged fitness values *)
Definition pmin (l : list Z) : option Z :=
  match l with [] => None | a :: r => Some (fold_left Z.min r a) end.

Definition prefix_min (log : list Z) (p : nat) : option Z := pmin (firstn p log).

Fixpoint point_eqb (a b : point) : bool :=
  match a, b with
  | [], [] => true
  | x :: a', y :: b' => (x =? y) && point_eqb a' b'
  | _, _ => false
  end.

Fixpoint nonincreasing (l : list Z) : bool :=
  match l with
  | a :: ((b :: _) as r) => (b <=? a) && nonincreasing r
  | _ => true
  end.

Inductive class :=
| GreedyIndividual      (* each individual replaced only by a strictly better candidate; best = population minimum *)
| ArchiveBest           (* population moves freely; a separate best-so-far record is returned *)
| GenerationalElitist.  (* whole population replaced, best carried over (ga.rs) *)

Definition mo_eqb (a b : mo) : bool := point_eqb (fst a) (fst b) && (snd a =? snd b).

Inductive case :=
(* one single-objective run: class, bounds, every fitness() call in order (point, value),
   evaluation counts at each history push when the solver's structure fixes them,
   whether the best must EQUAL the running minimum there (no auxiliary evaluations),
   evaluations examined by the final best (None = all), and what solve() returned *)
| SO (cls : class) (bounds : list (Z * Z)) (log : list (point * Z))
     (sched : option (list nat)) (exact : bool) (final : option nat)
     (hist : list Z) (bestx : point) (bestf : Z)
(* one multi-objective run: bounds, every evaluated point with (objectives, violation),
   the returned front *)
| MO (bounds : list (Z * Z)) (log : list (point * mo)) (fr : list (point * mo))
(* a run on a box that is degenerate or inverted in some coordinate: did it panic *)
| Box (bounds : list (Z * Z)) (popsize : nat) (iters : nat) (panicked : bool).

Definition opt_le (a : option Z) (b : Z) : bool :=
  match a with Some x => x <=? b | None => false end.
Definition opt_eq (a : option Z) (b : Z) : bool :=
  match a with Some x => x =? b | None => false end.

Fixpoint check_sched (exact : bool) (fits : list Z) (ps : list nat) (hist : list Z) : bool :=
  match ps, hist with
  | [], [] => true
  | p :: ps', h :: hist' =>
      (if exact then opt_eq (prefix_min fits p) h else opt_le (prefix_min fits p) h)
      && (Nat.leb p (length fits)) && check_sched exact fits ps' hist'
  | _, _ => false
  end.

(* the laws every run of the skeleton obeys (SolverProofs: run_invariant, hist_is_prefix_min,
   hist_monotone, ...), evaluated on what the implementation did *)
Definition check_so (bounds : list (Z * Z)) (log : list (point * Z))
           (sched : option (list nat)) (exact : bool) (final : option nat)
           (hist : list Z) (bestx : point) (bestf : Z) : bool :=
  let fits := map snd log in
  (* clamp -> evaluate: every evaluated point is inside the box *)
  forallb (fun e => in_boxb bounds (fst e)) log
  (* the returned best is an evaluated candidate carrying its own fitness *)
  && existsb (fun e => point_eqb (fst e) bestx && (snd e =? bestf)) log
  && in_boxb bounds bestx
  (* best-so-far never worsens, and the final best is no worse than any recorded value *)
  && nonincreasing hist
  && forallb (fun h => bestf <=? h) hist
  (* every recorded value is the fitness of an evaluated candidate *)
  && forallb (fun h => existsb (fun v => v =? h) fits) hist
  (* replay: history entry g is the running minimum of the evaluations made before it *)
  && match sched with
     | Some ps => check_sched exact fits ps hist
     | None => true
     end
  && match final with
     | Some p => if exact then opt_eq (prefix_min fits p) bestf else opt_le (prefix_min fits p) bestf
     | None => if exact then opt_eq (pmin fits) bestf else opt_le (pmin fits) bestf
     end.

Definition check_mo (bounds : list (Z * Z)) (log : list (point * mo)) (fr : list (point * mo)) : bool :=
  forallb (fun e => in_boxb bounds (fst e)) log
  && forallb (fun m => existsb (fun e => point_eqb (fst e) (fst m) && mo_eqb (snd e) (snd m)) log) fr
  (* the returned front is its own non-dominated filter, also as computed by the rank-0 pass *)
  && list_eqb mo_eqb (front (map snd fr)) (map snd fr)
  && list_eqb mo_eqb (fnds_front (map snd fr)) (map snd fr)
  && negb (Nat.eqb (length fr) 0 && negb (Nat.eqb (length log) 0)).

(* whether the skeleton panics depends on the box and the population size only
   (SolverProofs.run_ok_iff); evaluate it with a constant oracle *)
Definition model_panics (bounds : list (Z * Z)) (popsize iters : nat) : bool :=
  match run (fun _ => 0) bounds (fun _ _ _ => 0) (fun _ _ _ _ _ => 0) greedy 0%N popsize iters with
  | Ok _ => false
  | Panic _ => true
  end.

Definition check_case (c : case) : bool :=
  match c with
  | SO _ bounds log sched exact final hist bestx bestf =>
      check_so bounds log sched exact final hist bestx bestf
  | MO bounds log fr => check_mo bounds log fr
  | Box bounds popsize iters panicked => Bool.eqb (model_panics bounds popsize iters) panicked
  end.
