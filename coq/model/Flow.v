(* C26 — flow.rs edmonds_karp as written (as repaired: source = sink returns None).
   Executable; no proofs here.

   The code keeps residual[u] : HashMap<usize, f64>; the inner BFS iterates over that map, so
   the order in which the neighbours of u are visited is unspecified.  The model takes that
   order as a parameter [ord] (for every u a list of nodes); proofs/FlowProofs.v shows that
   the result is the same for EVERY order that visits every node.  Capacities are naturals
   (the harness feeds integer capacities, so the f64 arithmetic of the code is exact and
   "capacity > 1e-9" is "capacity > 0").  The inner BFS is pathfinding-style: FIFO queue,
   visited on discovery, stops when the sink is dequeued — it is [Algos.bfs_model] run on the
   graph of the positive residual entries.  The path is updated from the source forward here
   and from the sink backward in the code; on a path without repeated nodes (which the BFS
   path is) the order of the updates does not matter. *)
From Coq Require Import List NArith Bool Arith.
From Verif Require Import CheckLib Algos.
Import ListNotations.

(* residual capacities: residual[u][v]; a missing entry and a zero entry are the same to the
   code (it only looks at entries with capacity > 1e-9) *)
Definition rmap := nat -> nat -> N.

Definition rupd (r : rmap) (u v : nat) (x : N) : rmap :=
  fun a b => if (a =? u) && (b =? v) then x else r a b.

(* total capacity of the parallel edges u -> v *)
Definition capuv (g : graph) (u v : nat) : N :=
  fold_right (fun e a => if (esrc e =? u) && (edst e =? v) then (ew e + a)%N else a) 0%N (ge g).

(* residual[u][v] += cap for every edge; back entries start at 0 *)
Definition init_res (g : graph) : rmap := capuv g.

(* the residual graph the inner BFS walks: for every u, the entries of residual[u] with positive
   capacity, in the iteration order [ord u] (a HashMap in the code: the order is unspecified) *)
Definition resgraph (ord : nat -> list nat) (n : nat) (r : rmap) : graph :=
  {| gn := n;
     ge := flat_map (fun u => flat_map (fun v => if (0 <? r u v)%N then [(u, v, r u v)] else [])
                                       (ord u)) (seq 0 n) |}.

(* consecutive pairs of a path *)
Fixpoint pairs_of (p : list nat) : list (nat * nat) :=
  match p with
  | u :: ((v :: _) as rest) => (u, v) :: pairs_of rest
  | _ => []
  end.

(* path_flow = min over the path of the residual capacity (starts from infinity in the code;
   the path always has an edge because source <> sink) *)
Definition bottleneck (r : rmap) (p : list nat) : N :=
  match pairs_of p with
  | [] => 0%N
  | (u, v) :: rest => fold_left (fun m e => N.min m (r (fst e) (snd e))) rest (r u v)
  end.

(* residual[prev][cur] -= f ; residual[cur][prev] += f *)
Definition push (r : rmap) (u v : nat) (f : N) : rmap :=
  let r1 := rupd r u v (r u v - f)%N in
  rupd r1 v u (r1 v u + f)%N.

Definition apply_path (r : rmap) (p : list nat) (f : N) : rmap :=
  fold_left (fun r e => push r (fst e) (snd e) f) (pairs_of p) r.

Inductive fres :=
| FNone                 (* edmonds_karp returned None *)
| FFlow (total : N)     (* Some(FlowResult{max_flow}) *)
| FFuel.                (* model fuel exhausted *)

Fixpoint ek_loop (fuel : nat) (ord : nat -> list nat) (n s t : nat) (r : rmap) (total : N) : fres :=
  match fuel with
  | 0 => FFuel
  | S f =>
      match bfs_model (resgraph ord n r) s t with
      | RPath p _ => let pf := bottleneck r p in
                     ek_loop f ord n s t (apply_path r p pf) (total + pf)%N
      | RNone => FFlow total
      | RFuel => FFuel
      end
  end.

Definition ek_model (ord : nat -> list nat) (g : graph) (s t : nat) : fres :=
  if (s <? gn g) && (t <? gn g) then
    if s =? t then FNone
    else ek_loop (S (S (N.to_nat (tweight (ge g))))) ord (gn g) s t (init_res g) 0%N
  else FNone.

(* the order used when the model is evaluated for the correspondence: ascending *)
Definition ord_asc (n : nat) : nat -> list nat := fun _ => seq 0 n.

Definition fres_eq (r : fres) (o : option N) : bool :=
  match r, o with
  | FNone, None => true
  | FFlow a, Some b => (a =? b)%N
  | _, _ => false
  end.


(* ---- correspondence: the Algos case, plus the max flow the model computes for every pair ---- *)
Definition ek_pairs_ok (c : ncase) : bool :=
  let '(n, es, wcc, scc, tri, lu, ld, mst, mste, prs) := c in
  let g := {| gn := tn n; ge := map nedge es |} in
  forallb (fun x : npobs => let '(s, t, b, d, f) := x in
                            fres_eq (ek_model (ord_asc (tn n)) g (tn s) (tn t)) f) prs.

Definition check_ncase (c : ncase) : bool := Algos.check_ncase c && ek_pairs_ok c.
