(* C26: the model of the repaired mst.rs prim_mst returns the minimum spanning-tree weight of
   node 0's component (exchange argument over index sets of edges). *)
From Coq Require Import List NArith Bool Arith Lia ZifyBool ZifyNat ZifyN Permutation.
From Verif Require Import CheckLib Algos AlgosProofs AlgosDijkstra.
Import ListNotations.

(* ================================================================== *)
(* Prim: edge sets as index sets, connectivity, the exchange lemma       *)
(* ================================================================== *)

Section PrimOpt.
Variable g : graph.
Hypothesis Hwf : wf g.

Definition eat (i : nat) : edge := nth i (ge g) (0, 0, 0%N).

(* node q is joined to p by the edge with index i (either direction) *)
Definition joins (i p q : nat) : Prop :=
  i < length (ge g) /\ exists w, eat i = (p, q, w) \/ eat i = (q, p, w).

Definition uedge (T : list nat) (p q : nat) : Prop := exists i, In i T /\ joins i p q.

Inductive conn (T : list nat) : nat -> nat -> Prop :=
| conn_refl : forall p, conn T p p
| conn_step : forall p q r, conn T p q -> uedge T q r -> conn T p r.

Lemma joins_sym : forall i p q, joins i p q -> joins i q p.
Proof. intros i p q [Hi [w [H|H]]]; split; try exact Hi; exists w; auto. Qed.

Lemma uedge_sym : forall T p q, uedge T p q -> uedge T q p.
Proof. intros T p q [i [Hi Hj]]. exists i. split; [exact Hi|apply joins_sym; exact Hj]. Qed.

Lemma conn_trans : forall T p q r, conn T p q -> conn T q r -> conn T p r.
Proof.
  intros T p q r H1 H2. induction H2 as [|q r' r'' H2 IH He]; [exact H1|].
  eapply conn_step; [apply IH; exact H1|exact He].
Qed.

Lemma conn_edge : forall T p q, uedge T p q -> conn T p q.
Proof. intros T p q H. eapply conn_step; [apply conn_refl|exact H]. Qed.

Lemma conn_sym : forall T p q, conn T p q -> conn T q p.
Proof.
  intros T p q H. induction H as [|p q r H IH He]; [apply conn_refl|].
  eapply conn_trans; [apply conn_edge, uedge_sym; exact He|exact IH].
Qed.

(* if every edge of T1 joins nodes that T2 connects, T2 connects whatever T1 connects *)
Lemma conn_mono : forall T1 T2, (forall p q, uedge T1 p q -> conn T2 p q) ->
  forall p q, conn T1 p q -> conn T2 p q.
Proof.
  intros T1 T2 H p q Hc. induction Hc as [|p q r Hc IH He]; [apply conn_refl|].
  eapply conn_trans; [exact IH|apply H; exact He].
Qed.

Lemma joins_endpoints : forall i p q p' q', joins i p q -> joins i p' q' ->
  (p = p' /\ q = q') \/ (p = q' /\ q = p').
Proof.
  intros i p q p' q' [_ [w [H|H]]] [_ [w' [H'|H']]]; rewrite H in H'; inversion H'; subst; auto.
Qed.

(* connection that never touches node z *)
Inductive aconn (T : list nat) (z : nat) : nat -> nat -> Prop :=
| aconn_refl : forall p, p <> z -> aconn T z p p
| aconn_step : forall p q r, aconn T z p q -> uedge T q r -> r <> z -> aconn T z p r.

Lemma aconn_start : forall T z p q, aconn T z p q -> p <> z /\ q <> z.
Proof. intros T z p q H. induction H; tauto. Qed.

(* simple connection: the list holds the visited nodes, most recent first, pairwise distinct *)
Inductive sconn (T : list nat) (a : nat) : list nat -> nat -> Prop :=
| sconn_refl : sconn T a [a] a
| sconn_step : forall l x v, sconn T a l x -> uedge T x v -> ~ In v l -> sconn T a (v :: l) v.

Lemma sconn_head : forall T a l x, sconn T a l x -> In x l /\ In a l.
Proof.
  intros T a l x H. induction H as [|l x v H [IH1 IH2] He Hn]; cbn; auto.
Qed.

Lemma sconn_truncate : forall T a l x, sconn T a l x -> forall v, In v l -> exists l', sconn T a l' v.
Proof.
  intros T a l x H. induction H as [|l x v0 H IH He Hn]; intros v Hv.
  - destruct Hv as [<-|[]]. exists [a]. constructor.
  - destruct Hv as [<-|Hv]; [exists (v0 :: l); econstructor; eassumption|apply IH; exact Hv].
Qed.

Lemma conn_simple : forall T a b, conn T a b -> exists l, sconn T a l b.
Proof.
  intros T a b H. induction H as [|p q r H [l IH] He]; [exists [p]; constructor|].
  destruct (in_dec Nat.eq_dec r l) as [Hin|Hn].
  - eapply sconn_truncate; eassumption.
  - exists (r :: l). econstructor; eassumption.
Qed.

Lemma sconn_avoid : forall T a l x, sconn T a l x -> forall z, ~ In z l -> aconn T z a x.
Proof.
  intros T a l x H. induction H as [|l x v H IH He Hn]; intros z Hz.
  - apply aconn_refl. intros ->. apply Hz. left; reflexivity.
  - eapply aconn_step; [apply IH; intros Hin; apply Hz; right; exact Hin|exact He|].
    intros ->. apply Hz. left; reflexivity.
Qed.

(* a simple connection from inside V to outside V crosses the boundary at some edge x-y;
   before it the path avoids y, after it the path avoids x *)
Lemma sconn_cross : forall T (V : nat -> bool) a l b, sconn T a l b -> V a = true -> V b = false ->
  exists x y, V x = true /\ V y = false /\ uedge T x y /\ In x l /\ In y l /\
              aconn T y a x /\ aconn T x y b.
Proof.
  intros T V a l b H Ha. induction H as [|l x' v H IH He Hn]; intros Hb; [congruence|].
  destruct (V x') eqn:Vx.
  - exists x', v. destruct (sconn_head _ _ _ _ H) as [Hx' _].
    split; [exact Vx|]. split; [exact Hb|]. split; [exact He|]. split; [right; exact Hx'|]. split; [left; reflexivity|].
    split; [apply (sconn_avoid _ _ _ _ H); exact Hn|].
    apply aconn_refl. intros ->. congruence.
  - destruct (IH eq_refl) as [x [y [Hx [Hy [Hxy [Ixl [Iyl [P1 P2]]]]]]]].
    exists x, y. split; [exact Hx|]. split; [exact Hy|]. split; [exact Hxy|].
    split; [right; exact Ixl|]. split; [right; exact Iyl|]. split; [exact P1|].
    eapply aconn_step; [exact P2|exact He|]. intros ->. contradiction.
Qed.

(* an avoiding connection survives the removal of any edge at the avoided node *)
Lemma aconn_remove : forall T z i p q z', aconn T z p q -> joins i z z' ->
  conn (remove Nat.eq_dec i T) p q.
Proof.
  intros T z i p q z' H Hj. induction H as [p Hp|p q r H IH He Hr]; [apply conn_refl|].
  eapply conn_step; [exact IH|]. destruct He as [j [Hj1 Hj2]]. exists j. split; [|exact Hj2].
  apply in_in_remove; [|exact Hj1]. intros ->.
  destruct (aconn_start _ _ _ _ H) as [_ Hq].
  destruct (joins_endpoints _ _ _ _ _ Hj Hj2) as [[E1 E2]|[E1 E2]]; congruence.
Qed.

(* EXCHANGE.  T connects a to b; a is inside V, b outside; e is an edge index joining a and b.
   Then some edge i of T crossing the boundary can be replaced by e without losing any
   connection. *)
Lemma exchange : forall T (V : nat -> bool) a b e,
  conn T a b -> V a = true -> V b = false -> joins e a b ->
  exists i x y, In i T /\ joins i x y /\ V x = true /\ V y = false /\
    forall p q, conn T p q -> conn (e :: remove Nat.eq_dec i T) p q.
Proof.
  intros T V a b e Hc Ha Hb He.
  destruct (conn_simple _ _ _ Hc) as [l Hs].
  destruct (sconn_cross _ V _ _ _ Hs Ha Hb) as [x [y [Hx [Hy [[i [Hi Hj]] [_ [_ [P1 P2]]]]]]]].
  exists i, x, y. split; [exact Hi|]. split; [exact Hj|]. split; [exact Hx|]. split; [exact Hy|].
  set (T' := e :: remove Nat.eq_dec i T).
  assert (Hsub : forall p q, conn (remove Nat.eq_dec i T) p q -> conn T' p q).
  { apply conn_mono. intros p q [j [Hj1 Hj2]]. apply conn_edge. exists j. split; [right; exact Hj1|exact Hj2]. }
  assert (Hxy : conn T' x y).
  { (* x ~ a (avoiding y), a - b by e, b ~ y (avoiding x) *)
    eapply conn_trans; [apply conn_sym, Hsub, (aconn_remove _ _ _ _ _ _ P1 (joins_sym _ _ _ Hj))|].
    eapply conn_trans; [apply conn_edge; exists e; split; [left; reflexivity|exact He]|].
    apply conn_sym, Hsub, (aconn_remove _ _ _ _ _ _ P2 Hj). }
  apply conn_mono. intros p q [j [Hj1 Hj2]].
  destruct (Nat.eq_dec j i) as [->|Hne].
  - destruct (joins_endpoints _ _ _ _ _ Hj Hj2) as [[-> ->]|[-> ->]]; [exact Hxy|apply conn_sym; exact Hxy].
  - apply conn_edge. exists j. split; [right; apply in_in_remove; assumption|exact Hj2].
Qed.


(* ---------------- weights of index sets ---------------- *)

Definition wsum (T : list nat) : N := fold_right (fun i a => (ew (eat i) + a)%N) 0%N T.
Definition okidx (T : list nat) : Prop := NoDup T /\ forall i, In i T -> i < length (ge g).

Lemma wsum_cons : forall i T, wsum (i :: T) = (ew (eat i) + wsum T)%N.
Proof. reflexivity. Qed.

Lemma nodup_remove : forall (l : list nat) x, NoDup l -> NoDup (remove Nat.eq_dec x l).
Proof.
  intros l x H. induction H as [|y l Hy H IH]; cbn; [constructor|].
  destruct (Nat.eq_dec x y); [exact IH|]. constructor; [|exact IH].
  intros Hin. apply in_remove in Hin. tauto.
Qed.

Lemma wsum_remove : forall T i, NoDup T -> In i T ->
  wsum T = (ew (eat i) + wsum (remove Nat.eq_dec i T))%N.
Proof.
  intros T i H. induction H as [|y l Hy H IH]; intros Hi; [destruct Hi|].
  cbn [remove]. destruct (Nat.eq_dec i y) as [->|Hne].
  - rewrite wsum_cons, notin_remove by exact Hy. reflexivity.
  - destruct Hi as [->|Hi]; [contradiction|]. rewrite !wsum_cons, (IH Hi). lia.
Qed.

Lemma wsum_incl : forall F T, NoDup F -> NoDup T -> incl F T -> (wsum F <= wsum T)%N.
Proof.
  induction F as [|i F IH]; intros T HF HT Hinc; [cbn; lia|].
  inversion HF as [|? ? Hi HF']; subst.
  rewrite (wsum_remove T i HT (Hinc i (or_introl eq_refl))), wsum_cons.
  assert (wsum F <= wsum (remove Nat.eq_dec i T))%N.
  { apply IH; [exact HF'|apply nodup_remove; exact HT|].
    intros j Hj. apply in_in_remove; [intros ->; contradiction|apply Hinc; right; exact Hj]. }
  lia.
Qed.

(* one more chosen edge keeps the promise: any connecting index set can be turned into one
   that contains the chosen edges and is not heavier *)
Lemma promise_step : forall (Cn : nat -> Prop) (V : nat -> bool) F I e a b,
  okidx I -> (forall v, Cn v -> conn I 0 v) -> incl F I ->
  (forall j, In j F -> forall p q, joins j p q -> V p = true /\ V q = true) ->
  joins e a b -> V a = true -> V b = false -> Cn a -> Cn b ->
  (forall j x y, joins j x y -> V x = true -> V y = false -> (ew (eat e) <= ew (eat j))%N) ->
  exists I', okidx I' /\ (forall v, Cn v -> conn I' 0 v) /\ incl (e :: F) I' /\ (wsum I' <= wsum I)%N.
Proof.
  intros Cn V F I e a b [HIn HIl] Hconn Hinc HF He Ha Hb Ca Cb Hmin.
  destruct (in_dec Nat.eq_dec e I) as [HeI|HeI].
  - exists I. split; [split; assumption|]. split; [exact Hconn|]. split; [|lia].
    intros j [<-|Hj]; [exact HeI|apply Hinc; exact Hj].
  - assert (Hab : conn I a b) by (eapply conn_trans; [apply conn_sym, Hconn; exact Ca|apply Hconn; exact Cb]).
    destruct (exchange I V a b e Hab Ha Hb He) as [i [x [y [Hi [Hj [Hx [Hy Hall]]]]]]].
    exists (e :: remove Nat.eq_dec i I). split; [split|split; [|split]].
    + constructor; [intros Hin; apply in_remove in Hin; tauto|apply nodup_remove; exact HIn].
    + intros j [<-|Hj']; [exact (proj1 He)|apply in_remove in Hj'; apply HIl; tauto].
    + intros v Cv. apply Hall, Hconn, Cv.
    + intros j [<-|Hj']; [left; reflexivity|]. right. apply in_in_remove; [|apply Hinc; exact Hj'].
      intros ->. destruct (HF i Hj' x y Hj) as [_ Hy']. congruence.
    + rewrite wsum_cons, (wsum_remove I i HIn Hi). specialize (Hmin i x y Hj Hx Hy). lia.
Qed.

(* ---------------- index sets and edge lists ---------------- *)

Lemma in_eat : forall p q w, In (p, q, w) (ge g) <-> exists i, i < length (ge g) /\ eat i = (p, q, w).
Proof.
  intros p q w. split.
  - intros H. destruct (In_nth _ _ (0, 0, 0%N) H) as [i [Hi E]]. exists i. split; assumption.
  - intros [i [Hi E]]. rewrite <- E. apply nth_In. exact Hi.
Qed.

Lemma joins_sym_edge : forall i p q, joins i p q <-> i < length (ge g) /\ exists w, In (p, q, w) (ge (sym g)) /\ (eat i = (p, q, w) \/ eat i = (q, p, w)).
Proof.
  intros i p q. unfold joins. split.
  - intros [Hi [w H]]. split; [exact Hi|]. exists w. split; [|exact H]. apply sym_edges.
    destruct H as [H|H]; [left|right]; apply in_eat; exists i; split; assumption.
  - intros [Hi [w [_ H]]]. split; [exact Hi|]. exists w. exact H.
Qed.

Lemma conn_reach : forall T p q, conn T p q -> reach (sym g) p q.
Proof.
  intros T p q H. induction H as [|p q r H IH [i [_ Hj]]]; [apply reach_refl|].
  eapply reach_trans; [exact IH|]. apply joins_sym_edge in Hj. destruct Hj as [_ [w [Hin _]]].
  exists w. apply walk_edge. exact Hin.
Qed.


(* ---------------- add_edges ---------------- *)

Lemma fold_push : forall {A} (step : list hentry -> A -> list hentry) (gx : A -> list hentry),
  (forall h x, step h x = h ++ gx x) -> forall l h, fold_left step l h = h ++ flat_map gx l.
Proof.
  intros A step gx H l; induction l as [|x l IH]; intros h; cbn; [rewrite app_nil_r; reflexivity|].
  rewrite IH, H, <- app_assoc. reflexivity.
Qed.

Lemma flat_map_short : forall {A} (gx : A -> list hentry) l,
  (forall x, length (gx x) <= 1) -> length (flat_map gx l) <= length l.
Proof.
  intros A gx l H; induction l as [|x l IH]; cbn; [lia|]. rewrite app_length. specialize (H x). lia.
Qed.

Definition out_entries (u : nat) (vis : list nat) (vw : nat * N) : list hentry :=
  if memb (fst vw) vis then [] else [(snd vw, u, fst vw)].
Definition in_entries (u : nat) (vis : list nat) (v : nat) : list hentry :=
  if memb v vis then [] else match min_list (par_weights g v u) with Some w => [(w, u, v)] | None => [] end.

Lemma add_edges_eq : forall u vis heap,
  add_edges g u vis heap =
  (heap ++ flat_map (out_entries u vis) (succs g u)) ++ flat_map (in_entries u vis) (preds g u).
Proof.
  intros u vis heap. unfold add_edges, add_in, add_out.
  rewrite (fold_push _ (out_entries u vis)).
  - rewrite (fold_push _ (in_entries u vis)); [reflexivity|].
    intros h v. unfold in_entries. destruct (memb v vis); [rewrite app_nil_r; reflexivity|].
    destruct (min_list (par_weights g v u)); [reflexivity|rewrite app_nil_r; reflexivity].
  - intros h vw. unfold out_entries. destruct (memb (fst vw) vis); [rewrite app_nil_r; reflexivity|reflexivity].
Qed.

Lemma preds_in : forall u v, In v (preds g u) <-> exists w, In (v, u, w) (ge g).
Proof.
  intros u v. unfold preds. rewrite in_map_iff. split.
  - intros [[[a b] w] [E H]]. apply filter_In in H. destruct H as [Hin Hd].
    unfold esrc, edst in *. cbn [fst snd] in *. apply Nat.eqb_eq in Hd. subst. exists w. exact Hin.
  - intros [w Hin]. exists (v, u, w). split; [reflexivity|]. apply filter_In. split; [exact Hin|].
    unfold edst. cbn [fst snd]. apply Nat.eqb_refl.
Qed.

Lemma par_weights_in : forall v u w, In w (par_weights g v u) <-> In (v, u, w) (ge g).
Proof.
  intros v u w. unfold par_weights. rewrite in_map_iff. split.
  - intros [[x w'] [E H]]. cbn in E. subst w'. apply filter_In in H. destruct H as [Hin Hx].
    cbn [fst] in Hx. apply Nat.eqb_eq in Hx. subst x. apply succs_in. exact Hin.
  - intros Hin. exists (u, w). split; [reflexivity|]. apply filter_In. split; [apply succs_in; exact Hin|].
    cbn [fst]. apply Nat.eqb_refl.
Qed.

Lemma not_memb : forall x l, memb x l = false <-> ~ In x l.
Proof.
  intros x l. split.
  - intros H Hin. apply memb_in in Hin. congruence.
  - intros H. destruct (memb x l) eqn:E; [apply memb_in in E; contradiction|reflexivity].
Qed.

Lemma add_edges_spec : forall u vis heap,
  let h2 := add_edges g u vis heap in
  (forall x, In x heap -> In x h2) /\
  (forall w a q, In (w, a, q) h2 -> In (w, a, q) heap \/
       (a = u /\ ~ In q vis /\ exists i, joins i u q /\ ew (eat i) = w)) /\
  (forall i q, joins i u q -> ~ In q vis -> exists w0, In (w0, u, q) h2 /\ (w0 <= ew (eat i))%N) /\
  length h2 <= length heap + length (succs g u) + length (preds g u).
Proof.
  intros u vis heap h2. unfold h2. rewrite add_edges_eq. split; [|split; [|split]].
  - intros x Hx. rewrite !in_app_iff. auto.
  - intros w a q Hin. rewrite !in_app_iff in Hin. destruct Hin as [[Hin|Hin]|Hin]; [left; exact Hin| |].
    + right. apply in_flat_map in Hin. destruct Hin as [[v wv] [Hs Hin]]. unfold out_entries in Hin. cbn [fst snd] in Hin.
      destruct (memb v vis) eqn:Em; [destruct Hin|]. destruct Hin as [E|[]]. inversion E; subst.
      split; [reflexivity|]. split; [apply not_memb; exact Em|].
      apply succs_in, in_eat in Hs. destruct Hs as [i [Hi Ei]]. exists i. split.
      * split; [exact Hi|]. exists w. left; exact Ei.
      * rewrite Ei. reflexivity.
    + right. apply in_flat_map in Hin. destruct Hin as [v [Hp Hin]]. unfold in_entries in Hin.
      destruct (memb v vis) eqn:Em; [destruct Hin|].
      pose proof (min_list_spec (par_weights g v u)) as Hm.
      destruct (min_list (par_weights g v u)) as [m|]; [|destruct Hin]. destruct Hin as [E|[]]. inversion E; subst.
      split; [reflexivity|]. split; [apply not_memb; exact Em|].
      destruct Hm as [Hm _]. apply par_weights_in, in_eat in Hm. destruct Hm as [i [Hi Ei]]. exists i. split.
      * split; [exact Hi|]. exists w. right; exact Ei.
      * rewrite Ei. reflexivity.
  - intros i q [Hi [w [Ei|Ei]]] Hq.
    + exists w. split; [|rewrite Ei; cbn; lia]. rewrite !in_app_iff. left; right.
      apply in_flat_map. exists (q, w). split; [apply succs_in, in_eat; exists i; split; assumption|].
      unfold out_entries. cbn [fst snd]. rewrite (proj2 (not_memb q vis) Hq). left; reflexivity.
    + assert (Hin : In (q, u, w) (ge g)) by (apply in_eat; exists i; split; assumption).
      pose proof (min_list_spec (par_weights g q u)) as Hm.
      destruct (min_list (par_weights g q u)) as [m|] eqn:Em.
      * exists m. split; [|rewrite Ei; cbn; apply (proj2 Hm), par_weights_in; exact Hin].
        rewrite !in_app_iff. right. apply in_flat_map. exists q. split; [apply preds_in; exists w; exact Hin|].
        unfold in_entries. rewrite (proj2 (not_memb q vis) Hq), Em. left; reflexivity.
      * apply par_weights_in in Hin. rewrite Hm in Hin. destruct Hin.
  - rewrite !app_length.
    pose proof (flat_map_short (out_entries u vis) (succs g u)) as H1.
    pose proof (flat_map_short (in_entries u vis) (preds g u)) as H2.
    assert (L1 : forall x, length (out_entries u vis x) <= 1) by (intros x; unfold out_entries; destruct (memb (fst x) vis); cbn; lia).
    assert (L2 : forall x, length (in_entries u vis x) <= 1).
    { intros x; unfold in_entries; destruct (memb x vis); [cbn; lia|]. destruct (min_list (par_weights g x u)); cbn; lia. }
    specialize (H1 L1). specialize (H2 L2). lia.
Qed.

(* edge end points not yet visited: bounds the pushes still to come *)
Definition ud (vis : list nat) : nat := length (filter (fun e => negb (memb (edst e) vis)) (ge g)).

Lemma ud_visit : forall vis u, ~ In u vis -> ud vis = ud (u :: vis) + length (preds g u).
Proof.
  intros vis u Hu. unfold ud, preds. rewrite map_length.
  induction (ge g) as [|e E IH]; [reflexivity|]. cbn [filter].
  assert (Hm : memb (edst e) (u :: vis) = (edst e =? u) || memb (edst e) vis) by reflexivity.
  rewrite Hm. destruct (Nat.eqb_spec (edst e) u) as [Eq|Ne].
  - rewrite Eq. rewrite (proj2 (not_memb u vis) Hu). cbn [orb negb length]. lia.
  - cbn [orb]. destruct (memb (edst e) vis); cbn [negb length]; lia.
Qed.


(* ---------------- the loop ---------------- *)

Hypothesis Hn : 0 < gn g.

Definition Cn (v : nat) : Prop := v < gn g /\ reach (sym g) 0 v.

Record pinv (heap : list hentry) (vis F : list nat) (total : N) : Prop := {
  p_vis : NoDup vis /\ In 0 vis /\ (forall v, In v vis -> v < gn g);
  p_F : okidx F /\ length vis = S (length F) /\ total = wsum F;
  p_inside : forall j, In j F -> forall p q, joins j p q -> In p vis /\ In q vis;
  p_conn : forall v, In v vis -> conn F 0 v;
  p_heap : forall w a b, In (w, a, b) heap -> In a vis /\ exists i, joins i a b /\ ew (eat i) = w;
  p_cross : forall i p q, joins i p q -> In p vis -> ~ In q vis ->
              exists w0, In (w0, p, q) heap /\ (w0 <= ew (eat i))%N;
  p_promise : forall I, okidx I -> (forall v, Cn v -> conn I 0 v) ->
      exists I', okidx I' /\ (forall v, Cn v -> conn I' 0 v) /\ incl F I' /\ (wsum I' <= wsum I)%N
}.

Lemma joins_lt : forall i p q, joins i p q -> p < gn g /\ q < gn g.
Proof.
  intros i p q [Hi [w [E|E]]]; assert (Hin : In (eat i) (ge g)) by (apply nth_In; exact Hi);
    rewrite E in Hin; apply Hwf in Hin; tauto.
Qed.

Lemma joins_reach : forall i p q, joins i p q -> reach (sym g) p q.
Proof.
  intros i p q Hj. apply joins_sym_edge in Hj. destruct Hj as [_ [w [Hin _]]]. exists w. apply walk_edge. exact Hin.
Qed.

Lemma prim_loop_ok : forall fuel heap vis F total acc,
  pinv heap vis F total -> length heap + ue g vis + ud vis + 1 <= fuel ->
  exists c T vf Ff, prim_loop add_edges fuel g heap vis total acc = MRes c T /\ pinv [] vf Ff c.
Proof.
  induction fuel as [|f IH]; intros heap vis F total acc P Hfuel; [lia|].
  cbn [prim_loop]. destruct (pop_min hkey heap) as [[[[w a] b] heap']|] eqn:Hpop.
  - destruct (pop_min_perm _ _ _ _ Hpop) as [Hperm Hmin].
    assert (Hin : In (w, a, b) heap) by (eapply Permutation_in; [apply Permutation_sym; exact Hperm|left; reflexivity]).
    assert (Hsub : forall x, In x heap' -> In x heap)
      by (intros x Hx; eapply Permutation_in; [apply Permutation_sym; exact Hperm|right; exact Hx]).
    assert (Hlen : length heap = S (length heap')) by (rewrite (Permutation_length Hperm); reflexivity).
    destruct (memb b vis) eqn:Eb.
    + (* target already in the tree: drop the entry *)
      apply memb_in in Eb. apply (IH heap' vis F total acc); [|lia].
      destruct P as [Pv PF Pi Pc Ph Px Pp]. constructor; try assumption.
      * intros w0 a0 b0 H0. apply Ph, Hsub, H0.
      * intros i p q Hj Hp Hq. destruct (Px i p q Hj Hp Hq) as [w0 [H0 Hle]]. exists w0. split; [|exact Hle].
        apply (Permutation_in _ Hperm) in H0. destruct H0 as [E|H0]; [|exact H0].
        inversion E; subst. contradiction.
    + (* a new node joins the tree *)
      apply not_memb in Eb.
      destruct (p_heap _ _ _ _ P w a b Hin) as [Ha [i [Hj Hw]]].
      pose proof (add_edges_spec b (b :: vis) heap') as [A1 [A2 [A3 A4]]].
      set (h2 := add_edges g b (b :: vis) heap') in *.
      assert (HiF : ~ In i F) by (intros Hi; destruct (p_inside _ _ _ _ P i Hi a b Hj); contradiction).
      assert (Hmono : forall p q, conn F p q -> conn (i :: F) p q).
      { apply conn_mono. intros p q [j [Hj1 Hj2]]. apply conn_edge. exists j. split; [right; exact Hj1|exact Hj2]. }
      assert (P' : pinv h2 (b :: vis) (i :: F) (total + w)%N).
      { destruct (p_vis _ _ _ _ P) as [Pv1 [Pv2 Pv3]]. destruct (p_F _ _ _ _ P) as [[PF1 PF2] [PF3 PF4]].
        constructor.
        - split; [constructor; assumption|]. split; [right; exact Pv2|].
          intros v [<-|Hv]; [apply (joins_lt _ _ _ Hj)|apply Pv3; exact Hv].
        - split; [split; [constructor; assumption|intros j [<-|Hj']; [apply Hj|apply PF2; exact Hj']]|].
          split; [cbn [length]; lia|]. rewrite wsum_cons, Hw, PF4. lia.
        - intros j [<-|Hj'] p q Hpq.
          + destruct (joins_endpoints _ _ _ _ _ Hj Hpq) as [[E1 E2]|[E1 E2]]; subst p q;
              (split; [first [left; reflexivity|right; exact Ha]|first [left; reflexivity|right; exact Ha]]).
          + destruct (p_inside _ _ _ _ P j Hj' p q Hpq). split; right; assumption.
        - intros v [<-|Hv]; [|apply Hmono, (p_conn _ _ _ _ P); exact Hv].
          eapply conn_step; [apply Hmono, (p_conn _ _ _ _ P); exact Ha|]. exists i. split; [left; reflexivity|exact Hj].
        - intros w0 a0 b0 H0. destruct (A2 w0 a0 b0 H0) as [H1|[-> [_ Hi]]].
          + destruct (p_heap _ _ _ _ P w0 a0 b0 (Hsub _ H1)) as [Ha0 R]. split; [right; exact Ha0|exact R].
          + split; [left; reflexivity|exact Hi].
        - intros j p q Hpq [<-|Hp] Hq; [apply A3; assumption|].
          assert (Hq' : ~ In q vis) by (intros H; apply Hq; right; exact H).
          destruct (p_cross _ _ _ _ P j p q Hpq Hp Hq') as [w0 [H0 Hle]]. exists w0. split; [|exact Hle].
          apply A1. apply (Permutation_in _ Hperm) in H0. destruct H0 as [E|H0]; [|exact H0].
          inversion E; subst. exfalso. apply Hq. left; reflexivity.
        - intros I HI Hconn. destruct (p_promise _ _ _ _ P I HI Hconn) as [I1 [HI1 [Hc1 [Hinc1 Hw1]]]].
          destruct (promise_step Cn (fun x => memb x vis) F I1 i a b HI1 Hc1 Hinc1) as [I' [HI' [Hc' [Hinc' Hw']]]].
          + intros j Hj' p q Hpq. destruct (p_inside _ _ _ _ P j Hj' p q Hpq). split; apply memb_in; assumption.
          + exact Hj.
          + apply memb_in; exact Ha.
          + apply not_memb; exact Eb.
          + split; [apply Pv3; exact Ha|eapply conn_reach, (p_conn _ _ _ _ P); exact Ha].
          + split; [apply (joins_lt _ _ _ Hj)|].
            eapply reach_trans; [eapply conn_reach, (p_conn _ _ _ _ P); exact Ha|apply (joins_reach _ _ _ Hj)].
          + intros j x y Hxy Hx Hy. apply memb_in in Hx. apply not_memb in Hy.
            destruct (p_cross _ _ _ _ P j x y Hxy Hx Hy) as [w0 [H0 Hle]].
            specialize (Hmin _ H0). unfold hkey in Hmin. cbn [fst] in Hmin. rewrite Hw. lia.
          + exists I'. split; [exact HI'|]. split; [exact Hc'|]. split; [exact Hinc'|lia]. }
      apply (IH h2 (b :: vis) (i :: F) (total + w)%N ((a, b, w) :: acc) P').
      pose proof (ue_settle g 0 Hn vis b Eb). pose proof (ud_visit vis b Eb). lia.
  - apply pop_min_none in Hpop. subst heap. exists total, (rev acc), vis, F. split; [reflexivity|exact P].
Qed.

(* ---------------- index sets <-> sublists ---------------- *)

Lemma sublist_indices : forall (d : edge) (T L : list edge), sublist T L ->
  exists I, NoDup I /\ (forall i, In i I -> i < length L) /\ map (fun i => nth i L d) I = T.
Proof.
  intros d T L H. induction H as [L|x a b H [I [H1 [H2 H3]]]|x a b H [I [H1 [H2 H3]]]].
  - exists []. split; [constructor|]. split; [intros i []|reflexivity].
  - exists (0 :: map S I). split; [|split].
    + constructor; [intros Hin; apply in_map_iff in Hin; destruct Hin as [j [E _]]; discriminate|].
      apply FinFun.Injective_map_NoDup; [intros p q E; lia|exact H1].
    + intros i [<-|Hi]; [cbn; lia|]. apply in_map_iff in Hi. destruct Hi as [j [<- Hj]]. specialize (H2 j Hj). cbn. lia.
    + cbn [map nth]. rewrite map_map. cbn [nth]. rewrite H3. reflexivity.
  - exists (map S I). split; [|split].
    + apply FinFun.Injective_map_NoDup; [intros p q E; lia|exact H1].
    + intros i Hi. apply in_map_iff in Hi. destruct Hi as [j [<- Hj]]. specialize (H2 j Hj). cbn. lia.
    + rewrite map_map. cbn [nth]. exact H3.
Qed.

Lemma perm_remove : forall (I : list nat) i, NoDup I -> In i I -> Permutation I (i :: remove Nat.eq_dec i I).
Proof.
  intros I i H. induction H as [|y l Hy H IH]; intros Hi; [destruct Hi|].
  cbn [remove]. destruct (Nat.eq_dec i y) as [->|Hne].
  - rewrite notin_remove by exact Hy. apply Permutation_refl.
  - destruct Hi as [->|Hi]; [contradiction|].
    eapply Permutation_trans; [apply perm_skip, IH; exact Hi|apply perm_swap].
Qed.

Lemma nodup_map_in : forall (f : nat -> nat) l, NoDup l ->
  (forall x y, In x l -> In y l -> f x = f y -> x = y) -> NoDup (map f l).
Proof.
  intros f l H. induction H as [|x l Hx H IH]; intros Hinj; cbn; [constructor|]. constructor.
  - intros Hin. apply in_map_iff in Hin. destruct Hin as [y [E Hy]].
    assert (y = x) by (apply Hinj; [right; exact Hy|left; reflexivity|exact E]). subst. contradiction.
  - apply IH. intros a b Ha Hb. apply Hinj; right; assumption.
Qed.

Lemma indices_sublist : forall (d : edge) (L : list edge) (I : list nat),
  NoDup I -> (forall i, In i I -> i < length L) ->
  exists T, sublist T L /\ Permutation T (map (fun i => nth i L d) I).
Proof.
  intros d L; induction L as [|x L IH]; intros I HN HL.
  - destruct I as [|i I]; [exists []; split; [constructor|apply Permutation_refl]|].
    specialize (HL i (or_introl eq_refl)). cbn in HL. lia.
  - set (I0 := remove Nat.eq_dec 0 I).
    assert (HN0 : NoDup I0) by (apply nodup_remove; exact HN).
    assert (Hpos : forall i, In i I0 -> 0 < i /\ In i I) by (intros i Hi; apply in_remove in Hi; split; [lia|tauto]).
    destruct (IH (map pred I0)) as [T [HS HP]].
    + apply nodup_map_in; [exact HN0|].
      intros p q Hp Hq E. destruct (Hpos p Hp), (Hpos q Hq). lia.
    + intros i Hi. apply in_map_iff in Hi. destruct Hi as [j [<- Hj]]. destruct (Hpos j Hj) as [Hj0 HjI].
      specialize (HL j HjI). cbn in HL. lia.
    + assert (Hshift : map (fun i => nth i (x :: L) d) I0 = map (fun i => nth i L d) (map pred I0)).
      { rewrite map_map. apply map_ext_in. intros i Hi. destruct (Hpos i Hi) as [Hi0 _].
        destruct i; [lia|reflexivity]. }
      destruct (in_dec Nat.eq_dec 0 I) as [H0|H0].
      * exists (x :: T). split; [constructor; exact HS|].
        eapply Permutation_trans;
          [|apply Permutation_sym, (Permutation_map (fun i => nth i (x :: L) d)), (perm_remove I 0 HN H0)].
        change (map (fun i => nth i (x :: L) d) (0 :: remove Nat.eq_dec 0 I))
          with (x :: map (fun i => nth i (x :: L) d) I0).
        apply perm_skip. rewrite Hshift. exact HP.
      * exists T. split; [constructor; exact HS|].
        assert (E : I0 = I) by (apply notin_remove; exact H0). rewrite <- E, Hshift. exact HP.
Qed.

Lemma tweight_perm : forall a b, Permutation a b -> tweight a = tweight b.
Proof.
  intros a b H. unfold tweight. induction H; cbn [fold_right]; lia.
Qed.

Lemma tweight_eat : forall I, tweight (map eat I) = wsum I.
Proof. induction I as [|i I IH]; [reflexivity|]. cbn [map tweight fold_right]. rewrite wsum_cons. unfold tweight in IH. rewrite IH. reflexivity. Qed.

Lemma conn_reach_list : forall F (Tl : list edge), (forall i, In i F -> In (eat i) Tl) ->
  forall p q, conn F p q -> reach (sym {| gn := gn g; ge := Tl |}) p q.
Proof.
  intros F Tl H p q Hc. induction Hc as [|p q r Hc IH [i [Hi [_ [w Hj]]]]]; [apply reach_refl|].
  eapply reach_trans; [exact IH|]. exists w. apply walk_edge. apply sym_edges. cbn [ge].
  specialize (H i Hi). destruct Hj as [E|E]; rewrite E in H; auto.
Qed.

Lemma reach_list_conn : forall I (T : list edge), okidx I -> map eat I = T ->
  forall p q, reach (sym {| gn := gn g; ge := T |}) p q -> conn I p q.
Proof.
  intros I T [_ HI] E p q [c [k Hw]]. induction Hw as [k|k x v w c Hw IH Hin]; [apply conn_refl|].
  eapply conn_step; [exact IH|]. apply sym_edges in Hin. cbn [ge] in Hin. rewrite <- E in Hin.
  destruct Hin as [Hin|Hin]; apply in_map_iff in Hin; destruct Hin as [i [Ei Hi]];
    exists i; (split; [exact Hi|]); (split; [apply HI; exact Hi|]); exists w; auto.
Qed.

(* C26_prim_minimal *)
Theorem prim_minimal_sec : exists c T, prim_model g = MRes c T /\ mst_spec g = Some c.
Proof.
  unfold prim_model, prim_with. replace (gn g =? 0) with false by (symmetry; apply Nat.eqb_neq; lia).
  pose proof (add_edges_spec 0 [0] []) as [A1 [A2 [A3 A4]]].
  set (h0 := add_edges g 0 [0] []) in *.
  assert (P0 : pinv h0 [0] [] 0%N).
  { constructor.
    - split; [constructor; [intros []|constructor]|]. split; [left; reflexivity|]. intros v [<-|[]]. exact Hn.
    - split; [split; [constructor|intros i []]|]. split; reflexivity.
    - intros j [].
    - intros v [<-|[]]. apply conn_refl.
    - intros w a b H. destruct (A2 w a b H) as [[]|[-> [_ Hi]]]. split; [left; reflexivity|exact Hi].
    - intros i p q Hj [<-|[]] Hq. apply A3; assumption.
    - intros I HI Hc. exists I. split; [exact HI|]. split; [exact Hc|]. split; [intros j []|lia]. }
  assert (Hf : forall (f : edge -> bool) l, length (filter f l) <= length l).
  { intros f l; induction l as [|e l IHl]; cbn [filter length]; [lia|]. destruct (f e); cbn [length]; lia. }
  destruct (prim_loop_ok (S (2 * length (ge g))) h0 [0] [] 0%N [] P0) as [c [T [vf [Ff [Hres P]]]]].
  { assert (H0 : ~ In 0 (@nil nat)) by (intros []).
    pose proof (ue_settle g 0 Hn [] 0 H0). pose proof (ud_visit [] 0 H0).
    pose proof (Hf (fun e => negb (memb (esrc e) [])) (ge g)). pose proof (Hf (fun e => negb (memb (edst e) [])) (ge g)).
    unfold ue, ud in *. cbn [length] in A4. lia. }
  exists c, T. split; [exact Hres|].
  destruct (p_vis _ _ _ _ P) as [Pv1 [Pv2 Pv3]]. destruct (p_F _ _ _ _ P) as [[PF1 PF2] [PF3 PF4]].
  (* the tree spans the whole component *)
  assert (Hclosed : forall v, Cn v -> In v vf).
  { intros v [_ [c' [k Hw]]]. induction Hw as [k|k x v w c1 Hw IH Hin]; [exact Pv2|].
    destruct (in_dec Nat.eq_dec v vf) as [Hv|Hv]; [exact Hv|]. exfalso.
    assert (Hj : exists i, joins i x v).
    { apply sym_edges in Hin. destruct Hin as [Hin|Hin]; apply in_eat in Hin; destruct Hin as [i [Hi Ei]];
        exists i; (split; [exact Hi|]); exists w; auto. }
    destruct Hj as [i Hj]. destruct (p_cross _ _ _ _ P i x v Hj IH Hv) as [w0 [[] _]]. }
  assert (Hcn : forall v, In v vf -> Cn v).
  { intros v Hv. split; [apply Pv3; exact Hv|eapply conn_reach, (p_conn _ _ _ _ P); exact Hv]. }
  destruct (component_enumeration g Hwf Hn) as [HCnd HCin].
  assert (Hlen : length vf = length (comp_of (sym g) 0)).
  { apply Nat.le_antisymm; apply NoDup_incl_length; try assumption.
    - intros v Hv. apply HCin. apply Hcn. exact Hv.
    - intros v Hv. apply Hclosed. apply HCin. exact Hv. }
  (* its edges as a sublist of the edge list *)
  destruct (indices_sublist (0, 0, 0%N) (ge g) Ff PF1 PF2) as [Tl [HS HP]]. fold eat in HP.
  assert (Htree : spanning_tree g Tl /\ tweight Tl = c).
  { split; [split; [exact HS|split]|].
    - rewrite (Permutation_length HP), map_length. lia.
    - intros v Hv Hr. apply (conn_reach_list Ff Tl).
      + intros i Hi. eapply Permutation_in; [apply Permutation_sym; exact HP|]. apply in_map. exact Hi.
      + apply (p_conn _ _ _ _ P). apply Hclosed. split; assumption.
    - rewrite (tweight_perm _ _ HP), tweight_eat. symmetry. exact PF4. }
  assert (Hlow : forall T0, spanning_tree g T0 -> (c <= tweight T0)%N).
  { intros T0 [HS0 [_ Hc0]]. destruct (sublist_indices (0, 0, 0%N) T0 (ge g) HS0) as [I [HI1 [HI2 HI3]]]. fold eat in HI3.
    assert (HI : okidx I) by (split; assumption).
    destruct (p_promise _ _ _ _ P I HI) as [I' [[HI'1 HI'2] [_ [Hinc Hw]]]].
    - intros v [Hv Hr]. apply (reach_list_conn I T0 HI HI3). apply Hc0; assumption.
    - pose proof (wsum_incl Ff I' PF1 HI'1 Hinc). rewrite <- HI3, tweight_eat. lia. }
  pose proof (mst_spec_ok g Hwf Hn) as Hspec. destruct (mst_spec g) as [c'|].
  - destruct Hspec as [[T0 [HT0 Hw0]] Hmin]. f_equal.
    pose proof (Hmin Tl (proj1 Htree)). pose proof (Hlow T0 HT0). destruct Htree as [_ Ht]. lia.
  - exfalso. apply (Hspec Tl). exact (proj1 Htree).
Qed.

End PrimOpt.

Theorem prim_minimal : forall g, wf g -> 0 < gn g ->
  exists c T, prim_model g = MRes c T /\ mst_spec g = Some c.
Proof. intros g Hwf Hn. exact (prim_minimal_sec g Hwf Hn). Qed.
