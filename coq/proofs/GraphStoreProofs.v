(* Proofs about the GraphStore model (C06): the agreement invariant between the redundant
   representations, its preservation by every operation, the refinement to the logical
   graph, and one lemma per read view. *)
From Coq Require Import List NArith Bool Lia Permutation ZArith ZifyBool ZifyNat ZifyN.
From Coq Require Import Sorted.
From Verif Require Import CheckLib GraphStore BinSearchProofs.
Import ListNotations.
Open Scope N_scope.

Arguments N.add : simpl never.
Arguments N.sub : simpl never.
Arguments N.mul : simpl never.
Arguments N.eqb : simpl never.
Arguments N.ltb : simpl never.
Arguments N.leb : simpl never.
Arguments N.of_nat : simpl never.
Arguments N.to_nat : simpl never.

(* ---------------------------------------------------------------- basics *)
Lemma upd_same {A} (f : N -> A) k v : upd f k v k = v.
Proof. unfold upd. now rewrite N.eqb_refl. Qed.
Lemma upd_other {A} (f : N -> A) k v x : x <> k -> upd f k v x = f x.
Proof. intros H. unfold upd. destruct (N.eqb_spec x k); congruence. Qed.

Lemma memN_In x l : memN x l = true <-> In x l.
Proof.
  unfold memN. rewrite existsb_exists. split.
  - intros [y [Hy E]]. apply N.eqb_eq in E. now subst.
  - intros H. exists x. split; auto. apply N.eqb_refl.
Qed.
Lemma memN_false x l : memN x l = false <-> ~ In x l.
Proof. rewrite <- memN_In. destruct (memN x l); split; congruence. Qed.

Lemma pair_eqb_eq a b : pair_eqb a b = true <-> a = b.
Proof.
  unfold pair_eqb. destruct a, b; cbn. rewrite andb_true_iff, !N.eqb_eq.
  split; [intros [-> ->]; auto | intros E; inversion E; auto].
Qed.
Lemma memP_In x l : memP x l = true <-> In x l.
Proof.
  unfold memP. rewrite existsb_exists. split.
  - intros [y [Hy E]]. apply pair_eqb_eq in E. now subst.
  - intros H. exists x. split; auto. now apply pair_eqb_eq.
Qed.

Lemma set_add_In x y l : In y (set_add x l) <-> y = x \/ In y l.
Proof.
  unfold set_add. destruct (memN x l) eqn:E; cbn.
  - apply memN_In in E. split; [auto | intros [->|]; auto].
  - split; [intros [->|]; auto | intros [->|]; auto].
Qed.
Lemma set_add_NoDup x l : NoDup l -> NoDup (set_add x l).
Proof.
  intros H. unfold set_add. destruct (memN x l) eqn:E; auto.
  constructor; auto. now apply memN_false.
Qed.
Lemma set_rem_In x y l : In y (set_rem x l) <-> In y l /\ y <> x.
Proof.
  unfold set_rem. rewrite filter_In. rewrite negb_true_iff, N.eqb_neq. tauto.
Qed.
Lemma set_rem_NoDup x l : NoDup l -> NoDup (set_rem x l).
Proof. apply NoDup_filter. Qed.
Lemma dedup_In y l : In y (dedup l) <-> In y l.
Proof.
  induction l as [|x l IH]; cbn; [tauto|]. rewrite set_add_In, IH. intuition.
Qed.
Lemma dedup_NoDup l : NoDup (dedup l).
Proof. induction l; cbn; [constructor | now apply set_add_NoDup]. Qed.

Lemma pset_add_In x y l : In y (pset_add x l) <-> y = x \/ In y l.
Proof.
  unfold pset_add. destruct (memP x l) eqn:E; cbn.
  - apply memP_In in E. split; [auto | intros [->|]; auto].
  - split; [intros [->|]; auto | intros [->|]; auto].
Qed.
Lemma pset_add_NoDup x l : NoDup l -> NoDup (pset_add x l).
Proof.
  intros H. unfold pset_add. destruct (memP x l) eqn:E; auto.
  constructor; auto. intros HI. apply memP_In in HI. congruence.
Qed.
Lemma pset_rem_In x y l : In y (pset_rem x l) <-> In y l /\ y <> x.
Proof.
  unfold pset_rem. rewrite filter_In, negb_true_iff.
  split; intros [H1 H2]; split; auto.
  - intros ->. assert (pair_eqb x x = true) by now apply pair_eqb_eq. congruence.
  - destruct (pair_eqb y x) eqn:E; auto. apply pair_eqb_eq in E. contradiction.
Qed.
Lemma pset_rem_NoDup x l : NoDup l -> NoDup (pset_rem x l).
Proof. apply NoDup_filter. Qed.

Lemma range_from_In x s k : In x (range_from s k) <-> s <= x < s + N.of_nat k.
Proof.
  revert s. induction k as [|k IH]; intros s; cbn [range_from In].
  - lia.
  - rewrite IH. lia.
Qed.
Lemma range_In x n : In x (range n) <-> x < n.
Proof. unfold range. rewrite range_from_In. lia. Qed.
Lemma range_from_NoDup s k : NoDup (range_from s k).
Proof.
  revert s. induction k as [|k IH]; intros s; cbn; constructor; auto.
  rewrite range_from_In. lia.
Qed.
Lemma range_NoDup n : NoDup (range n).
Proof. apply range_from_NoDup. Qed.

Lemma NoDup_map_filter {A B} (f : A -> B) p l : NoDup (map f l) -> NoDup (map f (filter p l)).
Proof.
  induction l as [|x l IH]; cbn; auto. intros H. inversion H as [|? ? Hn Hd]; subst.
  destruct (p x); cbn; auto. constructor; auto.
  intros HI. apply Hn. apply in_map_iff in HI as [y [E Hy]]. apply filter_In in Hy as [Hy _].
  rewrite <- E. now apply in_map.
Qed.

Lemma NoDup_app_l {A} (l1 l2 : list A) : NoDup (l1 ++ l2) -> NoDup l1.
Proof. induction l1; cbn; intros H; [constructor|]. inversion H; subst. constructor; auto.
  intros HI. apply H2. apply in_or_app. auto. Qed.
Lemma NoDup_app_r {A} (l1 l2 : list A) : NoDup (l1 ++ l2) -> NoDup l2.
Proof. induction l1; cbn; intros H; auto. inversion H; auto. Qed.
Lemma NoDup_app_disj {A} (l1 l2 : list A) x : NoDup (l1 ++ l2) -> In x l1 -> In x l2 -> False.
Proof.
  induction l1; cbn; intros H H1 H2; auto. inversion H; subst. destruct H1 as [->|H1]; auto.
  apply H4. apply in_or_app. auto.
Qed.
Lemma NoDup_app_intro {A} (l1 l2 : list A) :
  NoDup l1 -> NoDup l2 -> (forall x, In x l1 -> In x l2 -> False) -> NoDup (l1 ++ l2).
Proof.
  induction l1; cbn; intros H1 H2 H; auto. inversion H1; subst. constructor.
  - intros HI. apply in_app_or in HI as [HI|HI]; eauto.
  - apply IHl1; eauto.
Qed.

Lemma flat_map_select {A B} (p : A -> bool) (f : A -> B) l :
  flat_map (fun x => if p x then [f x] else []) l = map f (filter p l).
Proof. induction l as [|x l IH]; cbn; auto. destruct (p x); cbn; now rewrite IH. Qed.

Lemma length_filter_le {A} (p : A -> bool) l : (length (filter p l) <= length l)%nat.
Proof. induction l; cbn; auto. destruct (p a); cbn; lia. Qed.
Lemma length_filter_lt {A} (p : A -> bool) l :
  (length (filter p l) < length l)%nat <-> exists x, In x l /\ p x = false.
Proof.
  induction l as [|a l IH]; cbn; [split; [lia | intros [? [[] _]]]|].
  pose proof (length_filter_le p l). destruct (p a) eqn:E; cbn.
  - rewrite <- Nat.succ_lt_mono, IH. split; intros [x [H1 H2]]; exists x; split; auto.
    destruct H1 as [->|]; auto. congruence.
  - split; [intros _; exists a; auto | lia].
Qed.

(* ---------------------------------------------------------------- allocation *)
Lemma alloc_spec free next hint id fr nx :
  alloc free next hint = (id, fr, nx) -> NoDup free ->
  (In id free /\ nx = next /\ NoDup fr /\ (forall x, In x fr <-> In x free /\ x <> id)) \/
  (free = [] /\ id = next /\ fr = [] /\ nx = next + 1).
Proof.
  unfold alloc. intros H ND. destruct (memN hint free) eqn:E.
  - inversion H; subst. left. apply memN_In in E. split; [auto|]. split; [auto|]. split.
    + now apply set_rem_NoDup.
    + intros x. apply set_rem_In.
  - destruct free as [|y r]; inversion H; subst; [right; auto|]. left.
    inversion ND; subst. split; [cbn; auto|]. split; [auto|]. split; [auto|].
    intros x. cbn. split.
    + intros Hx. split; auto. intros ->. contradiction.
    + intros [[->|?] ?]; congruence.
Qed.

(* ---------------------------------------------------------------- node invariant *)
Record InvN (s : nstate) : Prop := {
  n_pos : 0 < next_node s;
  n_range : forall n, live_n s n = true -> 0 < n < next_node s;
  n_free : forall n, In n (free_nodes s) -> live_n s n = false /\ 0 < n < next_node s;
  n_free_nd : NoDup (free_nodes s);
  n_cols : forall n, live_n s n = false -> ncols s n = [];
  n_lidx_nd : NoDup (lidx s);
  n_lidx : forall l n, In (l, n) (lidx s) <-> exists nd, nodes s n = Some nd /\ In l (n_labels nd);
  n_lab_nd : forall n nd, nodes s n = Some nd -> NoDup (n_labels nd)
}.

Lemma live_n_upd s id v n :
  (match upd (nodes s) id v n with Some _ => true | None => false end) =
  if N.eqb n id then (match v with Some _ => true | None => false end) else live_n s n.
Proof. unfold upd, live_n. destruct (N.eqb n id); auto. Qed.

Lemma fold_pset_add_In (ls : list N) id acc p :
  In p (fold_left (fun a l => pset_add (l, id) a) ls acc) <-> In p acc \/ exists l, In l ls /\ p = (l, id).
Proof.
  revert acc. induction ls as [|l ls IH]; intros acc; cbn.
  - split; [auto | intros [?|[? [[] _]]]; auto].
  - rewrite IH, pset_add_In. split.
    + intros [[->|?]|[l' [? ?]]]; eauto.
    + intros [?|[l' [[->|?] ->]]]; eauto.
Qed.
Lemma fold_pset_add_NoDup (ls : list N) id acc :
  NoDup acc -> NoDup (fold_left (fun a l => pset_add (l, id) a) ls acc).
Proof. revert acc. induction ls; cbn; intros; auto. apply IHls. now apply pset_add_NoDup. Qed.
Lemma fold_pset_rem_In (ls : list N) id acc p :
  In p (fold_left (fun a l => pset_rem (l, id) a) ls acc) <-> In p acc /\ ~ exists l, In l ls /\ p = (l, id).
Proof.
  revert acc. induction ls as [|l ls IH]; intros acc; cbn.
  - split; [intros; split; auto; intros [? [[] _]] | tauto].
  - rewrite IH, pset_rem_In. split.
    + intros [[H1 H2] H3]. split; auto. intros [l' [[->|?] ->]]; eauto.
    + intros [H1 H2]. repeat split; auto. * intros ->. apply H2. eauto. * intros [l' [? ->]]. apply H2; eauto.
Qed.
Lemma fold_pset_rem_NoDup (ls : list N) id acc :
  NoDup acc -> NoDup (fold_left (fun a l => pset_rem (l, id) a) ls acc).
Proof. revert acc. induction ls; cbn; intros; auto. apply IHls. now apply pset_rem_NoDup. Qed.

Lemma InvN_init : InvN (ns init).
Proof.
  constructor; unfold live_n; cbn.
  - lia.
  - intros n H; discriminate.
  - intros n [].
  - constructor.
  - reflexivity.
  - constructor.
  - intros l n. split; [intros [] | intros [nd [H _]]; discriminate].
  - intros n nd H; discriminate.
Qed.

Lemma create_node_fresh s hint ls ps cols s' id :
  InvN s -> create_node s hint ls ps cols = (s', id) ->
  live_n s id = false /\ 0 < id /\ id < next_node s' /\ next_node s <= next_node s'.
Proof.
  intros I H. unfold create_node in H.
  destruct (alloc (free_nodes s) (next_node s) hint) as [[i fr] nx] eqn:A. inversion H; subst; clear H.
  cbn. destruct (alloc_spec _ _ _ _ _ _ A (n_free_nd _ I)) as [[Hin [-> _]]|[_ [-> [_ ->]]]].
  - destruct (n_free _ I _ Hin). repeat split; auto; lia.
  - pose proof (n_pos _ I). repeat split; try lia.
    destruct (live_n s (next_node s)) eqn:E; auto. apply (n_range _ I) in E. lia.
Qed.

Lemma InvN_create s hint ls ps cols s' id :
  InvN s -> create_node s hint ls ps cols = (s', id) -> InvN s'.
Proof.
  intros I H. destruct (create_node_fresh _ _ _ _ _ _ _ I H) as [Hd [Hp [Hlt Hle]]].
  unfold create_node in H.
  destruct (alloc (free_nodes s) (next_node s) hint) as [[i fr] nx] eqn:A. inversion H; subst; clear H.
  cbn in Hlt, Hle.
  assert (Hfr : NoDup fr /\ forall x, In x fr -> In x (free_nodes s) /\ x <> id).
  { destruct (alloc_spec _ _ _ _ _ _ A (n_free_nd _ I)) as [[_ [_ [ND Hx]]]|[_ [_ [-> _]]]].
    - split; auto. intros x Hx'. now apply Hx. - split; [constructor | intros ? []]. }
  destruct Hfr as [FN FI].
  constructor; cbn.
  - lia.
  - intros n. unfold live_n; cbn. rewrite live_n_upd. destruct (N.eqb_spec n id); [subst; lia|].
    intros E. apply (n_range _ I) in E. lia.
  - intros n Hn. apply FI in Hn as [Hn Hne]. destruct (n_free _ I _ Hn) as [H1 H2].
    unfold live_n; cbn. rewrite live_n_upd. destruct (N.eqb_spec n id); [contradiction|]. split; auto. lia.
  - auto.
  - intros n. unfold live_n; cbn. rewrite live_n_upd. destruct (N.eqb_spec n id); [discriminate|].
    intros E. destruct cols; [rewrite upd_other by auto|]; now apply (n_cols _ I).
  - apply fold_pset_add_NoDup, (n_lidx_nd _ I).
  - intros l n. rewrite fold_pset_add_In, (n_lidx _ I). unfold upd. destruct (N.eqb_spec n id).
    + subst. split.
      * intros [[nd [H _]]|[l' [Hl E]]]; [unfold live_n in Hd; rewrite H in Hd; discriminate|].
        inversion E; subst. eexists; split; [reflexivity | cbn; auto].
      * intros [nd [E Hl]]. inversion E; subst. cbn in Hl. right. eauto.
    + split; [intros [?|[l' [_ E]]]; auto; inversion E; congruence | auto].
  - intros n nd. unfold upd. destruct (N.eqb_spec n id).
    + intros E. inversion E; subst. cbn. apply dedup_NoDup.
    + apply (n_lab_nd _ I).
Qed.

(* an update of a live node that keeps it live and changes labels consistently *)
Lemma InvN_update s id nd nd' cols' lidx' :
  InvN s -> nodes s id = Some nd ->
  NoDup (n_labels nd') ->
  NoDup lidx' ->
  (forall l n, In (l, n) lidx' <-> (n <> id /\ In (l, n) (lidx s)) \/ (n = id /\ In l (n_labels nd'))) ->
  (forall n, n <> id -> cols' n = ncols s n) ->
  InvN {| nodes := upd (nodes s) id (Some nd'); ncols := cols'; next_node := next_node s;
          free_nodes := free_nodes s; lidx := lidx' |}.
Proof.
  intros I Hn ND NDl HL HC.
  assert (Hlive : live_n s id = true) by (unfold live_n; now rewrite Hn).
  assert (LV : forall n, live_n {| nodes := upd (nodes s) id (Some nd'); ncols := cols'; next_node := next_node s;
          free_nodes := free_nodes s; lidx := lidx' |} n = live_n s n).
  { intros n. unfold live_n; cbn. unfold upd. destruct (N.eqb_spec n id); auto. subst. now rewrite Hn. }
  constructor; cbn; try apply I; auto.
  - intros n. rewrite LV. apply I.
  - intros n Hf. rewrite LV. now apply I.
  - intros n. rewrite LV. intros E. rewrite HC by congruence. now apply I.
  - intros l n. rewrite HL. unfold upd. destruct (N.eqb_spec n id).
    + subst. split.
      * intros [[? _]|[_ ?]]; [congruence|]. eauto.
      * intros [x [E Hx]]. inversion E; subst. auto.
    + rewrite (n_lidx _ I). split; [intros [[_ ?]|[? _]]; auto; congruence | auto].
  - intros n x. unfold upd. destruct (N.eqb_spec n id).
    + intros E; inversion E; subst; auto.
    + apply I.
Qed.

Lemma InvN_set_nprop s id k v : InvN s -> InvN (fst (set_nprop s id k v)).
Proof.
  intros I. unfold set_nprop. destruct (nodes s id) as [nd|] eqn:E; cbn; auto.
  eapply InvN_update; eauto; cbn.
  - eapply n_lab_nd; eauto.
  - apply I.
  - intros l n. rewrite (n_lidx _ I). destruct (N.eq_dec n id) as [->|]; [|tauto].
    split; [intros [x [Hx Hl]]; right; split; auto; congruence | intros [[? _]|[_ ?]]; [congruence | eauto]].
  - intros n Hne. now rewrite upd_other.
Qed.

Lemma InvN_rem_nprop s id k : InvN s -> InvN (rem_nprop s id k).
Proof.
  intros I. unfold rem_nprop. destruct (nodes s id) as [nd|] eqn:E.
  - eapply InvN_update; eauto; cbn.
    + eapply n_lab_nd; eauto.
    + apply I.
    + intros l n. rewrite (n_lidx _ I). destruct (N.eq_dec n id) as [->|]; [|tauto].
      split; [intros [x [Hx Hl]]; right; split; auto; congruence | intros [[? _]|[_ ?]]; [congruence | eauto]].
    + intros n Hne. now rewrite upd_other.
  - assert (LV : forall n, live_n {| nodes := nodes s; ncols := upd (ncols s) id (prem k (ncols s id));
       next_node := next_node s; free_nodes := free_nodes s; lidx := lidx s |} n = live_n s n) by reflexivity.
    constructor; cbn; try apply I.
    intros n. rewrite LV. intros Hd. unfold upd. destruct (N.eqb_spec n id).
    + subst. now rewrite (n_cols _ I _ Hd).
    + now apply I.
Qed.

Lemma InvN_add_label s id l : InvN s -> InvN (fst (add_label s id l)).
Proof.
  intros I. unfold add_label. destruct (nodes s id) as [nd|] eqn:E; cbn; auto.
  eapply InvN_update; eauto; cbn.
  - apply set_add_NoDup. eapply n_lab_nd; eauto.
  - apply pset_add_NoDup, I.
  - intros l' n. rewrite pset_add_In, set_add_In, (n_lidx _ I). split.
    + intros [H|[x [Hx Hl]]]; [inversion H; subst; auto|].
      destruct (N.eq_dec n id) as [->|]; [right | left; split; eauto]. split; auto. right. congruence.
    + intros [[Hne H]|[-> [->|H]]]; auto. right. eauto.
Qed.

Lemma InvN_rem_label s id l : InvN s -> InvN (fst (rem_label s id l)).
Proof.
  intros I. unfold rem_label. destruct (nodes s id) as [nd|] eqn:E; cbn; auto.
  destruct (memN l (n_labels nd)) eqn:M; cbn; auto.
  eapply InvN_update; eauto; cbn.
  - apply set_rem_NoDup. eapply n_lab_nd; eauto.
  - apply pset_rem_NoDup, I.
  - intros l' n. rewrite pset_rem_In, set_rem_In, (n_lidx _ I). split.
    + intros [[x [Hx Hl]] Hne]. destruct (N.eq_dec n id) as [->|]; [right | left; split; eauto].
      split; auto. split; [congruence|]. intros ->. now apply Hne.
    + intros [[Hne H]|[-> [H Hne]]]; (split; [|intros X; inversion X; congruence]); eauto.
Qed.

Lemma InvN_drop s id nd : InvN s -> nodes s id = Some nd -> InvN (drop_node s id nd).
Proof.
  intros I E.
  assert (Hlive : live_n s id = true) by (unfold live_n; now rewrite E).
  assert (LV : forall n, live_n (drop_node s id nd) n = if N.eqb n id then false else live_n s n).
  { intros n. unfold live_n, drop_node; cbn. unfold upd. destruct (N.eqb n id); auto. }
  constructor; cbn.
  - apply I.
  - intros n. rewrite LV. destruct (N.eqb_spec n id); [discriminate|]. apply I.
  - intros n [->|Hf]; rewrite LV.
    + rewrite N.eqb_refl. split; auto. now apply (n_range _ I).
    + destruct (n_free _ I _ Hf) as [H1 H2]. destruct (N.eqb n id); split; auto.
  - constructor; [|apply I]. intros Hf. apply (n_free _ I) in Hf as [Hf _]. congruence.
  - intros n. rewrite LV. unfold upd. destruct (N.eqb_spec n id); auto. now apply I.
  - apply fold_pset_rem_NoDup, I.
  - intros l n. rewrite fold_pset_rem_In, (n_lidx _ I). unfold upd. destruct (N.eqb_spec n id).
    + subst. split; [|intros [? [? _]]; discriminate].
      intros [[x [Hx Hl]] Hno]. exfalso. apply Hno. exists l. split; auto. congruence.
    + split; [tauto|]. intros H. split; auto. intros [l' [_ X]]. inversion X; congruence.
  - intros n x. unfold upd. destruct (N.eqb_spec n id); [discriminate|]. apply I.
Qed.

(* ---------------------------------------------------------------- edge invariant *)
Definition eids (l : list aent) : list N := map a_eid l.
Definition lv (ep : N -> N * N) (e : N) : bool := negb (zero2 (ep e)).
Definition ent_pair (sw : bool) (x : aent) : N * N :=
  if sw then (a_nbr x, a_node x) else (a_node x, a_nbr x).
Definition mk_ent (sw : bool) (p : N * N) (e : N) : aent :=
  if sw then {| a_node := snd p; a_nbr := fst p; a_eid := e |}
  else {| a_node := fst p; a_nbr := snd p; a_eid := e |}.

(* one direction of the two-tier adjacency; [sw] = incoming *)
Record AdjInv (ep : N -> N * N) (nx : N) (fr : list N) (sw : bool) (fro buf : list aent) : Prop := {
  a_nd : NoDup (eids (fro ++ buf));
  a_buf : forall x, In x buf -> lv ep (a_eid x) = true /\ ep (a_eid x) = ent_pair sw x;
  a_fro : forall x, In x fro -> 0 < a_eid x < nx /\ ~ In (a_eid x) fr /\
            (lv ep (a_eid x) = true -> ep (a_eid x) = ent_pair sw x);
  a_all : forall e, lv ep e = true -> In (mk_ent sw (ep e) e) (fro ++ buf)
}.

Record InvE (s : estate) : Prop := {
  e_pos : 0 < next_edge s;
  e_range : forall e, live_e s e = true -> 0 < e < next_edge s /\ ~ In e (free_edges s);
  e_free : forall e, In e (free_edges s) -> 0 < e < next_edge s;
  e_free_nd : NoDup (free_edges s);
  e_dead : forall e, live_e s e = false -> etype s e = None /\ eprops s e = None /\ ecols s e = [];
  e_type : forall e, live_e s e = true -> exists t, etype s e = Some t /\ In t (interned s);
  e_tidx_nd : NoDup (tidx s);
  e_tidx : forall t e, In (t, e) (tidx s) -> live_e s e = true /\ etype s e = Some t;
  e_tidx_c : tstale s = false ->
             forall t e, live_e s e = true -> etype s e = Some t -> In (t, e) (tidx s);
  e_out : AdjInv (endp s) (next_edge s) (free_edges s) false (fout s) (bout s);
  e_in : AdjInv (endp s) (next_edge s) (free_edges s) true (fin s) (bin s);
  e_tiers : forall e, In e (eids (bout s)) <-> In e (eids (bin s));
  e_fdead : fdead s = N.of_nat (length (filter (fun x => negb (live_e s (a_eid x))) (fout s)))
}.

Lemma live_e_lv s e : live_e s e = lv (endp s) e.
Proof. reflexivity. Qed.

Lemma lv_upd_same ep e p : lv (upd ep e p) e = negb (zero2 p).
Proof. unfold lv. now rewrite upd_same. Qed.
Lemma lv_upd_other ep e p x : x <> e -> lv (upd ep e p) x = lv ep x.
Proof. intros H. unfold lv. now rewrite upd_other. Qed.

Lemma mk_ent_eid sw p e : a_eid (mk_ent sw p e) = e.
Proof. destruct sw; reflexivity. Qed.
Lemma ent_pair_mk sw p e : ent_pair sw (mk_ent sw p e) = p.
Proof. destruct sw, p; reflexivity. Qed.
Lemma mk_ent_pair sw x : mk_ent sw (ent_pair sw x) (a_eid x) = x.
Proof. destruct sw, x; reflexivity. Qed.

Lemma eids_app l1 l2 : eids (l1 ++ l2) = eids l1 ++ eids l2.
Proof. apply map_app. Qed.
Lemma In_eids x l : In x l -> In (a_eid x) (eids l).
Proof. apply in_map. Qed.

Lemma AdjInv_init sw : AdjInv (fun _ => (0, 0)) 1 [] sw [] [].
Proof.
  constructor.
  - constructor.
  - intros ? [].
  - intros ? [].
  - intros e He. discriminate.
Qed.

Lemma AdjInv_add ep nx fr sw fro buf id a b nx' fr' :
  AdjInv ep nx fr sw fro buf ->
  lv ep id = false -> (In id fr \/ nx <= id) -> zero2 (a, b) = false ->
  nx <= nx' -> id < nx' ->
  (forall x, In x fr' -> In x fr /\ x <> id) ->
  AdjInv (upd ep id (a, b)) nx' fr' sw fro (mk_ent sw (a, b) id :: buf).
Proof.
  intros I Hd Hid Hz Hle Hlt Hfr.
  assert (Hnf : ~ In id (eids fro)).
  { intros HI. apply in_map_iff in HI as [x [E Hx]]. destruct (a_fro _ _ _ _ _ _ I _ Hx) as [H1 [H2 _]].
    rewrite E in *. destruct Hid; [contradiction | lia]. }
  assert (Hnb : ~ In id (eids buf)).
  { intros HI. apply in_map_iff in HI as [x [E Hx]]. destruct (a_buf _ _ _ _ _ _ I _ Hx) as [H1 _].
    rewrite E in *. congruence. }
  constructor.
  - rewrite eids_app. cbn [eids map]. rewrite mk_ent_eid.
    pose proof (a_nd _ _ _ _ _ _ I) as ND. rewrite eids_app in ND.
    apply NoDup_app_intro.
    + eapply NoDup_app_l; eauto.
    + constructor; auto. eapply NoDup_app_r; eauto.
    + intros x H1 [<-|H2]; [contradiction|]. eapply NoDup_app_disj; eauto.
  - intros x [<-|Hx].
    + rewrite mk_ent_eid, lv_upd_same, upd_same, ent_pair_mk. now rewrite Hz.
    + destruct (a_buf _ _ _ _ _ _ I _ Hx) as [H1 H2].
      assert (a_eid x <> id) by (intros E; apply Hnb; rewrite <- E; now apply In_eids).
      now rewrite lv_upd_other, upd_other.
  - intros x Hx. destruct (a_fro _ _ _ _ _ _ I _ Hx) as [H1 [H2 H3]].
    assert (a_eid x <> id) by (intros E; apply Hnf; rewrite <- E; now apply In_eids).
    rewrite lv_upd_other, upd_other by auto. repeat split; try lia; auto.
    intros HI. apply Hfr in HI as [HI _]. contradiction.
  - intros e. destruct (N.eq_dec e id) as [->|Hne].
    + intros _. rewrite upd_same. apply in_or_app. right. now left.
    + rewrite lv_upd_other, upd_other by auto. intros H. apply (a_all _ _ _ _ _ _ I) in H.
      apply in_app_or in H as [H|H]; apply in_or_app; [left | right; right]; auto.
Qed.

Lemma ins_sorted_perm x l : Permutation (ins_sorted x l) (x :: l).
Proof.
  induction l as [|y l IH]; cbn; auto.
  destruct (N.eqb (a_node y) (a_node x) && N.leb (a_nbr x) (a_nbr y)); auto.
  rewrite IH. apply perm_swap.
Qed.

Lemma buf_add_perm stub x l : Permutation (buf_add stub x l) (x :: l).
Proof.
  unfold buf_add. destruct stub; [|apply ins_sorted_perm].
  symmetry. apply Permutation_cons_append.
Qed.

Lemma In_eids_buf_add stub x l e : In e (eids (buf_add stub x l)) <-> e = a_eid x \/ In e (eids l).
Proof.
  unfold eids. split; intros H.
  - eapply Permutation_in in H; [|apply Permutation_map, buf_add_perm]. cbn in H. intuition.
  - eapply Permutation_in; [symmetry; apply Permutation_map, buf_add_perm|]. cbn. intuition.
Qed.

Lemma AdjInv_perm ep nx fr sw fro buf fro' buf' :
  Permutation fro fro' -> Permutation buf buf' ->
  AdjInv ep nx fr sw fro buf -> AdjInv ep nx fr sw fro' buf'.
Proof.
  intros P1 P2 I. constructor.
  - eapply Permutation_NoDup; [|apply (a_nd _ _ _ _ _ _ I)]. unfold eids. apply Permutation_map.
    now apply Permutation_app.
  - intros x Hx. apply (a_buf _ _ _ _ _ _ I). eapply Permutation_in; [symmetry; eauto | auto].
  - intros x Hx. apply (a_fro _ _ _ _ _ _ I). eapply Permutation_in; [symmetry; eauto | auto].
  - intros e L. eapply Permutation_in; [apply Permutation_app; eauto|]. now apply (a_all _ _ _ _ _ _ I).
Qed.

Lemma not_entry_eid ep nx fr sw fro buf e x :
  AdjInv ep nx fr sw fro buf -> In x buf ->
  not_entry (a_node (mk_ent sw (ep e) e)) e x = negb (N.eqb (a_eid x) e).
Proof.
  intros I Hx. unfold not_entry. destruct (N.eqb_spec (a_eid x) e) as [E|E]; [|now rewrite andb_false_r].
  destruct (a_buf _ _ _ _ _ _ I _ Hx) as [_ H2]. rewrite E in H2. rewrite H2.
  subst e. rewrite mk_ent_pair, N.eqb_refl. reflexivity.
Qed.

Lemma filter_ext_in' {A} (f g : A -> bool) l : (forall x, In x l -> f x = g x) -> filter f l = filter g l.
Proof. induction l; cbn; intros H; auto. rewrite (H a) by auto. rewrite IHl; auto. Qed.

Lemma AdjInv_del ep nx fr sw fro buf e (inbuf : bool) :
  AdjInv ep nx fr sw fro buf -> lv ep e = true ->
  (inbuf = true <-> In e (eids buf)) ->
  AdjInv (upd ep e (0, 0)) nx (if inbuf then e :: fr else fr) sw fro
         (filter (not_entry (a_node (mk_ent sw (ep e) e)) e) buf).
Proof.
  intros I Hl Hb.
  rewrite (filter_ext_in' _ (fun x => negb (N.eqb (a_eid x) e))) by (intros; eapply not_entry_eid; eauto).
  pose proof (a_nd _ _ _ _ _ _ I) as ND. rewrite eids_app in ND.
  constructor.
  - rewrite eids_app. apply NoDup_app_intro.
    + eapply NoDup_app_l; eauto.
    + apply NoDup_map_filter. eapply NoDup_app_r; eauto.
    + intros x H1 H2. apply in_map_iff in H2 as [y [E Hy]]. apply filter_In in Hy as [Hy _].
      eapply NoDup_app_disj; eauto. rewrite <- E. now apply In_eids.
  - intros x Hx. apply filter_In in Hx as [Hx Hne]. apply negb_true_iff, N.eqb_neq in Hne.
    rewrite lv_upd_other, upd_other by auto. now apply (a_buf _ _ _ _ _ _ I).
  - intros x Hx. destruct (a_fro _ _ _ _ _ _ I _ Hx) as [H1 [H2 H3]]. split; [auto|]. split.
    + destruct inbuf; auto. intros [E|HI]; [|contradiction].
      assert (In e (eids buf)) by now apply Hb. eapply NoDup_app_disj; eauto. rewrite E. now apply In_eids.
    + destruct (N.eq_dec (a_eid x) e) as [E|E].
      * rewrite E, lv_upd_same. cbn. discriminate.
      * now rewrite lv_upd_other, upd_other.
  - intros e'. destruct (N.eq_dec e' e) as [->|Hne].
    + rewrite lv_upd_same. cbn. discriminate.
    + rewrite lv_upd_other, upd_other by auto. intros H. apply (a_all _ _ _ _ _ _ I) in H.
      apply in_app_or in H as [H|H]; apply in_or_app; [left; auto | right].
      apply filter_In. split; auto. rewrite mk_ent_eid. now apply negb_true_iff, N.eqb_neq.
Qed.

Lemma AdjInv_compact ep nx fr sw fro buf :
  AdjInv ep nx fr sw fro buf ->
  (forall e, lv ep e = true -> 0 < e < nx /\ ~ In e fr) ->
  AdjInv ep nx fr sw (fro ++ buf) [].
Proof.
  intros I R. constructor.
  - rewrite app_nil_r. apply I.
  - intros ? [].
  - intros x Hx. apply in_app_or in Hx as [Hx|Hx]; [now apply (a_fro _ _ _ _ _ _ I)|].
    destruct (a_buf _ _ _ _ _ _ I _ Hx) as [H1 H2]. destruct (R _ H1). auto.
  - intros e H. rewrite app_nil_r. now apply (a_all _ _ _ _ _ _ I).
Qed.

Lemma InvE_init : InvE (es init).
Proof.
  constructor; unfold live_e; cbn.
  - lia.
  - intros e H; discriminate.
  - intros e [].
  - constructor.
  - intros e _. auto.
  - intros e H; discriminate.
  - constructor.
  - intros t e [].
  - intros _ t e H; discriminate.
  - apply AdjInv_init.
  - apply AdjInv_init.
  - tauto.
  - reflexivity.
Qed.

Lemma get_edge_Some s e a b t p :
  get_edge s e = Some (a, b, t, p) ->
  live_e s e = true /\ endp s e = (a, b) /\ etype s e = Some t /\
  p = match eprops s e with Some p => p | None => [] end.
Proof.
  unfold get_edge. destruct (live_e s e); [|discriminate]. destruct (etype s e); [|discriminate].
  intros H. inversion H; subst. destruct (endp s e). auto.
Qed.
Lemma get_edge_live s e : InvE s -> (get_edge s e <> None <-> live_e s e = true).
Proof.
  intros I. unfold get_edge. destruct (live_e s e) eqn:L; [|split; congruence].
  destruct (e_type _ I _ L) as [t [-> _]]. split; congruence.
Qed.

Lemma add_edge_fresh s hint a b t ps stub s' id :
  InvE s -> add_edge s hint a b t ps stub = (s', id) ->
  live_e s id = false /\ 0 < id /\ id < next_edge s' /\ next_edge s <= next_edge s' /\
  (In id (free_edges s) \/ next_edge s <= id) /\
  (forall x, In x (free_edges s') -> In x (free_edges s) /\ x <> id) /\ NoDup (free_edges s').
Proof.
  intros I H. unfold add_edge in H.
  destruct (alloc (free_edges s) (next_edge s) hint) as [[i fr] nx] eqn:A. inversion H; subst; clear H. cbn.
  destruct (alloc_spec _ _ _ _ _ _ A (e_free_nd _ I)) as [[Hin [-> [ND Hx]]]|[E0 [-> [-> ->]]]].
  - pose proof (e_free _ I _ Hin). repeat split; auto; try lia.
    + destruct (live_e s id) eqn:L; auto. destruct (e_range _ I _ L). contradiction.
    + now apply Hx. + now apply Hx.
  - pose proof (e_pos _ I). repeat split; auto; try lia; try (intros ? []); try constructor.
    + destruct (live_e s (next_edge s)) eqn:L; auto. destruct (e_range _ I _ L). lia.
    + destruct H0.
Qed.

Lemma InvE_add s hint a b t ps stub s' id :
  InvE s -> 0 < a -> add_edge s hint a b t ps stub = (s', id) -> InvE s'.
Proof.
  intros I Ha H.
  destruct (add_edge_fresh _ _ _ _ _ _ _ _ _ I H) as [Hd [Hp [Hlt [Hle [Hid [Hfr Hfn]]]]]].
  assert (Hz : zero2 (a, b) = false).
  { unfold zero2; cbn. destruct (N.eqb_spec a 0); [lia | reflexivity]. }
  unfold add_edge in H.
  destruct (alloc (free_edges s) (next_edge s) hint) as [[i fr] nx] eqn:A. inversion H; subst; clear H.
  cbn in Hlt, Hle, Hfr, Hfn.
  set (s' := {| endp := upd (endp s) id (a, b) |}).
  assert (LV : forall e, live_e s' e = if N.eqb e id then true else live_e s e).
  { intros e. unfold live_e, s'; cbn. unfold upd. destruct (N.eqb e id); auto. now rewrite Hz. }
  assert (Hnf : forall x, In x (fout s) -> a_eid x <> id).
  { intros x Hx E. destruct (a_fro _ _ _ _ _ _ (e_out _ I) _ Hx) as [H1 [H2 _]]. rewrite E in *.
    destruct Hid; [contradiction | lia]. }
  constructor; cbn.
  - pose proof (e_pos _ I). lia.
  - intros e. rewrite LV. destruct (N.eqb_spec e id) as [->|Hne].
    + intros _. split; [lia|]. intros HI. apply Hfr in HI as [_ HI]. congruence.
    + intros L. destruct (e_range _ I _ L) as [H1 H2]. split; [lia|]. intros HI. apply Hfr in HI as [HI _]. contradiction.
  - intros e HI. apply Hfr in HI as [HI _]. apply (e_free _ I) in HI. lia.
  - auto.
  - intros e. rewrite LV. destruct (N.eqb_spec e id) as [->|Hne]; [discriminate|].
    intros L. destruct (e_dead _ I _ L) as [H1 [H2 H3]].
    rewrite upd_other by auto. split; auto.
    destruct ps; rewrite ?upd_other by auto; auto.
  - intros e. rewrite LV. unfold upd. destruct (N.eqb_spec e id) as [->|Hne].
    + intros _. exists t. split; auto. apply set_add_In. auto.
    + intros L. destruct (e_type _ I _ L) as [t' [H1 H2]]. exists t'. split; auto. apply set_add_In. auto.
  - destruct stub; [apply I | apply pset_add_NoDup, I].
  - intros t' e HI. rewrite LV. unfold upd.
    assert (HH : (t', e) = (t, id) \/ In (t', e) (tidx s)).
    { destruct stub; [right; auto | now apply pset_add_In]. }
    destruct HH as [HH|HH].
    + inversion HH; subst. now rewrite N.eqb_refl.
    + destruct (e_tidx _ I _ _ HH) as [H1 H2]. destruct (N.eqb_spec e id) as [->|Hne]; [congruence | auto].
  - intros Hs t' e. rewrite LV. unfold upd. apply orb_false_iff in Hs as [Hs ->].
    destruct (N.eqb_spec e id) as [->|Hne].
    + intros _ E. inversion E; subst. apply pset_add_In. auto.
    + intros L E. apply pset_add_In. right. now apply (e_tidx_c _ I).
  - eapply AdjInv_perm; [apply Permutation_refl | symmetry; apply buf_add_perm |].
    change ({| a_node := a; a_nbr := b; a_eid := id |}) with (mk_ent false (a, b) id).
    eapply AdjInv_add; [apply (e_out _ I) | ..]; eauto.
  - eapply AdjInv_perm; [apply Permutation_refl | symmetry; apply buf_add_perm |].
    change ({| a_node := b; a_nbr := a; a_eid := id |}) with (mk_ent true (a, b) id).
    eapply AdjInv_add; [apply (e_in _ I) | ..]; eauto.
  - intros e. rewrite !In_eids_buf_add. cbn. rewrite (e_tiers _ I). tauto.
  - rewrite (e_fdead _ I). f_equal. f_equal. apply filter_ext_in'. intros x Hx.
    rewrite LV. destruct (N.eqb_spec (a_eid x) id) as [E|E]; auto. exfalso. eapply Hnf; eauto.
Qed.

Lemma eids_filter_ne ep nx fr sw fro buf e x :
  AdjInv ep nx fr sw fro buf ->
  (In x (eids (filter (not_entry (a_node (mk_ent sw (ep e) e)) e) buf)) <-> In x (eids buf) /\ x <> e).
Proof.
  intros I.
  rewrite (filter_ext_in' _ (fun x => negb (N.eqb (a_eid x) e))) by (intros; eapply not_entry_eid; eauto).
  unfold eids. rewrite !in_map_iff. split.
  - intros [y [E Hy]]. apply filter_In in Hy as [Hy Hne]. apply negb_true_iff, N.eqb_neq in Hne.
    split; [eauto | congruence].
  - intros [[y [E Hy]] Hne]. exists y. split; auto. apply filter_In. split; auto.
    apply negb_true_iff, N.eqb_neq. congruence.
Qed.

Lemma count_one_more {A} (f : A -> N) (p p' : A -> bool) l x :
  NoDup (map f l) -> In x l -> p x = false ->
  (forall y, p' y = p y || N.eqb (f y) (f x)) ->
  length (filter p' l) = S (length (filter p l)).
Proof.
  intros ND Hx Hp Hp'. induction l as [|y l IH]; [destruct Hx|].
  cbn in ND. inversion ND as [|? ? Hn Hd]; subst. cbn. destruct Hx as [->|Hx].
  - rewrite Hp', Hp, N.eqb_refl. cbn. f_equal. f_equal. apply filter_ext_in'. intros y Hy.
    rewrite Hp'. destruct (N.eqb_spec (f y) (f x)) as [E|E]; [|now rewrite orb_false_r].
    exfalso. apply Hn. rewrite <- E. now apply in_map.
  - rewrite Hp'. destruct (N.eqb_spec (f y) (f x)) as [E|E].
    + exfalso. apply Hn. rewrite E. now apply in_map.
    + rewrite orb_false_r. destruct (p y); cbn; rewrite IH; auto.
Qed.

Lemma InvE_delete s e : InvE s -> InvE (fst (delete_edge s e)).
Proof.
  intros I. unfold delete_edge. destruct (get_edge s e) as [[[[a b] t] p]|] eqn:G; [|exact I].
  destruct (get_edge_Some _ _ _ _ _ _ G) as [L [EP [ET _]]]. cbn [fst].
  remember (Nat.ltb (length (filter (not_entry a e) (bout s))) (length (bout s))) as inb eqn:Einb.
  assert (Ha : a = a_node (mk_ent false (endp s e) e)) by (rewrite EP; reflexivity).
  assert (Hb : b = a_node (mk_ent true (endp s e) e)) by (rewrite EP; reflexivity).
  assert (INB : inb = true <-> In e (eids (bout s))).
  { rewrite Einb. rewrite Nat.ltb_lt, length_filter_lt. split.
    - intros [x [Hx Hn]]. unfold not_entry in Hn. apply negb_false_iff, andb_true_iff in Hn as [_ Hn].
      apply N.eqb_eq in Hn. rewrite <- Hn. now apply In_eids.
    - intros HI. apply in_map_iff in HI as [x [E Hx]]. exists x. split; auto.
      rewrite Ha. erewrite not_entry_eid; [|apply (e_out _ I)|auto]. rewrite E, N.eqb_refl. reflexivity. }
  destruct (e_range _ I _ L) as [R1 R2].
  set (s' := {| endp := upd (endp s) e (0, 0) |}).
  assert (LV : forall x, live_e s' x = if N.eqb x e then false else live_e s x).
  { intros x. unfold live_e, s'; cbn. unfold upd. destruct (N.eqb x e); auto. }
  constructor; cbn.
  - apply I.
  - intros x. rewrite LV. destruct (N.eqb_spec x e) as [->|Hne]; [discriminate|].
    intros Lx. destruct (e_range _ I _ Lx) as [H1 H2]. split; auto.
    destruct inb; auto. intros [E|HI]; [congruence | contradiction].
  - intros x Hx. destruct inb; [destruct Hx as [<-|Hx]; auto|]; now apply (e_free _ I).
  - destruct inb; [constructor; auto|]; apply I.
  - intros x. rewrite LV. unfold upd. destruct (N.eqb_spec x e) as [->|Hne]; [auto|]. apply I.
  - intros x. rewrite LV. unfold upd. destruct (N.eqb_spec x e) as [->|Hne]; [discriminate|]. apply I.
  - apply pset_rem_NoDup, I.
  - intros t' x HI. apply pset_rem_In in HI as [HI Hne]. destruct (e_tidx _ I _ _ HI) as [H1 H2].
    rewrite LV. unfold upd. destruct (N.eqb_spec x e) as [->|Hx]; auto. exfalso. apply Hne. congruence.
  - intros Hs t' x. rewrite LV. unfold upd. destruct (N.eqb_spec x e) as [->|Hx]; [discriminate|].
    intros Lx Et. apply pset_rem_In. split; [now apply (e_tidx_c _ I) | congruence].
  - rewrite Ha. apply AdjInv_del; auto. apply I.
  - rewrite Hb. apply AdjInv_del; auto. apply I. rewrite INB. apply (e_tiers _ I).
  - intros x. rewrite Ha at 1. rewrite Hb. rewrite (eids_filter_ne _ _ _ _ _ _ _ _ (e_out _ I)).
    rewrite (eids_filter_ne _ _ _ _ _ _ _ _ (e_in _ I)). rewrite (e_tiers _ I). tauto.
  - change (concat (fsegs_out s)) with (fout s).
    rewrite (e_fdead _ I). pose proof (a_nd _ _ _ _ _ _ (e_out _ I)) as ND. rewrite eids_app in ND.
    destruct inb eqn:EI.
    + f_equal. f_equal. apply filter_ext_in'. intros x Hx. rewrite LV.
      destruct (N.eqb_spec (a_eid x) e) as [E|E]; auto. exfalso.
      eapply NoDup_app_disj; eauto. * apply In_eids; eauto. * rewrite E. now apply INB.
    + pose proof (a_all _ _ _ _ _ _ (e_out _ I) e L) as HA. rewrite EP in HA.
      apply in_app_or in HA as [HA|HA].
      * rewrite (count_one_more a_eid (fun x => negb (live_e s (a_eid x))) (fun x => negb (live_e s' (a_eid x))) (fout s) _ (NoDup_app_l _ _ ND) HA).
        -- lia.
        -- cbn. now rewrite L.
        -- intros y. rewrite LV. cbn [mk_ent a_eid fst snd]. destruct (N.eqb (a_eid y) e); cbn; auto.
           ++ now rewrite orb_true_r.
           ++ now rewrite orb_false_r.
      * exfalso. assert (X : false = true); [|discriminate]. apply INB. apply In_eids in HA. now rewrite mk_ent_eid in HA.
Qed.

Lemma InvE_with_props s P C U :
  InvE s -> (forall e, live_e s e = false -> P e = None /\ C e = []) ->
  InvE {| endp := endp s; etype := etype s; eprops := P; ecols := C; next_edge := next_edge s;
          free_edges := free_edges s; tidx := tidx s; interned := interned s; bout := bout s;
          bin := bin s; fsegs_out := fsegs_out s; fsegs_in := fsegs_in s; fdead := fdead s; unsorted := U;
          tstale := tstale s |}.
Proof.
  intros I H. constructor; cbn; try apply I.
  intros e L. change (live_e s e = false) in L. destruct (e_dead _ I _ L) as [H1 _]. destruct (H _ L). auto.
Qed.

Lemma InvE_set_eprop s e k v : InvE s -> InvE (fst (set_eprop s e k v)).
Proof.
  intros I. unfold set_eprop. destruct (live_e s e) eqn:L; [|exact I]. cbn [fst].
  apply InvE_with_props; auto. intros x Lx. assert (x <> e) by congruence.
  rewrite !upd_other by auto. destruct (e_dead _ I _ Lx) as [_ [? ?]]. auto.
Qed.

Lemma InvE_rem_eprop s e k : InvE s -> InvE (rem_eprop s e k).
Proof.
  intros I. unfold rem_eprop. apply InvE_with_props; auto. intros x Lx.
  destruct (e_dead _ I _ Lx) as [_ [H1 H2]]. destruct (N.eq_dec x e) as [->|Hne].
  - rewrite Lx, upd_same, H2. auto.
  - rewrite (upd_other (ecols s)) by auto. destruct (live_e s e); rewrite ?upd_other by auto; auto.
Qed.

Lemma filter_none {A} (p : A -> bool) l : (forall x, In x l -> p x = false) -> filter p l = [].
Proof. induction l; cbn; intros H; auto. rewrite (H a) by auto. apply IHl. auto. Qed.

Lemma concat_snoc {A} (ls : list (list A)) (l : list A) : concat (ls ++ [l]) = concat ls ++ l.
Proof. rewrite concat_app. cbn. now rewrite app_nil_r. Qed.

Lemma filter_length_perm {A} (p : A -> bool) l l' : Permutation l l' -> length (filter p l) = length (filter p l').
Proof.
  induction 1; cbn; auto.
  - destruct (p x); cbn; auto.
  - destruct (p x), (p y); cbn; auto.
  - congruence.
Qed.

Lemma InvE_compact_do s :
  InvE s ->
  InvE {| endp := endp s; etype := etype s; eprops := eprops s; ecols := ecols s;
          next_edge := next_edge s; free_edges := free_edges s; tidx := tidx s;
          interned := interned s; bout := []; bin := [];
          fsegs_out := fsegs_out s ++ [sort_nbr (bout s)]; fsegs_in := fsegs_in s ++ [sort_nbr (bin s)];
          fdead := fdead s; unsorted := []; tstale := tstale s |}.
Proof.
  intros I. constructor; cbn; try apply I.
  - unfold fout; cbn. rewrite concat_snoc. eapply AdjInv_perm; [apply Permutation_app_head; symmetry; apply sort_nbr_perm | apply Permutation_refl |].
    apply AdjInv_compact; [apply I|]. intros e L. now apply (e_range _ I).
  - unfold fin; cbn. rewrite concat_snoc. eapply AdjInv_perm; [apply Permutation_app_head; symmetry; apply sort_nbr_perm | apply Permutation_refl |].
    apply AdjInv_compact; [apply I|]. intros e L. now apply (e_range _ I).
  - tauto.
  - unfold live_e; cbn [endp]. rewrite (e_fdead _ I). unfold live_e, fout; cbn. f_equal. rewrite concat_snoc.
    rewrite (filter_length_perm _ (concat (fsegs_out s) ++ sort_nbr (bout s)) (concat (fsegs_out s) ++ bout s)) by (apply Permutation_app_head, sort_nbr_perm).
    rewrite filter_app, app_length.
    rewrite (filter_none _ (bout s)); [cbn; lia|].
    intros x Hx. destruct (a_buf _ _ _ _ _ _ (e_out _ I) _ Hx) as [H1 _].
    unfold lv in H1. now rewrite H1.
Qed.

Lemma InvE_compact s : InvE s -> InvE (compact s).
Proof.
  intros I. unfold compact. pose proof (InvE_compact_do s I) as C.
  pose proof (InvE_with_props s (eprops s) (ecols s) [] I (fun e L => match e_dead _ I e L with conj _ H => H end)) as X.
  destruct (bout s) eqn:B1; destruct (bin s) eqn:B2; auto.
Qed.

Lemma rebuild_tidx_In s t e :
  In (t, e) (rebuild_tidx s) <-> e < next_edge s /\ live_e s e = true /\ etype s e = Some t.
Proof.
  unfold rebuild_tidx. rewrite in_flat_map. split.
  - intros [x [Hx HI]]. apply range_In in Hx. destruct (live_e s x) eqn:L; [|destruct HI].
    destruct (etype s x) eqn:T; [|destruct HI]. destruct HI as [HI|[]]. inversion HI; subst. auto.
  - intros [H1 [H2 H3]]. exists e. split; [now apply range_In|]. rewrite H2, H3. now left.
Qed.

Lemma NoDup_flat_map_single {A B} (f : A -> list B) l :
  NoDup l -> (forall x, NoDup (f x)) -> (forall x y b, In b (f x) -> In b (f y) -> x = y) ->
  NoDup (flat_map f l).
Proof.
  induction l as [|x l IH]; cbn; intros ND Hf Hinj; [constructor|]. inversion ND; subst.
  apply NoDup_app_intro; auto.
  intros b Hb1 Hb2. apply in_flat_map in Hb2 as [y [Hy Hb2]]. assert (x = y) by eauto. subst. contradiction.
Qed.

Lemma InvE_finish s : InvE s -> InvE (finish_bulk s).
Proof.
  intros I0. pose proof (InvE_compact s I0) as I. unfold finish_bulk. set (c := compact s) in *.
  constructor; cbn; try apply I.
  - apply NoDup_flat_map_single; [apply range_NoDup | |].
    + intros x. destruct (live_e c x); [|constructor]. destruct (etype c x); repeat constructor. intros [].
    + intros x y b. destruct (live_e c x); [|intros []]. destruct (etype c x); [|intros []].
      destruct (live_e c y); [|intros _ []]. destruct (etype c y); [|intros _ []].
      intros [<-|[]] [E|[]]. now inversion E.
  - intros t e HI. apply rebuild_tidx_In in HI. tauto.
  - intros _ t e L T. apply rebuild_tidx_In. destruct (e_range _ I _ L). repeat split; auto. lia.
Qed.

Lemma InvE_delete_ignore_fold l s : InvE s -> InvE (fold_left delete_edge_ignore l s).
Proof. revert s. induction l; cbn; intros s I; auto. apply IHl. now apply InvE_delete. Qed.

(* ---------------------------------------------------------------- whole-store invariant *)
Definition InvX (s : state) : Prop :=
  forall e, live_e (es s) e = true ->
    live_n (ns s) (fst (endp (es s) e)) = true /\ live_n (ns s) (snd (endp (es s) e)) = true.

Definition Inv (s : state) : Prop := InvN (ns s) /\ InvE (es s) /\ InvX s.

Lemma delete_edge_mono s e x :
  live_e (fst (delete_edge s e)) x = true ->
  live_e s x = true /\ endp (fst (delete_edge s e)) x = endp s x /\ x <> e \/
  (fst (delete_edge s e) = s /\ live_e s x = true).
Proof.
  unfold delete_edge. destruct (get_edge s e) as [[[[a b] t] p]|] eqn:G; cbn [fst]; [|auto].
  unfold live_e; cbn. unfold upd. destruct (N.eqb_spec x e) as [->|Hne]; [discriminate|]. auto.
Qed.

Lemma delete_edge_kills s e : InvE s -> live_e (fst (delete_edge s e)) e = false.
Proof.
  intros I. unfold delete_edge. destruct (get_edge s e) as [[[[a b] t] p]|] eqn:G; cbn [fst].
  - unfold live_e; cbn. now rewrite upd_same.
  - destruct (live_e s e) eqn:L; auto. apply (get_edge_live _ _ I) in L. congruence.
Qed.

Lemma fold_delete_mono l s x :
  live_e (fold_left delete_edge_ignore l s) x = true ->
  live_e s x = true /\ endp (fold_left delete_edge_ignore l s) x = endp s x.
Proof.
  revert s. induction l as [|e l IH]; cbn; intros s H; auto.
  apply IH in H as [H1 H2]. unfold delete_edge_ignore in *.
  apply delete_edge_mono in H1 as [[H1 [H3 _]]|[H3 H1]]; split; auto; congruence.
Qed.

Lemma fold_delete_dead l s e :
  InvE s -> In e l -> live_e (fold_left delete_edge_ignore l s) e = false.
Proof.
  revert s. induction l as [|y l IH]; cbn; intros s I HI0; [destruct HI0|]. destruct HI0 as [->|HI].
  - destruct (live_e (fold_left delete_edge_ignore l (delete_edge_ignore s e)) e) eqn:L; auto.
    apply fold_delete_mono in L as [L _]. unfold delete_edge_ignore in L.
    now rewrite delete_edge_kills in L.
  - apply IH; auto. now apply InvE_delete.
Qed.

Lemma fold_delete_other l s x :
  ~ In x l -> live_e (fold_left delete_edge_ignore l s) x = live_e s x /\
              get_edge (fold_left delete_edge_ignore l s) x = get_edge s x.
Proof.
  revert s. induction l as [|e l IH]; cbn; intros s H; auto.
  assert (Hl : ~ In x l) by (intros Hx; apply H; auto).
  assert (Hne : x <> e) by (intros ->; apply H; auto).
  destruct (IH (delete_edge_ignore s e) Hl) as [H1 H2]. rewrite H1, H2.
  unfold delete_edge_ignore, delete_edge.
  destruct (get_edge s e) as [[[[a b] t] p]|] eqn:G; cbn [fst]; auto.
  unfold get_edge, live_e; cbn. now rewrite !upd_other.
Qed.

Lemma in_slice l n x : In x (slice l n) <-> In x l /\ a_node x = n.
Proof. unfold slice. rewrite filter_In, N.eqb_eq. tauto. Qed.

Lemma incident_In s id e :
  InvE s -> live_e s e = true -> (fst (endp s e) = id \/ snd (endp s e) = id) ->
  In e (map a_eid (slice (fout s) id ++ slice (bout s) id ++ slice (fin s) id ++ slice (bin s) id)).
Proof.
  intros I L [H|H].
  - pose proof (a_all _ _ _ _ _ _ (e_out _ I) e L) as HA. apply in_map_iff.
    exists (mk_ent false (endp s e) e). split; auto.
    rewrite !in_app_iff, !in_slice. apply in_app_or in HA as [HA|HA]; cbn; auto.
  - pose proof (a_all _ _ _ _ _ _ (e_in _ I) e L) as HA. apply in_map_iff.
    exists (mk_ent true (endp s e) e). split; auto.
    rewrite !in_app_iff, !in_slice. apply in_app_or in HA as [HA|HA]; cbn; auto 6.
Qed.

Lemma Inv_init : Inv init.
Proof. split; [apply InvN_init | split; [apply InvE_init|]]. intros e H. discriminate. Qed.

Lemma InvX_node_frame s ns' :
  InvX s -> (forall n, live_n (ns s) n = true -> live_n ns' n = true) ->
  InvX {| ns := ns'; es := es s |}.
Proof. intros X H e L. destruct (X e L). cbn. auto. Qed.

Lemma InvX_edge_frame s es' :
  InvX s -> (forall e, live_e es' e = true -> live_e (es s) e = true /\ endp es' e = endp (es s) e) ->
  InvX {| ns := ns s; es := es' |}.
Proof. intros X H e L. cbn in *. destruct (H e L) as [H1 H2]. rewrite H2. now apply X. Qed.

Lemma live_n_set_nprop s id k v n : live_n (fst (set_nprop s id k v)) n = live_n s n.
Proof.
  unfold set_nprop. destruct (nodes s id) eqn:E; cbn; auto. unfold live_n; cbn. unfold upd.
  destruct (N.eqb_spec n id); auto. subst. now rewrite E.
Qed.
Lemma live_n_rem_nprop s id k n : live_n (rem_nprop s id k) n = live_n s n.
Proof.
  unfold rem_nprop, live_n; cbn. destruct (nodes s id) eqn:E; auto. unfold upd.
  destruct (N.eqb_spec n id); auto. subst. now rewrite E.
Qed.
Lemma live_n_add_label s id l n : live_n (fst (add_label s id l)) n = live_n s n.
Proof.
  unfold add_label. destruct (nodes s id) eqn:E; cbn; auto. unfold live_n; cbn. unfold upd.
  destruct (N.eqb_spec n id); auto. subst. now rewrite E.
Qed.
Lemma live_n_rem_label s id l n : live_n (fst (rem_label s id l)) n = live_n s n.
Proof.
  unfold rem_label. destruct (nodes s id) eqn:E; cbn; auto. destruct (memN l (n_labels n0)); cbn; auto.
  unfold live_n; cbn. unfold upd. destruct (N.eqb_spec n id); auto. subst. now rewrite E.
Qed.
Lemma live_n_create s hint ls ps cols s' id n :
  create_node s hint ls ps cols = (s', id) -> live_n s n = true -> live_n s' n = true.
Proof.
  unfold create_node. destruct (alloc _ _ _) as [[i fr] nx]. intros H; inversion H; subst.
  unfold live_n; cbn. unfold upd. destruct (N.eqb n id); auto.
Qed.

Lemma Inv_create_node s hint ls ps cols n' id :
  Inv s -> create_node (ns s) hint ls ps cols = (n', id) -> Inv {| ns := n'; es := es s |}.
Proof.
  intros [IN [IE IX]] H. split; [|split]; cbn; auto.
  - eapply InvN_create; eauto.
  - apply InvX_node_frame; auto. intros n. eapply live_n_create; eauto.
Qed.

Lemma Inv_create_edge s hint a b t ps stub : Inv s -> Inv (fst (create_edge s hint a b t ps stub)).
Proof.
  intros [IN [IE IX]]. unfold create_edge.
  destruct (live_n (ns s) a) eqn:La; cbn; [|split; [|split]; auto].
  destruct (live_n (ns s) b) eqn:Lb; cbn; [|split; [|split]; auto].
  destruct (add_edge (es s) hint a b t ps stub) as [es' id] eqn:A. cbn.
  pose proof (n_range _ IN _ La) as Ra.
  destruct (add_edge_fresh _ _ _ _ _ _ _ _ _ IE A) as [Hd _].
  split; [|split]; cbn; auto.
  - eapply InvE_add; eauto. lia.
  - intros e. cbn. unfold add_edge in A. destruct (alloc _ _ _) as [[i fr] nx]. inversion A; subst.
    unfold live_e; cbn. unfold upd. destruct (N.eqb_spec e id) as [->|Hne]; cbn; auto; try apply IX.
Qed.

Lemma Inv_delete_node s id : Inv s -> Inv (fst (delete_node s id)).
Proof.
  intros [IN [IE IX]]. unfold delete_node. destruct (nodes (ns s) id) as [nd|] eqn:E; cbn; [|split; [|split]; auto].
  set (inc := map a_eid _).
  split; [|split]; cbn.
  - now apply InvN_drop.
  - now apply InvE_delete_ignore_fold.
  - intros e L. cbn in *. destruct (fold_delete_mono _ _ _ L) as [L0 EP]. rewrite EP.
    destruct (IX e L0) as [H1 H2].
    assert (Hni : ~ (fst (endp (es s) e) = id \/ snd (endp (es s) e) = id)).
    { intros Hi. pose proof (incident_In _ _ _ IE L0 Hi) as HI. fold inc in HI.
      rewrite (fold_delete_dead _ _ _ IE HI) in L. discriminate. }
    unfold live_n, drop_node; cbn. unfold live_n in H1, H2. rewrite !upd_other by tauto. auto.
Qed.

Lemma Inv_on_es s es' :
  Inv s -> InvE es' ->
  (forall e, live_e es' e = true -> live_e (es s) e = true /\ endp es' e = endp (es s) e) ->
  Inv {| ns := ns s; es := es' |}.
Proof. intros [IN [IE IX]] I' H. split; [|split]; cbn; auto. now apply InvX_edge_frame. Qed.

Lemma Inv_step s o : Inv s -> Inv (fst (step s o)).
Proof.
  intros I. pose proof I as [IN [IE IX]]. destruct o; cbn [step].
  - destruct (create_node (ns s) hint labels [] false) as [n' id] eqn:C. eapply Inv_create_node; eauto.
  - destruct (create_node (ns s) hint labels ps true) as [n' id] eqn:C. eapply Inv_create_node; eauto.
  - destruct (create_node (ns s) hint [label] [] false) as [n' id] eqn:C. eapply Inv_create_node; eauto.
  - split; [|split]; cbn; auto. + now apply InvN_set_nprop.
    + apply InvX_node_frame; auto. intros n. now rewrite live_n_set_nprop.
  - split; [|split]; cbn; auto. + now apply InvN_rem_nprop.
    + apply InvX_node_frame; auto. intros n. now rewrite live_n_rem_nprop.
  - split; [|split]; cbn; auto. + now apply InvN_add_label.
    + apply InvX_node_frame; auto. intros n. now rewrite live_n_add_label.
  - split; [|split]; cbn; auto. + now apply InvN_rem_label.
    + apply InvX_node_frame; auto. intros n. now rewrite live_n_rem_label.
  - now apply Inv_delete_node.
  - now apply Inv_create_edge.
  - now apply Inv_create_edge.
  - now apply Inv_create_edge.
  - cbn. apply Inv_on_es; [exact I | now apply InvE_set_eprop |].
    intros x. unfold set_eprop. destruct (live_e (es s) e); cbn; auto.
  - cbn. apply Inv_on_es; [exact I | now apply InvE_rem_eprop |]. intros x; cbn; auto.
  - cbn. apply Inv_on_es; [exact I | now apply InvE_delete |].
    intros x L. apply delete_edge_mono in L as [[? [? _]]|[-> ?]]; auto.
  - cbn. apply Inv_on_es; [exact I | now apply InvE_compact |].
    intros x. unfold compact. destruct (bout (es s)), (bin (es s)); cbn; auto.
  - cbn. apply Inv_on_es; [exact I | now apply InvE_finish |].
    intros x. unfold finish_bulk, compact. destruct (bout (es s)), (bin (es s)); cbn; auto.
Qed.

Lemma Inv_run ops : Inv (run ops).
Proof.
  unfold run. assert (G : forall s, Inv s -> Inv (fold_left (fun s o => fst (step s o)) ops s)).
  { induction ops; cbn; intros s I; auto. apply IHops. now apply Inv_step. }
  apply G, Inv_init.
Qed.

(* ---------------------------------------------------------------- read views *)
Lemma slice_app l1 l2 n : slice l1 n ++ slice l2 n = slice (l1 ++ l2) n.
Proof. unfold slice. now rewrite filter_app. Qed.

Lemma adj_select ep nx fr sw fro buf n (P : aent -> bool) (Q : N -> bool) :
  AdjInv ep nx fr sw fro buf -> (forall e, lv ep e = true -> e < nx) ->
  (forall x, In x (fro ++ buf) -> a_node x = n -> P x = Q (a_eid x)) ->
  (forall e, Q e = true -> lv ep e = true /\ a_node (mk_ent sw (ep e) e) = n) ->
  Permutation (map a_eid (filter P (slice fro n ++ slice buf n))) (filter Q (range nx)).
Proof.
  intros I R HP HQ. rewrite slice_app. apply NoDup_Permutation.
  - apply NoDup_map_filter. unfold slice. apply NoDup_map_filter. apply (a_nd _ _ _ _ _ _ I).
  - apply NoDup_filter, range_NoDup.
  - intros e. rewrite in_map_iff, filter_In, range_In. split.
    + intros [x [E Hx]]. apply filter_In in Hx as [Hx Px]. apply in_slice in Hx as [Hx Hn].
      rewrite (HP _ Hx Hn), E in Px. split; auto. apply R. now apply HQ.
    + intros [_ Qe]. destruct (HQ _ Qe) as [L Hn]. exists (mk_ent sw (ep e) e). split; [apply mk_ent_eid|].
      pose proof (a_all _ _ _ _ _ _ I e L) as HA. apply filter_In. split; [now apply in_slice|].
      rewrite (HP _ HA Hn), mk_ent_eid. auto.
Qed.

Definition has_edge_b (s : estate) (e : N) : bool :=
  match get_edge s e with Some _ => true | None => false end.

Lemma has_edge_live s e : InvE s -> has_edge_b s e = live_e s e.
Proof.
  intros I. unfold has_edge_b, get_edge. destruct (live_e s e) eqn:L; auto.
  destruct (e_type _ I _ L) as [t [-> _]]. auto.
Qed.

Lemma flat_map_nonempty {A B} (f : A -> list B) (p : A -> bool) l :
  (forall x, p x = false -> f x = []) -> flat_map f l = flat_map f (filter p l).
Proof.
  intros H. induction l as [|x l IH]; cbn; auto. destruct (p x) eqn:E; cbn; rewrite IH; auto.
  now rewrite (H _ E).
Qed.

Lemma flat_map_map' {A B C} (g : A -> B) (f : B -> list C) l :
  flat_map f (map g l) = flat_map (fun x => f (g x)) l.
Proof. induction l; cbn; auto. now rewrite IHl. Qed.

Lemma live_range s e : InvE s -> lv (endp s) e = true -> e < next_edge s.
Proof. intros I L. destruct (e_range _ I e L). lia. Qed.

(* entries of a slice resolve through the edge arrays to the same endpoints *)
Lemma adj_entry_endp ep nx fr sw fro buf x :
  AdjInv ep nx fr sw fro buf -> In x (fro ++ buf) -> lv ep (a_eid x) = true -> ep (a_eid x) = ent_pair sw x.
Proof.
  intros I Hx L. apply in_app_or in Hx as [Hx|Hx].
  - now apply (a_fro _ _ _ _ _ _ I).
  - now apply (a_buf _ _ _ _ _ _ I).
Qed.

Lemma filter_length' {A} (p : A -> bool) l :
  (length (filter p l) + length (filter (fun x => negb (p x)) l) = length l)%nat.
Proof. induction l; cbn; auto. destruct (p a); cbn; lia. Qed.

Section Views.
Variable s : state.
Hypothesis HI : Inv s.
Let IE : InvE (es s) := proj1 (proj2 HI).
Let bound := next_edge (es s).

(* generic: a view that maps the live entries of a node's slice selected by [sel] *)
Lemma adj_view sw fro buf n (sel : N * N * N * props -> bool) :
  AdjInv (endp (es s)) (next_edge (es s)) (free_edges (es s)) sw fro buf ->
  Permutation
    (map a_eid (filter (fun x => match get_edge (es s) (a_eid x) with Some r => sel r | None => false end)
                       (slice fro n ++ slice buf n)))
    (filter (fun e => match get_edge (es s) e with
                      | Some r => sel r && N.eqb (a_node (mk_ent sw (endp (es s) e) e)) n
                      | None => false end) (range bound)).
Proof.
  intros A. apply (adj_select _ _ _ _ _ _ _ _ _ A (fun e => live_range (es s) e IE)).
  - intros x Hx Hn. destruct (get_edge (es s) (a_eid x)) as [r|] eqn:G; auto.
    assert (L : lv (endp (es s)) (a_eid x) = true).
    { rewrite <- live_e_lv, <- (has_edge_live _ _ IE). unfold has_edge_b. now rewrite G. }
    rewrite (adj_entry_endp _ _ _ _ _ _ _ A Hx L), mk_ent_pair, Hn, N.eqb_refl. now rewrite andb_true_r.
  - intros e. destruct (get_edge (es s) e) as [r|] eqn:G; [|discriminate].
    intros H. apply andb_true_iff in H as [_ H]. apply N.eqb_eq in H. split; auto.
    rewrite <- live_e_lv, <- (has_edge_live _ _ IE). unfold has_edge_b. now rewrite G.
Qed.

Lemma edge_tuple_lg e : edge_tuple (es s) e = lg_tuple (abs s) e.
Proof. reflexivity. Qed.

Lemma get_edge_src e a b t p : get_edge (es s) e = Some (a, b, t, p) -> endp (es s) e = (a, b).
Proof. intros G. now destruct (get_edge_Some _ _ _ _ _ _ G) as [_ [? _]]. Qed.

Lemma filter_ext' {A} (f g : A -> bool) l : (forall x, f x = g x) -> filter f l = filter g l.
Proof. intros H. apply filter_ext_in'. auto. Qed.

Theorem view_outgoing n :
  Permutation (outgoing_edges s n) (lg_outgoing (abs s) bound n).
Proof.
  unfold outgoing_edges, lg_outgoing, adj_out.
  rewrite (flat_map_nonempty _ (fun x => has_edge_b (es s) (a_eid x))).
  2:{ intros x H. unfold edge_tuple, has_edge_b in *. destruct (get_edge (es s) (a_eid x)); [discriminate | auto]. }
  rewrite <- (flat_map_map' a_eid (edge_tuple (es s))).
  apply Permutation_flat_map.
  pose proof (adj_view false _ _ n (fun _ => true) (e_out _ IE)) as P.
  etransitivity; [etransitivity; [|exact P]|].
  - apply Permutation_map. erewrite filter_ext'; [reflexivity|].
    intros x. unfold has_edge_b. destruct (get_edge (es s) (a_eid x)); auto.
  - unfold lg_rel_ids. erewrite filter_ext'; [reflexivity|]. intros e. cbn [abs lrels].
    destruct (get_edge (es s) e) as [[[[a b] t] p]|] eqn:G; auto. rewrite (get_edge_src _ _ _ _ _ G). reflexivity.
Qed.

Theorem view_incoming n :
  Permutation (incoming_edges s n) (lg_incoming (abs s) bound n).
Proof.
  unfold incoming_edges, lg_incoming, adj_in.
  rewrite (flat_map_nonempty _ (fun x => has_edge_b (es s) (a_eid x))).
  2:{ intros x H. unfold edge_tuple, has_edge_b in *. destruct (get_edge (es s) (a_eid x)); [discriminate | auto]. }
  rewrite <- (flat_map_map' a_eid (edge_tuple (es s))).
  apply Permutation_flat_map.
  pose proof (adj_view true _ _ n (fun _ => true) (e_in _ IE)) as P.
  etransitivity; [etransitivity; [|exact P]|].
  - apply Permutation_map. erewrite filter_ext'; [reflexivity|].
    intros x. unfold has_edge_b. destruct (get_edge (es s) (a_eid x)); auto.
  - unfold lg_rel_ids. erewrite filter_ext'; [reflexivity|]. intros e. cbn [abs lrels].
    destruct (get_edge (es s) e) as [[[[a b] t] p]|] eqn:G; auto. rewrite (get_edge_src _ _ _ _ _ G). reflexivity.
Qed.

Lemma flat_map_ext_in' {A B} (f g : A -> list B) l :
  (forall x, In x l -> f x = g x) -> flat_map f l = flat_map g l.
Proof. induction l; cbn; intros H; auto. rewrite (H a) by auto. rewrite IHl; auto. Qed.

Lemma adj_out_In n x : In x (adj_out (es s) n) -> In x (fout (es s) ++ bout (es s)) /\ a_node x = n.
Proof. unfold adj_out. rewrite slice_app. apply in_slice. Qed.
Lemma adj_in_In n x : In x (adj_in (es s) n) -> In x (fin (es s) ++ bin (es s)) /\ a_node x = n.
Proof. unfold adj_in. rewrite slice_app. apply in_slice. Qed.

Lemma entry_tuple sw fro buf x :
  AdjInv (endp (es s)) (next_edge (es s)) (free_edges (es s)) sw fro buf -> In x (fro ++ buf) ->
  match etype (es s) (a_eid x) with
  | Some t => [(a_eid x, fst (ent_pair sw x), snd (ent_pair sw x), t)]
  | None => []
  end = edge_tuple (es s) (a_eid x).
Proof.
  intros A Hx. unfold edge_tuple, get_edge. destruct (live_e (es s) (a_eid x)) eqn:L.
  - rewrite live_e_lv in L. rewrite (adj_entry_endp _ _ _ _ _ _ _ A Hx L).
    destruct (etype (es s) (a_eid x)); auto.
  - destruct (e_dead _ IE _ L) as [-> _]. auto.
Qed.

Theorem view_out_targets n : out_targets s n = outgoing_edges s n.
Proof.
  unfold out_targets, outgoing_edges. apply flat_map_ext_in'. intros x Hx.
  apply adj_out_In in Hx as [Hx Hn]. rewrite <- (entry_tuple false _ _ x (e_out _ IE) Hx). cbn. now rewrite Hn.
Qed.
Theorem view_in_sources n : in_sources s n = incoming_edges s n.
Proof.
  unfold in_sources, incoming_edges. apply flat_map_ext_in'. intros x Hx.
  apply adj_in_In in Hx as [Hx Hn]. rewrite <- (entry_tuple true _ _ x (e_in _ IE) Hx). cbn. now rewrite Hn.
Qed.

Lemma type_is_get_edge t x :
  type_is (es s) t x =
  match get_edge (es s) (a_eid x) with Some (_, _, t', _) => N.eqb t' t | None => false end.
Proof.
  unfold type_is, get_edge. destruct (live_e (es s) (a_eid x)) eqn:L.
  - destruct (etype (es s) (a_eid x)); auto.
  - destruct (e_dead _ IE _ L) as [-> _]. auto.
Qed.

Lemma degree_generic sw fro buf n t :
  AdjInv (endp (es s)) (next_edge (es s)) (free_edges (es s)) sw fro buf ->
  (if memN t (interned (es s))
   then N.of_nat (length (filter (type_is (es s) t) (slice fro n ++ slice buf n))) else 0) =
  N.of_nat (length (filter (fun e => match get_edge (es s) e with
                      | Some (a, b, t', p) => N.eqb t' t && N.eqb (a_node (mk_ent sw (endp (es s) e) e)) n
                      | None => false end) (range bound))).
Proof.
  intros A. destruct (memN t (interned (es s))) eqn:M.
  - f_equal. pose proof (adj_view sw _ _ n (fun r => let '(_, _, t', _) := r in N.eqb t' t) A) as P.
    apply Permutation_length in P. rewrite map_length in P.
    erewrite filter_ext'; [rewrite P|].
    + f_equal. apply filter_ext'. intros e. destruct (get_edge (es s) e) as [[[[a b] t'] p]|]; auto.
    + intros x. rewrite type_is_get_edge. destruct (get_edge (es s) (a_eid x)) as [[[[a b] t'] p]|]; auto.
  - rewrite filter_none; auto. intros e _. destruct (get_edge (es s) e) as [[[[a b] t'] p]|] eqn:G; auto.
    destruct (get_edge_Some _ _ _ _ _ _ G) as [L [_ [T _]]]. destruct (e_type _ IE _ L) as [t2 [T2 HIn]].
    destruct (N.eqb_spec t' t) as [->|]; auto. exfalso. apply memN_false in M. apply M. congruence.
Qed.

Theorem view_out_degree n t : out_degree s n t = lg_out_degree (abs s) bound n t.
Proof.
  unfold out_degree, lg_out_degree, adj_out. rewrite (degree_generic false _ _ n t (e_out _ IE)).
  f_equal. f_equal. unfold lg_rel_ids. apply filter_ext'. intros e. cbn [abs lrels].
  destruct (get_edge (es s) e) as [[[[a b] t'] p]|] eqn:G; auto. rewrite (get_edge_src _ _ _ _ _ G). cbn.
  apply andb_comm.
Qed.
Theorem view_in_degree n t : in_degree s n t = lg_in_degree (abs s) bound n t.
Proof.
  unfold in_degree, lg_in_degree, adj_in. rewrite (degree_generic true _ _ n t (e_in _ IE)).
  f_equal. f_equal. unfold lg_rel_ids. apply filter_ext'. intros e. cbn [abs lrels].
  destruct (get_edge (es s) e) as [[[[a b] t'] p]|] eqn:G; auto. rewrite (get_edge_src _ _ _ _ _ G). cbn.
  apply andb_comm.
Qed.

Theorem view_edges_between a b ty :
  Permutation (edges_between_spec s a b ty) (lg_between (abs s) bound a b ty).
Proof.
  unfold edges_between_spec, match_entry, lg_between, lg_rel_ids, adj_out.
  set (sel := fun r : N * N * N * props => let '(a', b', t, _) := r in
         N.eqb a' a && N.eqb b' b && match ty with Some t' => N.eqb t t' | None => true end).
  pose proof (adj_view false _ _ a sel (e_out _ IE)) as P.
  etransitivity; [|etransitivity; [exact P|]].
  - rewrite <- flat_map_select. apply Permutation_refl'. apply flat_map_ext_in'. intros x Hx.
    fold (adj_out (es s) a) in Hx. apply adj_out_In in Hx as [Hx Hn].
    destruct (get_edge (es s) (a_eid x)) as [[[[a' b'] t] p]|] eqn:G.
    + assert (L : lv (endp (es s)) (a_eid x) = true) by (destruct (get_edge_Some _ _ _ _ _ _ G); auto).
      pose proof (adj_entry_endp _ _ _ _ _ _ _ (e_out _ IE) Hx L) as EP. rewrite (get_edge_src _ _ _ _ _ G) in EP.
      cbn in EP. inversion EP; subst. unfold sel.
      destruct (N.eqb (a_nbr x) b); auto. now rewrite andb_false_r.
    + now destruct (N.eqb (a_nbr x) b).
  - apply Permutation_refl'. apply filter_ext'. intros e. cbn [abs lrels].
    destruct (get_edge (es s) e) as [[[[a' b'] t] p]|] eqn:G; auto. rewrite (get_edge_src _ _ _ _ _ G). cbn.
    unfold sel. destruct (N.eqb a' a); cbn; auto. now rewrite andb_true_r.
Qed.

Theorem view_edges_by_type t :
  tstale (es s) = false -> Permutation (edges_by_type s t) (lg_by_type (abs s) bound t).
Proof.
  intros TS. unfold edges_by_type, lg_by_type, lg_rel_ids.
  apply NoDup_Permutation.
  - apply NoDup_flat_map_single; [apply (e_tidx_nd _ IE) | |].
    + intros p. destruct (N.eqb (fst p) t); [|constructor]. destruct (get_edge (es s) (snd p)); repeat constructor. intros [].
    + intros [t1 e1] [t2 e2] e. cbn. destruct (N.eqb_spec t1 t); [|intros []]. destruct (N.eqb_spec t2 t); [|intros _ []].
      destruct (get_edge (es s) e1); [|intros []]. destruct (get_edge (es s) e2); [|intros _ []].
      intros [<-|[]] [<-|[]]. congruence.
  - apply NoDup_filter, range_NoDup.
  - intros e. rewrite in_flat_map, filter_In, range_In. cbn [abs lrels]. split.
    + intros [[t1 e1] [Hp He]]. cbn in He. destruct (N.eqb_spec t1 t); [|destruct He]. subst.
      destruct (e_tidx _ IE _ _ Hp) as [L T].
      destruct (get_edge (es s) e1) as [[[[a b] t'] p]|] eqn:G; [|destruct He]. destruct He as [<-|[]].
      destruct (get_edge_Some _ _ _ _ _ _ G) as [_ [_ [T' _]]]. split; [apply (live_range _ _ IE); auto|].
      rewrite G. apply N.eqb_eq. congruence.
    + intros [_ H]. destruct (get_edge (es s) e) as [[[[a b] t'] p]|] eqn:G; [|discriminate].
      apply N.eqb_eq in H. subst. destruct (get_edge_Some _ _ _ _ _ _ G) as [L [_ [T _]]].
      exists (t, e). split; [now apply (e_tidx_c _ IE)|]. cbn. rewrite N.eqb_refl, G. now left.
Qed.

Theorem view_nodes_by_label l :
  Permutation (nodes_by_label s l) (lg_by_label (abs s) (next_node (ns s)) l).
Proof.
  pose proof (proj1 HI) as IN. unfold nodes_by_label, lg_by_label. apply NoDup_Permutation.
  - apply NoDup_flat_map_single; [apply (n_lidx_nd _ IN) | |].
    + intros p. destruct (N.eqb (fst p) l && live_n (ns s) (snd p)); repeat constructor. intros [].
    + intros [l1 n1] [l2 n2] n. cbn. destruct (N.eqb_spec l1 l); [|intros []]. destruct (N.eqb_spec l2 l); [|intros _ []].
      cbn. destruct (live_n (ns s) n1); [|intros []]. destruct (live_n (ns s) n2); [|intros _ []].
      intros [<-|[]] [<-|[]]. congruence.
  - apply NoDup_filter, range_NoDup.
  - intros n. rewrite in_flat_map, filter_In, range_In. cbn [abs lnodes]. split.
    + intros [[l1 n1] [Hp Hn]]. cbn in Hn. destruct (N.eqb_spec l1 l); [|destruct Hn]. subst. cbn in Hn.
      destruct (live_n (ns s) n1) eqn:L; [|destruct Hn]. destruct Hn as [<-|[]].
      apply (n_lidx _ IN) in Hp as [nd [E Hl]]. rewrite E. split; [|now apply memN_In].
      destruct (n_range _ IN _ L). lia.
    + intros [_ H]. destruct (nodes (ns s) n) as [nd|] eqn:E; [|discriminate]. apply memN_In in H.
      exists (l, n). split; [apply (n_lidx _ IN); eauto|]. cbn. rewrite N.eqb_refl. unfold live_n. rewrite E. now left.
Qed.

Theorem view_node_count : node_count s = lg_node_count (abs s) (next_node (ns s)).
Proof. reflexivity. Qed.

Theorem view_edge_count : edge_count s = lg_edge_count (abs s) bound.
Proof.
  unfold edge_count, lg_edge_count, lg_rel_ids. rewrite (e_fdead _ IE).
  assert (P : Permutation (filter (fun e => live_e (es s) e) (range bound))
                          (eids (filter (fun x => live_e (es s) (a_eid x)) (fout (es s))) ++ eids (bout (es s)))).
  { pose proof (a_nd _ _ _ _ _ _ (e_out _ IE)) as ND. rewrite eids_app in ND.
    apply NoDup_Permutation.
    - apply NoDup_filter, range_NoDup.
    - apply NoDup_app_intro.
      + apply NoDup_map_filter. eapply NoDup_app_l; eauto.
      + eapply NoDup_app_r; eauto.
      + intros x H1 H2. apply in_map_iff in H1 as [y [E Hy]]. apply filter_In in Hy as [Hy _].
        eapply NoDup_app_disj; eauto. rewrite <- E. now apply In_eids.
    - intros e. rewrite filter_In, range_In, in_app_iff. split.
      + intros [_ L]. pose proof (a_all _ _ _ _ _ _ (e_out _ IE) e L) as HA.
        apply in_app_or in HA as [HA|HA]; [left | right].
        * apply in_map_iff. exists (mk_ent false (endp (es s) e) e). split; [apply mk_ent_eid|]. apply filter_In. split; [auto | now rewrite mk_ent_eid].
        * apply In_eids in HA. now rewrite mk_ent_eid in HA.
      + intros [H|H]; apply in_map_iff in H as [x [E Hx]].
        * apply filter_In in Hx as [Hx L]. rewrite E in L. split; auto. now apply (live_range _ _ IE).
        * destruct (a_buf _ _ _ _ _ _ (e_out _ IE) _ Hx) as [L _]. rewrite E in L. split; auto. now apply (live_range _ _ IE). }
  erewrite (filter_ext' _ (fun e => live_e (es s) e)).
  2:{ intros e. cbn [abs lrels]. rewrite <- (has_edge_live _ _ IE). unfold has_edge_b. now destruct (get_edge (es s) e). }
  rewrite (Permutation_length P), app_length. unfold eids. rewrite !map_length.
  pose proof (filter_length' (fun x => live_e (es s) (a_eid x)) (fout (es s))) as FL.
  lia.
Qed.

(* no relationship dangles from a missing node *)
Theorem view_no_dangling e a b t p :
  lrels (abs s) e = Some (a, b, t, p) -> lnodes (abs s) a <> None /\ lnodes (abs s) b <> None.
Proof.
  cbn. intros G. destruct (get_edge_Some _ _ _ _ _ _ G) as [L [EP _]].
  destruct (proj2 (proj2 HI) e L) as [H1 H2]. rewrite EP in H1, H2. cbn in H1, H2.
  unfold live_n in H1, H2. split; intros X; rewrite X in *; discriminate.
Qed.

End Views.

(* ---------------------------------------------------------------- refinement *)
Lemma get_edge_ext s s' e :
  endp s' e = endp s e -> etype s' e = etype s e -> eprops s' e = eprops s e -> get_edge s' e = get_edge s e.
Proof. intros H1 H2 H3. unfold get_edge, live_e. now rewrite H1, H2, H3. Qed.

Lemma set_rem_notin l ls : ~ In l ls -> set_rem l ls = ls.
Proof.
  induction ls as [|x ls IH]; cbn; intros H; auto. destruct (N.eqb_spec x l) as [->|Hne]; cbn.
  - exfalso. apply H. auto.
  - f_equal. apply IH. auto.
Qed.

Lemma upd_id {A} (f : N -> A) k v x : f k = v -> upd f k v x = f x.
Proof. intros H. unfold upd. destruct (N.eqb_spec x k); congruence. Qed.

Lemma refines_create_node s hint ls ps cols n' id :
  create_node (ns s) hint ls ps cols = (n', id) ->
  forall n, nodes n' n = upd (nodes (ns s)) id (Some {| n_labels := dedup ls; n_props := pset_all ps [] |}) n.
Proof.
  unfold create_node. destruct (alloc _ _ _) as [[i fr] nx]. intros H; inversion H; subst. reflexivity.
Qed.

Lemma refines_delete_node s id nd e :
  Inv s -> nodes (ns s) id = Some nd ->
  get_edge (fold_left delete_edge_ignore
      (map a_eid (slice (fout (es s)) id ++ slice (bout (es s)) id ++ slice (fin (es s)) id ++ slice (bin (es s)) id))
      (es s)) e =
  if lg_incident (abs s) id e then None else get_edge (es s) e.
Proof.
  intros [IN [IE IX]] E. set (inc := map a_eid _).
  assert (HInc : lg_incident (abs s) id e = true -> In e inc).
  { unfold lg_incident. cbn [abs lrels]. destruct (get_edge (es s) e) as [[[[a b] t] p]|] eqn:G; [|discriminate].
    destruct (get_edge_Some _ _ _ _ _ _ G) as [L [EP _]]. intros H. apply incident_In; auto.
    rewrite EP. cbn. apply orb_true_iff in H as [H|H]; apply N.eqb_eq in H; auto. }
  destruct (in_dec N.eq_dec e inc) as [Hin|Hnin].
  - assert (D : get_edge (fold_left delete_edge_ignore inc (es s)) e = None).
    { unfold get_edge. now rewrite (fold_delete_dead _ _ _ IE Hin). }
    rewrite D. destruct (lg_incident (abs s) id e) eqn:LI; auto.
    unfold lg_incident in LI. cbn [abs lrels] in LI.
    destruct (get_edge (es s) e) as [[[[a b] t] p]|] eqn:G; auto. exfalso.
    destruct (get_edge_Some _ _ _ _ _ _ G) as [L [EP _]].
    apply in_map_iff in Hin as [x [Ex Hx]]. rewrite !in_app_iff, !in_slice in Hx. subst e.
    rewrite live_e_lv in L.
    assert (a = id \/ b = id).
    { destruct Hx as [[Hx Hn]|[[Hx Hn]|[[Hx Hn]|[Hx Hn]]]].
      - pose proof (adj_entry_endp _ _ _ _ _ _ _ (e_out _ IE) (in_or_app _ _ _ (or_introl Hx)) L) as Q.
        rewrite EP in Q. cbn in Q. inversion Q. left. congruence.
      - pose proof (adj_entry_endp _ _ _ _ _ _ _ (e_out _ IE) (in_or_app _ _ _ (or_intror Hx)) L) as Q.
        rewrite EP in Q. cbn in Q. inversion Q. left. congruence.
      - pose proof (adj_entry_endp _ _ _ _ _ _ _ (e_in _ IE) (in_or_app _ _ _ (or_introl Hx)) L) as Q.
        rewrite EP in Q. cbn in Q. inversion Q. right. congruence.
      - pose proof (adj_entry_endp _ _ _ _ _ _ _ (e_in _ IE) (in_or_app _ _ _ (or_intror Hx)) L) as Q.
        rewrite EP in Q. cbn in Q. inversion Q. right. congruence. }
    destruct H as [->| ->]; rewrite N.eqb_refl in LI; cbn in LI; try discriminate.
    rewrite orb_true_r in LI. discriminate.
  - destruct (fold_delete_other inc (es s) e Hnin) as [_ ->].
    destruct (lg_incident (abs s) id e) eqn:LI; auto. exfalso. auto.
Qed.

Lemma refines_create_edge s hint a b t ps stub :
  Inv s ->
  (forall n, nodes (ns (fst (create_edge s hint a b t ps stub))) n = nodes (ns s) n) /\
  match snd (create_edge s hint a b t ps stub) with
  | ROk id => forall x, get_edge (es (fst (create_edge s hint a b t ps stub))) x =
                        upd (get_edge (es s)) id (Some (a, b, t, pset_all ps [])) x
  | RErr _ => forall x, get_edge (es (fst (create_edge s hint a b t ps stub))) x = get_edge (es s) x
  end.
Proof.
  intros [IN [IE IX]]. unfold create_edge.
  destruct (live_n (ns s) a) eqn:La; cbn; [|auto].
  destruct (live_n (ns s) b) eqn:Lb; cbn; [|auto].
  destruct (add_edge (es s) hint a b t ps stub) as [es' id] eqn:A. cbn. split; auto.
  destruct (add_edge_fresh _ _ _ _ _ _ _ _ _ IE A) as [Hd _].
  destruct (e_dead _ IE _ Hd) as [_ [HP _]].
  pose proof (n_range _ IN _ La) as Ra.
  unfold add_edge in A. destruct (alloc _ _ _) as [[i fr] nx]. inversion A; subst. clear A.
  intros x. destruct (N.eq_dec x id) as [->|Hne].
  - rewrite upd_same. unfold get_edge, live_e; cbn. rewrite !upd_same. unfold zero2; cbn.
    destruct (N.eqb_spec a 0); [lia|]. cbn. destruct ps; [now rewrite HP | now rewrite upd_same].
  - rewrite upd_other by auto. apply get_edge_ext; cbn; rewrite ?upd_other by auto; auto.
    destruct ps; rewrite ?upd_other by auto; auto.
Qed.

Theorem refines s o : Inv s -> lg_equiv (abs (fst (step s o))) (lg_step (abs s) o (snd (step s o))).
Proof.
  intros I. pose proof I as [IN [IE IX]]. destruct o; cbn [step].
  - destruct (create_node (ns s) hint labels [] false) as [n' id] eqn:C. cbn.
    split; cbn; auto. intros n. now rewrite (refines_create_node _ _ _ _ _ _ _ C).
  - destruct (create_node (ns s) hint labels ps true) as [n' id] eqn:C. cbn.
    split; cbn; auto. intros n. now rewrite (refines_create_node _ _ _ _ _ _ _ C).
  - destruct (create_node (ns s) hint [label] [] false) as [n' id] eqn:C. cbn.
    split; cbn; auto. intros n. now rewrite (refines_create_node _ _ _ _ _ _ _ C).
  - unfold set_nprop. cbn. destruct (nodes (ns s) id) eqn:E; cbn; split; cbn; auto; now rewrite E.
  - unfold rem_nprop. cbn. destruct (nodes (ns s) id) eqn:E; cbn; split; cbn; auto; now rewrite E.
  - unfold add_label. cbn. destruct (nodes (ns s) id) eqn:E; cbn; split; cbn; auto; now rewrite E.
  - unfold rem_label. cbn. destruct (nodes (ns s) id) eqn:E; cbn; [|split; cbn; auto; now rewrite E].
    destruct (memN l (n_labels n)) eqn:M; cbn; split; cbn; auto; try rewrite E; cbn; auto.
    intros x. apply memN_false in M. rewrite (set_rem_notin _ _ M). symmetry. apply upd_id. rewrite E. now destruct n.
  - unfold delete_node. destruct (nodes (ns s) id) as [nd|] eqn:E; cbn; [|split; auto].
    split; cbn; auto. intros e. now apply refines_delete_node with (nd := nd).
  - destruct (refines_create_edge s hint a b t [] false I) as [H1 H2].
    destruct (snd (create_edge s hint a b t [] false)); split; cbn; auto.
  - destruct (refines_create_edge s hint a b t ps false I) as [H1 H2].
    destruct (snd (create_edge s hint a b t ps false)); split; cbn; auto.
  - destruct (refines_create_edge s hint a b t [] true I) as [H1 H2].
    destruct (snd (create_edge s hint a b t [] true)); split; cbn; auto.
  - unfold set_eprop. cbn. destruct (live_e (es s) e) eqn:L; cbn; [|split; auto].
    cbn [abs lrels lnodes]. destruct (get_edge (es s) e) as [[[[a b] t] p]|] eqn:G.
    + destruct (get_edge_Some _ _ _ _ _ _ G) as [_ [EP [T Pp]]]. split; cbn; auto. intros x.
      destruct (N.eq_dec x e) as [->|Hne].
      * rewrite upd_same. unfold get_edge at 1. unfold live_e in *; cbn. rewrite L, T, upd_same, EP, Pp. reflexivity.
      * rewrite upd_other by auto. apply get_edge_ext; cbn; auto. now rewrite upd_other.
    + split; cbn; auto. intros x. destruct (N.eq_dec x e) as [->|Hne].
      * rewrite G. unfold get_edge in *. unfold live_e in *; cbn. rewrite L in *. destruct (etype (es s) e); [discriminate | auto].
      * apply get_edge_ext; cbn; auto. now rewrite upd_other.
  - cbn. cbn [abs lrels lnodes]. destruct (get_edge (es s) e) as [[[[a b] t] p]|] eqn:G.
    + destruct (get_edge_Some _ _ _ _ _ _ G) as [L [EP [T Pp]]]. split; cbn; auto. intros x.
      destruct (N.eq_dec x e) as [->|Hne].
      * rewrite upd_same. unfold get_edge at 1. unfold rem_eprop. unfold live_e in *; cbn. rewrite L, T, upd_same, EP, Pp. reflexivity.
      * rewrite upd_other by auto. apply get_edge_ext; cbn; auto. destruct (live_e (es s) e); [now rewrite upd_other | auto].
    + split; cbn; auto. intros x. destruct (N.eq_dec x e) as [->|Hne].
      * rewrite G. unfold get_edge in *. unfold rem_eprop. unfold live_e in *; cbn.
        destruct (negb (zero2 (endp (es s) e))); auto. destruct (etype (es s) e); [discriminate | auto].
      * apply get_edge_ext; cbn; auto. destruct (live_e (es s) e); [now rewrite upd_other | auto].
  - unfold delete_edge. cbn. destruct (get_edge (es s) e) as [[[[a b] t] p]|] eqn:G; cbn; [|split; auto].
    split; cbn; auto. intros x. destruct (N.eq_dec x e) as [->|Hne].
    + rewrite upd_same. unfold get_edge, live_e; cbn. now rewrite upd_same.
    + rewrite upd_other by auto. apply get_edge_ext; cbn; now rewrite upd_other.
  - split; cbn; auto. intros x. apply get_edge_ext; unfold compact; destruct (bout (es s)), (bin (es s)); reflexivity.
  - split; cbn; auto. intros x. apply get_edge_ext; unfold finish_bulk, compact; destruct (bout (es s)), (bin (es s)); reflexivity.
Qed.

(* a freshly allocated id belonged to nobody: no node/relationship, empty column row,
   and no live relationship touches a fresh node id *)
Theorem fresh_node s hint ls ps cols n' id :
  Inv s -> create_node (ns s) hint ls ps cols = (n', id) ->
  lnodes (abs s) id = None /\ ncols (ns s) id = [] /\
  (forall e a b t p, lrels (abs s) e = Some (a, b, t, p) -> a <> id /\ b <> id).
Proof.
  intros [IN [IE IX]] C. destruct (create_node_fresh _ _ _ _ _ _ _ IN C) as [Hd _].
  split; [|split].
  - cbn. unfold live_n in Hd. destruct (nodes (ns s) id); [discriminate | auto].
  - now apply (n_cols _ IN).
  - cbn. intros e a b t p G. destruct (get_edge_Some _ _ _ _ _ _ G) as [L [EP _]].
    destruct (IX e L) as [H1 H2]. rewrite EP in H1, H2. cbn in H1, H2. split; congruence.
Qed.

Theorem fresh_edge s hint a b t ps stub es' id :
  Inv s -> add_edge (es s) hint a b t ps stub = (es', id) ->
  lrels (abs s) id = None /\ ecols (es s) id = [] /\ eprops (es s) id = None /\
  ~ In id (map a_eid (bout (es s) ++ bin (es s))).
Proof.
  intros [IN [IE IX]] A. destruct (add_edge_fresh _ _ _ _ _ _ _ _ _ IE A) as [Hd _].
  destruct (e_dead _ IE _ Hd) as [_ [H1 H2]]. repeat split; auto.
  - cbn. unfold get_edge. now rewrite Hd.
  - intros HI. apply in_map_iff in HI as [x [E Hx]]. apply in_app_or in Hx as [Hx|Hx].
    + destruct (a_buf _ _ _ _ _ _ (e_out _ IE) _ Hx) as [L _]. rewrite E in L. rewrite live_e_lv in Hd. congruence.
    + destruct (a_buf _ _ _ _ _ _ (e_in _ IE) _ Hx) as [L _]. rewrite E in L. rewrite live_e_lv in Hd. congruence.
Qed.

(* ---------------------------------------------------------------- sorted slices and the search as written *)
(* every write-buffer slice that has had no stub append since the last compaction, and every
   slice of every frozen segment, is sorted by neighbour id *)
Definition SortedInv (s : estate) : Prop :=
  (forall a, ~ In a (unsorted s) -> SortedN (slice (bout s) a)) /\
  (forall seg a, In seg (fsegs_out s) -> SortedN (slice seg a)).

Lemma slice_ins_sorted x l n :
  slice (ins_sorted x l) n = if N.eqb n (a_node x) then ins_lb x (slice l n) else slice l n.
Proof.
  induction l as [|y l IH]; cbn [ins_sorted].
  - cbn. rewrite (N.eqb_sym (a_node x) n). destruct (N.eqb n (a_node x)); reflexivity.
  - destruct (N.eqb_spec (a_node y) (a_node x)) as [E|E]; cbn [andb].
    + destruct (N.leb (a_nbr x) (a_nbr y)) eqn:C.
      * cbn [slice filter]. rewrite E. rewrite (N.eqb_sym (a_node x) n).
        destruct (N.eqb n (a_node x)); [|reflexivity]. cbn [ins_lb]. now rewrite C.
      * cbn [slice filter]. fold (slice (ins_sorted x l) n). fold (slice l n). rewrite IH, E.
        rewrite (N.eqb_sym (a_node x) n). destruct (N.eqb n (a_node x)); [|reflexivity].
        cbn [ins_lb]. now rewrite C.
    + cbn [slice filter]. fold (slice (ins_sorted x l) n). fold (slice l n). rewrite IH.
      destruct (N.eqb_spec (a_node y) n) as [E2|E2]; [|reflexivity].
      destruct (N.eqb_spec n (a_node x)); [congruence | reflexivity].
Qed.

Lemma slice_snoc l x n : slice (l ++ [x]) n = slice l n ++ (if N.eqb (a_node x) n then [x] else []).
Proof. unfold slice. rewrite filter_app. cbn. now destruct (N.eqb (a_node x) n). Qed.

Lemma slice_filter p l n : slice (filter p l) n = filter p (slice l n).
Proof.
  unfold slice. induction l as [|y l IH]; cbn; auto.
  destruct (p y) eqn:P, (N.eqb (a_node y) n) eqn:E; cbn; rewrite ?P, ?E, IH; auto.
Qed.

Lemma SortedInv_init : SortedInv (es init).
Proof. split; [intros a _; constructor | intros seg a []]. Qed.

Lemma SortedInv_add s hint a b t ps stub s' id :
  SortedInv s -> add_edge s hint a b t ps stub = (s', id) -> SortedInv s'.
Proof.
  intros [S1 S2] A. unfold add_edge in A. destruct (alloc _ _ _) as [[i fr] nx]. inversion A; subst; clear A.
  split; [|cbn; auto]. cbn [bout unsorted]. intros n Hn. unfold buf_add. destruct stub.
  - assert (n <> a /\ ~ In n (unsorted s)) as [Hne Hn'].
    { split; intros X; apply Hn; apply set_add_In; auto. }
    rewrite slice_snoc. cbn. destruct (N.eqb_spec a n); [congruence|]. rewrite app_nil_r. auto.
  - rewrite slice_ins_sorted. cbn. destruct (N.eqb n a); auto. apply ins_lb_sorted. auto.
Qed.

Lemma SortedInv_delete s e : SortedInv s -> SortedInv (fst (delete_edge s e)).
Proof.
  intros [S1 S2]. unfold delete_edge. destruct (get_edge s e) as [[[[a b] t] p]|]; cbn; [|split; auto].
  split; [|cbn; auto]. cbn [fst bout unsorted]. intros n Hn. rewrite slice_filter. apply SortedN_filter. auto.
Qed.

Lemma SortedInv_compact s : SortedInv s -> SortedInv (compact s).
Proof.
  intros [S1 S2]. unfold compact.
  assert (G : forall seg a, In seg (fsegs_out s ++ [sort_nbr (bout s)]) -> SortedN (slice seg a)).
  { intros seg a H. apply in_app_or in H as [H|[<-|[]]]; auto. apply SortedN_filter, sort_nbr_sorted. }
  destruct (bout s) eqn:B1; destruct (bin s) eqn:B2; split; cbn; auto; intros; constructor.
Qed.

Lemma SortedInv_finish s : SortedInv s -> SortedInv (finish_bulk s).
Proof. intros H. apply SortedInv_compact in H. destruct H. split; cbn; auto. Qed.

Lemma SortedInv_fold l s : SortedInv s -> SortedInv (fold_left delete_edge_ignore l s).
Proof. revert s. induction l; cbn; intros s H; auto. apply IHl. now apply SortedInv_delete. Qed.

Lemma SortedInv_step s o : SortedInv (es s) -> SortedInv (es (fst (step s o))).
Proof.
  intros H. destruct o; cbn [step].
  - destruct (create_node _ _ _ _ _); cbn; auto.
  - destruct (create_node _ _ _ _ _); cbn; auto.
  - destruct (create_node _ _ _ _ _); cbn; auto.
  - cbn; auto. - cbn; auto. - cbn; auto. - cbn; auto.
  - unfold delete_node. destruct (nodes (ns s) id); cbn; auto. now apply SortedInv_fold.
  - unfold create_edge. destruct (live_n (ns s) a); cbn; auto. destruct (live_n (ns s) b); cbn; auto.
    destruct (add_edge (es s) hint a b t [] false) eqn:A. cbn. eapply SortedInv_add; eauto.
  - unfold create_edge. destruct (live_n (ns s) a); cbn; auto. destruct (live_n (ns s) b); cbn; auto.
    destruct (add_edge (es s) hint a b t ps false) eqn:A. cbn. eapply SortedInv_add; eauto.
  - unfold create_edge. destruct (live_n (ns s) a); cbn; auto. destruct (live_n (ns s) b); cbn; auto.
    destruct (add_edge (es s) hint a b t [] true) eqn:A. cbn. eapply SortedInv_add; eauto.
  - cbn. unfold set_eprop. destruct (live_e (es s) e); cbn; auto.
  - cbn. exact H.
  - cbn. now apply SortedInv_delete.
  - cbn. now apply SortedInv_compact.
  - cbn. now apply SortedInv_finish.
Qed.

Lemma SortedInv_run ops : SortedInv (es (run ops)).
Proof.
  unfold run. assert (G : forall s, SortedInv (es s) -> SortedInv (es (fold_left (fun s o => fst (step s o)) ops s))).
  { induction ops; cbn; intros s I; auto. apply IHops. now apply SortedInv_step. }
  apply G, SortedInv_init.
Qed.

(* search_adjacency_slice on a sorted slice = the specification on that slice *)
Lemma flat_map_key_filter {B} (f : aent -> list B) key l :
  flat_map (fun x => if N.eqb (a_nbr x) key then f x else []) l = flat_map f (filter (key_is key) l).
Proof.
  induction l as [|x l IH]; cbn; auto. unfold key_is at 1. destruct (N.eqb (a_nbr x) key); cbn; now rewrite IH.
Qed.

Lemma search_slice_sorted s entries a b ty : SortedN entries ->
  search_slice s entries a b ty =
  Some (flat_map (fun x => if N.eqb (a_nbr x) b then match_entry s a b ty x else []) entries).
Proof. intros H. unfold search_slice. rewrite (search_run_sorted _ _ H). now rewrite flat_map_key_filter. Qed.

Lemma search_slice_fuel s entries a b ty : search_slice s entries a b ty <> None.
Proof.
  unfold search_slice. pose proof (search_run_fuel entries b). destruct (search_run entries b); congruence.
Qed.

Theorem edges_between_as_written s a b ty :
  SortedInv (es s) -> ~ In a (unsorted (es s)) ->
  edges_between s a b ty = Some (edges_between_spec s a b ty).
Proof.
  intros [S1 S2] Hn. unfold edges_between, edges_between_spec, adj_out, fout.
  set (G := fun x => if N.eqb (a_nbr x) b then match_entry (es s) a b ty x else []).
  rewrite flat_map_app. rewrite (search_slice_sorted _ _ _ _ _ (S1 a Hn)). fold G.
  generalize (flat_map G (slice (bout (es s)) a)) as tail. intros tail.
  induction (fsegs_out (es s)) as [|seg segs IH]; [cbn; now rewrite app_nil_r|].
  cbn [map app concat_opt concat]. rewrite (search_slice_sorted _ _ _ _ _ (S2 seg a (or_introl eq_refl))). fold G.
  rewrite IH by (intros; apply S2; now right). rewrite <- slice_app, flat_map_app. now rewrite app_assoc.
Qed.

(* never out of fuel, whatever the order of the slices *)
Theorem edges_between_fuel s a b ty : edges_between s a b ty <> None.
Proof.
  unfold edges_between.
  generalize (search_slice_fuel (es s) (slice (bout (es s)) a) a b ty).
  destruct (search_slice (es s) (slice (bout (es s)) a) a b ty) as [tl|]; [intros _ | congruence].
  induction (fsegs_out (es s)) as [|seg segs IH]; cbn; [congruence|].
  pose proof (search_slice_fuel (es s) (slice seg a) a b ty).
  destruct (search_slice (es s) (slice seg a) a b ty); [|congruence].
  destruct (concat_opt _); congruence.
Qed.
