(* Proofs about the GraphStore model (C06): the agreement invariant between the redundant
   representations, its preservation by every operation, the refinement to the logical
   graph, and one lemma per read view. *)
From Coq Require Import List NArith Bool Lia Permutation ZArith ZifyBool ZifyNat ZifyN.
From Verif Require Import CheckLib GraphStore.
Import ListNotations.
Open Scope N_scope.

Arguments N.add : simpl never.
Arguments N.sub : simpl never.
Arguments N.mul : simpl never.
Arguments N.eqb : simpl never.
Arguments N.ltb : simpl never.
Arguments N.leb : simpl never.
Arguments N.of_nat : simpl never.
Arguments N.to_nat : simpl never.

(* ---------------------------------------------------------------- basics *)
Lemma upd_same {A} (f : N -> A) k v : upd f k v k = v.
Proof. unfold upd. now rewrite N.eqb_refl. Qed.
Lemma upd_other {A} (f : N -> A) k v x : x <> k -> upd f k v x = f x.
Proof. intros H. unfold upd. destruct (N.eqb_spec x k); congruence. Qed.

Lemma memN_In x l : memN x l = true <-> In x l.
Proof.
  unfold memN. rewrite existsb_exists. split.
  - intros [y [Hy E]]. apply N.eqb_eq in E. now subst.
  - intros H. exists x. split; auto. apply N.eqb_refl.
Qed.
Lemma memN_false x l : memN x l = false <-> ~ In x l.
Proof. rewrite <- memN_In. destruct (memN x l); split; congruence. Qed.

Lemma pair_eqb_eq a b : pair_eqb a b = true <-> a = b.
Proof.
  unfold pair_eqb. destruct a, b; cbn. rewrite andb_true_iff, !N.eqb_eq.
  split; [intros [-> ->]; auto | intros E; inversion E; auto].
Qed.
Lemma memP_In x l : memP x l = true <-> In x l.
Proof.
  unfold memP. rewrite existsb_exists. split.
  - intros [y [Hy E]]. apply pair_eqb_eq in E. now subst.
  - intros H. exists x. split; auto. now apply pair_eqb_eq.
Qed.

Lemma set_add_In x y l : In y (set_add x l) <-> y = x \/ In y l.
Proof.
  unfold set_add. destruct (memN x l) eqn:E; cbn.
  - apply memN_In in E. split; [auto | intros [->|]; auto].
  - split; [intros [->|]; auto | intros [->|]; auto].
Qed.
Lemma set_add_NoDup x l : NoDup l -> NoDup (set_add x l).
Proof.
  intros H. unfold set_add. destruct (memN x l) eqn:E; auto.
  constructor; auto. now apply memN_false.
Qed.
Lemma set_rem_In x y l : In y (set_rem x l) <-> In y l /\ y <> x.
Proof.
  unfold set_rem. rewrite filter_In. rewrite negb_true_iff, N.eqb_neq. tauto.
Qed.
Lemma set_rem_NoDup x l : NoDup l -> NoDup (set_rem x l).
Proof. apply NoDup_filter. Qed.
Lemma dedup_In y l : In y (dedup l) <-> In y l.
Proof.
  induction l as [|x l IH]; cbn; [tauto|]. rewrite set_add_In, IH. intuition.
Qed.
Lemma dedup_NoDup l : NoDup (dedup l).
Proof. induction l; cbn; [constructor | now apply set_add_NoDup]. Qed.

Lemma pset_add_In x y l : In y (pset_add x l) <-> y = x \/ In y l.
Proof.
  unfold pset_add. destruct (memP x l) eqn:E; cbn.
  - apply memP_In in E. split; [auto | intros [->|]; auto].
  - split; [intros [->|]; auto | intros [->|]; auto].
Qed.
Lemma pset_add_NoDup x l : NoDup l -> NoDup (pset_add x l).
Proof.
  intros H. unfold pset_add. destruct (memP x l) eqn:E; auto.
  constructor; auto. intros HI. apply memP_In in HI. congruence.
Qed.
Lemma pset_rem_In x y l : In y (pset_rem x l) <-> In y l /\ y <> x.
Proof.
  unfold pset_rem. rewrite filter_In, negb_true_iff.
  split; intros [H1 H2]; split; auto.
  - intros ->. assert (pair_eqb x x = true) by now apply pair_eqb_eq. congruence.
  - destruct (pair_eqb y x) eqn:E; auto. apply pair_eqb_eq in E. contradiction.
Qed.
Lemma pset_rem_NoDup x l : NoDup l -> NoDup (pset_rem x l).
Proof. apply NoDup_filter. Qed.

Lemma range_from_In x s k : In x (range_from s k) <-> s <= x < s + N.of_nat k.
Proof.
  revert s. induction k as [|k IH]; intros s; cbn [range_from In].
  - lia.
  - rewrite IH. lia.
Qed.
Lemma range_In x n : In x (range n) <-> x < n.
Proof. unfold range. rewrite range_from_In. lia. Qed.
Lemma range_from_NoDup s k : NoDup (range_from s k).
Proof.
  revert s. induction k as [|k IH]; intros s; cbn; constructor; auto.
  rewrite range_from_In. lia.
Qed.
Lemma range_NoDup n : NoDup (range n).
Proof. apply range_from_NoDup. Qed.

Lemma NoDup_map_filter {A B} (f : A -> B) p l : NoDup (map f l) -> NoDup (map f (filter p l)).
Proof.
  induction l as [|x l IH]; cbn; auto. intros H. inversion H as [|? ? Hn Hd]; subst.
  destruct (p x); cbn; auto. constructor; auto.
  intros HI. apply Hn. apply in_map_iff in HI as [y [E Hy]]. apply filter_In in Hy as [Hy _].
  rewrite <- E. now apply in_map.
Qed.

Lemma NoDup_app_l {A} (l1 l2 : list A) : NoDup (l1 ++ l2) -> NoDup l1.
Proof. induction l1; cbn; intros H; [constructor|]. inversion H; subst. constructor; auto.
  intros HI. apply H2. apply in_or_app. auto. Qed.
Lemma NoDup_app_r {A} (l1 l2 : list A) : NoDup (l1 ++ l2) -> NoDup l2.
Proof. induction l1; cbn; intros H; auto. inversion H; auto. Qed.
Lemma NoDup_app_disj {A} (l1 l2 : list A) x : NoDup (l1 ++ l2) -> In x l1 -> In x l2 -> False.
Proof.
  induction l1; cbn; intros H H1 H2; auto. inversion H; subst. destruct H1 as [->|H1]; auto.
  apply H4. apply in_or_app. auto.
Qed.
Lemma NoDup_app_intro {A} (l1 l2 : list A) :
  NoDup l1 -> NoDup l2 -> (forall x, In x l1 -> In x l2 -> False) -> NoDup (l1 ++ l2).
Proof.
  induction l1; cbn; intros H1 H2 H; auto. inversion H1; subst. constructor.
  - intros HI. apply in_app_or in HI as [HI|HI]; eauto.
  - apply IHl1; eauto.
Qed.

Lemma flat_map_select {A B} (p : A -> bool) (f : A -> B) l :
  flat_map (fun x => if p x then [f x] else []) l = map f (filter p l).
Proof. induction l as [|x l IH]; cbn; auto. destruct (p x); cbn; now rewrite IH. Qed.

Lemma length_filter_le {A} (p : A -> bool) l : (length (filter p l) <= length l)%nat.
Proof. induction l; cbn; auto. destruct (p a); cbn; lia. Qed.
Lemma length_filter_lt {A} (p : A -> bool) l :
  (length (filter p l) < length l)%nat <-> exists x, In x l /\ p x = false.
Proof.
  induction l as [|a l IH]; cbn; [split; [lia | intros [? [[] _]]]|].
  pose proof (length_filter_le p l). destruct (p a) eqn:E; cbn.
  - rewrite <- Nat.succ_lt_mono, IH. split; intros [x [H1 H2]]; exists x; split; auto.
    destruct H1 as [->|]; auto. congruence.
  - split; [intros _; exists a; auto | lia].
Qed.

(* ---------------------------------------------------------------- allocation *)
Lemma alloc_spec free next hint id fr nx :
  alloc free next hint = (id, fr, nx) -> NoDup free ->
  (In id free /\ nx = next /\ NoDup fr /\ (forall x, In x fr <-> In x free /\ x <> id)) \/
  (free = [] /\ id = next /\ fr = [] /\ nx = next + 1).
Proof.
  unfold alloc. intros H ND. destruct (memN hint free) eqn:E.
  - inversion H; subst. left. apply memN_In in E. split; [auto|]. split; [auto|]. split.
    + now apply set_rem_NoDup.
    + intros x. apply set_rem_In.
  - destruct free as [|y r]; inversion H; subst; [right; auto|]. left.
    inversion ND; subst. split; [cbn; auto|]. split; [auto|]. split; [auto|].
    intros x. cbn. split.
    + intros Hx. split; auto. intros ->. contradiction.
    + intros [[->|?] ?]; congruence.
Qed.

(* ---------------------------------------------------------------- node invariant *)
Record InvN (s : nstate) : Prop := {
  n_pos : 0 < next_node s;
  n_range : forall n, live_n s n = true -> 0 < n < next_node s;
  n_free : forall n, In n (free_nodes s) -> live_n s n = false /\ 0 < n < next_node s;
  n_free_nd : NoDup (free_nodes s);
  n_cols : forall n, live_n s n = false -> ncols s n = [];
  n_lidx_nd : NoDup (lidx s);
  n_lidx : forall l n, In (l, n) (lidx s) <-> exists nd, nodes s n = Some nd /\ In l (n_labels nd);
  n_lab_nd : forall n nd, nodes s n = Some nd -> NoDup (n_labels nd)
}.

Lemma live_n_upd s id v n :
  (match upd (nodes s) id v n with Some _ => true | None => false end) =
  if N.eqb n id then (match v with Some _ => true | None => false end) else live_n s n.
Proof. unfold upd, live_n. destruct (N.eqb n id); auto. Qed.

Lemma fold_pset_add_In (ls : list N) id acc p :
  In p (fold_left (fun a l => pset_add (l, id) a) ls acc) <-> In p acc \/ exists l, In l ls /\ p = (l, id).
Proof.
  revert acc. induction ls as [|l ls IH]; intros acc; cbn.
  - split; [auto | intros [?|[? [[] _]]]; auto].
  - rewrite IH, pset_add_In. split.
    + intros [[->|?]|[l' [? ?]]]; eauto.
    + intros [?|[l' [[->|?] ->]]]; eauto.
Qed.
Lemma fold_pset_add_NoDup (ls : list N) id acc :
  NoDup acc -> NoDup (fold_left (fun a l => pset_add (l, id) a) ls acc).
Proof. revert acc. induction ls; cbn; intros; auto. apply IHls. now apply pset_add_NoDup. Qed.
Lemma fold_pset_rem_In (ls : list N) id acc p :
  In p (fold_left (fun a l => pset_rem (l, id) a) ls acc) <-> In p acc /\ ~ exists l, In l ls /\ p = (l, id).
Proof.
  revert acc. induction ls as [|l ls IH]; intros acc; cbn.
  - split; [intros; split; auto; intros [? [[] _]] | tauto].
  - rewrite IH, pset_rem_In. split.
    + intros [[H1 H2] H3]. split; auto. intros [l' [[->|?] ->]]; eauto.
    + intros [H1 H2]. repeat split; auto. * intros ->. apply H2. eauto. * intros [l' [? ->]]. apply H2; eauto.
Qed.
Lemma fold_pset_rem_NoDup (ls : list N) id acc :
  NoDup acc -> NoDup (fold_left (fun a l => pset_rem (l, id) a) ls acc).
Proof. revert acc. induction ls; cbn; intros; auto. apply IHls. now apply pset_rem_NoDup. Qed.

Lemma InvN_init : InvN (ns init).
Proof.
  constructor; unfold live_n; cbn.
  - lia.
  - intros n H; discriminate.
  - intros n [].
  - constructor.
  - reflexivity.
  - constructor.
  - intros l n. split; [intros [] | intros [nd [H _]]; discriminate].
  - intros n nd H; discriminate.
Qed.

Lemma create_node_fresh s hint ls ps cols s' id :
  InvN s -> create_node s hint ls ps cols = (s', id) ->
  live_n s id = false /\ 0 < id /\ id < next_node s' /\ next_node s <= next_node s'.
Proof.
  intros I H. unfold create_node in H.
  destruct (alloc (free_nodes s) (next_node s) hint) as [[i fr] nx] eqn:A. inversion H; subst; clear H.
  cbn. destruct (alloc_spec _ _ _ _ _ _ A (n_free_nd _ I)) as [[Hin [-> _]]|[_ [-> [_ ->]]]].
  - destruct (n_free _ I _ Hin). repeat split; auto; lia.
  - pose proof (n_pos _ I). repeat split; try lia.
    destruct (live_n s (next_node s)) eqn:E; auto. apply (n_range _ I) in E. lia.
Qed.

Lemma InvN_create s hint ls ps cols s' id :
  InvN s -> create_node s hint ls ps cols = (s', id) -> InvN s'.
Proof.
  intros I H. destruct (create_node_fresh _ _ _ _ _ _ _ I H) as [Hd [Hp [Hlt Hle]]].
  unfold create_node in H.
  destruct (alloc (free_nodes s) (next_node s) hint) as [[i fr] nx] eqn:A. inversion H; subst; clear H.
  cbn in Hlt, Hle.
  assert (Hfr : NoDup fr /\ forall x, In x fr -> In x (free_nodes s) /\ x <> id).
  { destruct (alloc_spec _ _ _ _ _ _ A (n_free_nd _ I)) as [[_ [_ [ND Hx]]]|[_ [_ [-> _]]]].
    - split; auto. intros x Hx'. now apply Hx. - split; [constructor | intros ? []]. }
  destruct Hfr as [FN FI].
  constructor; cbn.
  - lia.
  - intros n. unfold live_n; cbn. rewrite live_n_upd. destruct (N.eqb_spec n id); [subst; lia|].
    intros E. apply (n_range _ I) in E. lia.
  - intros n Hn. apply FI in Hn as [Hn Hne]. destruct (n_free _ I _ Hn) as [H1 H2].
    unfold live_n; cbn. rewrite live_n_upd. destruct (N.eqb_spec n id); [contradiction|]. split; auto. lia.
  - auto.
  - intros n. unfold live_n; cbn. rewrite live_n_upd. destruct (N.eqb_spec n id); [discriminate|].
    intros E. destruct cols; [rewrite upd_other by auto|]; now apply (n_cols _ I).
  - apply fold_pset_add_NoDup, (n_lidx_nd _ I).
  - intros l n. rewrite fold_pset_add_In, (n_lidx _ I). unfold upd. destruct (N.eqb_spec n id).
    + subst. split.
      * intros [[nd [H _]]|[l' [Hl E]]]; [unfold live_n in Hd; rewrite H in Hd; discriminate|].
        inversion E; subst. eexists; split; [reflexivity | cbn; auto].
      * intros [nd [E Hl]]. inversion E; subst. cbn in Hl. right. eauto.
    + split; [intros [?|[l' [_ E]]]; auto; inversion E; congruence | auto].
  - intros n nd. unfold upd. destruct (N.eqb_spec n id).
    + intros E. inversion E; subst. cbn. apply dedup_NoDup.
    + apply (n_lab_nd _ I).
Qed.

(* an update of a live node that keeps it live and changes labels consistently *)
Lemma InvN_update s id nd nd' cols' lidx' :
  InvN s -> nodes s id = Some nd ->
  NoDup (n_labels nd') ->
  NoDup lidx' ->
  (forall l n, In (l, n) lidx' <-> (n <> id /\ In (l, n) (lidx s)) \/ (n = id /\ In l (n_labels nd'))) ->
  (forall n, n <> id -> cols' n = ncols s n) ->
  InvN {| nodes := upd (nodes s) id (Some nd'); ncols := cols'; next_node := next_node s;
          free_nodes := free_nodes s; lidx := lidx' |}.
Proof.
  intros I Hn ND NDl HL HC.
  assert (Hlive : live_n s id = true) by (unfold live_n; now rewrite Hn).
  assert (LV : forall n, live_n {| nodes := upd (nodes s) id (Some nd'); ncols := cols'; next_node := next_node s;
          free_nodes := free_nodes s; lidx := lidx' |} n = live_n s n).
  { intros n. unfold live_n; cbn. unfold upd. destruct (N.eqb_spec n id); auto. subst. now rewrite Hn. }
  constructor; cbn; try apply I; auto.
  - intros n. rewrite LV. apply I.
  - intros n Hf. rewrite LV. now apply I.
  - intros n. rewrite LV. intros E. rewrite HC by congruence. now apply I.
  - intros l n. rewrite HL. unfold upd. destruct (N.eqb_spec n id).
    + subst. split.
      * intros [[? _]|[_ ?]]; [congruence|]. eauto.
      * intros [x [E Hx]]. inversion E; subst. auto.
    + rewrite (n_lidx _ I). split; [intros [[_ ?]|[? _]]; auto; congruence | auto].
  - intros n x. unfold upd. destruct (N.eqb_spec n id).
    + intros E; inversion E; subst; auto.
    + apply I.
Qed.

Lemma InvN_set_nprop s id k v : InvN s -> InvN (fst (set_nprop s id k v)).
Proof.
  intros I. unfold set_nprop. destruct (nodes s id) as [nd|] eqn:E; cbn; auto.
  eapply InvN_update; eauto; cbn.
  - eapply n_lab_nd; eauto.
  - apply I.
  - intros l n. rewrite (n_lidx _ I). destruct (N.eq_dec n id) as [->|]; [|tauto].
    split; [intros [x [Hx Hl]]; right; split; auto; congruence | intros [[? _]|[_ ?]]; [congruence | eauto]].
  - intros n Hne. now rewrite upd_other.
Qed.

Lemma InvN_rem_nprop s id k : InvN s -> InvN (rem_nprop s id k).
Proof.
  intros I. unfold rem_nprop. destruct (nodes s id) as [nd|] eqn:E.
  - eapply InvN_update; eauto; cbn.
    + eapply n_lab_nd; eauto.
    + apply I.
    + intros l n. rewrite (n_lidx _ I). destruct (N.eq_dec n id) as [->|]; [|tauto].
      split; [intros [x [Hx Hl]]; right; split; auto; congruence | intros [[? _]|[_ ?]]; [congruence | eauto]].
    + intros n Hne. now rewrite upd_other.
  - assert (LV : forall n, live_n {| nodes := nodes s; ncols := upd (ncols s) id (prem k (ncols s id));
       next_node := next_node s; free_nodes := free_nodes s; lidx := lidx s |} n = live_n s n) by reflexivity.
    constructor; cbn; try apply I.
    intros n. rewrite LV. intros Hd. unfold upd. destruct (N.eqb_spec n id).
    + subst. now rewrite (n_cols _ I _ Hd).
    + now apply I.
Qed.

Lemma InvN_add_label s id l : InvN s -> InvN (fst (add_label s id l)).
Proof.
  intros I. unfold add_label. destruct (nodes s id) as [nd|] eqn:E; cbn; auto.
  eapply InvN_update; eauto; cbn.
  - apply set_add_NoDup. eapply n_lab_nd; eauto.
  - apply pset_add_NoDup, I.
  - intros l' n. rewrite pset_add_In, set_add_In, (n_lidx _ I). split.
    + intros [H|[x [Hx Hl]]]; [inversion H; subst; auto|].
      destruct (N.eq_dec n id) as [->|]; [right | left; split; eauto]. split; auto. right. congruence.
    + intros [[Hne H]|[-> [->|H]]]; auto. right. eauto.
Qed.

Lemma InvN_rem_label s id l : InvN s -> InvN (fst (rem_label s id l)).
Proof.
  intros I. unfold rem_label. destruct (nodes s id) as [nd|] eqn:E; cbn; auto.
  destruct (memN l (n_labels nd)) eqn:M; cbn; auto.
  eapply InvN_update; eauto; cbn.
  - apply set_rem_NoDup. eapply n_lab_nd; eauto.
  - apply pset_rem_NoDup, I.
  - intros l' n. rewrite pset_rem_In, set_rem_In, (n_lidx _ I). split.
    + intros [[x [Hx Hl]] Hne]. destruct (N.eq_dec n id) as [->|]; [right | left; split; eauto].
      split; auto. split; [congruence|]. intros ->. now apply Hne.
    + intros [[Hne H]|[-> [H Hne]]]; (split; [|intros X; inversion X; congruence]); eauto.
Qed.

Lemma InvN_drop s id nd : InvN s -> nodes s id = Some nd -> InvN (drop_node s id nd).
Proof.
  intros I E.
  assert (Hlive : live_n s id = true) by (unfold live_n; now rewrite E).
  assert (LV : forall n, live_n (drop_node s id nd) n = if N.eqb n id then false else live_n s n).
  { intros n. unfold live_n, drop_node; cbn. unfold upd. destruct (N.eqb n id); auto. }
  constructor; cbn.
  - apply I.
  - intros n. rewrite LV. destruct (N.eqb_spec n id); [discriminate|]. apply I.
  - intros n [->|Hf]; rewrite LV.
    + rewrite N.eqb_refl. split; auto. now apply (n_range _ I).
    + destruct (n_free _ I _ Hf) as [H1 H2]. destruct (N.eqb n id); split; auto.
  - constructor; [|apply I]. intros Hf. apply (n_free _ I) in Hf as [Hf _]. congruence.
  - intros n. rewrite LV. unfold upd. destruct (N.eqb_spec n id); auto. now apply I.
  - apply fold_pset_rem_NoDup, I.
  - intros l n. rewrite fold_pset_rem_In, (n_lidx _ I). unfold upd. destruct (N.eqb_spec n id).
    + subst. split; [|intros [? [? _]]; discriminate].
      intros [[x [Hx Hl]] Hno]. exfalso. apply Hno. exists l. split; auto. congruence.
    + split; [tauto|]. intros H. split; auto. intros [l' [_ X]]. inversion X; congruence.
  - intros n x. unfold upd. destruct (N.eqb_spec n id); [discriminate|]. apply I.
Qed.

(* ---------------------------------------------------------------- edge invariant *)
Definition eids (l : list aent) : list N := map a_eid l.
Definition lv (ep : N -> N * N) (e : N) : bool := negb (zero2 (ep e)).
Definition ent_pair (sw : bool) (x : aent) : N * N :=
  if sw then (a_nbr x, a_node x) else (a_node x, a_nbr x).
Definition mk_ent (sw : bool) (p : N * N) (e : N) : aent :=
  if sw then {| a_node := snd p; a_nbr := fst p; a_eid := e |}
  else {| a_node := fst p; a_nbr := snd p; a_eid := e |}.

(* one direction of the two-tier adjacency; [sw] = incoming *)
Record AdjInv (ep : N -> N * N) (nx : N) (fr : list N) (sw : bool) (fro buf : list aent) : Prop := {
  a_nd : NoDup (eids (fro ++ buf));
  a_buf : forall x, In x buf -> lv ep (a_eid x) = true /\ ep (a_eid x) = ent_pair sw x;
  a_fro : forall x, In x fro -> 0 < a_eid x < nx /\ ~ In (a_eid x) fr /\
            (lv ep (a_eid x) = true -> ep (a_eid x) = ent_pair sw x);
  a_all : forall e, lv ep e = true -> In (mk_ent sw (ep e) e) (fro ++ buf)
}.

Record InvE (s : estate) : Prop := {
  e_pos : 0 < next_edge s;
  e_range : forall e, live_e s e = true -> 0 < e < next_edge s /\ ~ In e (free_edges s);
  e_free : forall e, In e (free_edges s) -> 0 < e < next_edge s;
  e_free_nd : NoDup (free_edges s);
  e_dead : forall e, live_e s e = false -> etype s e = None /\ eprops s e = None /\ ecols s e = [];
  e_type : forall e, live_e s e = true -> exists t, etype s e = Some t /\ In t (interned s);
  e_tidx_nd : NoDup (tidx s);
  e_tidx : forall t e, In (t, e) (tidx s) -> live_e s e = true /\ etype s e = Some t;
  e_tidx_c : tstale s = false ->
             forall t e, live_e s e = true -> etype s e = Some t -> In (t, e) (tidx s);
  e_out : AdjInv (endp s) (next_edge s) (free_edges s) false (fout s) (bout s);
  e_in : AdjInv (endp s) (next_edge s) (free_edges s) true (fin s) (bin s);
  e_tiers : forall e, In e (eids (bout s)) <-> In e (eids (bin s));
  e_fdead : fdead s = N.of_nat (length (filter (fun x => negb (live_e s (a_eid x))) (fout s)))
}.

Lemma live_e_lv s e : live_e s e = lv (endp s) e.
Proof. reflexivity. Qed.

Lemma lv_upd_same ep e p : lv (upd ep e p) e = negb (zero2 p).
Proof. unfold lv. now rewrite upd_same. Qed.
Lemma lv_upd_other ep e p x : x <> e -> lv (upd ep e p) x = lv ep x.
Proof. intros H. unfold lv. now rewrite upd_other. Qed.

Lemma mk_ent_eid sw p e : a_eid (mk_ent sw p e) = e.
Proof. destruct sw; reflexivity. Qed.
Lemma ent_pair_mk sw p e : ent_pair sw (mk_ent sw p e) = p.
Proof. destruct sw, p; reflexivity. Qed.
Lemma mk_ent_pair sw x : mk_ent sw (ent_pair sw x) (a_eid x) = x.
Proof. destruct sw, x; reflexivity. Qed.

Lemma eids_app l1 l2 : eids (l1 ++ l2) = eids l1 ++ eids l2.
Proof. apply map_app. Qed.
Lemma In_eids x l : In x l -> In (a_eid x) (eids l).
Proof. apply in_map. Qed.

Lemma AdjInv_init sw : AdjInv (fun _ => (0, 0)) 1 [] sw [] [].
Proof. constructor; cbn; try constructor; try (intros ? []). intros e He. discriminate. Qed.

Lemma AdjInv_add ep nx fr sw fro buf id a b nx' fr' :
  AdjInv ep nx fr sw fro buf ->
  lv ep id = false -> (In id fr \/ nx <= id) -> zero2 (a, b) = false ->
  nx <= nx' -> id < nx' ->
  (forall x, In x fr' -> In x fr /\ x <> id) ->
  AdjInv (upd ep id (a, b)) nx' fr' sw fro (mk_ent sw (a, b) id :: buf).
Proof.
  intros I Hd Hid Hz Hle Hlt Hfr.
  assert (Hnf : ~ In id (eids fro)).
  { intros HI. apply in_map_iff in HI as [x [E Hx]]. destruct (a_fro _ _ _ _ _ _ I _ Hx) as [H1 [H2 _]].
    rewrite E in *. destruct Hid; [contradiction | lia]. }
  assert (Hnb : ~ In id (eids buf)).
  { intros HI. apply in_map_iff in HI as [x [E Hx]]. destruct (a_buf _ _ _ _ _ _ I _ Hx) as [H1 _].
    rewrite E in *. congruence. }
  constructor.
  - rewrite eids_app. cbn [eids map]. rewrite mk_ent_eid.
    pose proof (a_nd _ _ _ _ _ _ I) as ND. rewrite eids_app in ND.
    apply NoDup_app_intro.
    + eapply NoDup_app_l; eauto.
    + constructor; auto. eapply NoDup_app_r; eauto.
    + intros x H1 [<-|H2]; [contradiction|]. eapply NoDup_app_disj; eauto.
  - intros x [<-|Hx].
    + rewrite mk_ent_eid, lv_upd_same, upd_same, ent_pair_mk. now rewrite Hz.
    + destruct (a_buf _ _ _ _ _ _ I _ Hx) as [H1 H2].
      assert (a_eid x <> id) by (intros E; apply Hnb; rewrite <- E; now apply In_eids).
      now rewrite lv_upd_other, upd_other.
  - intros x Hx. destruct (a_fro _ _ _ _ _ _ I _ Hx) as [H1 [H2 H3]].
    assert (a_eid x <> id) by (intros E; apply Hnf; rewrite <- E; now apply In_eids).
    rewrite lv_upd_other, upd_other by auto. repeat split; try lia; auto.
    intros HI. apply Hfr in HI as [HI _]. contradiction.
  - intros e. destruct (N.eq_dec e id) as [->|Hne].
    + intros _. rewrite upd_same. apply in_or_app. right. now left.
    + rewrite lv_upd_other, upd_other by auto. intros H. apply (a_all _ _ _ _ _ _ I) in H.
      apply in_app_or in H as [H|H]; apply in_or_app; [left | right; right]; auto.
Qed.

Lemma not_entry_eid ep nx fr sw fro buf e x :
  AdjInv ep nx fr sw fro buf -> In x buf ->
  not_entry (a_node (mk_ent sw (ep e) e)) e x = negb (N.eqb (a_eid x) e).
Proof.
  intros I Hx. unfold not_entry. destruct (N.eqb_spec (a_eid x) e) as [E|E]; [|now rewrite andb_false_r].
  destruct (a_buf _ _ _ _ _ _ I _ Hx) as [_ H2]. rewrite E in H2. rewrite H2.
  rewrite <- E at 2. rewrite mk_ent_pair, N.eqb_refl. reflexivity.
Qed.

Lemma filter_ext_in' {A} (f g : A -> bool) l : (forall x, In x l -> f x = g x) -> filter f l = filter g l.
Proof. induction l; cbn; intros H; auto. rewrite (H a) by auto. rewrite IHl; auto. Qed.

Lemma AdjInv_del ep nx fr sw fro buf e (inbuf : bool) :
  AdjInv ep nx fr sw fro buf -> lv ep e = true ->
  (inbuf = true <-> In e (eids buf)) ->
  AdjInv (upd ep e (0, 0)) nx (if inbuf then e :: fr else fr) sw fro
         (filter (not_entry (a_node (mk_ent sw (ep e) e)) e) buf).
Proof.
  intros I Hl Hb.
  rewrite (filter_ext_in' _ (fun x => negb (N.eqb (a_eid x) e))) by (intros; eapply not_entry_eid; eauto).
  pose proof (a_nd _ _ _ _ _ _ I) as ND. rewrite eids_app in ND.
  constructor.
  - rewrite eids_app. apply NoDup_app_intro.
    + eapply NoDup_app_l; eauto.
    + apply NoDup_map_filter. eapply NoDup_app_r; eauto.
    + intros x H1 H2. apply in_map_iff in H2 as [y [E Hy]]. apply filter_In in Hy as [Hy _].
      eapply NoDup_app_disj; eauto. rewrite <- E. now apply In_eids.
  - intros x Hx. apply filter_In in Hx as [Hx Hne]. apply negb_true_iff, N.eqb_neq in Hne.
    rewrite lv_upd_other, upd_other by auto. now apply (a_buf _ _ _ _ _ _ I).
  - intros x Hx. destruct (a_fro _ _ _ _ _ _ I _ Hx) as [H1 [H2 H3]]. split; [auto|]. split.
    + destruct inbuf; auto. intros [E|HI]; [|contradiction].
      assert (In e (eids buf)) by now apply Hb. eapply NoDup_app_disj; eauto. rewrite E. now apply In_eids.
    + destruct (N.eq_dec (a_eid x) e) as [E|E].
      * rewrite E, lv_upd_same. cbn. discriminate.
      * now rewrite lv_upd_other, upd_other.
  - intros e'. destruct (N.eq_dec e' e) as [->|Hne].
    + rewrite lv_upd_same. cbn. discriminate.
    + rewrite lv_upd_other, upd_other by auto. intros H. apply (a_all _ _ _ _ _ _ I) in H.
      apply in_app_or in H as [H|H]; apply in_or_app; [left; auto | right].
      apply filter_In. split; auto. rewrite mk_ent_eid. now apply negb_true_iff, N.eqb_neq.
Qed.

Lemma AdjInv_compact ep nx fr sw fro buf :
  AdjInv ep nx fr sw fro buf ->
  (forall e, lv ep e = true -> 0 < e < nx /\ ~ In e fr) ->
  AdjInv ep nx fr sw (fro ++ buf) [].
Proof.
  intros I R. constructor.
  - rewrite app_nil_r. apply I.
  - intros ? [].
  - intros x Hx. apply in_app_or in Hx as [Hx|Hx]; [now apply (a_fro _ _ _ _ _ _ I)|].
    destruct (a_buf _ _ _ _ _ _ I _ Hx) as [H1 H2]. destruct (R _ H1). auto.
  - intros e H. rewrite app_nil_r. now apply (a_all _ _ _ _ _ _ I).
Qed.

Lemma AdjInv_free_sub ep nx fr fr' sw fro buf :
  AdjInv ep nx fr sw fro buf -> (forall x, In x fr' -> In x fr) -> AdjInv ep nx fr' sw fro buf.
Proof.
  intros I H. constructor; try apply I. intros x Hx. destruct (a_fro _ _ _ _ _ _ I _ Hx) as [H1 [H2 H3]]. auto.
Qed.

Lemma InvE_init : InvE (es init).
Proof.
  constructor; unfold live_e; cbn; try (intros; discriminate); try constructor; try lia;
    try (intros ? []); try apply AdjInv_init; try tauto.
  - intros e _. auto.
  - intros ? ? [].
Qed.

Lemma get_edge_Some s e a b t p :
  get_edge s e = Some (a, b, t, p) ->
  live_e s e = true /\ endp s e = (a, b) /\ etype s e = Some t /\
  p = match eprops s e with Some p => p | None => [] end.
Proof.
  unfold get_edge. destruct (live_e s e); [|discriminate]. destruct (etype s e); [|discriminate].
  intros H. inversion H; subst. destruct (endp s e). auto.
Qed.
Lemma get_edge_live s e : InvE s -> (get_edge s e <> None <-> live_e s e = true).
Proof.
  intros I. unfold get_edge. destruct (live_e s e) eqn:L; [|split; congruence].
  destruct (e_type _ I _ L) as [t [-> _]]. split; congruence.
Qed.
