(* Proofs about the server's persistence effect model (model/ServerPersist.v). *)
From Coq Require Import List ZArith NArith Bool Lia.
From Verif Require Import CheckLib ServerPersist.
Import ListNotations.
Open Scope N_scope.

Definition same_map {A} (a b : list (N * A)) : Prop := forall id, lookup id a = lookup id b.

Definition same_graph (a b : graph) : Prop :=
  same_map (g_nodes a) (g_nodes b) /\ same_map (g_edges a) (g_edges b).

(* ---------- association lists ---------- *)
Lemma lookup_put_same : forall A id (v : A) m, lookup id (put id v m) = Some v.
Proof.
  induction m as [|[k w] r IH]; cbn.
  - rewrite N.eqb_refl. reflexivity.
  - destruct (N.eqb k id) eqn:E; cbn.
    + rewrite N.eqb_refl. reflexivity.
    + rewrite E. exact IH.
Qed.

Lemma lookup_put_other : forall A id id' (v : A) m, id <> id' -> lookup id' (put id v m) = lookup id' m.
Proof.
  induction m as [|[k w] r IH]; intros H; cbn.
  - destruct (N.eqb id id') eqn:E; [apply N.eqb_eq in E; congruence | reflexivity].
  - destruct (N.eqb k id) eqn:E; cbn.
    + apply N.eqb_eq in E. subst k.
      destruct (N.eqb id id') eqn:E2; [apply N.eqb_eq in E2; congruence | reflexivity].
    + destruct (N.eqb k id'); [reflexivity | apply IH; exact H].
Qed.

Lemma lookup_del : forall A id id' (m : list (N * A)),
  lookup id' (del id m) = if N.eqb id id' then None else lookup id' m.
Proof.
  induction m as [|[k w] r IH]; cbn.
  - destruct (N.eqb id id'); reflexivity.
  - destruct (N.eqb k id) eqn:E.
    + apply N.eqb_eq in E. subst k. rewrite IH. destruct (N.eqb id id'); reflexivity.
    + cbn. destruct (N.eqb k id') eqn:E2.
      * apply N.eqb_eq in E2. subst k. rewrite N.eqb_sym in E. rewrite E. reflexivity.
      * exact IH.
Qed.

Lemma put_keys_in : forall A id (v : A) m k, In k (map fst (put id v m)) -> k = id \/ In k (map fst m).
Proof.
  induction m as [|[k0 w] r IH]; intros k; cbn.
  - intros [H|[]]; auto.
  - destruct (N.eqb k0 id) eqn:E; cbn.
    + apply N.eqb_eq in E. subst k0. tauto.
    + intros [H|H]; [tauto|]. destruct (IH k H); tauto.
Qed.

Lemma put_nodup : forall A id (v : A) m, NoDup (map fst m) -> NoDup (map fst (put id v m)).
Proof.
  induction m as [|[k w] r IH]; intros H; cbn.
  - constructor; [intros [] | constructor].
  - inversion H as [|? ? Hn Hr]; subst.
    destruct (N.eqb k id) eqn:E; cbn.
    + apply N.eqb_eq in E. subst k. constructor; assumption.
    + constructor; [|apply IH; exact Hr].
      intros Hin. apply put_keys_in in Hin. destruct Hin as [->|Hin]; [rewrite N.eqb_refl in E; discriminate | contradiction].
Qed.

Lemma nodup_lookup : forall A (m : list (N * A)) k v, NoDup (map fst m) -> In (k, v) m -> lookup k m = Some v.
Proof.
  induction m as [|[k0 w] r IH]; intros k v H Hin; [destruct Hin|]. cbn in *.
  inversion H as [|? ? Hn Hr]; subst. destruct Hin as [Heq|Hin].
  - inversion Heq; subst. rewrite N.eqb_refl. reflexivity.
  - destruct (N.eqb k0 k) eqn:E.
    + apply N.eqb_eq in E. subst k0. exfalso. apply Hn. apply in_map_iff. exists (k, v). auto.
    + apply IH; assumption.
Qed.

(* ---------- what a delta does to one id ---------- *)
Definition touches_node (id : N) (c : change) : bool :=
  match c with PutNode i _ | DelNode i => N.eqb i id | _ => false end.
Definition touches_edge (id : N) (c : change) : bool :=
  match c with PutEdge i _ | DelEdge i => N.eqb i id | _ => false end.

Lemma fold_untouched_node : forall id delta g,
  existsb (touches_node id) delta = false ->
  lookup id (g_nodes (fold_left apply_change delta g)) = lookup id (g_nodes g).
Proof.
  induction delta as [|c r IH]; intros g H; cbn in *; [reflexivity|].
  apply orb_false_iff in H. destruct H as [Hc Hr]. rewrite (IH _ Hr).
  destruct c; cbn in *; try reflexivity.
  - apply lookup_put_other. intros ->. rewrite N.eqb_refl in Hc. discriminate.
  - rewrite lookup_del, Hc. reflexivity.
Qed.

Lemma fold_untouched_edge : forall id delta g,
  existsb (touches_edge id) delta = false ->
  lookup id (g_edges (fold_left apply_change delta g)) = lookup id (g_edges g).
Proof.
  induction delta as [|c r IH]; intros g H; cbn in *; [reflexivity|].
  apply orb_false_iff in H. destruct H as [Hc Hr]. rewrite (IH _ Hr).
  destruct c; cbn in *; try reflexivity.
  - apply lookup_put_other. intros ->. rewrite N.eqb_refl in Hc. discriminate.
  - rewrite lookup_del, Hc. reflexivity.
Qed.

Lemma fold_touched_node : forall id delta g,
  existsb is_delete delta = false -> existsb (touches_node id) delta = true ->
  exists c, lookup id (g_nodes (fold_left apply_change delta g)) = Some c.
Proof.
  induction delta as [|c r IH]; intros g Hd Ht; cbn in *; [discriminate|].
  apply orb_false_iff in Hd. destruct Hd as [Hdc Hdr].
  destruct (existsb (touches_node id) r) eqn:Er.
  - apply IH; [exact Hdr | reflexivity].
  - rewrite (fold_untouched_node _ _ _ Er). rewrite orb_false_r in Ht.
    destruct c; cbn in *; try discriminate.
    apply N.eqb_eq in Ht. subst. eexists. apply lookup_put_same.
Qed.

Lemma fold_touched_edge : forall id delta g,
  existsb is_delete delta = false -> existsb (touches_edge id) delta = true ->
  exists c, lookup id (g_edges (fold_left apply_change delta g)) = Some c.
Proof.
  induction delta as [|c r IH]; intros g Hd Ht; cbn in *; [discriminate|].
  apply orb_false_iff in Hd. destruct Hd as [Hdc Hdr].
  destruct (existsb (touches_edge id) r) eqn:Er.
  - apply IH; [exact Hdr | reflexivity].
  - rewrite (fold_untouched_edge _ _ _ Er). rewrite orb_false_r in Ht.
    destruct c; cbn in *; try discriminate.
    apply N.eqb_eq in Ht. subst. eexists. apply lookup_put_same.
Qed.

Lemma fold_edge_origin : forall id e delta g,
  lookup id (g_edges (fold_left apply_change delta g)) = Some e ->
  In (PutEdge id e) delta \/ lookup id (g_edges g) = Some e.
Proof.
  induction delta as [|c r IH]; intros g H; cbn in *; [right; exact H|].
  destruct (IH _ H) as [Hin|Hl]; [left; right; exact Hin|].
  destruct c; cbn in Hl; try (right; exact Hl).
  - destruct (N.eq_dec id0 id) as [->|Hne].
    + rewrite lookup_put_same in Hl. inversion Hl; subst. left; left; reflexivity.
    + rewrite lookup_put_other in Hl by exact Hne. right; exact Hl.
  - rewrite lookup_del in Hl. destruct (N.eqb id0 id); [discriminate | right; exact Hl].
Qed.

Lemma fold_has_node : forall id delta g,
  existsb is_delete delta = false -> has_node id (g_nodes g) = true ->
  has_node id (g_nodes (fold_left apply_change delta g)) = true.
Proof.
  intros id delta g Hd H. unfold has_node in *.
  destruct (existsb (touches_node id) delta) eqn:T.
  - destruct (fold_touched_node _ _ g Hd T) as [c ->]. reflexivity.
  - rewrite (fold_untouched_node _ _ _ T). exact H.
Qed.

(* ---------- what the reply persists ---------- *)
Lemma persist_nodes : forall sv id R st,
  lookup id (g_nodes (fold_left (persist_ref sv) R st)) =
  if existsb (eref_eqb (RNode id)) R
  then match lookup id (g_nodes sv) with Some c => Some c | None => lookup id (g_nodes st) end
  else lookup id (g_nodes st).
Proof.
  intros sv id. induction R as [|r R IH]; intros st; cbn; [reflexivity|].
  rewrite IH. destruct r as [i|i]; cbn.
  - destruct (N.eqb id i) eqn:E.
    + apply N.eqb_eq in E. subst i. cbn.
      destruct (lookup id (g_nodes sv)) as [c|] eqn:L; cbn.
      * rewrite lookup_put_same. destruct (existsb _ R); reflexivity.
      * destruct (existsb _ R); reflexivity.
    + cbn. assert (Hne : i <> id) by (intros ->; rewrite N.eqb_refl in E; discriminate).
      destruct (lookup i (g_nodes sv)); cbn; [rewrite (lookup_put_other _ _ _ _ _ Hne)|]; reflexivity.
  - destruct (lookup i (g_edges sv)); reflexivity.
Qed.

Lemma persist_edges : forall sv id R st,
  lookup id (g_edges (fold_left (persist_ref sv) R st)) =
  if existsb (eref_eqb (REdge id)) R
  then match lookup id (g_edges sv) with Some c => Some c | None => lookup id (g_edges st) end
  else lookup id (g_edges st).
Proof.
  intros sv id. induction R as [|r R IH]; intros st; cbn; [reflexivity|].
  rewrite IH. destruct r as [i|i]; cbn.
  - destruct (lookup i (g_nodes sv)); reflexivity.
  - destruct (N.eqb id i) eqn:E.
    + apply N.eqb_eq in E. subst i. cbn.
      destruct (lookup id (g_edges sv)) as [c|] eqn:L; cbn.
      * rewrite lookup_put_same. destruct (existsb _ R); reflexivity.
      * destruct (existsb _ R); reflexivity.
    + cbn. assert (Hne : i <> id) by (intros ->; rewrite N.eqb_refl in E; discriminate).
      destruct (lookup i (g_edges sv)); cbn; [rewrite (lookup_put_other _ _ _ _ _ Hne)|]; reflexivity.
Qed.

Lemma persist_edges_nodup : forall sv R st,
  NoDup (map fst (g_edges st)) -> NoDup (map fst (g_edges (fold_left (persist_ref sv) R st))).
Proof.
  intros sv. induction R as [|r R IH]; intros st H; cbn; [exact H|]. apply IH.
  destruct r as [i|i]; cbn.
  - destruct (lookup i (g_nodes sv)); exact H.
  - destruct (lookup i (g_edges sv)); [apply put_nodup|]; exact H.
Qed.

(* every put of the delta is returned: the toucher of an id is a returned put *)
Lemma touched_returned_node : forall s id,
  existsb is_delete (s_delta s) = false -> forallb (put_returned s) (s_delta s) = true ->
  existsb (touches_node id) (s_delta s) = true -> existsb (eref_eqb (RNode id)) (s_returned s) = true.
Proof.
  intros s id Hd Hr Ht. apply existsb_exists in Ht. destruct Ht as [c [Hin Hc]].
  rewrite forallb_forall in Hr. specialize (Hr c Hin).
  assert (Hnd : is_delete c = false).
  { destruct (is_delete c) eqn:E; [|reflexivity].
    assert (existsb is_delete (s_delta s) = true) by (apply existsb_exists; eauto). congruence. }
  destruct c; cbn in *; try discriminate. apply N.eqb_eq in Hc. subst. exact Hr.
Qed.

Lemma touched_returned_edge : forall s id,
  existsb is_delete (s_delta s) = false -> forallb (put_returned s) (s_delta s) = true ->
  existsb (touches_edge id) (s_delta s) = true -> existsb (eref_eqb (REdge id)) (s_returned s) = true.
Proof.
  intros s id Hd Hr Ht. apply existsb_exists in Ht. destruct Ht as [c [Hin Hc]].
  rewrite forallb_forall in Hr. specialize (Hr c Hin).
  assert (Hnd : is_delete c = false).
  { destruct (is_delete c) eqn:E; [|reflexivity].
    assert (existsb is_delete (s_delta s) = true) by (apply existsb_exists; eauto). congruence. }
  destruct c; cbn in *; try discriminate. apply N.eqb_eq in Hc. subst. exact Hr.
Qed.

(* ---------- the invariant: storage = served graph ---------- *)
Record inv (served st : graph) : Prop := {
  inv_nodes : same_map (g_nodes st) (g_nodes served);
  inv_edges : same_map (g_edges st) (g_edges served);
  inv_ends : forall id e, lookup id (g_edges served) = Some e ->
             has_node (c_src e) (g_nodes served) = true /\ has_node (c_dst e) (g_nodes served) = true;
  inv_nodup : NoDup (map fst (g_edges st))
}.

Lemma inv_empty : inv empty empty.
Proof. constructor; cbn; try (intros id; reflexivity); [intros id e H; discriminate | constructor]. Qed.

Lemma step_inv : forall served st s,
  inv served st -> class_of s = None -> stmt_ok served s = true ->
  inv (ack_effect served s) (persisted_effect (ack_effect served s) st s).
Proof.
  intros served st s I Hc Hok. unfold class_of in Hc.
  destruct (s_delta s) as [|c0 r0] eqn:D.
  - (* nothing changed *)
    assert (Ha : ack_effect served s = served) by (unfold ack_effect; rewrite D; reflexivity).
    rewrite Ha. unfold persisted_effect. destruct (s_chan s); [|exact I].
    destruct (s_write s); [|exact I].
    destruct I as [In Ie Ien Ind]. constructor.
    + intros id. rewrite persist_nodes. destruct (existsb _ (s_returned s)); [|apply In].
      destruct (lookup id (g_nodes served)) eqn:L; [reflexivity | rewrite In; exact L].
    + intros id. rewrite persist_edges. destruct (existsb _ (s_returned s)); [|apply Ie].
      destruct (lookup id (g_edges served)) eqn:L; [reflexivity | rewrite Ie; exact L].
    + exact Ien.
    + apply persist_edges_nodup; exact Ind.
  - destruct (s_chan s) eqn:Ch; [|discriminate].
    assert (Hwr : s_write s = true).
    { unfold stmt_ok in Hok. apply andb_true_iff in Hok. destruct Hok as [_ Hw]. rewrite D in Hw.
      destruct (s_write s); [reflexivity | discriminate]. }
    rewrite <- D in *. clear D c0 r0.
    destruct (existsb is_delete (s_delta s)) eqn:Hd; [discriminate|].
    destruct (forallb (put_returned s) (s_delta s)) eqn:Hr; [|discriminate].
    destruct I as [In Ie Ien Ind].
    unfold stmt_ok in Hok. apply andb_true_iff in Hok. destruct Hok as [Hok _].
    unfold persisted_effect. rewrite Ch, Hwr. set (sv := ack_effect served s).
    constructor.
    + intros id. rewrite persist_nodes.
      destruct (existsb (touches_node id) (s_delta s)) eqn:T.
      * rewrite (touched_returned_node s id Hd Hr T).
        destruct (fold_touched_node id (s_delta s) served Hd T) as [c Hl].
        unfold sv, ack_effect. rewrite Hl. reflexivity.
      * assert (Hs : lookup id (g_nodes sv) = lookup id (g_nodes served))
          by (unfold sv, ack_effect; apply fold_untouched_node; exact T).
        rewrite Hs. destruct (existsb _ (s_returned s)); [|apply In].
        destruct (lookup id (g_nodes served)) eqn:L; [reflexivity | rewrite In; exact L].
    + intros id. rewrite persist_edges.
      destruct (existsb (touches_edge id) (s_delta s)) eqn:T.
      * rewrite (touched_returned_edge s id Hd Hr T).
        destruct (fold_touched_edge id (s_delta s) served Hd T) as [c Hl].
        unfold sv, ack_effect. rewrite Hl. reflexivity.
      * assert (Hs : lookup id (g_edges sv) = lookup id (g_edges served))
          by (unfold sv, ack_effect; apply fold_untouched_edge; exact T).
        rewrite Hs. destruct (existsb _ (s_returned s)); [|apply Ie].
        destruct (lookup id (g_edges served)) eqn:L; [reflexivity | rewrite Ie; exact L].
    + intros id e Hl. unfold sv, ack_effect in Hl.
      destruct (fold_edge_origin _ _ _ _ Hl) as [Hin|Hold].
      * rewrite forallb_forall in Hok. specialize (Hok _ Hin). cbn in Hok.
        apply andb_true_iff in Hok. exact Hok.
      * destruct (Ien _ _ Hold) as [A B]. split; unfold sv, ack_effect; apply fold_has_node; assumption.
    + apply persist_edges_nodup; exact Ind.
Qed.

Lemma run_inv : forall h served st,
  inv served st -> history_ok served h = true ->
  existsb (fun s => match class_of s with Some _ => true | None => false end) h = false ->
  inv (fst (fold_left step h (served, st))) (snd (fold_left step h (served, st))).
Proof.
  induction h as [|s r IH]; intros served st I Hok Hk; cbn in *; [exact I|].
  apply andb_true_iff in Hok. destruct Hok as [Hs Hr].
  apply orb_false_iff in Hk. destruct Hk as [Hc Hkr].
  destruct (class_of s) eqn:C; [discriminate|].
  apply IH; try assumption. apply step_inv; assumption.
Qed.

Lemma filter_all : forall A (P : A -> bool) l, (forall x, In x l -> P x = true) -> filter P l = l.
Proof.
  induction l as [|x l IH]; intros H; cbn; [reflexivity|].
  rewrite (H x (or_introl eq_refl)). f_equal. apply IH. intros y Hy. apply H. right; exact Hy.
Qed.

Lemma recover_inv : forall served st, inv served st -> same_graph (recover st) served.
Proof.
  intros served st [In Ie Ien Ind]. unfold recover, same_graph; cbn. split; [exact In|].
  rewrite filter_all; [exact Ie|].
  intros [k e] Hin. cbn.
  pose proof (nodup_lookup _ _ _ _ Ind Hin) as Hl. rewrite Ie in Hl.
  destruct (Ien _ _ Hl) as [A B]. unfold has_node in *. rewrite !In. rewrite A, B. reflexivity.
Qed.

(* outside the classes, every history of acknowledged statements survives the restart *)
Theorem survives : forall h,
  history_ok empty h = true -> Known_C19 h = false ->
  same_graph (recover (snd (run h))) (fst (run h)).
Proof.
  intros h Hok Hk. apply recover_inv. unfold run. apply run_inv; [apply inv_empty | exact Hok | exact Hk].
Qed.

(* ---------- the property, refuted per class ---------- *)
Definition survives_full : Prop :=
  forall h, history_ok empty h = true -> same_graph (recover (snd (run h))) (fst (run h)).

Definition nL (k : Z) : ncontent := {| c_labels := [1]; c_props := [(1, k)] |}.
(* RESP: CREATE (n:L {k: 1}) *)
Definition w_not_returned : list stmt :=
  [{| s_chan := Resp; s_write := true; s_delta := [PutNode 1 (nL 1)]; s_returned := [] |}].
(* RESP: CREATE (n:L {k: 1}) RETURN n ; MATCH (n:L {k: 1}) DELETE n *)
Definition w_delete : list stmt :=
  [{| s_chan := Resp; s_write := true; s_delta := [PutNode 1 (nL 1)]; s_returned := [RNode 1] |};
   {| s_chan := Resp; s_write := true; s_delta := [DelNode 1]; s_returned := [] |}].
(* HTTP: CREATE (n:L {k: 1}) RETURN n *)
Definition w_http : list stmt :=
  [{| s_chan := Http; s_write := true; s_delta := [PutNode 1 (nL 1)]; s_returned := [RNode 1] |}].

Definition lost_at (h : list stmt) (id : N) : Prop :=
  lookup id (g_nodes (recover (snd (run h)))) <> lookup id (g_nodes (fst (run h))).

Theorem refuted_not_returned :
  history_ok empty w_not_returned = true /\ map class_of w_not_returned = [Some RespWriteNotReturned] /\
  Known_C19 w_not_returned = true /\ lost_at w_not_returned 1.
Proof. repeat split; try reflexivity. unfold lost_at. vm_compute. discriminate. Qed.

Theorem refuted_delete :
  history_ok empty w_delete = true /\ map class_of w_delete = [None; Some RespDelete] /\
  Known_C19 w_delete = true /\ lost_at w_delete 1.
Proof. repeat split; try reflexivity. unfold lost_at. vm_compute. discriminate. Qed.

Theorem refuted_http :
  history_ok empty w_http = true /\ map class_of w_http = [Some HttpAnyWrite] /\
  Known_C19 w_http = true /\ lost_at w_http 1.
Proof. repeat split; try reflexivity. unfold lost_at. vm_compute. discriminate. Qed.

Theorem refuted : exists h, history_ok empty h = true /\ Known_C19 h = true /\
  ~ same_graph (recover (snd (run h))) (fst (run h)).
Proof.
  exists w_not_returned. split; [reflexivity|]. split; [reflexivity|].
  intros [Hn _]. specialize (Hn 1). vm_compute in Hn. discriminate.
Qed.

Theorem not_survives_full : ~ survives_full.
Proof.
  intros F. destruct (F w_not_returned eq_refl) as [Hn _]. specialize (Hn 1). vm_compute in Hn. discriminate.
Qed.
