(* Proofs about coq/model/Index.v : what an ordered index returns is independent of
   insertion order; PropertyIndex::candidates is a superset of the values the filter path
   accepts; a filter above any superset scan returns exactly what the filter path returns. *)
From Coq Require Import List NArith ZArith Bool Lia Permutation.
From Verif Require Import CheckLib Value Index ValueProofs.
Import ListNotations.
Open Scope Z_scope.

(* ------------------------------------------------------------------ *)
(* selection from an index built by insertion *)
Definition respects (P : pv -> bool) : Prop := forall a b, pv_cmp a b = Eq -> P a = P b.

Lemma idx_select_insert P k id m : respects P ->
  forall i, In i (idx_select P (idx_insert k id m)) <->
            (P k = true /\ i = id) \/ In i (idx_select P m).
Proof.
  intros HP i. unfold idx_select. induction m as [|[k' ids] r IH]; cbn.
  - destruct (P k); cbn; intuition congruence.
  - destruct (pv_cmp k k') eqn:E; cbn.
    + rewrite (HP k k' E). destruct (P k'); cbn; rewrite ?in_app_iff; cbn; intuition congruence.
    + destruct (P k); cbn; rewrite ?in_app_iff; intuition congruence.
    + rewrite !in_app_iff, IH. intuition.
Qed.

Lemma idx_select_fold P ops : respects P -> forall m0 i,
  In i (idx_select P (fold_left (fun m p => idx_insert (fst p) (snd p) m) ops m0)) <->
  (exists k, In (k, i) ops /\ P k = true) \/ In i (idx_select P m0).
Proof.
  intros HP. induction ops as [|[k id] ops IH]; cbn [fold_left fst snd In]; intros m0 i.
  - split; auto. intros [(k & [] & _)|H]; auto.
  - rewrite IH, (idx_select_insert P k id m0 HP). split.
    + intros [(k0 & Hin & E)|[[E ->]|H]]; eauto.
    + intros [(k0 & [Hin|Hin] & E)|H]; eauto. injection Hin as -> ->. auto.
Qed.

Lemma idx_select_build P ops : respects P -> forall i,
  In i (idx_select P (idx_build ops)) <-> exists k, In (k, i) ops /\ P k = true.
Proof.
  intros HP i. unfold idx_build. rewrite (idx_select_fold P ops HP [] i). cbn. intuition.
Qed.

Lemma in_range_respects r : respects (in_range r).
Proof.
  intros a b E. unfold in_range, above, below.
  destruct r as [lo hi]; cbn [fst snd].
  destruct lo as [|v|v], hi as [|w|w]; rewrite ?(pv_cmp_eq_congr a b _ E); reflexivity.
Qed.

Lemma candidates_build op v ops i :
  In i (candidates op v (idx_build ops)) <->
  exists k, In (k, i) ops /\ key_candidate op v k = true.
Proof.
  unfold candidates, key_candidate. rewrite in_flat_map. split.
  - intros (b & Hb & Hi). unfold idx_range in Hi.
    apply (idx_select_build _ ops (in_range_respects _)) in Hi. destruct Hi as (k & Hin & Hr).
    exists k. split; auto. apply existsb_exists. eauto.
  - intros (k & Hin & Hk). apply existsb_exists in Hk. destruct Hk as (b & Hb & Hr).
    exists b. split; auto. unfold idx_range.
    apply (idx_select_build _ ops (in_range_respects _)). eauto.
Qed.

(* the index contents seen through any lookup do not depend on insertion order *)
Theorem candidates_order_free op v ops ops' i :
  Permutation ops ops' ->
  (In i (candidates op v (idx_build ops)) <-> In i (candidates op v (idx_build ops'))).
Proof.
  intros HP. rewrite !candidates_build. split; intros (k & Hin & E); exists k; split; auto.
  - eapply Permutation_in; eauto.
  - eapply Permutation_in; [apply Permutation_sym|]; eauto.
Qed.

Theorem range_order_free r ops ops' i :
  Permutation ops ops' ->
  (In i (idx_range r (idx_build ops)) <-> In i (idx_range r (idx_build ops'))).
Proof.
  intros HP. unfold idx_range. rewrite !(idx_select_build _ _ (in_range_respects r)).
  split; intros (k & Hin & E); exists k; split; auto.
  - eapply Permutation_in; eauto.
  - eapply Permutation_in; [apply Permutation_sym|]; eauto.
Qed.

(* ------------------------------------------------------------------ *)
(* every well-formed value lies in the whole range of its bucket *)
Lemma bucket_bounds x : 0 <= bucket x <= 8.
Proof. destruct x; cbn; lia. Qed.

Lemma pv_cmp_lower_bucket a b : bucket a < bucket b -> pv_cmp a b = Lt.
Proof.
  intros H. rewrite pv_cmp_bucket. unfold bucket_cmp.
  destruct (Z.compare_spec (bucket a) (bucket b)); try lia. reflexivity.
Qed.

Lemma bucket_of_floor b : 0 <= b <= 8 -> bucket (bucket_floor b) = b.
Proof.
  intros H. assert (b = 0 \/ b = 1 \/ b = 2 \/ b = 3 \/ b = 4 \/ b = 5 \/ b = 6 \/ b = 7 \/ b = 8) by lia.
  intuition subst; reflexivity.
Qed.

Lemma below_ceil x : below (bucket_ceil (bucket x)) x = true.
Proof.
  unfold bucket_ceil. pose proof (bucket_bounds x).
  destruct (Z.ltb_spec (bucket x + 1) 9); [|reflexivity].
  cbn [below]. rewrite pv_cmp_lower_bucket; auto.
  rewrite bucket_of_floor by lia. lia.
Qed.

Lemma nan_floor : f_is_nan (two64 - 1) = true.
Proof. vm_compute. reflexivity. Qed.
Lemma sign_floor : f_sign (two64 - 1) = true.
Proof. vm_compute. reflexivity. Qed.
Lemma tc_floor : tc_key (two64 - 1) = - two63.
Proof. vm_compute. reflexivity. Qed.

Lemma tc_key_lower y : - two63 <= tc_key y.
Proof.
  float_unfold. unfold two63, two64.
  pose proof (Z.mod_pos_bound y 18446744073709551616 eq_refl).
  set (r := y mod 18446744073709551616) in *. zb_cases; lia.
Qed.

Lemma then_not_lt o1 o2 : o1 <> Lt -> o2 <> Lt -> then_ o1 o2 <> Lt.
Proof. destruct o1; cbn; congruence. Qed.

Lemma cmp_min_not_lt z : - two63 <= z -> (z ?= i64_min) <> Lt.
Proof. intros H. unfold i64_min. rewrite Z.compare_lt_iff. lia. Qed.

Lemma in_i64_lower z : in_i64 z = true -> - two63 <= z.
Proof. unfold in_i64. rewrite andb_true_iff, Z.leb_le. tauto. Qed.

Lemma above_floor x : wf x = true -> above (Incl (bucket_floor (bucket x))) x = true.
Proof.
  intros W. assert (H : pv_cmp x (bucket_floor (bucket x)) <> Lt);
    [|cbn [above]; destruct (pv_cmp x (bucket_floor (bucket x))); congruence].
  destruct x; cbn [bucket].
  - change (bucket_floor 2) with (PStr []). cbn [pv_cmp]. unfold bytes_cmp. destruct s; cbn; discriminate.
  - change (bucket_floor 1) with (PFloat (two64 - 1)). cbn [pv_cmp].
    unfold cmp_int_float. rewrite nan_floor, sign_floor. discriminate.
  - change (bucket_floor 1) with (PFloat (two64 - 1)). cbn [pv_cmp].
    unfold f_total_cmp. rewrite tc_floor, Z.compare_lt_iff. pose proof (tc_key_lower bits). lia.
  - change (bucket_floor 0) with (PBool false). cbn [pv_cmp]. destruct b; cbn; discriminate.
  - change (bucket_floor 3) with (PDate i64_min). cbn [pv_cmp].
    cbn in W. apply cmp_min_not_lt, in_i64_lower, W.
  - change (bucket_floor 4) with (PArr []). destruct l; cbn; discriminate.
  - change (bucket_floor 5) with (PMap []). destruct m; cbn; discriminate.
  - change (bucket_floor 6) with (PVec []). destruct v; cbn; discriminate.
  - change (bucket_floor 7) with (PDur i64_min i64_min i64_min (-2147483648)). cbn [pv_cmp].
    cbn in W. rewrite !andb_true_iff in W. destruct W as (((W1 & W2) & W3) & W4).
    repeat apply then_not_lt; try (apply cmp_min_not_lt, in_i64_lower; assumption).
    unfold in_i32 in W4. rewrite andb_true_iff, Z.leb_le in W4. rewrite Z.compare_lt_iff. lia.
  - change (bucket_floor 8) with PNull. discriminate.
Qed.

Lemma whole_contains x : wf x = true -> in_range (whole (bucket x)) x = true.
Proof.
  intros W. unfold in_range, whole. cbn [fst snd].
  rewrite (above_floor x W), below_ceil. reflexivity.
Qed.

Lemma other_bucket_candidate op v x :
  wf x = true -> bucket x <> bucket v -> key_candidate op v x = true.
Proof.
  intros W Hb. unfold key_candidate. apply existsb_exists. exists (bucket x). split.
  - pose proof (bucket_bounds x). unfold buckets. cbn.
    assert (bucket x = 0 \/ bucket x = 1 \/ bucket x = 2 \/ bucket x = 3 \/ bucket x = 4 \/
            bucket x = 5 \/ bucket x = 6 \/ bucket x = 7 \/ bucket x = 8) by lia. intuition.
  - unfold bucket_range. destruct (Z.eqb_spec (bucket x) (bucket v)); [contradiction|].
    apply whole_contains; exact W.
Qed.

Lemma own_bucket_candidate op v x :
  bucket x = bucket v -> in_range (own_range op v) x = true -> key_candidate op v x = true.
Proof.
  intros Hb Hr. unfold key_candidate. apply existsb_exists. exists (bucket v). split.
  - pose proof (bucket_bounds v). unfold buckets. cbn.
    assert (bucket v = 0 \/ bucket v = 1 \/ bucket v = 2 \/ bucket v = 3 \/ bucket v = 4 \/
            bucket v = 5 \/ bucket v = 6 \/ bucket v = 7 \/ bucket v = 8) by lia. intuition.
  - unfold bucket_range. rewrite Z.eqb_refl. exact Hr.
Qed.

(* ------------------------------------------------------------------ *)
(* inside the bucket of the bound: the simple variants, where the filter path compares
   exactly as the index order does *)
Lemma range_from_cmp op v x :
  wf x = true -> bucket x = bucket v ->
  match op with
  | OEq => pv_cmp x v = Eq
  | OLt => pv_cmp x v = Lt
  | OLe => pv_cmp x v <> Gt
  | OGt => pv_cmp x v = Gt
  | OGe => pv_cmp x v <> Lt
  end ->
  in_range (match op with
            | OEq => (Incl v, Incl v)
            | OGt => (Excl v, bucket_ceil (bucket v))
            | OGe => (Incl v, bucket_ceil (bucket v))
            | OLt => (Incl (bucket_floor (bucket v)), Excl v)
            | OLe => (Incl (bucket_floor (bucket v)), Incl v)
            end) x = true.
Proof.
  intros W Hb Hc. pose proof (above_floor x W) as HA. pose proof (below_ceil x) as HB.
  rewrite Hb in HA, HB. unfold in_range.
  destruct op; cbn [fst snd]; rewrite ?HA, ?HB; cbn [above below];
    destruct (pv_cmp x v); try reflexivity; congruence.
Qed.

Lemma cy_true_cases op x v :
  cy_true op x v = true ->
  x <> PNull /\ v <> PNull /\
  match op with
  | OEq => coerced_eqb x v = true
  | OLt => cy_ordering x v = Some Lt
  | OLe => cy_ordering x v = Some Lt \/ cy_ordering x v = Some Eq
  | OGt => cy_ordering x v = Some Gt
  | OGe => cy_ordering x v = Some Gt \/ cy_ordering x v = Some Eq
  end.
Proof.
  intros H.
  assert (Hx : x <> PNull) by (intros ->; discriminate H).
  assert (Hv : v <> PNull) by (intros ->; destruct x; discriminate H).
  repeat split; auto.
  assert (E : cy_true op x v =
              match op with
              | OEq => coerced_eqb x v
              | OLt => match cy_ordering x v with Some Lt => true | _ => false end
              | OLe => match cy_ordering x v with Some Lt | Some Eq => true | _ => false end
              | OGt => match cy_ordering x v with Some Gt => true | _ => false end
              | OGe => match cy_ordering x v with Some Gt | Some Eq => true | _ => false end
              end).
  { destruct x; try congruence; destruct v; try congruence; reflexivity. }
  rewrite E in H. destruct op; auto;
    destruct (cy_ordering x v) as [[]|]; try discriminate; auto.
Qed.

Lemma cmp_goal op (c : comparison) :
  match op with
  | OEq => c = Eq
  | OLt => c = Lt
  | OLe => c = Lt \/ c = Eq
  | OGt => c = Gt
  | OGe => c = Gt \/ c = Eq
  end ->
  match op with
  | OEq => c = Eq
  | OLt => c = Lt
  | OLe => c <> Gt
  | OGt => c = Gt
  | OGe => c <> Lt
  end.
Proof. destruct op; auto; intros [->| ->]; discriminate. Qed.

Lemma pv_eqb_true a b : pv_eqb a b = true -> pv_cmp a b = Eq.
Proof. apply pv_cmp_eq_iff_eqb. Qed.

Lemma simple_own op v x :
  wf x = true -> bucket x = bucket v ->
  (match v with PStr _ | PBool _ | PDate _ | PDur _ _ _ _ => True | _ => False end) ->
  cy_true op x v = true -> in_range (own_range op v) x = true.
Proof.
  intros W Hb Hs H. apply cy_true_cases in H. destruct H as (_ & _ & H).
  assert (G : match op with
              | OEq => pv_cmp x v = Eq
              | OLt => pv_cmp x v = Lt
              | OLe => pv_cmp x v = Lt \/ pv_cmp x v = Eq
              | OGt => pv_cmp x v = Gt
              | OGe => pv_cmp x v = Gt \/ pv_cmp x v = Eq
              end).
  { destruct v; try contradiction; destruct x; cbn in Hb; try discriminate Hb;
      destruct op; cbn in H;
      try (apply pv_eqb_true in H; exact H);
      try (injection H as H; exact H);
      try (destruct H as [H|H]; injection H as H; auto). }
  apply cmp_goal in G.
  destruct v; try contradiction; apply (range_from_cmp op _ x W Hb G).
Qed.

(* ------------------------------------------------------------------ *)
(* inside the numeric bucket: the filter path compares f64 images, the index order is finer *)
Lemma f_repr f : 0 <= f < two64 ->
  (f_sign f = false /\ f_mag f = f /\ 0 <= f < two63) \/
  (f_sign f = true /\ f_mag f = f - two63 /\ two63 <= f < two64).
Proof.
  intros H. unfold f_mag, f_sign. rewrite (Z.mod_small f two64 H).
  unfold two63, two64 in *. destruct (Z.leb_spec 9223372036854775808 f); [right|left]; lia.
Qed.

Ltac frepr f H :=
  let S := fresh "S" in let M := fresh "M" in let R := fresh "R" in
  destruct (f_repr f H) as [(S & M & R)|(S & M & R)].

Lemma float_below_props f :
  0 <= f < two64 -> f_is_nan f = false -> f <> neg_inf_bits ->
  0 <= float_below f < two64 /\ f_is_nan (float_below f) = false /\
  num_key (float_below f) < num_key f.
Proof.
  intros H N Hn. unfold f_is_nan in N. apply Z.ltb_ge in N.
  unfold float_below, num_key at 2.
  destruct (f_repr f H) as [(S & M & R)|(S & M & R)]; rewrite M in N; rewrite M, S.
  - destruct (Z.eqb_spec f 0) as [E|E].
    + subst f. repeat split; vm_compute; congruence.
    + destruct (Z.eqb_spec f neg_inf_bits) as [E2|E2]; [contradiction|].
      assert (H' : 0 <= f - 1 < two64) by (unfold two63, two64 in *; lia).
      unfold f_is_nan, num_key.
      destruct (f_repr (f - 1) H') as [(S' & M' & R')|(S' & M' & R')]; rewrite S', M'.
      * split; [exact H'|]. split; [apply Z.ltb_ge; lia|lia].
      * unfold two63, two64 in *; lia.
  - destruct (Z.eqb_spec (f - two63) 0) as [E|E].
    + rewrite E. repeat split; vm_compute; congruence.
    + destruct (Z.eqb_spec f neg_inf_bits) as [E2|E2]; [contradiction|].
      assert (Hlt : f - two63 < inf_bits) by (unfold neg_inf_bits in E2; lia).
      assert (H' : 0 <= f + 1 < two64) by (unfold two63, two64, inf_bits in *; lia).
      unfold f_is_nan, num_key.
      destruct (f_repr (f + 1) H') as [(S' & M' & R')|(S' & M' & R')]; rewrite S', M'.
      * unfold two63, two64 in *; lia.
      * split; [exact H'|]. split; [apply Z.ltb_ge; lia|lia].
Qed.

(* numeric key strictly above => index key strictly above *)
Lemma tc_gt_of_num z g :
  0 <= z < two64 -> 0 <= g < two64 -> num_key g < num_key z -> tc_key g < tc_key z.
Proof.
  intros Hz Hg. unfold num_key, tc_key.
  frepr z Hz; frepr g Hg; rewrite ?S, ?M, ?S0, ?M0; unfold two63, two64 in *; lia.
Qed.

Definition hi_bits (f : Z) : Z := if f_mag f =? 0 then 0 else f.

Lemma hi_props f z :
  0 <= f < two64 -> 0 <= z < two64 ->
  num_key (hi_bits f) = num_key f /\ f_is_nan (hi_bits f) = f_is_nan f /\
  (num_key z <= num_key f -> tc_key z <= tc_key (hi_bits f)).
Proof.
  intros Hf Hz. unfold hi_bits.
  destruct (Z.eqb_spec (f_mag f) 0) as [E|E].
  - assert (num_key f = 0) by (unfold num_key; rewrite E; destruct (f_sign f); reflexivity).
    assert (f_is_nan f = false) by (unfold f_is_nan; rewrite E; reflexivity).
    repeat split; auto.
    change (tc_key 0) with 0. intros Hle. rewrite H in Hle.
    unfold num_key, tc_key in *. frepr z Hz; rewrite ?S, ?M in *; unfold two63, two64 in *; lia.
  - repeat split; auto. intros Hle.
    unfold num_key, tc_key in *.
    frepr z Hz; frepr f Hf; rewrite ?S, ?M, ?S0, ?M0 in *; unfold two63, two64 in *; lia.
Qed.

(* the f64 image of a numeric value and its key *)
Definition f_of (v : pv) : Z := match v with PInt i => i2f_bits i | PFloat f => f | _ => 0 end.
Definition key_of (x : pv) : Z := match x with PInt a => int_key a | PFloat z => num_key z | _ => 0 end.
Definition not_nan (x : pv) : Prop := match x with PFloat z => f_is_nan z = false | _ => True end.

Lemma f_of_props v : wf v = true -> bucket v = 1 ->
  0 <= f_of v < two64 /\ (not_nan v -> f_is_nan (f_of v) = false /\ num_key (f_of v) = key_of v).
Proof.
  intros W Hb. destruct v; cbn in Hb; try discriminate Hb; cbn [f_of key_of not_nan].
  - cbn in W. destruct (i2f_bits_key z W) as (A & B & C). auto.
  - cbn in W. apply andb_true_iff in W. rewrite Z.leb_le, Z.ltb_lt in W. auto.
Qed.

Definition rel (op : iop) (k1 k2 : Z) : Prop :=
  match op with
  | OEq => k1 = k2
  | OLt | OLe => k1 <= k2
  | OGt | OGe => k1 >= k2
  end.

Lemma cmp_rel op a b :
  match op with
  | OEq => (a ?= b) = Eq
  | OLt => (a ?= b) = Lt
  | OLe => (a ?= b) = Lt \/ (a ?= b) = Eq
  | OGt => (a ?= b) = Gt
  | OGe => (a ?= b) = Gt \/ (a ?= b) = Eq
  end -> rel op a b.
Proof.
  destruct op; cbn; rewrite ?Z.compare_eq_iff, ?Z.compare_lt_iff, ?Z.compare_gt_iff; lia.
Qed.

Lemma some_inj (a b : comparison) : Some a = Some b -> a = b.
Proof. congruence. Qed.

(* what the filter path's "true" means on the numeric bucket *)
Lemma num_true_rel op x v :
  wf v = true -> bucket x = 1 -> bucket v = 1 -> cy_true op x v = true ->
  not_nan x /\ not_nan v /\ rel op (key_of x) (key_of v).
Proof.
  intros Wv Hx Hv H. apply cy_true_cases in H. destruct H as (_ & _ & H).
  destruct x; cbn in Hx; try discriminate Hx; destruct v; cbn in Hv; try discriminate Hv;
    cbn [not_nan key_of].
  - (* Int, Int *)
    repeat split; auto.
    assert (R : rel op z z0).
    { apply cmp_rel. destruct op; cbn in H;
        try (apply pv_eqb_true in H; exact H);
        try (apply some_inj in H; exact H);
        try (destruct H as [H|H]; apply some_inj in H; auto). }
    pose proof (int_key_mono z z0). pose proof (int_key_mono z0 z).
    destruct op; cbn in *; try subst; lia.
  - (* Int, Float *)
    destruct (f_is_nan bits) eqn:N.
    + exfalso. destruct op; cbn in H; rewrite ?N in H; try discriminate; destruct H; discriminate.
    + repeat split; auto. apply cmp_rel.
      destruct op; cbn in H; rewrite ?N in H;
        try (apply Z.eqb_eq in H; rewrite H; apply Z.compare_refl);
        try (apply some_inj in H; exact H);
        try (destruct H as [H|H]; apply some_inj in H; auto).
  - (* Float, Int *)
    destruct (f_is_nan bits) eqn:N.
    + exfalso. destruct op; cbn in H; rewrite ?N in H; try discriminate; destruct H; discriminate.
    + repeat split; auto. apply cmp_rel.
      destruct op; cbn in H; rewrite ?N in H;
        try (apply Z.eqb_eq in H; rewrite H; apply Z.compare_refl);
        try (apply some_inj in H; exact H);
        try (destruct H as [H|H]; apply some_inj in H; auto).
  - (* Float, Float *)
    assert (E : f_partial_cmp bits bits0 =
                if f_is_nan bits || f_is_nan bits0 then None else Some (num_key bits ?= num_key bits0))
      by reflexivity.
    destruct (f_is_nan bits) eqn:N1; destruct (f_is_nan bits0) eqn:N2; cbn [orb] in E;
      try (exfalso; destruct op; cbn in H; unfold f_ieee_eq in H; rewrite ?E in H;
           try discriminate; destruct H; discriminate).
    repeat split; auto. apply cmp_rel.
    destruct op; cbn in H; unfold f_ieee_eq in H; rewrite ?E in H;
      try (destruct (num_key bits ?= num_key bits0); try discriminate; reflexivity);
      try (apply some_inj in H; exact H);
      try (destruct H as [H|H]; apply some_inj in H; auto).
Qed.

Lemma wf_float_range z : wf (PFloat z) = true -> 0 <= z < two64.
Proof. cbn. rewrite andb_true_iff, Z.leb_le, Z.ltb_lt. tauto. Qed.

(* lower end of the numeric scan: everything whose key is >= the bound's key is inside *)
Lemma num_above f x :
  wf x = true -> bucket x = 1 -> not_nan x ->
  0 <= f < two64 -> f_is_nan f = false -> key_of x >= num_key f ->
  above (if f =? neg_inf_bits then Incl (PFloat f) else Excl (PFloat (float_below f))) x = true.
Proof.
  intros W Hb Hn Hf N Hk.
  destruct (Z.eqb_spec f neg_inf_bits) as [E|E].
  - (* -inf itself *)
    cbn [above]. destruct x; cbn in Hb; try discriminate Hb; cbn [pv_cmp key_of not_nan] in *.
    + unfold cmp_int_float, then_. rewrite N.
      pose proof (int_key_bound z W). subst f.
      change (num_key neg_inf_bits) with (- inf_bits).
      destruct (Z.compare_spec (int_key z) (- inf_bits)); try reflexivity; lia.
    + unfold f_total_cmp. pose proof (wf_float_range _ W) as Hz.
      assert (tc_key f <= tc_key bits).
      { subst f. change (tc_key neg_inf_bits) with (- inf_bits - 1).
        unfold f_is_nan in Hn. apply Z.ltb_ge in Hn. unfold tc_key.
        frepr bits Hz; rewrite ?S, ?M in *; unfold two63, two64, inf_bits in *; lia. }
      destruct (Z.compare_spec (tc_key bits) (tc_key f)); try reflexivity; lia.
  - destruct (float_below_props f Hf N E) as (Hg & Ng & Kg).
    cbn [above]. destruct x; cbn in Hb; try discriminate Hb; cbn [pv_cmp key_of not_nan] in *.
    + unfold cmp_int_float, then_. rewrite Ng.
      destruct (Z.compare_spec (int_key z) (num_key (float_below f))); try reflexivity; lia.
    + unfold f_total_cmp. pose proof (wf_float_range _ W) as Hz.
      pose proof (tc_gt_of_num bits (float_below f) Hz Hg ltac:(lia)).
      destruct (Z.compare_spec (tc_key bits) (tc_key (float_below f))); try reflexivity; lia.
Qed.

Lemma num_below f x :
  wf x = true -> bucket x = 1 -> not_nan x ->
  0 <= f < two64 -> f_is_nan f = false -> key_of x <= num_key f ->
  below (Incl (PFloat (hi_bits f))) x = true.
Proof.
  intros W Hb Hn Hf N Hk. cbn [below].
  destruct x; cbn in Hb; try discriminate Hb; cbn [pv_cmp key_of not_nan] in *.
  - destruct (hi_props f 0 Hf ltac:(unfold two64; lia)) as (K & Nh & _).
    unfold cmp_int_float, then_. rewrite Nh, N, K.
    destruct (Z.compare_spec (int_key z) (num_key f)); try reflexivity; lia.
  - pose proof (wf_float_range _ W) as Hz.
    destruct (hi_props f bits Hf Hz) as (_ & _ & T). specialize (T Hk).
    unfold f_total_cmp.
    destruct (Z.compare_spec (tc_key bits) (tc_key (hi_bits f))); try reflexivity; lia.
Qed.

Lemma num_own op v x :
  wf x = true -> wf v = true -> bucket x = 1 -> bucket v = 1 ->
  cy_true op x v = true -> in_range (own_range op v) x = true.
Proof.
  intros Wx Wv Hx Hv H.
  destruct (num_true_rel op x v Wv Hx Hv H) as (Nx & Nv & R).
  destruct (f_of_props v Wv Hv) as (Hf & P). destruct (P Nv) as (N & K). clear P.
  assert (E : own_range op v =
              let f := f_of v in
              if f_is_nan f then whole 1
              else
                let lo := if f =? neg_inf_bits then Incl (PFloat f) else Excl (PFloat (float_below f)) in
                let hi := Incl (PFloat (hi_bits f)) in
                match op with
                | OEq => (lo, hi)
                | OGt | OGe => (lo, bucket_ceil 1)
                | OLt | OLe => (Incl (bucket_floor 1), hi)
                end).
  { destruct v; cbn in Hv; try discriminate Hv; reflexivity. }
  rewrite E. cbv zeta. rewrite N. rewrite <- K in R.
  pose proof (above_floor x Wx) as HA. pose proof (below_ceil x) as HB. rewrite Hx in HA, HB.
  unfold in_range.
  destruct op; cbn [fst snd rel] in *;
    rewrite ?HA, ?HB, ?(num_above (f_of v) x), ?(num_below (f_of v) x); auto; lia.
Qed.

(* ------------------------------------------------------------------ *)
(* PropertyIndex::candidates contains every value the filter path accepts *)
Theorem candidates_superset op v x :
  wf x = true -> wf v = true -> cy_true op x v = true -> key_candidate op v x = true.
Proof.
  intros Wx Wv H.
  destruct (Z.eq_dec (bucket x) (bucket v)) as [E|E]; [|apply other_bucket_candidate; auto].
  apply own_bucket_candidate; auto.
  destruct v.
  - apply simple_own; cbn; auto.
  - apply num_own; auto.
  - apply num_own; auto.
  - apply simple_own; cbn; auto.
  - apply simple_own; cbn; auto.
  - change (own_range op (PArr l)) with (whole (bucket (PArr l))). rewrite <- E. apply whole_contains; auto.
  - change (own_range op (PMap m)) with (whole (bucket (PMap m))). rewrite <- E. apply whole_contains; auto.
  - change (own_range op (PVec v)) with (whole (bucket (PVec v))). rewrite <- E. apply whole_contains; auto.
  - apply simple_own; cbn; auto.
  - change (own_range op PNull) with (whole (bucket PNull)). rewrite <- E. apply whole_contains; auto.
Qed.

(* ------------------------------------------------------------------ *)
(* the two plans *)
Lemma dedup_in l i : In i (dedup l) <-> In i l.
Proof.
  induction l as [|x r IH]; cbn; [tauto|].
  destruct (existsb (N.eqb x) r) eqn:E.
  - rewrite IH. split; auto. intros [->|H]; auto.
    apply existsb_exists in E. destruct E as (y & Hy & Ey). apply N.eqb_eq in Ey. subst; auto.
  - cbn. rewrite IH. tauto.
Qed.

Lemma dedup_nodup l : NoDup (dedup l).
Proof.
  induction l as [|x r IH]; cbn; [constructor|].
  destruct (existsb (N.eqb x) r) eqn:E; auto.
  constructor; auto. rewrite dedup_in. intros Hin.
  assert (existsb (N.eqb x) r = true); [|congruence].
  apply existsb_exists. exists x. split; auto. apply N.eqb_refl.
Qed.

Lemma value_of_in (ns : nodes) id x :
  NoDup (map fst ns) -> (In (id, x) ns <-> value_of ns id = Some x).
Proof.
  induction ns as [|[i y] r IH]; cbn; intros ND.
  - split; [tauto|discriminate].
  - inversion ND as [|? ? Hni ND']; subst.
    destruct (N.eqb_spec i id) as [->|Hne].
    + split.
      * intros [E|Hin]; [congruence|]. exfalso. apply Hni. apply (in_map fst) in Hin. exact Hin.
      * intros E. left. congruence.
    + rewrite <- (IH ND'). split; [intros [E|H]; [congruence|auto]|auto].
Qed.

Lemma filter_path_in op v (ns : nodes) id :
  In id (filter_path op v ns) <-> exists x, In (id, x) ns /\ keep op v x = true.
Proof.
  unfold filter_path. rewrite in_map_iff. split.
  - intros ([i x] & E & Hin). cbn in E. subst. apply filter_In in Hin. cbn in Hin. exists x. tauto.
  - intros (x & Hin & K). exists (id, x). split; auto. apply filter_In. auto.
Qed.

Lemma filter_path_nodup op v (ns : nodes) : NoDup (map fst ns) -> NoDup (filter_path op v ns).
Proof.
  unfold filter_path. induction ns as [|[i x] r IH]; cbn; intros ND; [constructor|].
  inversion ND as [|? ? Hni ND']; subst.
  destruct (keep op v x); cbn; auto.
  constructor; auto. intros Hin. apply Hni.
  apply in_map_iff in Hin. destruct Hin as (p & E & Hp). apply filter_In in Hp.
  apply in_map_iff. exists p. tauto.
Qed.

Lemma residual_path_in op v (ns : nodes) cand id :
  NoDup (map fst ns) ->
  (In id (residual_path op v ns cand) <->
   In id cand /\ exists x, In (id, x) ns /\ keep op v x = true).
Proof.
  intros ND. unfold residual_path. rewrite filter_In, dedup_in. split.
  - intros (Hc & H). split; auto. destruct (value_of ns id) as [x|] eqn:E; [|discriminate].
    exists x. split; auto. apply value_of_in; auto.
  - intros (Hc & x & Hin & K). split; auto. apply value_of_in in Hin; auto. rewrite Hin. exact K.
Qed.

(* a filter above ANY scan that yields at least the nodes the predicate accepts (extra
   candidates, stale or duplicated entries included) returns exactly what scanning the label
   and filtering returns *)
Theorem residual_over_superset op v (ns : nodes) cand :
  NoDup (map fst ns) ->
  (forall id, In id (filter_path op v ns) -> In id cand) ->
  Permutation (residual_path op v ns cand) (filter_path op v ns).
Proof.
  intros ND Hsup. apply NoDup_Permutation.
  - unfold residual_path. apply NoDup_filter, dedup_nodup.
  - apply filter_path_nodup; exact ND.
  - intros id. rewrite (residual_path_in op v ns cand id ND), filter_path_in. split.
    + tauto.
    + intros H. split; auto. apply Hsup. apply filter_path_in. exact H.
Qed.

Lemma indexed_in (ns : nodes) x id : In (x, id) (indexed ns) <-> In (id, Some x) ns.
Proof.
  unfold indexed. rewrite in_flat_map. split.
  - intros ([i [y|]] & Hin & H); cbn in H; [|contradiction].
    destruct H as [E|[]]. injection E as -> ->. exact Hin.
  - intros Hin. exists (id, Some x). split; auto. cbn. auto.
Qed.

(* IndexScan + Filter = NodeScan + Filter, for every set of labelled nodes with arbitrary
   mixed-type values, every operator and every bound *)
Theorem index_scan_equiv op v (ns : nodes) :
  NoDup (map fst ns) -> forallb (fun n => opt_wf (snd n)) ns = true -> wf v = true ->
  Permutation (index_path op v ns) (filter_path op v ns).
Proof.
  intros ND W Wv. unfold index_path. apply residual_over_superset; auto.
  intros id Hin. apply filter_path_in in Hin. destruct Hin as ([x|] & Hin & K); [|discriminate].
  apply candidates_build. exists x. split; [apply indexed_in; exact Hin|].
  apply candidates_superset; auto.
  rewrite forallb_forall in W. apply (W (id, Some x) Hin).
Qed.
