(* Proofs about model/Mvcc.v (property C08). *)
From Coq Require Import List NArith Bool Lia ZArith ZifyBool ZifyN.
From Verif Require Import Txn TxnProofs Mvcc.
Import ListNotations.
Open Scope N_scope.

Arguments N.add : simpl never.
Arguments N.ltb : simpl never.
Arguments N.leb : simpl never.
Arguments N.eqb : simpl never.

(* ------------------------------------------------ rfind / rposition / skipn *)
Lemma rposition_rfind_some {A} (p q : A -> bool) l i :
  (forall x, p x = true -> q x = true) -> rposition p l = Some i -> rfind q l <> None.
Proof.
  intros Hpq. revert i. induction l as [|x l IH]; intros i; cbn [rposition rfind]; [discriminate|].
  destruct (rposition p l) as [j|] eqn:Ej.
  - intros _. specialize (IH j eq_refl). destruct (rfind q l); congruence.
  - destruct (p x) eqn:Ep; [|discriminate]. intros _. destruct (rfind q l); [discriminate|].
    rewrite (Hpq x Ep). discriminate.
Qed.

Lemma rposition_rfind {A} (p q : A -> bool) l i :
  (forall x, p x = true -> q x = true) -> rposition p l = Some i ->
  rfind q (skipn i l) = rfind q l.
Proof.
  intros Hpq. revert i. induction l as [|x l IH]; intros i; cbn [rposition]; [discriminate|].
  destruct (rposition p l) as [j|] eqn:Ej.
  - intros [= <-]. cbn [skipn rfind]. rewrite (IH j eq_refl).
    pose proof (rposition_rfind_some p q l j Hpq Ej) as Hn.
    destruct (rfind q l); congruence.
  - destruct (p x); [|discriminate]. intros [= <-]. reflexivity.
Qed.

Lemma skipn_incl {A} i (l : list A) x : In x (skipn i l) -> In x l.
Proof.
  revert l. induction i as [|i IH]; intros l; cbn [skipn]; auto.
  destruct l as [|y l]; [auto|]. intros H. right. auto.
Qed.

Lemma gc_list_incl w l x : In x (fst (gc_list w l)) -> In x l.
Proof.
  unfold gc_list. destruct l as [|a [|b r]]; cbn [fst]; auto.
  destruct (rposition _ _); cbn [fst]; auto. apply skipn_incl.
Qed.

(* the heart of C08: pruning below the newest entry <= w never changes which entry a
   read at a version >= w selects; no assumption on the chain (sorted or not) *)
Lemma gc_list_rfind w v l :
  w <= v ->
  rfind (fun e => N.leb (v_ver e) v) (fst (gc_list w l)) = rfind (fun e => N.leb (v_ver e) v) l.
Proof.
  intros Hwv. unfold gc_list. destruct l as [|a [|b r]]; cbn [fst]; auto.
  destruct (rposition (fun e => N.leb (v_ver e) w) (a :: b :: r)) as [i|] eqn:E; cbn [fst]; auto.
  eapply rposition_rfind; [|exact E]. cbn. intros x Hx. lia.
Qed.

Lemma lookup_gc_map w m id :
  lookup id (gc_map w m) =
  match lookup id m with Some l => Some (fst (gc_list w l)) | None => None end.
Proof.
  unfold gc_map. induction m as [|[k l] m IH]; cbn [map lookup fst snd]; [reflexivity|].
  destruct (N.eqb id k); auto.
Qed.

(* ------------------------------------------------ reads of nodes across gc *)
Theorem gc_preserves_node : forall s w v n,
  w <= v -> read_node (gc s w) n v = read_node s n v.
Proof.
  intros s w v n Hwv. unfold read_node, gc. cbn [nodes]. rewrite lookup_gc_map.
  destruct (lookup n (nodes s)); [|reflexivity]. apply gc_list_rfind; auto.
Qed.

(* ------------------------------------------------ chain invariant *)
Definition bounded (c : N) (l : list ver) : Prop := Forall (fun e => v_ver e <= c) l.

(* every version recorded in a relationship log / node chain is at most current_version *)
Definition log_bounded (s : store) : Prop :=
  forall e log, lookup e (elog s) = Some log -> bounded (curv s) log.
Definition chain_bounded (s : store) : Prop :=
  forall n chain, lookup n (nodes s) = Some chain -> bounded (curv s) chain.

Lemma bounded_mono c c' l : c <= c' -> bounded c l -> bounded c' l.
Proof. intros H. apply Forall_impl. cbn. intros; lia. Qed.

Lemma bounded_gc c w l : bounded c l -> bounded c (fst (gc_list w l)).
Proof.
  unfold bounded. rewrite !Forall_forall. intros H x Hx. apply H. eapply gc_list_incl; eauto.
Qed.

Lemma bounded_upd_last c f l :
  (forall x, v_ver (f x) = v_ver x) -> bounded c l -> bounded c (upd_last f l).
Proof.
  intros Hf. unfold bounded. induction l as [|x [|y r] IH]; cbn [upd_last]; intros H.
  - constructor.
  - inversion H; subst. constructor; [rewrite Hf; auto|constructor].
  - inversion H; subst. constructor; auto.
Qed.

Lemma bounded_app c l x : bounded c l -> v_ver x <= c -> bounded c (l ++ [x]).
Proof. intros H Hx. apply Forall_app. split; auto. Qed.

Lemma exists_newer_bounded c v log :
  bounded c log -> (existsb (fun e => N.ltb v (v_ver e)) log || N.ltb v c) = N.ltb v c.
Proof.
  intros Hb. destruct (existsb _ log) eqn:E; [|reflexivity]. cbn [orb].
  apply existsb_exists in E. destruct E as [x [Hx Hlt]].
  unfold bounded in Hb. rewrite Forall_forall in Hb. specialize (Hb x Hx). lia.
Qed.

(* ------------------------------------------------ reads of relationships across gc *)
Theorem gc_preserves_edge : forall s w v e,
  log_bounded s -> w <= v -> read_edge (gc s w) e v = read_edge s e v.
Proof.
  intros s w v e Hb Hwv. unfold read_edge, has_edge, cur_eprops, curv, gc. cbn [live eprops elog tx].
  destruct (negb (mem e (live s))); [reflexivity|].
  rewrite lookup_gc_map. destruct (lookup e (elog s)) as [log|] eqn:El; [|reflexivity].
  specialize (Hb e log El). unfold curv in Hb.
  rewrite gc_list_rfind by auto.
  assert (cur (gc_txns (tx s) w) = cur (tx s)) as Hc by reflexivity. rewrite Hc.
  rewrite (exists_newer_bounded (cur (tx s)) v (fst (gc_list w log))) by (apply bounded_gc; auto).
  rewrite (exists_newer_bounded (cur (tx s)) v log) by auto.
  reflexivity.
Qed.

(* ------------------------------------------------ the invariant holds on every history *)
Lemma tx_create_edge s a b p : tx (fst (create_edge s a b p)) = tx s.
Proof. unfold create_edge. destruct (has_node s a && has_node s b); reflexivity. Qed.

Lemma tx_step s o :
  tx (fst (step s o)) = match o with Tx o' => fst (Txn.step (tx s) o') | _ => tx s end.
Proof.
  destruct o as [p|n k v|a b|e k v|o'|a b p|e k]; cbn [step].
  - reflexivity.
  - unfold set_node. destruct (lookup n (nodes s)); [|reflexivity]. destruct (olast l); reflexivity.
  - apply tx_create_edge.
  - unfold set_edge. destruct (negb (has_edge s e)); reflexivity.
  - destruct o'; try reflexivity; cbn [step]; match goal with |- context [Txn.step ?a ?b] => destruct (Txn.step a b) end; reflexivity.
  - apply tx_create_edge.
  - unfold remove_edge. destruct (has_edge s e && ephas k (cur_eprops s e)); reflexivity.
Qed.

Lemma curv_step s o : curv s <= curv (fst (step s o)).
Proof.
  unfold curv. rewrite tx_step. destruct o; try lia. apply step_cur.
Qed.

(* the two relationship primitives keep the log bounded *)
Lemma lb_edge_update s e post : log_bounded s -> log_bounded (edge_update s e post).
Proof.
  intros H. unfold log_bounded, curv, edge_update. cbn [elog tx]. intros e' log'. rewrite lookup_set.
  destruct (N.eqb e' e) eqn:Ee; [|apply H].
  intros [= <-]. fold (curv s).
  assert (bounded (curv s) (match lookup e (elog s) with Some l => l | None => [] end)) as Hl0.
  { destruct (lookup e (elog s)) eqn:El; [eapply H; eauto|constructor]. }
  set (log0 := match lookup e (elog s) with Some l => l | None => [] end) in *.
  assert (bounded (curv s)
            (match log0 with
             | [] => if N.ltb 1 (curv s) then [{| v_ver := 1; v_props := cur_eprops s e |}] else []
             | _ :: _ => log0 end)) as Hl.
  { destruct log0; [|exact Hl0]. destruct (N.ltb 1 (curv s)) eqn:E1; [|constructor].
    constructor; [cbn; lia|constructor]. }
  destruct (olast _).
  - destruct (N.eqb (v_ver v) (curv s)).
    + apply bounded_upd_last; auto.
    + apply bounded_app; auto. cbn. lia.
  - apply bounded_app; auto. cbn. lia.
Qed.

Lemma lb_create_edge s a b p : log_bounded s -> log_bounded (fst (create_edge s a b p)).
Proof.
  intros H. unfold create_edge. destruct (has_node s a && has_node s b); [|exact H].
  cbn [fst]. unfold log_bounded, curv, log_creation. cbn [elog tx]. fold (curv s).
  destruct (N.ltb 1 (curv s)); [|exact H]. intros e' log'. rewrite lookup_set.
  destruct (N.eqb e' (next_edge s)); [|apply H]. intros [= <-]. constructor; [cbn; lia|constructor].
Qed.

Lemma log_bounded_step s o : log_bounded s -> log_bounded (fst (step s o)).
Proof.
  intros H. pose proof (curv_step s o) as Hc. revert Hc.
  destruct o as [p|n k v|a b|e k v|o'|a b p|e k]; cbn [step].
  - cbn. intros _. exact H.
  - unfold set_node. destruct (lookup n (nodes s)); [|intros _; exact H].
    destruct (olast l); [|intros _; exact H]. cbn. intros _. exact H.
  - intros _. apply lb_create_edge; exact H.
  - unfold set_edge. destruct (negb (has_edge s e)); intros _; [exact H|]. cbn [fst]. apply lb_edge_update; exact H.
  - destruct o'; cbn [step fst];
      try (match goal with |- context [Txn.step ?a ?b] => destruct (Txn.step a b) as [t' r] eqn:Es end;
           cbn [fst]; intros Hc; unfold log_bounded in *; cbn [with_tx elog]; intros e0 log0 El0;
           eapply bounded_mono; [exact Hc|eapply H; eauto]).
    + intros _. unfold log_bounded, curv. cbn [gc elog tx]. intros e log. rewrite lookup_gc_map.
      destruct (lookup e (elog s)) eqn:El; [|discriminate]. intros [= <-]. apply bounded_gc. eapply H; eauto.
    + intros _. unfold log_bounded, curv. cbn [gc elog tx]. intros e log. rewrite lookup_gc_map.
      destruct (lookup e (elog s)) eqn:El; [|discriminate]. intros [= <-]. apply bounded_gc. eapply H; eauto.
  - intros _. apply lb_create_edge; exact H.
  - unfold remove_edge. destruct (has_edge s e && ephas k (cur_eprops s e)); intros _; [|exact H].
    cbn [fst]. apply lb_edge_update; exact H.
Qed.

Lemma cb_same s s' : nodes s' = nodes s -> curv s' = curv s -> chain_bounded s -> chain_bounded s'.
Proof. intros Hn Hc H. unfold chain_bounded. rewrite Hn, Hc. exact H. Qed.

Lemma cb_create_edge s a b p : chain_bounded s -> chain_bounded (fst (create_edge s a b p)).
Proof.
  unfold create_edge. destruct (has_node s a && has_node s b); [|auto]. apply cb_same; reflexivity.
Qed.

Lemma chain_bounded_step s o : chain_bounded s -> chain_bounded (fst (step s o)).
Proof.
  intros H. pose proof (curv_step s o) as Hc. revert Hc.
  destruct o as [p|n k v|a b|e k v|o'|a b p|e k]; cbn [step].
  - cbn [fst]. intros _. unfold chain_bounded, curv. cbn [nodes tx]. intros n chain. rewrite lookup_set.
    destruct (N.eqb n (next_node s)); [|apply H]. intros [= <-]. constructor; [cbn; unfold curv; lia|constructor].
  - unfold set_node. destruct (lookup n (nodes s)) as [chain|] eqn:El; [|intros _; exact H].
    destruct (olast chain) as [latest|]; [|intros _; exact H]. cbn [fst]. intros _.
    unfold chain_bounded, curv. cbn [nodes tx]. intros n' chain'. rewrite lookup_set.
    destruct (N.eqb n' n); [|apply H]. intros [= <-]. fold (curv s).
    specialize (H n chain El). destruct (N.ltb (v_ver latest) (curv s)).
    + apply bounded_app; auto. cbn. lia.
    + apply bounded_upd_last; auto.
  - intros _. apply cb_create_edge; exact H.
  - unfold set_edge. destruct (negb (has_edge s e)); intros _; [exact H|]. cbn [fst]. revert H. apply cb_same; reflexivity.
  - destruct o'; cbn [step fst];
      try (match goal with |- context [Txn.step ?a ?b] => destruct (Txn.step a b) as [t' r] eqn:Es end;
           cbn [fst]; intros Hc; unfold chain_bounded in *; cbn [with_tx nodes]; intros e0 log0 El0;
           eapply bounded_mono; [exact Hc|eapply H; eauto]).
    + intros _. unfold chain_bounded, curv. cbn [gc nodes tx]. intros e log. rewrite lookup_gc_map.
      destruct (lookup e (nodes s)) eqn:El; [|discriminate]. intros [= <-]. apply bounded_gc. eapply H; eauto.
    + intros _. unfold chain_bounded, curv. cbn [gc nodes tx]. intros e log. rewrite lookup_gc_map.
      destruct (lookup e (nodes s)) eqn:El; [|discriminate]. intros [= <-]. apply bounded_gc. eapply H; eauto.
  - intros _. apply cb_create_edge; exact H.
  - unfold remove_edge. destruct (has_edge s e && ephas k (cur_eprops s e)); intros _; [|exact H].
    cbn [fst]. revert H. apply cb_same; reflexivity.
Qed.

Definition tx_inv (s : store) : Prop := exists g, Inv (tx s) g.

Lemma tx_inv_step s o : tx_inv s -> tx_inv (fst (step s o)).
Proof.
  intros [g I]. unfold tx_inv. rewrite tx_step. destruct o; eauto.
  eexists. apply inv_step. exact I.
Qed.

Definition wf (s : store) : Prop := tx_inv s /\ log_bounded s /\ chain_bounded s.

Lemma wf_init : wf init.
Proof.
  split; [exists []; exact inv_init|]. split; intros x l; cbn; discriminate.
Qed.

Lemma wf_run_from ops : forall s, wf s -> wf (run_from s ops).
Proof.
  induction ops as [|o ops IH]; intros s H; [exact H|].
  unfold run_from in *. cbn [fold_left]. apply IH. destruct H as [H1 [H2 H3]].
  split; [apply tx_inv_step; auto|]. split; [apply log_bounded_step; auto|apply chain_bounded_step; auto].
Qed.

Theorem invariant_all_histories : forall ops, wf (run ops).
Proof. intros ops. apply wf_run_from. exact wf_init. Qed.

Theorem gc_preserves_all : forall ops w v,
  w <= v ->
  (forall n, read_node (gc (run ops) w) n v = read_node (run ops) n v) /\
  (forall e, read_edge (gc (run ops) w) e v = read_edge (run ops) e v).
Proof.
  intros ops w v H. split; intros x.
  - apply gc_preserves_node; exact H.
  - apply gc_preserves_edge; [exact (proj1 (proj2 (invariant_all_histories ops)))|exact H].
Qed.

(* ------------------------------------------------ gc_auto and active transactions *)
Lemma lookup_In {A} k (m : list (N * A)) v : lookup k m = Some v -> In (k, v) m.
Proof.
  induction m as [|[a b] m IH]; cbn [lookup In]; [discriminate|].
  destruct (N.eqb k a) eqn:E; [apply N.eqb_eq in E; subst; intros [= <-]; auto|auto].
Qed.

Lemma min_start_le m t x :
  In (t, x) m -> t_status x = Active -> exists w, min_start m = Some w /\ w <= t_start x.
Proof.
  induction m as [|[k y] m IH]; cbn [In min_start]; [intros []|].
  intros [E|Hi] Ha.
  - injection E as -> ->. apply is_active_true in Ha. rewrite Ha.
    destruct (min_start m); eexists; split; try reflexivity; lia.
  - destruct (IH Hi Ha) as [w [Hw Hle]]. rewrite Hw.
    destruct (is_active y); eexists; split; try reflexivity; lia.
Qed.

Lemma watermark_le s t x :
  lookup t (txns s) = Some x -> t_status x = Active -> watermark s <= t_start x.
Proof.
  intros El Ha. unfold watermark.
  destruct (min_start_le (txns s) t x (lookup_In _ _ _ El) Ha) as [w [Hw Hle]]. rewrite Hw. exact Hle.
Qed.

Lemma read_version_gc s g w t :
  Inv s g -> active s t -> read_version (gc_txns s w) t = read_version s t.
Proof.
  intros I [x [El Ha]]. unfold read_version, gc_txns. cbn [with_txns txns cur].
  rewrite lookup_filter by (apply (inv_nodup _ _ I)). rewrite El. cbn [snd].
  apply is_active_true in Ha. rewrite Ha. reflexivity.
Qed.

(* any collection at or below the watermark is invisible to every active transaction *)
Lemma gc_safe_below_watermark s w t :
  wf s -> w <= watermark (tx s) -> active (tx s) t ->
  (forall n, node_for_txn (gc s w) t n = node_for_txn s t n) /\
  (forall e, edge_for_txn (gc s w) t e = edge_for_txn s t e).
Proof.
  intros [[g I] [Hl _]] Hw Ha.
  assert (read_version (tx (gc s w)) t = read_version (tx s) t) as Hrv.
  { cbn [gc tx]. eapply read_version_gc; eauto. }
  destruct Ha as [x [El Hs]].
  assert (exists v, read_version (tx s) t = Some v /\ w <= v) as [v [Hv Hle]].
  { unfold read_version. rewrite El. eexists. split; [reflexivity|].
    pose proof (watermark_le _ _ _ El Hs). pose proof (inv_start _ _ I _ _ El).
    destruct (t_iso x); lia. }
  split; intros id.
  - unfold node_for_txn. rewrite Hrv, Hv. apply gc_preserves_node; auto.
  - unfold edge_for_txn. rewrite Hrv, Hv. apply gc_preserves_edge; auto.
Qed.

Theorem auto_safe : forall ops t,
  let s := run ops in
  active (tx s) t ->
  (forall n, node_for_txn (gc_auto s) t n = node_for_txn s t n) /\
  (forall e, edge_for_txn (gc_auto s) t e = edge_for_txn s t e).
Proof.
  intros ops t s Ha. unfold gc_auto. apply gc_safe_below_watermark; auto.
  - apply invariant_all_histories.
  - lia.
Qed.

(* the operation the histories use is the function the theorems talk about *)
Lemma step_gc s w : fst (step s (Tx (Gc w))) = gc s w.
Proof. reflexivity. Qed.
Lemma step_gc_auto s : fst (step s (Tx GcAuto)) = gc_auto s.
Proof. reflexivity. Qed.

(* ================================================================================
   C07 on this model: a read of the past (version older than current_version) never
   changes afterwards -- for nodes and, since relationships carry their creation image /
   pre-image, for relationships.  A collection gc_versions(w) may only change reads below w. *)
Definition gc_ok (v : N) (o : mop) : bool :=
  match o with
  | Tx (Gc w) => N.leb w v
  | Tx GcAuto => false
  | _ => true
  end.

Record wf2 (s : store) : Prop := {
  w2_wf : wf s;
  w2_live : forall id, In id (live s) -> id < next_edge s;
  w2_log_live : forall id log, lookup id (elog s) = Some log -> In id (live s);
  w2_log_ne : forall id log, lookup id (elog s) = Some log -> log <> [];
  w2_nodes : forall id c, lookup id (nodes s) = Some c -> id < next_node s
}.

Lemma rfind_app_false {A} (p : A -> bool) l x : p x = false -> rfind p (l ++ [x]) = rfind p l.
Proof. intros H. induction l as [|y l IH]; cbn [app rfind]; [rewrite H; reflexivity|]. rewrite IH. reflexivity. Qed.

Lemma rfind_upd_last {A} (p : A -> bool) (f : A -> A) l :
  (forall y, olast l = Some y -> p y = false /\ p (f y) = false) ->
  rfind p (upd_last f l) = rfind p l.
Proof.
  induction l as [|x l IH]; [reflexivity|]. destruct l as [|z l'].
  - intros H. destruct (H x eq_refl) as [H1 H2]. cbn. rewrite H1, H2. reflexivity.
  - intros H. change (upd_last f (x :: z :: l')) with (x :: upd_last f (z :: l')).
    cbn [rfind]. rewrite IH; [reflexivity|]. intros y Hy. apply H. exact Hy.
Qed.

Lemma olast_some {A} (l : list A) : l <> [] -> exists y, olast l = Some y.
Proof.
  induction l as [|x l IH]; [congruence|]. intros _. destruct l as [|z l']; [eexists; reflexivity|].
  destruct IH as [y Hy]; [discriminate|]. exists y. exact Hy.
Qed.

Lemma upd_last_ne {A} (f : A -> A) l : l <> [] -> upd_last f l <> [].
Proof. destruct l as [|x [|y r]]; cbn; congruence. Qed.

Lemma rposition_skipn_ne {A} (p : A -> bool) l i : rposition p l = Some i -> skipn i l <> [].
Proof.
  revert i. induction l as [|x l IH]; intros i; cbn [rposition]; [discriminate|].
  destruct (rposition p l) as [j|] eqn:E.
  - intros [= <-]. cbn [skipn]. apply IH. reflexivity.
  - destruct (p x); [|discriminate]. intros [= <-]. cbn. discriminate.
Qed.

Lemma gc_list_ne w l : l <> [] -> fst (gc_list w l) <> [].
Proof.
  unfold gc_list. destruct l as [|a [|b r]]; cbn [fst]; auto.
  intros _. destruct (rposition _ _) as [i|] eqn:E; cbn [fst]; [|discriminate].
  eapply rposition_skipn_ne; eauto.
Qed.

Lemma mem_app_other x l y : x <> y -> mem x (l ++ [y]) = mem x l.
Proof.
  intros H. unfold mem. rewrite existsb_app. cbn. destruct (N.eqb x y) eqn:E; [apply N.eqb_eq in E; congruence|].
  rewrite !orb_false_r. reflexivity.
Qed.

Lemma mem_app_same x l : mem x (l ++ [x]) = true.
Proof. unfold mem. rewrite existsb_app. cbn. rewrite N.eqb_refl. rewrite orb_true_r. reflexivity. Qed.

Lemma mem_false_not_in x l : ~ In x l -> mem x l = false.
Proof. intros H. destruct (mem x l) eqn:E; [|reflexivity]. apply mem_in in E. tauto. Qed.

(* what a relationship read of the past depends on: not on current_version *)
Definition past_edge (lv : list N) (lg : list (N * list ver)) (ep : list (N * props)) (e v : N) : option ver :=
  if negb (mem e lv) then None
  else match lookup e lg with
       | Some log =>
           match rfind (fun x => N.leb (v_ver x) v) log with
           | Some entry => if N.ltb v (v_ver entry) then None
                           else Some {| v_ver := v_ver entry; v_props := v_props entry |}
           | None => None
           end
       | None => if N.ltb v 1 then None
                 else Some {| v_ver := 1; v_props := match lookup e ep with Some p => p | None => [] end |}
       end.

Lemma read_edge_past s e v :
  v < curv s -> read_edge s e v = past_edge (live s) (elog s) (eprops s) e v.
Proof.
  intros H. unfold read_edge, past_edge, has_edge, cur_eprops.
  destruct (negb (mem e (live s))); [reflexivity|].
  destruct (lookup e (elog s)) as [log|]; [|reflexivity].
  destruct (rfind _ log); [|reflexivity].
  assert (N.ltb v (curv s) = true) as -> by (apply N.ltb_lt; exact H).
  rewrite orb_true_r. reflexivity.
Qed.

Lemma wf2_init : wf2 init.
Proof.
  constructor; [exact wf_init| | | |]; cbn; try (intros; contradiction); intros; discriminate.
Qed.

(* the structural part of wf2 (everything but [wf]) *)
Definition shape (s : store) : Prop :=
  (forall id, In id (live s) -> id < next_edge s) /\
  (forall id log, lookup id (elog s) = Some log -> In id (live s)) /\
  (forall id log, lookup id (elog s) = Some log -> log <> []) /\
  (forall id c, lookup id (nodes s) = Some c -> id < next_node s).

Lemma olast_ne {A} (l : list A) y : olast l = Some y -> l <> [].
Proof. destruct l; [discriminate|discriminate]. Qed.

Lemma shape_edge_update s e post : has_edge s e = true -> shape s -> shape (edge_update s e post).
Proof.
  intros He [L1 [L2 [L3 L4]]]. unfold shape, edge_update. cbn [live elog nodes next_edge next_node].
  split; [exact L1|]. split; [|split; [|exact L4]].
  - intros id log. rewrite lookup_set. destruct (N.eqb id e) eqn:E; [|apply L2].
    apply N.eqb_eq in E. subst. intros _. apply mem_in. exact He.
  - intros id log. rewrite lookup_set. destruct (N.eqb id e) eqn:E; [|apply L3].
    intros [= <-].
    match goal with |- context [olast ?l] => remember l as lg eqn:Elg; destruct (olast lg) eqn:Eo end.
    + destruct (N.eqb (v_ver v) (curv s)).
      * apply upd_last_ne. eapply olast_ne; eauto.
      * intros H. apply app_eq_nil in H. destruct H; discriminate.
    + intros H. apply app_eq_nil in H. destruct H; discriminate.
Qed.

Lemma shape_create_edge s a b p : shape s -> shape (fst (create_edge s a b p)).
Proof.
  intros [L1 [L2 [L3 L4]]]. unfold create_edge. destruct (has_node s a && has_node s b); [|repeat split; auto].
  unfold shape. cbn [fst live elog nodes next_edge next_node]. split; [|split; [|split; [|exact L4]]].
  - intros id Hi. apply in_app_or in Hi. destruct Hi as [Hi|[<-|[]]]; [apply L1 in Hi; lia|lia].
  - unfold log_creation. intros id log. destruct (N.ltb 1 (curv s)).
    + rewrite lookup_set. destruct (N.eqb id (next_edge s)) eqn:E.
      * apply N.eqb_eq in E. subst. intros _. apply in_or_app. right. left. reflexivity.
      * intros H. apply in_or_app. left. eapply L2; eauto.
    + intros H. apply in_or_app. left. eapply L2; eauto.
  - unfold log_creation. intros id log. destruct (N.ltb 1 (curv s)); [|apply L3].
    rewrite lookup_set. destruct (N.eqb id (next_edge s)); [intros [= <-]; discriminate|apply L3].
Qed.

Lemma shape_step s o : shape s -> shape (fst (step s o)).
Proof.
  intros S. destruct o as [p|n k v|a b|e k v|o'|a b p|e k]; cbn [step].
  - destruct S as [L1 [L2 [L3 L4]]]. unfold shape. cbn [fst live elog nodes next_edge next_node].
    repeat split; auto. intros id c. rewrite lookup_set. destruct (N.eqb id (next_node s)) eqn:E.
    + apply N.eqb_eq in E. intros _. lia.
    + intros H. apply L4 in H. lia.
  - unfold set_node. destruct (lookup n (nodes s)) eqn:El; [|exact S]. destruct (olast l); [|exact S].
    destruct S as [L1 [L2 [L3 L4]]]. unfold shape. cbn [fst live elog nodes next_edge next_node].
    repeat split; auto. intros id c. rewrite lookup_set. destruct (N.eqb id n) eqn:E; [|apply L4].
    apply N.eqb_eq in E. subst. intros _. eapply L4; eauto.
  - apply shape_create_edge; exact S.
  - unfold set_edge. destruct (negb (has_edge s e)) eqn:He; [exact S|]. cbn [fst].
    apply shape_edge_update; [apply negb_false_iff; exact He|exact S].
  - destruct S as [L1 [L2 [L3 L4]]].
    destruct o'; cbn [step];
      try (match goal with |- context [Txn.step ?a ?b] => destruct (Txn.step a b) end; repeat split; assumption);
      unfold shape; cbn [fst gc live elog nodes next_edge next_node]; (split; [exact L1|]);
      (split; [intros id log; rewrite lookup_gc_map; (destruct (lookup id (elog s)) eqn:El; [|discriminate]);
               intros _; eapply L2; eauto|]);
      (split; [intros id log; rewrite lookup_gc_map; (destruct (lookup id (elog s)) eqn:El; [|discriminate]);
               intros [= <-]; apply gc_list_ne; eapply L3; eauto|]);
      intros id c; rewrite lookup_gc_map; (destruct (lookup id (nodes s)) eqn:El; [|discriminate]);
      intros _; eapply L4; eauto.
  - apply shape_create_edge; exact S.
  - unfold remove_edge. destruct (has_edge s e && ephas k (cur_eprops s e)) eqn:He; [|exact S]. cbn [fst].
    apply andb_true_iff in He. apply shape_edge_update; [tauto|exact S].
Qed.

Lemma wf2_shape s : wf2 s <-> wf s /\ shape s.
Proof.
  split.
  - intros [W L1 L2 L3 L4]. split; [exact W|]. repeat split; assumption.
  - intros [W [L1 [L2 [L3 L4]]]]. constructor; assumption.
Qed.

Lemma wf2_step s o : wf2 s -> wf2 (fst (step s o)).
Proof.
  intros H. apply wf2_shape in H. destruct H as [[W1 [W2 W3]] S]. apply wf2_shape. split.
  - split; [apply tx_inv_step; auto|]. split; [apply log_bounded_step; auto|apply chain_bounded_step; auto].
  - apply shape_step; exact S.
Qed.

Lemma wf2_run_from ops : forall s, wf2 s -> wf2 (run_from s ops).
Proof.
  induction ops as [|o ops IH]; intros s H; [exact H|].
  unfold run_from in *. cbn [fold_left]. apply IH. apply wf2_step. exact H.
Qed.

Lemma wf2_run ops : wf2 (run ops).
Proof. apply wf2_run_from. exact wf2_init. Qed.

Lemma pe_edge_update s e post x v :
  (forall id log, lookup id (elog s) = Some log -> log <> []) -> v < curv s ->
  let s' := edge_update s e post in
  past_edge (live s') (elog s') (eprops s') x v = past_edge (live s) (elog s) (eprops s) x v.
Proof.
  intros L3 Hv. unfold edge_update. cbn [live elog eprops]. unfold past_edge.
  destruct (negb (mem x (live s))); [reflexivity|].
  rewrite !lookup_set. destruct (N.eqb x e) eqn:Ee; [|reflexivity].
  apply N.eqb_eq in Ee. subst x. unfold cur_eprops.
  destruct (lookup e (elog s)) as [[|x0 r0]|] eqn:El.
  - exfalso. eapply L3; eauto.
  - (* a log exists: last entry coalesced, or a new entry appended *)
    destruct (olast_some (x0 :: r0)) as [l0 Hl0]; [discriminate|]. rewrite Hl0.
    destruct (N.eqb (v_ver l0) (curv s)) eqn:E0.
    + apply N.eqb_eq in E0. rewrite rfind_upd_last; [reflexivity|].
      intros y Hy. rewrite Hl0 in Hy. injection Hy as <-. cbn [v_ver]. split; lia.
    + rewrite rfind_app_false; [reflexivity|]. cbn [v_ver]. lia.
  - (* no log yet: pre-image under version 1, then the post-image *)
    destruct (N.ltb 1 (curv s)) eqn:E1.
    + cbn [olast v_ver]. assert (N.eqb 1 (curv s) = false) as -> by lia.
      cbn [app rfind v_ver]. assert (N.leb (curv s) v = false) as -> by lia.
      destruct (N.leb 1 v) eqn:E2; cbn [v_ver v_props].
      * assert (N.ltb v 1 = false) as -> by lia. reflexivity.
      * assert (N.ltb v 1 = true) as -> by lia. reflexivity.
    + cbn [olast app rfind v_ver]. assert (N.leb (curv s) v = false) as -> by lia.
      assert (N.ltb v 1 = true) as -> by lia. reflexivity.
Qed.

Lemma pe_create_edge s a b p x v :
  shape s -> v < curv s ->
  let s' := fst (create_edge s a b p) in
  past_edge (live s') (elog s') (eprops s') x v = past_edge (live s) (elog s) (eprops s) x v.
Proof.
  intros [L1 [L2 [L3 L4]]] Hv. unfold create_edge. destruct (has_node s a && has_node s b); [|reflexivity].
  cbn [fst live elog eprops]. unfold past_edge, log_creation. destruct (N.eqb x (next_edge s)) eqn:Ee.
  - apply N.eqb_eq in Ee. subst x. rewrite mem_app_same. cbn [negb].
    assert (~ In (next_edge s) (live s)) as Hnl by (intros Hi; apply L1 in Hi; lia).
    rewrite (mem_false_not_in _ _ Hnl). cbn [negb].
    destruct (N.ltb 1 (curv s)) eqn:E1.
    + rewrite lookup_set, N.eqb_refl. cbn [rfind v_ver].
      assert (N.leb (curv s) v = false) as -> by lia. reflexivity.
    + destruct (lookup (next_edge s) (elog s)) eqn:El; [exfalso; apply Hnl; eapply L2; eauto|].
      assert (N.ltb v 1 = true) as -> by lia. reflexivity.
  - assert (x <> next_edge s) as Hne by (intros ->; rewrite N.eqb_refl in Ee; discriminate).
    rewrite mem_app_other by auto. destruct (negb (mem x (live s))); [reflexivity|].
    assert (lookup x (if N.ltb 1 (curv s)
                      then set (next_edge s)
                             [{| v_ver := curv s;
                                 v_props := fold_left (fun m kv => pset (fst kv) (snd kv) m) p (cur_eprops s (next_edge s)) |}]
                             (elog s)
                      else elog s) = lookup x (elog s)) as ->.
    { destruct (N.ltb 1 (curv s)); [|reflexivity]. rewrite lookup_set, Ee. reflexivity. }
    destruct (lookup x (elog s)); [reflexivity|].
    destruct p; [reflexivity|]. rewrite lookup_set, Ee. reflexivity.
Qed.

Lemma edge_stable_step s o e v :
  wf2 s -> v < curv s -> gc_ok v o = true ->
  read_edge (fst (step s o)) e v = read_edge s e v.
Proof.
  intros W Hv Hok. pose proof (curv_step s o) as Hc.
  apply wf2_shape in W. destruct W as [[W1 [W2 W3]] S].
  (* collections first: C08 *)
  destruct o as [p|n k x|a b|e' k x|o'|a b p|e' k];
    try (destruct o' as [i|t n|t e0|t|t|w|]; cbn [gc_ok] in Hok;
         [| | | | |cbn [step fst]; apply gc_preserves_edge; [exact W2|lia]|discriminate]);
    rewrite (read_edge_past s e v Hv), read_edge_past by lia.
  - reflexivity.
  - cbn [step]. unfold set_node. destruct (lookup n (nodes s)); [|reflexivity]. destruct (olast l); reflexivity.
  - cbn [step]. apply pe_create_edge; assumption.
  - cbn [step]. unfold set_edge. destruct (negb (has_edge s e')); [reflexivity|]. cbn [fst].
    apply pe_edge_update; [apply S|exact Hv].
  - reflexivity.
  - cbn [step]. unfold write_n. cbn [Txn.step]. reflexivity.
  - reflexivity.
  - cbn [step]. match goal with |- context [Txn.step ?a ?b] => destruct (Txn.step a b) end. reflexivity.
  - cbn [step]. match goal with |- context [Txn.step ?a ?b] => destruct (Txn.step a b) end. reflexivity.
  - cbn [step]. apply pe_create_edge; assumption.
  - cbn [step]. unfold remove_edge. destruct (has_edge s e' && ephas k (cur_eprops s e')); [|reflexivity]. cbn [fst].
    apply pe_edge_update; [apply S|exact Hv].
Qed.

Lemma nodes_create_edge s a b p : nodes (fst (create_edge s a b p)) = nodes s.
Proof. unfold create_edge. destruct (has_node s a && has_node s b); reflexivity. Qed.

Lemma node_stable_step s o n v :
  wf2 s -> v < curv s -> gc_ok v o = true ->
  read_node (fst (step s o)) n v = read_node s n v.
Proof.
  intros W Hv Hok. destruct W as [[W1 [W2 W3]] L1 L2 L3 L4].
  destruct o as [p|n' k x|a b|e' k x|o'|a b p|e' k].
  - cbn [step fst]. unfold read_node. cbn [nodes]. rewrite lookup_set.
    destruct (N.eqb n (next_node s)) eqn:E; [|reflexivity]. apply N.eqb_eq in E. subst n.
    destruct (lookup (next_node s) (nodes s)) eqn:El; [apply L4 in El; lia|].
    cbn [rfind v_ver]. fold (curv s). assert (N.leb (curv s) v = false) as -> by lia. reflexivity.
  - cbn [step]. unfold set_node. destruct (lookup n' (nodes s)) as [chain|] eqn:El; [|reflexivity].
    destruct (olast chain) as [latest|] eqn:Eo; [|reflexivity]. cbn [fst]. unfold read_node. cbn [nodes].
    rewrite lookup_set. destruct (N.eqb n n') eqn:E; [|reflexivity]. apply N.eqb_eq in E. subst n'. rewrite El.
    destruct (N.ltb (v_ver latest) (curv s)) eqn:E1.
    + apply rfind_app_false. cbn [v_ver]. lia.
    + apply rfind_upd_last. intros y Hy. rewrite Eo in Hy. injection Hy as <-. cbn [v_ver]. split; lia.
  - cbn [step]. unfold read_node. rewrite nodes_create_edge. reflexivity.
  - cbn [step]. unfold set_edge. destruct (negb (has_edge s e')); reflexivity.
  - destruct o' as [i|t m|t e0|t|t|w|]; cbn [gc_ok] in Hok; try discriminate;
      try (cbn [step]; match goal with |- context [Txn.step ?a ?b] => destruct (Txn.step a b) end; reflexivity).
    cbn [step fst]. apply gc_preserves_node. lia.
  - cbn [step]. unfold read_node. rewrite nodes_create_edge. reflexivity.
  - cbn [step]. unfold remove_edge. destruct (has_edge s e' && ephas k (cur_eprops s e')); reflexivity.
Qed.

Lemma stable_from ops : forall s v,
  wf2 s -> v < curv s -> forallb (gc_ok v) ops = true ->
  (forall e, read_edge (run_from s ops) e v = read_edge s e v) /\
  (forall n, read_node (run_from s ops) n v = read_node s n v).
Proof.
  induction ops as [|o ops IH]; intros s v W Hv Hok; [split; reflexivity|].
  cbn [forallb] in Hok. apply andb_true_iff in Hok. destruct Hok as [Ho Hok].
  unfold run_from in *. cbn [fold_left].
  destruct (IH (fst (step s o)) v) as [H1 H2]; auto.
  - apply wf2_step; auto.
  - pose proof (curv_step s o). lia.
  - split; intros x.
    + rewrite H1. apply edge_stable_step; auto.
    + rewrite H2. apply node_stable_step; auto.
Qed.

Lemma run_app_m a b : run (a ++ b) = run_from (run a) b.
Proof. unfold run, run_from. apply fold_left_app. Qed.

(* C07 for relationship reads (and node reads of this model): for every history ops1 and every
   continuation ops2 whose collections, if any, are gc_versions(w) with w <= v *)
Theorem past_reads_stable : forall ops1 ops2 v,
  v < curv (run ops1) -> forallb (gc_ok v) ops2 = true ->
  (forall e, read_edge (run (ops1 ++ ops2)) e v = read_edge (run ops1) e v) /\
  (forall n, read_node (run (ops1 ++ ops2)) n v = read_node (run ops1) n v).
Proof.
  intros ops1 ops2 v Hv Hok. rewrite run_app_m. apply stable_from; auto. apply wf2_run.
Qed.
