(* Proofs about model/Mvcc.v (property C08). *)
From Coq Require Import List NArith Bool Lia ZArith ZifyBool ZifyN.
From Verif Require Import Txn TxnProofs Mvcc.
Import ListNotations.
Open Scope N_scope.

Arguments N.add : simpl never.
Arguments N.ltb : simpl never.
Arguments N.leb : simpl never.
Arguments N.eqb : simpl never.

(* ------------------------------------------------ rfind / rposition / skipn *)
Lemma rposition_rfind_some {A} (p q : A -> bool) l i :
  (forall x, p x = true -> q x = true) -> rposition p l = Some i -> rfind q l <> None.
Proof.
  intros Hpq. revert i. induction l as [|x l IH]; intros i; cbn [rposition rfind]; [discriminate|].
  destruct (rposition p l) as [j|] eqn:Ej.
  - intros _. specialize (IH j eq_refl). destruct (rfind q l); congruence.
  - destruct (p x) eqn:Ep; [|discriminate]. intros _. destruct (rfind q l); [discriminate|].
    rewrite (Hpq x Ep). discriminate.
Qed.

Lemma rposition_rfind {A} (p q : A -> bool) l i :
  (forall x, p x = true -> q x = true) -> rposition p l = Some i ->
  rfind q (skipn i l) = rfind q l.
Proof.
  intros Hpq. revert i. induction l as [|x l IH]; intros i; cbn [rposition]; [discriminate|].
  destruct (rposition p l) as [j|] eqn:Ej.
  - intros [= <-]. cbn [skipn rfind]. rewrite (IH j eq_refl).
    pose proof (rposition_rfind_some p q l j Hpq Ej) as Hn.
    destruct (rfind q l); congruence.
  - destruct (p x); [|discriminate]. intros [= <-]. reflexivity.
Qed.

Lemma skipn_incl {A} i (l : list A) x : In x (skipn i l) -> In x l.
Proof.
  revert l. induction i as [|i IH]; intros l; cbn [skipn]; auto.
  destruct l as [|y l]; [auto|]. intros H. right. auto.
Qed.

Lemma gc_list_incl w l x : In x (fst (gc_list w l)) -> In x l.
Proof.
  unfold gc_list. destruct l as [|a [|b r]]; cbn [fst]; auto.
  destruct (rposition _ _); cbn [fst]; auto. apply skipn_incl.
Qed.

(* the heart of C08: pruning below the newest entry <= w never changes which entry a
   read at a version >= w selects; no assumption on the chain (sorted or not) *)
Lemma gc_list_rfind w v l :
  w <= v ->
  rfind (fun e => N.leb (v_ver e) v) (fst (gc_list w l)) = rfind (fun e => N.leb (v_ver e) v) l.
Proof.
  intros Hwv. unfold gc_list. destruct l as [|a [|b r]]; cbn [fst]; auto.
  destruct (rposition (fun e => N.leb (v_ver e) w) (a :: b :: r)) as [i|] eqn:E; cbn [fst]; auto.
  eapply rposition_rfind; [|exact E]. cbn. intros x Hx. lia.
Qed.

Lemma lookup_gc_map w m id :
  lookup id (gc_map w m) =
  match lookup id m with Some l => Some (fst (gc_list w l)) | None => None end.
Proof.
  unfold gc_map. induction m as [|[k l] m IH]; cbn [map lookup fst snd]; [reflexivity|].
  destruct (N.eqb id k); auto.
Qed.

(* ------------------------------------------------ reads of nodes across gc *)
Theorem gc_preserves_node : forall s w v n,
  w <= v -> read_node (gc s w) n v = read_node s n v.
Proof.
  intros s w v n Hwv. unfold read_node, gc. cbn [nodes]. rewrite lookup_gc_map.
  destruct (lookup n (nodes s)); [|reflexivity]. apply gc_list_rfind; auto.
Qed.

(* ------------------------------------------------ chain invariant *)
Definition bounded (c : N) (l : list ver) : Prop := Forall (fun e => v_ver e <= c) l.

(* every version recorded in a relationship log / node chain is at most current_version *)
Definition log_bounded (s : store) : Prop :=
  forall e log, lookup e (elog s) = Some log -> bounded (curv s) log.
Definition chain_bounded (s : store) : Prop :=
  forall n chain, lookup n (nodes s) = Some chain -> bounded (curv s) chain.

Lemma bounded_mono c c' l : c <= c' -> bounded c l -> bounded c' l.
Proof. intros H. apply Forall_impl. cbn. intros; lia. Qed.

Lemma bounded_gc c w l : bounded c l -> bounded c (fst (gc_list w l)).
Proof.
  unfold bounded. rewrite !Forall_forall. intros H x Hx. apply H. eapply gc_list_incl; eauto.
Qed.

Lemma bounded_upd_last c f l :
  (forall x, v_ver (f x) = v_ver x) -> bounded c l -> bounded c (upd_last f l).
Proof.
  intros Hf. unfold bounded. induction l as [|x [|y r] IH]; cbn [upd_last]; intros H.
  - constructor.
  - inversion H; subst. constructor; [rewrite Hf; auto|constructor].
  - inversion H; subst. constructor; auto.
Qed.

Lemma bounded_app c l x : bounded c l -> v_ver x <= c -> bounded c (l ++ [x]).
Proof. intros H Hx. apply Forall_app. split; auto. Qed.

Lemma exists_newer_bounded c v log :
  bounded c log -> (existsb (fun e => N.ltb v (v_ver e)) log || N.ltb v c) = N.ltb v c.
Proof.
  intros Hb. destruct (existsb _ log) eqn:E; [|reflexivity]. cbn [orb].
  apply existsb_exists in E. destruct E as [x [Hx Hlt]].
  unfold bounded in Hb. rewrite Forall_forall in Hb. specialize (Hb x Hx). lia.
Qed.

(* ------------------------------------------------ reads of relationships across gc *)
Theorem gc_preserves_edge : forall s w v e,
  log_bounded s -> w <= v -> read_edge (gc s w) e v = read_edge s e v.
Proof.
  intros s w v e Hb Hwv. unfold read_edge, has_edge, cur_eprops, curv, gc. cbn [live eprops elog tx].
  destruct (negb (mem e (live s))); [reflexivity|].
  rewrite lookup_gc_map. destruct (lookup e (elog s)) as [log|] eqn:El; [|reflexivity].
  specialize (Hb e log El). unfold curv in Hb.
  rewrite gc_list_rfind by auto.
  assert (cur (gc_txns (tx s) w) = cur (tx s)) as Hc by reflexivity. rewrite Hc.
  rewrite (exists_newer_bounded (cur (tx s)) v (fst (gc_list w log))) by (apply bounded_gc; auto).
  rewrite (exists_newer_bounded (cur (tx s)) v log) by auto.
  reflexivity.
Qed.

(* ------------------------------------------------ the invariant holds on every history *)
Lemma tx_step s o :
  tx (fst (step s o)) = match o with Tx o' => fst (Txn.step (tx s) o') | _ => tx s end.
Proof.
  destruct o as [p|n k v|a b|e k v|o']; cbn [step].
  - reflexivity.
  - unfold set_node. destruct (lookup n (nodes s)); [|reflexivity]. destruct (olast l); reflexivity.
  - destruct (has_node s a && has_node s b); reflexivity.
  - unfold set_edge. destruct (negb (has_edge s e)); reflexivity.
  - destruct o'; try reflexivity; cbn [step]; match goal with |- context [Txn.step ?a ?b] => destruct (Txn.step a b) end; reflexivity.
Qed.

Lemma curv_step s o : curv s <= curv (fst (step s o)).
Proof.
  unfold curv. rewrite tx_step. destruct o; try lia. apply step_cur.
Qed.

Lemma log_bounded_step s o : log_bounded s -> log_bounded (fst (step s o)).
Proof.
  intros H. pose proof (curv_step s o) as Hc. revert Hc.
  destruct o as [p|n k v|a b|e k v|o']; cbn [step].
  - cbn. intros _. exact H.
  - unfold set_node. destruct (lookup n (nodes s)); [|intros _; exact H].
    destruct (olast l); [|intros _; exact H]. cbn. intros _. exact H.
  - destruct (has_node s a && has_node s b); cbn; intros _; exact H.
  - unfold set_edge. destruct (negb (has_edge s e)); [intros _; exact H|].
    cbn [fst]. intros _. unfold log_bounded, curv. cbn [elog tx]. intros e' log'. rewrite lookup_set.
    destruct (N.eqb e' e) eqn:Ee; [|apply H].
    intros [= <-].
    assert (bounded (curv s) (match lookup e (elog s) with Some l => l | None => [] end)) as Hl.
    { destruct (lookup e (elog s)) eqn:El; [eapply H; eauto|constructor]. }
    fold (curv s). destruct (olast _).
    + destruct (N.eqb (v_ver v0) (curv s)).
      * apply bounded_upd_last; auto.
      * apply bounded_app; auto. cbn. lia.
    + apply bounded_app; auto. cbn. lia.
  - destruct o'; cbn [step fst];
      try (match goal with |- context [Txn.step ?a ?b] => destruct (Txn.step a b) as [t' r] eqn:Es end;
           cbn [fst]; intros Hc; unfold log_bounded in *; cbn [with_tx elog]; intros e0 log0 El0;
           eapply bounded_mono; [exact Hc|eapply H; eauto]).
    + intros _. unfold log_bounded, curv. cbn [gc elog tx]. intros e log. rewrite lookup_gc_map.
      destruct (lookup e (elog s)) eqn:El; [|discriminate]. intros [= <-]. apply bounded_gc. eapply H; eauto.
    + intros _. unfold log_bounded, curv. cbn [gc elog tx]. intros e log. rewrite lookup_gc_map.
      destruct (lookup e (elog s)) eqn:El; [|discriminate]. intros [= <-]. apply bounded_gc. eapply H; eauto.
Qed.

Lemma chain_bounded_step s o : chain_bounded s -> chain_bounded (fst (step s o)).
Proof.
  intros H. pose proof (curv_step s o) as Hc. revert Hc.
  destruct o as [p|n k v|a b|e k v|o']; cbn [step].
  - cbn [fst]. intros _. unfold chain_bounded, curv. cbn [nodes tx]. intros n chain. rewrite lookup_set.
    destruct (N.eqb n (next_node s)); [|apply H]. intros [= <-]. constructor; [cbn; unfold curv; lia|constructor].
  - unfold set_node. destruct (lookup n (nodes s)) as [chain|] eqn:El; [|intros _; exact H].
    destruct (olast chain) as [latest|]; [|intros _; exact H]. cbn [fst]. intros _.
    unfold chain_bounded, curv. cbn [nodes tx]. intros n' chain'. rewrite lookup_set.
    destruct (N.eqb n' n); [|apply H]. intros [= <-]. fold (curv s).
    specialize (H n chain El). destruct (N.ltb (v_ver latest) (curv s)).
    + apply bounded_app; auto. cbn. lia.
    + apply bounded_upd_last; auto.
  - destruct (has_node s a && has_node s b); cbn; intros _; exact H.
  - unfold set_edge. destruct (negb (has_edge s e)); [intros _; exact H|]. cbn. intros _. exact H.
  - destruct o'; cbn [step fst];
      try (match goal with |- context [Txn.step ?a ?b] => destruct (Txn.step a b) as [t' r] eqn:Es end;
           cbn [fst]; intros Hc; unfold chain_bounded in *; cbn [with_tx nodes]; intros e0 log0 El0;
           eapply bounded_mono; [exact Hc|eapply H; eauto]).
    + intros _. unfold chain_bounded, curv. cbn [gc nodes tx]. intros e log. rewrite lookup_gc_map.
      destruct (lookup e (nodes s)) eqn:El; [|discriminate]. intros [= <-]. apply bounded_gc. eapply H; eauto.
    + intros _. unfold chain_bounded, curv. cbn [gc nodes tx]. intros e log. rewrite lookup_gc_map.
      destruct (lookup e (nodes s)) eqn:El; [|discriminate]. intros [= <-]. apply bounded_gc. eapply H; eauto.
Qed.

Definition tx_inv (s : store) : Prop := exists g, Inv (tx s) g.

Lemma tx_inv_step s o : tx_inv s -> tx_inv (fst (step s o)).
Proof.
  intros [g I]. unfold tx_inv. rewrite tx_step. destruct o; eauto.
  eexists. apply inv_step. exact I.
Qed.

Definition wf (s : store) : Prop := tx_inv s /\ log_bounded s /\ chain_bounded s.

Lemma wf_init : wf init.
Proof.
  split; [exists []; exact inv_init|]. split; intros x l; cbn; discriminate.
Qed.

Lemma wf_run_from ops : forall s, wf s -> wf (run_from s ops).
Proof.
  induction ops as [|o ops IH]; intros s H; [exact H|].
  unfold run_from in *. cbn [fold_left]. apply IH. destruct H as [H1 [H2 H3]].
  split; [apply tx_inv_step; auto|]. split; [apply log_bounded_step; auto|apply chain_bounded_step; auto].
Qed.

Theorem invariant_all_histories : forall ops, wf (run ops).
Proof. intros ops. apply wf_run_from. exact wf_init. Qed.

Theorem gc_preserves_all : forall ops w v,
  w <= v ->
  (forall n, read_node (gc (run ops) w) n v = read_node (run ops) n v) /\
  (forall e, read_edge (gc (run ops) w) e v = read_edge (run ops) e v).
Proof.
  intros ops w v H. split; intros x.
  - apply gc_preserves_node; exact H.
  - apply gc_preserves_edge; [exact (proj1 (proj2 (invariant_all_histories ops)))|exact H].
Qed.

(* ------------------------------------------------ gc_auto and active transactions *)
Lemma lookup_In {A} k (m : list (N * A)) v : lookup k m = Some v -> In (k, v) m.
Proof.
  induction m as [|[a b] m IH]; cbn [lookup In]; [discriminate|].
  destruct (N.eqb k a) eqn:E; [apply N.eqb_eq in E; subst; intros [= <-]; auto|auto].
Qed.

Lemma min_start_le m t x :
  In (t, x) m -> t_status x = Active -> exists w, min_start m = Some w /\ w <= t_start x.
Proof.
  induction m as [|[k y] m IH]; cbn [In min_start]; [intros []|].
  intros [E|Hi] Ha.
  - injection E as -> ->. apply is_active_true in Ha. rewrite Ha.
    destruct (min_start m); eexists; split; try reflexivity; lia.
  - destruct (IH Hi Ha) as [w [Hw Hle]]. rewrite Hw.
    destruct (is_active y); eexists; split; try reflexivity; lia.
Qed.

Lemma watermark_le s t x :
  lookup t (txns s) = Some x -> t_status x = Active -> watermark s <= t_start x.
Proof.
  intros El Ha. unfold watermark.
  destruct (min_start_le (txns s) t x (lookup_In _ _ _ El) Ha) as [w [Hw Hle]]. rewrite Hw. exact Hle.
Qed.

Lemma read_version_gc s g w t :
  Inv s g -> active s t -> read_version (gc_txns s w) t = read_version s t.
Proof.
  intros I [x [El Ha]]. unfold read_version, gc_txns. cbn [with_txns txns cur].
  rewrite lookup_filter by (apply (inv_nodup _ _ I)). rewrite El. cbn [snd].
  apply is_active_true in Ha. rewrite Ha. reflexivity.
Qed.

(* any collection at or below the watermark is invisible to every active transaction *)
Lemma gc_safe_below_watermark s w t :
  wf s -> w <= watermark (tx s) -> active (tx s) t ->
  (forall n, node_for_txn (gc s w) t n = node_for_txn s t n) /\
  (forall e, edge_for_txn (gc s w) t e = edge_for_txn s t e).
Proof.
  intros [[g I] [Hl _]] Hw Ha.
  assert (read_version (tx (gc s w)) t = read_version (tx s) t) as Hrv.
  { cbn [gc tx]. eapply read_version_gc; eauto. }
  destruct Ha as [x [El Hs]].
  assert (exists v, read_version (tx s) t = Some v /\ w <= v) as [v [Hv Hle]].
  { unfold read_version. rewrite El. eexists. split; [reflexivity|].
    pose proof (watermark_le _ _ _ El Hs). pose proof (inv_start _ _ I _ _ El).
    destruct (t_iso x); lia. }
  split; intros id.
  - unfold node_for_txn. rewrite Hrv, Hv. apply gc_preserves_node; auto.
  - unfold edge_for_txn. rewrite Hrv, Hv. apply gc_preserves_edge; auto.
Qed.

Theorem auto_safe : forall ops t,
  let s := run ops in
  active (tx s) t ->
  (forall n, node_for_txn (gc_auto s) t n = node_for_txn s t n) /\
  (forall e, edge_for_txn (gc_auto s) t e = edge_for_txn s t e).
Proof.
  intros ops t s Ha. unfold gc_auto. apply gc_safe_below_watermark; auto.
  - apply invariant_all_histories.
  - lia.
Qed.

(* the operation the histories use is the function the theorems talk about *)
Lemma step_gc s w : fst (step s (Tx (Gc w))) = gc s w.
Proof. reflexivity. Qed.
Lemma step_gc_auto s : fst (step s (Tx GcAuto)) = gc_auto s.
Proof. reflexivity. Qed.
