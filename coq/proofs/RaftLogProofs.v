From Coq Require Import List NArith ZArith Bool Lia ZifyBool ZifyN ZifyNat Sorted.
From Verif Require Import RaftLog.
Import ListNotations.
Open Scope N_scope.

(* ---------- generic list facts ---------- *)

Lemma find_filter_const {A} (q p : A -> bool) (c : bool) (l : list A) :
  (forall x, q x = true -> p x = c) ->
  find q (filter p l) = if c then find q l else None.
Proof.
  intros H. induction l as [|x r IH]; cbn; [destruct c; reflexivity|].
  destruct (q x) eqn:Q.
  - rewrite (H x Q). destruct c; cbn; [rewrite Q; reflexivity | exact IH].
  - destruct (p x); cbn; [rewrite Q|]; exact IH.
Qed.

Lemma find_app {A} (q : A -> bool) (l1 l2 : list A) :
  find q (l1 ++ l2) = match find q l1 with Some x => Some x | None => find q l2 end.
Proof. induction l1 as [|x r IH]; cbn; [reflexivity|]. destruct (q x); auto. Qed.

Lemma find_none_iff {A} (q : A -> bool) (l : list A) :
  find q l = None <-> forall x, In x l -> q x = false.
Proof.
  induction l as [|x r IH]; cbn; [tauto|]. destruct (q x) eqn:Q.
  - split; [discriminate|]. intros H. rewrite (H x (or_introl eq_refl)) in Q. discriminate.
  - rewrite IH. split; [intros H y [<-|Hy]; auto | auto].
Qed.

Lemma last_opt_app {A} (l : list A) (e : A) : last_opt (l ++ [e]) = Some e.
Proof.
  induction l as [|x r IH]; [reflexivity|].
  change ((x :: r) ++ [e]) with (x :: (r ++ [e])).
  cbn [last_opt]. destruct (r ++ [e]) eqn:Er; [destruct r; discriminate|]. exact IH.
Qed.

Lemma last_opt_none {A} (l : list A) : last_opt l = None <-> l = [].
Proof.
  induction l as [|x r IH]; cbn; [tauto|]. destruct r; [split; discriminate|].
  rewrite IH. split; discriminate.
Qed.

Lemma last_opt_In {A} (l : list A) e : last_opt l = Some e -> In e l.
Proof.
  induction l as [|x r IH]; cbn; [discriminate|]. destruct r; [intros [= ->]; auto|].
  intros H. right. exact (IH H).
Qed.

(* ---------- the representation invariant: strictly increasing indices ---------- *)

Definition lt_idx (a b : entry) : Prop := eidx a < eidx b.
Definition sorted (l : list entry) : Prop := StronglySorted lt_idx l.

Lemma sorted_filter p l : sorted l -> sorted (filter p l).
Proof.
  unfold sorted. induction 1 as [|x r Hs IH Hf]; cbn; [constructor|].
  destruct (p x); [|exact IH]. constructor; [exact IH|].
  rewrite Forall_forall in *. intros y Hy. apply filter_In in Hy. apply Hf. tauto.
Qed.

Lemma sorted_snoc l e : sorted l -> Forall (fun x => lt_idx x e) l -> sorted (l ++ [e]).
Proof.
  unfold sorted. induction 1 as [|x r Hs IH Hf]; intros Hall; cbn.
  - constructor; constructor.
  - inversion Hall as [|? ? Hx Hr]; subst. constructor; [apply IH; exact Hr|].
    apply Forall_app. split; [exact Hf | constructor; [exact Hx | constructor]].
Qed.

Lemma sorted_append1 l e : sorted l -> sorted (append1 l e).
Proof.
  intros H. unfold append1. apply sorted_snoc; [apply sorted_filter; exact H|].
  apply Forall_forall. intros x Hx. apply filter_In in Hx. unfold lt_idx. lia.
Qed.

Lemma sorted_fold_append es : forall l, sorted l -> sorted (fold_left append1 es l).
Proof. induction es as [|e r IH]; cbn; intros l H; [exact H|]. apply IH, sorted_append1, H. Qed.

Lemma sorted_step s o : sorted (log s) -> sorted (log (step s o)).
Proof.
  destruct o; cbn; intros H; [apply sorted_fold_append | apply sorted_filter | apply sorted_filter]; exact H.
Qed.

Lemma sorted_fold ops : forall s, sorted (log s) -> sorted (log (fold_left step ops s)).
Proof. induction ops as [|o r IH]; cbn; intros s H; [exact H|]. apply IH, sorted_step, H. Qed.

Lemma sorted_run ops : sorted (log (run ops)).
Proof. apply sorted_fold. constructor. Qed.

Lemma sorted_NoDup l : sorted l -> NoDup (map eidx l).
Proof.
  unfold sorted. induction 1 as [|x r Hs IH Hf]; cbn; constructor; [|exact IH].
  intros Hin. apply in_map_iff in Hin. destruct Hin as [y [E Hy]].
  rewrite Forall_forall in Hf. specialize (Hf y Hy). unfold lt_idx in Hf. lia.
Qed.

(* in a sorted log, membership and lookup coincide *)
Lemma sorted_find l e : sorted l -> In e l -> find (fun x => eidx x =? eidx e) l = Some e.
Proof.
  unfold sorted. induction 1 as [|x r Hs IH Hf]; cbn; [tauto|]. intros [->|Hin].
  - rewrite N.eqb_refl. reflexivity.
  - rewrite Forall_forall in Hf. specialize (Hf e Hin). unfold lt_idx in Hf.
    destruct (eidx x =? eidx e) eqn:Q; [lia|]. exact (IH Hin).
Qed.

Lemma find_idx l i e : find (fun x => eidx x =? i) l = Some e -> In e l /\ eidx e = i.
Proof. intros H. apply find_some in H. destruct H as [H1 H2]. split; [exact H1 | lia]. Qed.

Lemma sorted_last_max l e : sorted l -> last_opt l = Some e -> forall x, In x l -> eidx x <= eidx e.
Proof.
  unfold sorted. induction 1 as [|x r Hs IH Hf]; cbn [last_opt]; [discriminate|].
  destruct r as [|y r'].
  - intros [= ->] z [->|[]]. lia.
  - intros Hl z [->|Hz]; [|exact (IH Hl z Hz)].
    rewrite Forall_forall in Hf. specialize (Hf e (last_opt_In _ _ Hl)). unfold lt_idx in Hf. lia.
Qed.

(* ---------- refinement to the reference log (holds for every state) ---------- *)

Lemma get_append1 l e i :
  find (fun x => eidx x =? i) (append1 l e) =
  r_append1 (fun j => find (fun x => eidx x =? j) l) e i.
Proof.
  unfold append1, r_append1. rewrite find_app.
  rewrite (find_filter_const _ _ (i <? eidx e)) by (intros x Hx; apply N.eqb_eq in Hx; subst; reflexivity).
  cbn [find]. destruct (i <? eidx e) eqn:L.
  - destruct (find (fun x => eidx x =? i) l) eqn:F; [reflexivity|].
    destruct (eidx e =? i) eqn:Q; [lia | reflexivity].
  - rewrite (N.eqb_sym (eidx e) i). destruct (i =? eidx e); reflexivity.
Qed.

Lemma r_append1_ext m1 m2 e : (forall i, m1 i = m2 i) -> forall i, r_append1 m1 e i = r_append1 m2 e i.
Proof. intros H i. unfold r_append1. rewrite H. reflexivity. Qed.

Lemma r_fold_ext es : forall m1 m2, (forall i, m1 i = m2 i) ->
  forall i, fold_left r_append1 es m1 i = fold_left r_append1 es m2 i.
Proof. induction es as [|e r IH]; cbn; intros m1 m2 H; [exact H|]. apply IH, r_append1_ext, H. Qed.

Lemma get_fold_append es : forall l i,
  find (fun x => eidx x =? i) (fold_left append1 es l) =
  fold_left r_append1 es (fun j => find (fun x => eidx x =? j) l) i.
Proof.
  induction es as [|e r IH]; cbn; intros l i; [reflexivity|].
  rewrite IH. apply r_fold_ext. intros j. apply get_append1.
Qed.

Lemma refines_step s o : req (abs (step s o)) (rstep (abs s) o).
Proof.
  destruct o as [es|k|k t]; split; cbn; try reflexivity; intros i; unfold get_entry; cbn.
  - apply get_fold_append.
  - apply find_filter_const. intros x Hx. apply N.eqb_eq in Hx. subst. reflexivity.
  - apply find_filter_const. intros x Hx. apply N.eqb_eq in Hx. subst. reflexivity.
Qed.

Lemma rstep_req a b o : req a b -> req (rstep a o) (rstep b o).
Proof.
  intros [Hm Hs]. destruct o as [es|k|k t]; split; cbn; try assumption; try reflexivity; intros i.
  - apply r_fold_ext, Hm.
  - rewrite Hm. reflexivity.
  - rewrite Hm. reflexivity.
Qed.

Lemma req_trans a b c : req a b -> req b c -> req a c.
Proof. intros [H1 H2] [H3 H4]. split; [intros i; rewrite H1; apply H3 | congruence]. Qed.

Lemma refines_fold ops : forall s r, req (abs s) r -> req (abs (fold_left step ops s)) (fold_left rstep ops r).
Proof.
  induction ops as [|o t IH]; cbn; intros s r H; [exact H|].
  apply IH. eapply req_trans; [apply refines_step | apply rstep_req, H].
Qed.

Lemma refines_run ops : req (abs (run ops)) (rrun ops).
Proof. apply refines_fold. split; reflexivity. Qed.

(* ---------- the four clauses of the property, for every history ---------- *)

Lemma unique_index ops :
  sorted (log (run ops)) /\ NoDup (map eidx (log (run ops))) /\
  (forall e, In e (log (run ops)) <-> get_entry (run ops) (eidx e) = Some e).
Proof.
  pose proof (sorted_run ops) as S. split; [exact S|]. split; [apply sorted_NoDup, S|].
  intros e. split; [apply sorted_find, S|]. intros H. apply find_idx in H. tauto.
Qed.

Lemma append_replaces_suffix ops e :
  let s := run ops in let s' := step s (Append [e]) in
  get_entry s' (eidx e) = Some e /\
  (forall j, eidx e < j -> get_entry s' j = None) /\
  (forall j, j < eidx e -> get_entry s' j = get_entry s j).
Proof.
  cbn zeta. set (s := run ops).
  assert (H : forall j, get_entry (step s (Append [e])) j = r_append1 (get_entry s) e j)
    by (intros j; unfold get_entry; cbn; apply get_append1).
  repeat split; intros; rewrite H; unfold r_append1.
  - rewrite N.ltb_irrefl, N.eqb_refl. reflexivity.
  - destruct (j <? eidx e) eqn:L; [lia|]. destruct (j =? eidx e) eqn:Q; [lia | reflexivity].
  - destruct (j <? eidx e) eqn:L; [reflexivity | lia].
Qed.

Lemma snapshot_keeps_tail ops k t :
  let s := run ops in let s' := step s (Snapshot k t) in
  (forall j, k < j -> get_entry s' j = get_entry s j) /\
  (forall j, j <= k -> get_entry s' j = None) /\
  snap s' = Some (k, t).
Proof.
  cbn zeta. set (s := run ops).
  assert (H : forall j, get_entry (step s (Snapshot k t)) j = if k <? j then get_entry s j else None)
    by (intros j; destruct (refines_step s (Snapshot k t)) as [Hm _]; exact (Hm j)).
  repeat split; intros; try rewrite H.
  - destruct (k <? j) eqn:L; [reflexivity | lia].
  - destruct (k <? j) eqn:L; [lia | reflexivity].
Qed.

Lemma delete_from_spec ops k :
  let s := run ops in let s' := step s (DeleteFrom k) in
  (forall j, j < k -> get_entry s' j = get_entry s j) /\
  (forall j, k <= j -> get_entry s' j = None) /\ snap s' = snap s.
Proof.
  cbn zeta. set (s := run ops).
  assert (H : forall j, get_entry (step s (DeleteFrom k)) j = if j <? k then get_entry s j else None)
    by (intros j; destruct (refines_step s (DeleteFrom k)) as [Hm _]; exact (Hm j)).
  repeat split; intros; try rewrite H.
  - destruct (j <? k) eqn:L; [reflexivity | lia].
  - destruct (j <? k) eqn:L; [lia | reflexivity].
Qed.

Lemma last_sorted s :
  sorted (log s) ->
  (forall i e, get_entry s i = Some e -> (forall j, i < j -> get_entry s j = None) ->
               last_index_term s = (i, eterm e)) /\
  ((forall i, get_entry s i = None) ->
   last_index_term s = match snap s with Some p => p | None => (0, 0) end).
Proof.
  intros S. unfold last_index_term, get_entry. split.
  - intros i e He Hmax. destruct (last_opt (log s)) as [z|] eqn:L.
    + pose proof (last_opt_In _ _ L) as Hz. pose proof (sorted_find _ _ S Hz) as Fz.
      destruct (find_idx _ _ _ He) as [Hin Hi].
      pose proof (sorted_last_max _ _ S L e Hin) as Hle.
      destruct (N.eq_dec (eidx z) i) as [Eq|Ne].
      * rewrite Eq in Fz. rewrite Fz in He. inversion He; subst. reflexivity.
      * rewrite Hmax in Fz by lia. discriminate.
    + apply last_opt_none in L. rewrite L in He. discriminate.
  - intros Hnone. destruct (last_opt (log s)) as [z|] eqn:L; [|reflexivity].
    pose proof (sorted_find _ _ S (last_opt_In _ _ L)) as Fz. rewrite Hnone in Fz. discriminate.
Qed.

Lemma last_index_term_run ops :
  let s := run ops in
  (forall i e, get_entry s i = Some e -> (forall j, i < j -> get_entry s j = None) ->
               last_index_term s = (i, eterm e)) /\
  ((forall i, get_entry s i = None) ->
   last_index_term s = match snap s with Some p => p | None => (0, 0) end).
Proof. apply last_sorted, sorted_run. Qed.

(* the same, against the reference log *)
Lemma last_index_term_ref ops :
  (forall i e, rmap (rrun ops) i = Some e -> (forall j, i < j -> rmap (rrun ops) j = None) ->
               last_index_term (run ops) = (i, eterm e)) /\
  ((forall i, rmap (rrun ops) i = None) ->
   last_index_term (run ops) = match rsnap (rrun ops) with Some p => p | None => (0, 0) end).
Proof.
  destruct (refines_run ops) as [Hm Hs]. cbn in Hm, Hs.
  destruct (last_index_term_run ops) as [A B]. split.
  - intros i e He Hmax. apply A; [rewrite Hm; exact He | intros j Hj; rewrite Hm; auto].
  - intros Hn. rewrite <- Hs. apply B. intros i. rewrite Hm. apply Hn.
Qed.

Lemma get_entries_spec ops a b :
  let s := run ops in
  sorted (get_entries s a b) /\
  forall e, In e (get_entries s a b) <-> get_entry s (eidx e) = Some e /\ a <= eidx e < b.
Proof.
  cbn zeta. pose proof (unique_index ops) as [S [_ M]]. split; [apply sorted_filter, S|].
  intros e. unfold get_entries. rewrite filter_In, M. split; intros [H1 H2]; (split; [exact H1 | lia]).
Qed.
