(* search_adjacency_slice as written (model/GraphStore.v: bs_loop, binary_search, walk_back,
   take_run, search_run): on a slice sorted by neighbour id it visits exactly the entries with
   the searched neighbour, in order; the fuel ceil(log2 n) + 1 always suffices. *)
From Coq Require Import List NArith Bool Lia PeanoNat Arith Sorted Permutation ZArith ZifyBool ZifyNat ZifyN.
From Verif Require Import CheckLib GraphStore.
Import ListNotations.
Open Scope nat_scope.

Arguments N.eqb : simpl never.
Arguments N.ltb : simpl never.
Arguments N.leb : simpl never.
Arguments Nat.div2 : simpl never.
Arguments Nat.leb : simpl never.

Definition le_nbr (x y : aent) : Prop := (a_nbr x <= a_nbr y)%N.
Definition SortedN (l : list aent) : Prop := StronglySorted le_nbr l.

Definition key_is (key : N) (x : aent) : bool := N.eqb (a_nbr x) key.

Lemma nbr_at_cons x l i : nbr_at (x :: l) (S i) = nbr_at l i.
Proof. reflexivity. Qed.

Lemma sorted_nth l : SortedN l -> forall i j, i <= j -> j < length l -> (nbr_at l i <= nbr_at l j)%N.
Proof.
  induction 1 as [|x l HS IH F]; intros i j Hij Hj; [cbn in Hj; lia|].
  destruct j as [|j]; [assert (i = 0) by lia; subst; lia|].
  destruct i as [|i].
  - rewrite nbr_at_cons. unfold nbr_at at 1. cbn [nth]. rewrite Forall_forall in F.
    apply F. apply nth_In. cbn in Hj. lia.
  - rewrite !nbr_at_cons. apply IH; cbn in Hj; lia.
Qed.

Lemma div2_bounds n : 2 * Nat.div2 n <= n /\ n <= 2 * Nat.div2 n + 1.
Proof.
  pose proof (Nat.div2_odd n) as H. destruct (Nat.odd n); cbn [Nat.b2n] in H; lia.
Qed.

(* ---------- the halving loop ---------- *)
Section Loop.
Variables (l : list aent) (key : N).

Definition LoopInv (base size : nat) : Prop :=
  base + size <= length l /\ 1 <= size /\
  (forall i, i < base -> (nbr_at l i <= key)%N) /\
  (base = 0 \/ (nbr_at l base <= key)%N) /\
  (forall i, base + size <= i -> i < length l -> (key < nbr_at l i)%N).

Lemma bs_loop_inv : SortedN l -> forall fuel base size r,
  bs_loop fuel l key base size = Some r -> LoopInv base size -> LoopInv r 1.
Proof.
  intros HS. induction fuel as [|f IH]; intros base size r H I; [discriminate|].
  cbn [bs_loop] in H. destruct (Nat.leb_spec size 1) as [L|L].
  - inversion H; subst. destruct I as [I1 [I2 [I3 [I4 I5]]]]. assert (size = 1) by lia. subst. repeat split; auto.
  - destruct I as [I1 [I2 [I3 [I4 I5]]]]. pose proof (div2_bounds size) as [D1 D2].
    apply IH in H; auto. clear IH.
    destruct (N.ltb_spec key (nbr_at l (base + Nat.div2 size))) as [C|C].
    + repeat split; auto; try lia. intros i Hi Hl.
      eapply N.lt_le_trans; [exact C|]. apply sorted_nth; auto. lia.
    + repeat split; auto; try lia.
      * intros i Hi. eapply N.le_trans; [|exact C]. apply sorted_nth; auto; lia.
      * intros i Hi Hl. apply I5; lia.
Qed.

Lemma bs_loop_fuel : forall f base size, size <= 2 ^ f -> exists r, bs_loop (S f) l key base size = Some r.
Proof.
  induction f as [|f IH]; intros base size H.
  - cbn in H. cbn [bs_loop]. destruct (Nat.leb_spec size 1); [eauto | lia].
  - cbn [bs_loop]. destruct (Nat.leb_spec size 1) as [L|L]; [eauto|].
    apply IH. pose proof (div2_bounds size). rewrite Nat.pow_succ_r' in H. lia.
Qed.
End Loop.

Lemma In_nbr_at l x : In x l -> exists i, i < length l /\ nbr_at l i = a_nbr x.
Proof.
  intros H. destruct (In_nth _ _ dummy_ent H) as [i [Hi E]]. exists i. split; auto. unfold nbr_at. now rewrite E.
Qed.

Lemma length_pow (l : list aent) : l <> [] -> length l <= 2 ^ Nat.log2_up (length l).
Proof.
  intros H. assert (0 < length l) by (destruct l; [congruence | cbn; lia]).
  now destruct (Nat.log2_log2_up_spec _ H0).
Qed.

(* the fuel suffices, sorted or not *)
Theorem binary_search_fuel l key : binary_search l key <> BsFuel.
Proof.
  unfold binary_search. destruct l as [|x l]; [discriminate|].
  destruct (bs_loop_fuel (x :: l) key (Nat.log2_up (length (x :: l))) 0 (length (x :: l))) as [r E].
  { apply length_pow. discriminate. }
  unfold bs_fuel. rewrite E. destruct (N.eqb _ key); discriminate.
Qed.

Theorem binary_search_sorted l key : SortedN l ->
  match binary_search l key with
  | BsOk pos => pos < length l /\ nbr_at l pos = key
  | BsErr _ => forall x, In x l -> a_nbr x <> key
  | BsFuel => False
  end.
Proof.
  intros HS. pose proof (binary_search_fuel l key) as NF. unfold binary_search in *.
  destruct l as [|x0 l0] eqn:EL; [intros x []|]. rewrite <- EL in *.
  assert (Hlen : 1 <= length l) by (rewrite EL; cbn; lia).
  destruct (bs_loop (bs_fuel (length l)) l key 0 (length l)) as [r|] eqn:E; [|congruence].
  assert (I : LoopInv l key r 1).
  { eapply bs_loop_inv; eauto. repeat split; auto; try lia. }
  destruct I as [I1 [_ [I3 [I4 I5]]]].
  destruct (N.eqb_spec (nbr_at l r) key) as [Q|Q]; [split; [lia | auto]|].
  intros x Hx. destruct (In_nbr_at _ _ Hx) as [i [Hi Ei]]. rewrite <- Ei.
  destruct (N.lt_total (nbr_at l r) key) as [C|[C|C]]; [|contradiction|].
  - destruct (Nat.lt_total i r) as [T|[T|T]].
    + pose proof (sorted_nth l HS i r ltac:(lia) ltac:(lia)). lia.
    + subst. lia.
    + pose proof (I5 i ltac:(lia) Hi). lia.
  - destruct I4 as [->|I4]; [|lia].
    destruct i as [|i]; [lia|]. pose proof (I5 (S i) ltac:(lia) Hi). lia.
Qed.

(* ---------- walking back to the start of the run ---------- *)
Lemma walk_back_spec l key : forall pos,
  let p := walk_back l key pos in
  p <= pos /\ (forall i, p <= i -> i < pos -> nbr_at l i = key) /\ (p = 0 \/ nbr_at l (p - 1) <> key).
Proof.
  induction pos as [|q IH]; cbn [walk_back].
  - repeat split; auto. intros; lia.
  - destruct (N.eqb_spec (nbr_at l q) key) as [E|E].
    + destruct IH as [H1 [H2 H3]]. repeat split; auto.
      intros i Hi Hq. destruct (Nat.eq_dec i q) as [->|]; auto. apply H2; lia.
    + repeat split; auto. * intros; lia. * right. now replace (S q - 1) with q by lia.
Qed.

(* ---------- the forward scan ---------- *)
Lemma filter_none_gt key r : (forall y, In y r -> (key < a_nbr y)%N) -> filter (key_is key) r = [].
Proof.
  induction r as [|y r IH]; intros H; [reflexivity|]. cbn. unfold key_is at 1.
  destruct (N.eqb_spec (a_nbr y) key) as [E|E]; [pose proof (H y (or_introl eq_refl)); lia|].
  apply IH. intros z Hz. apply H. now right.
Qed.

Lemma take_run_filter key m : SortedN m -> (forall x, In x m -> (key <= a_nbr x)%N) ->
  take_run key m = filter (key_is key) m.
Proof.
  induction 1 as [|x r HS IH F]; intros G; [reflexivity|]. cbn [take_run filter]. unfold key_is at 1.
  destruct (N.eqb_spec (a_nbr x) key) as [E|E].
  - f_equal. apply IH. intros y Hy. apply G. now right.
  - symmetry. rewrite Forall_forall in F.
    assert (Gx : (key <= a_nbr x)%N) by (apply G; now left).
    apply filter_none_gt. intros y Hy. pose proof (F y Hy) as Fy. unfold le_nbr in Fy. lia.
Qed.

Lemma nth_firstn' {A} (d : A) : forall p l i, i < p -> nth i (firstn p l) d = nth i l d.
Proof.
  induction p as [|p IH]; intros l i H; [lia|]. destruct l as [|x l]; [destruct i; reflexivity|].
  destruct i as [|i]; [reflexivity|]. cbn. apply IH. lia.
Qed.

Lemma nth_skipn' {A} (d : A) : forall p l i, nth i (skipn p l) d = nth (p + i) l d.
Proof.
  induction p as [|p IH]; intros l i; [reflexivity|]. destruct l as [|x l]; [destruct i; reflexivity|].
  cbn. apply IH.
Qed.

Lemma SortedN_app_r l1 l2 : SortedN (l1 ++ l2) -> SortedN l2.
Proof. induction l1; cbn; intros H; auto. inversion H; auto. Qed.

Lemma run_is_filter l key p : SortedN l -> p < length l -> nbr_at l p = key ->
  (p = 0 \/ nbr_at l (p - 1) <> key) ->
  take_run key (skipn p l) = filter (key_is key) l.
Proof.
  intros HS Hp Ek Hprev.
  rewrite <- (firstn_skipn p l) at 2. rewrite filter_app.
  assert (E1 : filter (key_is key) (firstn p l) = []).
  { clear -HS Hp Ek Hprev. assert (G : forall x, In x (firstn p l) -> key_is key x = false).
    { intros x Hx. destruct (In_nth _ _ dummy_ent Hx) as [i [Hi Ei]].
      rewrite firstn_length in Hi. assert (Hip : i < p) by lia. rewrite nth_firstn' in Ei by auto.
      destruct Hprev as [->|Hprev]; [lia|].
      pose proof (sorted_nth l HS i (p - 1) ltac:(lia) ltac:(lia)) as L1.
      pose proof (sorted_nth l HS (p - 1) p ltac:(lia) ltac:(lia)) as L2.
      unfold key_is. rewrite <- Ei. fold (nbr_at l i). apply N.eqb_neq. lia. }
    induction (firstn p l) as [|y r IH]; [reflexivity|]. cbn. rewrite (G y) by (now left). apply IH.
    intros z Hz. apply G. now right. }
  rewrite E1. cbn [app]. apply take_run_filter.
  - rewrite <- (firstn_skipn p l) in HS. eapply SortedN_app_r; eauto.
  - intros x Hx. destruct (In_nth _ _ dummy_ent Hx) as [i [Hi Ei]]. rewrite nth_skipn' in Ei.
    rewrite skipn_length in Hi. pose proof (sorted_nth l HS p (p + i) ltac:(lia) ltac:(lia)) as L.
    unfold nbr_at in L at 2. rewrite Ei in L. lia.
Qed.

(* ---------- the whole search ---------- *)
Theorem search_run_sorted l key : SortedN l -> search_run l key = Some (filter (key_is key) l).
Proof.
  intros HS. unfold search_run. pose proof (binary_search_sorted l key HS) as B.
  destruct (binary_search l key) as [pos|pos|]; [| |contradiction].
  - destruct B as [Hp Ek]. f_equal.
    destruct (walk_back_spec l key pos) as [W1 [W2 W3]]. set (p := walk_back l key pos) in *.
    apply run_is_filter; auto; [lia|].
    destruct (Nat.eq_dec p pos) as [->|]; auto. apply W2; lia.
  - f_equal. symmetry. clear -B. induction l as [|x l IH]; [reflexivity|]. cbn. unfold key_is at 1.
    destruct (N.eqb_spec (a_nbr x) key) as [E|E]; [exfalso; eapply B; eauto; now left|].
    apply IH. intros y Hy. apply B. now right.
Qed.

Theorem search_run_fuel l key : search_run l key <> None.
Proof.
  unfold search_run. pose proof (binary_search_fuel l key). destruct (binary_search l key); congruence.
Qed.

(* ---------- sortedness is kept by the operations on slices ---------- *)
Lemma SortedN_filter p l : SortedN l -> SortedN (filter p l).
Proof.
  induction 1 as [|x l HS IH F]; cbn; [constructor|]. destruct (p x); auto. constructor; auto.
  rewrite Forall_forall in *. intros y Hy. apply filter_In in Hy as [Hy _]. auto.
Qed.

(* sorted insert at the lower bound *)
Fixpoint ins_lb (x : aent) (l : list aent) : list aent :=
  match l with
  | [] => [x]
  | y :: r => if N.leb (a_nbr x) (a_nbr y) then x :: l else y :: ins_lb x r
  end.

Lemma ins_lb_In x l y : In y (ins_lb x l) <-> y = x \/ In y l.
Proof.
  induction l as [|z l IH]; cbn; [intuition|]. destruct (N.leb (a_nbr x) (a_nbr z)); cbn; [intuition|].
  rewrite IH. intuition.
Qed.

Lemma ins_lb_sorted x l : SortedN l -> SortedN (ins_lb x l).
Proof.
  induction 1 as [|z l HS IH F]; cbn; [repeat constructor|].
  destruct (N.leb_spec (a_nbr x) (a_nbr z)) as [C|C].
  - constructor; [constructor; auto|]. constructor; [exact C|]. rewrite Forall_forall in *. intros y Hy.
    unfold le_nbr in *. pose proof (F y Hy). lia.
  - constructor; auto. rewrite Forall_forall in *. intros y Hy. apply ins_lb_In in Hy as [->|Hy]; auto.
    unfold le_nbr. lia.
Qed.

Lemma ins_nbr_eq x l : ins_nbr x l = ins_lb x l.
Proof. induction l as [|y l IH]; cbn; [reflexivity|]. destruct (N.leb (a_nbr x) (a_nbr y)); [reflexivity|]. now rewrite IH. Qed.

Lemma sort_nbr_sorted l : SortedN (sort_nbr l).
Proof.
  unfold sort_nbr. induction l; cbn; [constructor|]. rewrite ins_nbr_eq. now apply ins_lb_sorted.
Qed.

Lemma ins_lb_perm x l : Permutation (ins_lb x l) (x :: l).
Proof.
  induction l as [|y l IH]; cbn; auto. destruct (N.leb (a_nbr x) (a_nbr y)); auto.
  rewrite IH. apply perm_swap.
Qed.

Lemma sort_nbr_perm l : Permutation (sort_nbr l) l.
Proof.
  unfold sort_nbr. induction l; cbn; auto. rewrite ins_nbr_eq, ins_lb_perm. now constructor.
Qed.
