(* Proofs about model/Storage.v (C17). *)
From Coq Require Import List Arith NArith Bool Lia Sorting.Sorted.
From Verif Require Import CheckLib Storage.
Import ListNotations.
Open Scope N_scope.

(* ---------- key order ---------- *)
Lemma key_eqb_eq : forall a b, key_eqb a b = true <-> a = b.
Proof. apply list_eqb_spec. intros x y. apply N.eqb_eq. Qed.

Lemma key_eqb_refl : forall a, key_eqb a a = true.
Proof. intros a. apply key_eqb_eq. reflexivity. Qed.

Lemma key_eqb_neq : forall a b, key_eqb a b = false <-> a <> b.
Proof.
  intros a b. split.
  - intros H E. apply key_eqb_eq in E. congruence.
  - intros H. destruct (key_eqb a b) eqn:E; [apply key_eqb_eq in E; contradiction | reflexivity].
Qed.

Lemma key_eqb_sym : forall a b, key_eqb a b = key_eqb b a.
Proof.
  intros a b. destruct (key_eqb a b) eqn:E.
  - apply key_eqb_eq in E. subst. symmetry. apply key_eqb_refl.
  - symmetry. apply key_eqb_neq. apply key_eqb_neq in E. congruence.
Qed.

Lemma key_ltb_cons : forall x a y b,
  key_ltb (x :: a) (y :: b) = true <-> x < y \/ (x = y /\ key_ltb a b = true).
Proof.
  intros x a y b. cbn [key_ltb]. rewrite orb_true_iff, andb_true_iff, N.ltb_lt, N.eqb_eq. tauto.
Qed.

Lemma key_ltb_irrefl : forall a, key_ltb a a = false.
Proof.
  induction a as [|x a IH]; [reflexivity|].
  destruct (key_ltb (x :: a) (x :: a)) eqn:E; [|reflexivity].
  apply key_ltb_cons in E. destruct E as [E | [_ E]]; [lia | congruence].
Qed.

Lemma key_ltb_trans : forall a b c, key_ltb a b = true -> key_ltb b c = true -> key_ltb a c = true.
Proof.
  induction a as [|x a IH]; intros [|y b] [|z c] H1 H2; try discriminate; try reflexivity.
  apply key_ltb_cons in H1. apply key_ltb_cons in H2. apply key_ltb_cons.
  destruct H1 as [H1 | [E1 H1]]; destruct H2 as [H2 | [E2 H2]]; subst;
    [left; lia | left; assumption | left; assumption | right; split; [reflexivity | eapply IH; eauto]].
Qed.

Lemma key_ltb_tricho : forall a b, key_ltb a b = false -> key_ltb b a = false -> a = b.
Proof.
  induction a as [|x a IH]; intros [|y b] H1 H2; try discriminate; try reflexivity.
  cbn [key_ltb] in H1, H2.
  apply orb_false_iff in H1. destruct H1 as [H1 H1'].
  apply orb_false_iff in H2. destruct H2 as [H2 H2'].
  apply N.ltb_ge in H1. apply N.ltb_ge in H2.
  assert (x = y) by lia. subst y. rewrite N.eqb_refl in H1', H2'. cbn in H1', H2'.
  f_equal. apply IH; assumption.
Qed.

Lemma key_ltb_neq : forall a b, key_ltb a b = true -> key_eqb a b = false.
Proof.
  intros a b H. apply key_eqb_neq. intros ->. rewrite key_ltb_irrefl in H. discriminate.
Qed.

(* a key that carries the prefix is not below the prefix *)
Lemma has_prefix_not_lt : forall p k, has_prefix p k = true -> key_ltb k p = false.
Proof.
  induction p as [|x p IH]; intros [|y k] H; try reflexivity; try discriminate.
  cbn [has_prefix] in H. apply andb_true_iff in H. destruct H as [E H]. apply N.eqb_eq in E. subst y.
  cbn [key_ltb]. rewrite N.ltb_irrefl, N.eqb_refl. cbn. apply IH. exact H.
Qed.

(* keys with a given prefix form an interval: once a key at or above the prefix
   does not carry it, no larger key carries it *)
Lemma prefix_interval : forall p x y,
  key_ltb x p = false -> has_prefix p x = false -> key_ltb x y = true -> has_prefix p y = false.
Proof.
  induction p as [|a p IH]; intros x y Hge Hnp Hlt.
  - cbn in Hnp. discriminate.
  - destruct x as [|b x]; [cbn in Hge; discriminate|].
    destruct y as [|c y]; [reflexivity|].
    cbn [has_prefix] in *. cbn [key_ltb] in Hge.
    apply orb_false_iff in Hge. destruct Hge as [Hge1 Hge2]. apply N.ltb_ge in Hge1.
    apply key_ltb_cons in Hlt.
    destruct (N.eqb a c) eqn:Eac; [|reflexivity]. apply N.eqb_eq in Eac. subst c. cbn.
    destruct Hlt as [Hlt | [-> Hlt]]; [lia|].
    rewrite N.eqb_refl in Hge2, Hnp. cbn in Hge2, Hnp.
    eapply IH; eauto.
Qed.

Lemma has_prefix_app : forall a b, has_prefix a (a ++ b) = true.
Proof. induction a as [|x a IH]; intros b; [reflexivity|]. cbn. rewrite N.eqb_refl. apply IH. Qed.

(* ---------- sorted column families ---------- *)
Definition entry_lt (x y : bytes * value) : Prop := key_ltb (fst x) (fst y) = true.
Definition keys_sorted (c : cf) : Prop := StronglySorted entry_lt c.

Lemma sorted_nil : keys_sorted [].
Proof. constructor. Qed.

Lemma put_in : forall c k v e, In e (cf_put c k v) -> e = (k, v) \/ In e c.
Proof.
  induction c as [|[k' v'] r IH]; intros k v e H; cbn in H.
  - destruct H as [H|[]]; auto.
  - destruct (key_ltb k k').
    + destruct H as [H|H]; auto.
    + destruct (key_ltb k' k).
      * destruct H as [H|H]; [right; left; exact H|].
        apply IH in H. destruct H; [left | right; right]; assumption.
      * destruct H as [H|H]; [left; auto | right; right; exact H].
Qed.

Lemma put_sorted : forall c k v, keys_sorted c -> keys_sorted (cf_put c k v).
Proof.
  induction c as [|[k' v'] r IH]; intros k v Hs; cbn.
  - constructor; constructor.
  - apply StronglySorted_inv in Hs. destruct Hs as [Hr Hall].
    destruct (key_ltb k k') eqn:E1.
    + constructor; [constructor; assumption|].
      constructor; [exact E1|].
      rewrite Forall_forall in *. intros e He. unfold entry_lt in *. cbn [fst] in *.
      eapply key_ltb_trans; [exact E1 | apply Hall; exact He].
    + destruct (key_ltb k' k) eqn:E2.
      * constructor; [apply IH; exact Hr|].
        rewrite Forall_forall in *. intros e He. apply put_in in He.
        destruct He as [-> | He]; [exact E2 | apply Hall; exact He].
      * assert (k = k') by (apply key_ltb_tricho; assumption). subst k'.
        constructor; assumption.
Qed.

Lemma del_in : forall c k e, In e (cf_del c k) -> In e c.
Proof.
  induction c as [|[k' v'] r IH]; intros k e H; cbn in H; [exact H|].
  destruct (key_eqb k k'); [right; exact H|].
  destruct H as [H|H]; [left; exact H | right; eapply IH; exact H].
Qed.

Lemma del_sorted : forall c k, keys_sorted c -> keys_sorted (cf_del c k).
Proof.
  induction c as [|[k' v'] r IH]; intros k Hs; cbn; [exact Hs|].
  apply StronglySorted_inv in Hs. destruct Hs as [Hr Hall].
  destruct (key_eqb k k'); [exact Hr|].
  constructor; [apply IH; exact Hr|].
  rewrite Forall_forall in *. intros e He. apply Hall. eapply del_in; exact He.
Qed.

Lemma get_put : forall c k v k',
  cf_get (cf_put c k v) k' = if key_eqb k' k then Some v else cf_get c k'.
Proof.
  induction c as [|[k0 v0] r IH]; intros k v k'; cbn.
  - reflexivity.
  - destruct (key_ltb k k0) eqn:E1; [reflexivity|].
    destruct (key_ltb k0 k) eqn:E2.
    + cbn. rewrite IH. destruct (key_eqb k' k0) eqn:E3; [|reflexivity].
      apply key_eqb_eq in E3. subst k'.
      rewrite (key_ltb_neq _ _ E2). reflexivity.
    + assert (k = k0) by (apply key_ltb_tricho; assumption). subst k0.
      cbn. destruct (key_eqb k' k); reflexivity.
Qed.

Lemma get_above_none : forall r k,
  Forall (fun e => key_ltb k (fst e) = true) r -> cf_get r k = None.
Proof.
  induction r as [|[k0 v0] r IH]; intros k H; [reflexivity|].
  inversion H as [|? ? H1 H2]; subst. cbn in *. rewrite (key_ltb_neq _ _ H1). apply IH. exact H2.
Qed.

Lemma get_del : forall c k k', keys_sorted c ->
  cf_get (cf_del c k) k' = if key_eqb k' k then None else cf_get c k'.
Proof.
  induction c as [|[k0 v0] r IH]; intros k k' Hs; cbn.
  - destruct (key_eqb k' k); reflexivity.
  - apply StronglySorted_inv in Hs. destruct Hs as [Hr Hall].
    destruct (key_eqb k k0) eqn:E1.
    + apply key_eqb_eq in E1. subst k0.
      destruct (key_eqb k' k) eqn:E2; [|reflexivity].
      apply key_eqb_eq in E2. subst k'. apply get_above_none. exact Hall.
    + cbn. rewrite IH by exact Hr.
      destruct (key_eqb k' k0) eqn:E3; [|reflexivity].
      apply key_eqb_eq in E3. subst k'. rewrite key_eqb_sym, E1. reflexivity.
Qed.

Lemma in_get : forall c k v, keys_sorted c -> (In (k, v) c <-> cf_get c k = Some v).
Proof.
  induction c as [|[k0 v0] r IH]; intros k v Hs; cbn.
  - split; [intros [] | discriminate].
  - apply StronglySorted_inv in Hs. destruct Hs as [Hr Hall].
    destruct (key_eqb k k0) eqn:E.
    + apply key_eqb_eq in E. subst k0. split.
      * intros [H|H]; [congruence|].
        rewrite Forall_forall in Hall. apply Hall in H. unfold entry_lt in H. cbn in H.
        rewrite key_ltb_irrefl in H. discriminate.
      * intros H. left. congruence.
    + rewrite <- IH by exact Hr. split.
      * intros [H|H]; [|exact H]. inversion H; subst. rewrite key_eqb_refl in E. discriminate.
      * intros H. right. exact H.
Qed.

(* ---------- seek / stop rule ---------- *)
Lemma seek_sorted : forall p c, keys_sorted c -> keys_sorted (seek_from p c).
Proof.
  unfold seek_from. induction c as [|e r IH]; intros Hs; cbn; [exact Hs|].
  destruct (key_ltb (fst e) p); [|exact Hs].
  apply IH. apply StronglySorted_inv in Hs. apply Hs.
Qed.

Lemma seek_in : forall p c e, keys_sorted c ->
  (In e (seek_from p c) <-> In e c /\ key_ltb (fst e) p = false).
Proof.
  unfold seek_from. induction c as [|x r IH]; intros e Hs; cbn.
  - tauto.
  - pose proof Hs as Hs0. apply StronglySorted_inv in Hs. destruct Hs as [Hr Hall].
    destruct (key_ltb (fst x) p) eqn:E.
    + rewrite IH by exact Hr. split.
      * intros [H1 H2]. auto.
      * intros [[H1|H1] H2]; [subst; congruence | auto].
    + split.
      * intros H. split; [exact H|].
        destruct H as [H|H]; [subst; exact E|].
        rewrite Forall_forall in Hall. apply Hall in H. unfold entry_lt in H.
        destruct (key_ltb (fst e) p) eqn:E2; [|reflexivity].
        rewrite (key_ltb_trans _ _ _ H E2) in E. discriminate.
      * intros [H _]. exact H.
Qed.

Lemma take_while_incl : forall {A} (f : A -> bool) l e, In e (take_while f l) -> In e l.
Proof.
  induction l as [|x r IH]; intros e H; cbn in H; [exact H|].
  destruct (f x); [|destruct H]. destruct H as [H|H]; [left; exact H | right; apply IH; exact H].
Qed.

Lemma take_while_sorted : forall f c, keys_sorted c -> keys_sorted (take_while f c).
Proof.
  induction c as [|x r IH]; intros Hs; cbn; [exact Hs|].
  apply StronglySorted_inv in Hs. destruct Hs as [Hr Hall].
  destruct (f x); [|constructor].
  constructor; [apply IH; exact Hr|].
  rewrite Forall_forall in *. intros e He. apply Hall. eapply take_while_incl; exact He.
Qed.

Lemma filter_sorted : forall f c, keys_sorted c -> keys_sorted (filter f c).
Proof.
  induction c as [|x r IH]; intros Hs; cbn; [exact Hs|].
  apply StronglySorted_inv in Hs. destruct Hs as [Hr Hall].
  destruct (f x); [|apply IH; exact Hr].
  constructor; [apply IH; exact Hr|].
  rewrite Forall_forall in *. intros e He. apply Hall. apply filter_In in He. apply He.
Qed.

Lemma stop_rule : forall p l e, keys_sorted l ->
  (forall x, In x l -> key_ltb (fst x) p = false) ->
  (In e (take_while (fun x => has_prefix p (fst x)) l) <-> In e l /\ has_prefix p (fst e) = true).
Proof.
  induction l as [|x r IH]; intros e Hs Hge; cbn.
  - tauto.
  - apply StronglySorted_inv in Hs. destruct Hs as [Hr Hall].
    destruct (has_prefix p (fst x)) eqn:E.
    + cbn. rewrite IH; [|exact Hr|intros y Hy; apply Hge; right; exact Hy].
      split.
      * intros [H|[H1 H2]]; [subst; auto | auto].
      * intros [[H|H] H2]; [left; exact H | right; auto].
    + split; [intros []|]. intros [[H|H] H2]; [subst; congruence|].
      rewrite Forall_forall in Hall. apply Hall in H. unfold entry_lt in H.
      rewrite (prefix_interval p (fst x) (fst e)) in H2; [discriminate | | exact E | exact H].
      apply Hge. left. reflexivity.
Qed.

Lemma scan_entries_in : forall c t e, keys_sorted c ->
  (In e (scan_entries c t) <->
   In e c /\ has_prefix (t ++ [colon]) (fst e) = true /\ owned_by t (fst e) = true).
Proof.
  intros c t e Hs. unfold scan_entries. rewrite filter_In.
  rewrite stop_rule.
  - rewrite seek_in by exact Hs. split.
    + intros [[[H1 _] H2] H3]. auto.
    + intros [H1 [H2 H3]]. repeat split; auto. apply has_prefix_not_lt. exact H2.
  - apply seek_sorted. exact Hs.
  - intros x Hx. apply seek_in in Hx; [apply Hx | exact Hs].
Qed.

Lemma scan_entries_sorted : forall c t, keys_sorted c -> keys_sorted (scan_entries c t).
Proof.
  intros c t Hs. unfold scan_entries. apply filter_sorted. apply take_while_sorted. apply seek_sorted. exact Hs.
Qed.

(* ---------- key format ---------- *)
Lemma hexn_length : forall n x, length (hexn n x) = n.
Proof.
  induction n as [|n IH]; intros x; cbn; [reflexivity|].
  rewrite app_length, IH. cbn. lia.
Qed.

Lemma hexdigit_inj : forall a b, a < 16 -> b < 16 -> hexdigit a = hexdigit b -> a = b.
Proof.
  intros a b Ha Hb. unfold hexdigit.
  destruct (N.ltb a 10) eqn:E1; destruct (N.ltb b 10) eqn:E2;
    try apply N.ltb_lt in E1; try apply N.ltb_lt in E2;
    try apply N.ltb_ge in E1; try apply N.ltb_ge in E2; lia.
Qed.

Lemma hexn_inj : forall n x y, hexn n x = hexn n y -> x mod 16 ^ N.of_nat n = y mod 16 ^ N.of_nat n.
Proof.
  induction n as [|n IH]; intros x y H.
  - cbn. rewrite !N.mod_1_r. reflexivity.
  - cbn [hexn] in H. apply app_inj_tail in H. destruct H as [H1 H2].
    apply IH in H1.
    assert (D : x mod 16 = y mod 16).
    { apply hexdigit_inj; [apply N.mod_lt; lia | apply N.mod_lt; lia | congruence]. }
    rewrite Nat2N.inj_succ, N.pow_succ_r'.
    assert (P : 16 ^ N.of_nat n <> 0) by (apply N.pow_nonzero; lia).
    rewrite !N.mod_mul_r by (try exact P; lia).
    rewrite D, H1. reflexivity.
Qed.

Lemma hex16_inj : forall x y, x < u64_bound -> y < u64_bound -> hex16 x = hex16 y -> x = y.
Proof.
  intros x y Hx Hy H. unfold hex16 in H. apply hexn_inj in H.
  change (16 ^ N.of_nat 16) with u64_bound in H.
  rewrite !N.mod_small in H by assumption. exact H.
Qed.

Lemma mk_key_length : forall tag t id, length (mk_key tag t id) = (length t + suffix_len)%nat.
Proof.
  intros. unfold mk_key, hex16. rewrite !app_length, hexn_length. reflexivity.
Qed.

Lemma key_tenant_mk : forall tag t id, key_tenant (mk_key tag t id) = Some t.
Proof.
  intros tag t id. unfold key_tenant. rewrite mk_key_length.
  replace (Nat.ltb (length t + suffix_len) suffix_len) with false
    by (symmetry; apply Nat.ltb_ge; lia).
  replace (length t + suffix_len - suffix_len)%nat with (length t + 0)%nat by lia.
  unfold mk_key. rewrite firstn_app_2. cbn [firstn]. rewrite app_nil_r. reflexivity.
Qed.

Lemma owned_mk : forall tag t t' id, owned_by t (mk_key tag t' id) = key_eqb t t'.
Proof. intros. unfold owned_by. rewrite key_tenant_mk. reflexivity. Qed.

Lemma prefix_mk : forall tag t id, has_prefix (t ++ [colon]) (mk_key tag t id) = true.
Proof.
  intros. unfold mk_key.
  change (t ++ [colon; tag; colon] ++ hex16 id) with (t ++ ([colon] ++ ([tag; colon] ++ hex16 id))).
  rewrite app_assoc. apply has_prefix_app.
Qed.

Lemma mk_key_inj : forall tag t id t' id', id < u64_bound -> id' < u64_bound ->
  mk_key tag t id = mk_key tag t' id' -> t = t' /\ id = id'.
Proof.
  intros tag t id t' id' H1 H2 E.
  assert (T : Some t = Some t') by (rewrite <- (key_tenant_mk tag t id), E; apply key_tenant_mk).
  inversion T; subst t'. split; [reflexivity|].
  unfold mk_key in E. apply app_inv_head in E.
  change ([colon; tag; colon] ++ hex16 id) with ([colon; tag; colon] ++ hex16 id) in E.
  apply app_inv_head in E. apply hex16_inj; assumption.
Qed.

(* ---------- the invariant tying a column family to the abstract view ---------- *)
Definition spec := bytes -> N -> option N.

Definition inv (tag : N) (c : cf) (m : spec) : Prop :=
  keys_sorted c /\
  (forall k v, In (k, v) c -> exists t id, id < u64_bound /\ k = mk_key tag t id) /\
  (forall t id, id < u64_bound -> cf_get c (mk_key tag t id) = option_map (pair id) (m t id)).

Lemma inv_empty : forall tag, inv tag [] (fun _ _ => None).
Proof. intros tag. split; [apply sorted_nil|]. split; [intros ? ? []|reflexivity]. Qed.

Lemma same_slot_true : forall t id t' id', same_slot t id t' id' = true <-> t = t' /\ id = id'.
Proof. intros. unfold same_slot. rewrite andb_true_iff, key_eqb_eq, N.eqb_eq. tauto. Qed.

Lemma key_eq_slot : forall tag t id t' id', id < u64_bound -> id' < u64_bound ->
  key_eqb (mk_key tag t id) (mk_key tag t' id') = same_slot t id t' id'.
Proof.
  intros tag t id t' id' H1 H2.
  destruct (same_slot t id t' id') eqn:E.
  - apply same_slot_true in E. destruct E; subst. apply key_eqb_refl.
  - apply key_eqb_neq. intros K. apply mk_key_inj in K; [|assumption..].
    apply same_slot_true in K. congruence.
Qed.

Lemma inv_put : forall tag c m t id p, id < u64_bound -> inv tag c m ->
  inv tag (cf_put c (mk_key tag t id) (id, p))
      (fun t' id' => if same_slot t' id' t id then Some p else m t' id').
Proof.
  intros tag c m t id p Hid [Hs [Hwf Hget]]. split; [apply put_sorted; exact Hs|]. split.
  - intros k v H. apply put_in in H. destruct H as [H|H].
    + inversion H; subst. exists t, id. auto.
    + eapply Hwf; exact H.
  - intros t' id' Hid'. rewrite get_put, key_eq_slot by assumption.
    destruct (same_slot t' id' t id) eqn:E.
    + apply same_slot_true in E. destruct E; subst. reflexivity.
    + apply Hget. exact Hid'.
Qed.

Lemma inv_del : forall tag c m t id, id < u64_bound -> inv tag c m ->
  inv tag (cf_del c (mk_key tag t id))
      (fun t' id' => if same_slot t' id' t id then None else m t' id').
Proof.
  intros tag c m t id Hid [Hs [Hwf Hget]]. split; [apply del_sorted; exact Hs|]. split.
  - intros k v H. apply del_in in H. eapply Hwf; exact H.
  - intros t' id' Hid'. rewrite get_del, key_eq_slot by assumption.
    destruct (same_slot t' id' t id); [reflexivity | apply Hget; exact Hid'].
Qed.

Definition sinv (s : store) (mn me : spec) : Prop :=
  inv tag_node (nodes_cf s) mn /\ inv tag_edge (edges_cf s) me.

Lemma step_inv : forall s mn me o, valid_op o -> sinv s mn me ->
  sinv (step s o) (fun t id => touch_node t id (mn t id) o) (fun t id => touch_edge t id (me t id) o).
Proof.
  intros s mn me o Hv [Hn He]. unfold valid_op in Hv.
  destruct o as [t id p | t id | t id p | t id]; cbn in Hv; split; cbn [step nodes_cf edges_cf touch_node touch_edge];
    try assumption.
  - apply inv_put; assumption.
  - apply inv_del; assumption.
  - apply inv_put; assumption.
  - apply inv_del; assumption.
Qed.

Lemma run_inv_gen : forall ops s mn me, Forall valid_op ops -> sinv s mn me ->
  sinv (fold_left step ops s)
       (fun t id => fold_left (touch_node t id) ops (mn t id))
       (fun t id => fold_left (touch_edge t id) ops (me t id)).
Proof.
  induction ops as [|o ops IH]; intros s mn me Hv Hs; cbn [fold_left]; [exact Hs|].
  inversion Hv as [|? ? Hv1 Hv2]; subst.
  apply (IH (step s o) (fun t id => touch_node t id (mn t id) o) (fun t id => touch_edge t id (me t id) o) Hv2).
  apply step_inv; assumption.
Qed.

Lemma run_inv : forall ops, Forall valid_op ops -> sinv (run ops) (stored_node ops) (stored_edge ops).
Proof.
  intros ops Hv. unfold run, stored_node, stored_edge.
  apply (run_inv_gen ops empty (fun _ _ => None) (fun _ _ => None) Hv).
  split; apply inv_empty.
Qed.

(* a slot holds something only if a valid put named it *)
Lemma touched_id_bound : forall (touch : bytes -> N -> option N -> op -> option N) t id,
  (forall cur o p, valid_op o -> touch t id cur o = Some p -> cur = Some p \/ id < u64_bound) ->
  forall ops cur p, Forall valid_op ops -> (cur <> None -> id < u64_bound) ->
  fold_left (touch t id) ops cur = Some p -> id < u64_bound.
Proof.
  intros touch t id Ht. induction ops as [|o ops IH]; intros cur p Hv Hc H; cbn in H.
  - apply Hc. congruence.
  - inversion Hv as [|? ? Hv1 Hv2]; subst. eapply IH; [exact Hv2 | | exact H].
    intros Hne. destruct (touch t id cur o) as [q|] eqn:E; [|congruence].
    destruct (Ht _ _ _ Hv1 E) as [->|B]; [apply Hc; congruence | exact B].
Qed.

Lemma stored_node_bound : forall ops t id p, Forall valid_op ops -> stored_node ops t id = Some p -> id < u64_bound.
Proof.
  intros ops t id p Hv H. unfold stored_node in H.
  eapply (touched_id_bound touch_node); [| exact Hv | | exact H]; [|congruence].
  intros cur o q Ho E. destruct o as [t' id' p' | t' id' | |]; cbn in E; auto.
  - destruct (same_slot t id t' id') eqn:S; [|auto]. apply same_slot_true in S. destruct S; subst. right. exact Ho.
  - destruct (same_slot t id t' id'); [discriminate | auto].
Qed.

Lemma stored_edge_bound : forall ops t id p, Forall valid_op ops -> stored_edge ops t id = Some p -> id < u64_bound.
Proof.
  intros ops t id p Hv H. unfold stored_edge in H.
  eapply (touched_id_bound touch_edge); [| exact Hv | | exact H]; [|congruence].
  intros cur o q Ho E. destruct o as [| | t' id' p' | t' id']; cbn in E; auto.
  - destruct (same_slot t id t' id') eqn:S; [|auto]. apply same_slot_true in S. destruct S; subst. right. exact Ho.
  - destruct (same_slot t id t' id'); [discriminate | auto].
Qed.

(* ---------- what a scan returns, for any column family satisfying the invariant ---------- *)
Lemma scan_exact_cf : forall tag c m t x, inv tag c m ->
  (forall t id p, m t id = Some p -> id < u64_bound) ->
  (In x (scan c t) <-> exists id p, x = (id, p) /\ m t id = Some p).
Proof.
  intros tag c m t x [Hs [Hwf Hget]] Hb. unfold scan. rewrite in_map_iff. split.
  - intros [[k v] [E H]]. cbn in E. subst v.
    apply scan_entries_in in H; [|exact Hs]. destruct H as [Hin [_ Hown]]. cbn [fst] in Hown.
    destruct (Hwf _ _ Hin) as [t' [id [Hid ->]]].
    rewrite owned_mk in Hown. apply key_eqb_eq in Hown. subst t'.
    apply in_get in Hin; [|exact Hs]. rewrite Hget in Hin by exact Hid.
    destruct (m t id) as [p|] eqn:E; [|discriminate]. cbn in Hin. inversion Hin; subst.
    exists id, p. auto.
  - intros [id [p [-> Hm]]]. pose proof (Hb _ _ _ Hm) as Hid.
    exists (mk_key tag t id, (id, p)). split; [reflexivity|].
    apply scan_entries_in; [exact Hs|]. cbn [fst]. split; [|split].
    + apply in_get; [exact Hs|]. rewrite Hget by exact Hid. rewrite Hm. reflexivity.
    + apply prefix_mk.
    + rewrite owned_mk. apply key_eqb_refl.
Qed.

Lemma sorted_nodup_keys : forall c, keys_sorted c -> NoDup (map fst c).
Proof.
  induction c as [|x r IH]; intros Hs; cbn; [constructor|].
  apply StronglySorted_inv in Hs. destruct Hs as [Hr Hall]. constructor; [|apply IH; exact Hr].
  intros H. apply in_map_iff in H. destruct H as [y [E Hy]].
  rewrite Forall_forall in Hall. apply Hall in Hy. unfold entry_lt in Hy.
  rewrite E, key_ltb_irrefl in Hy. discriminate.
Qed.

Lemma nodup_map_in : forall {A B} (f : A -> B) l,
  NoDup l -> (forall x y, In x l -> In y l -> f x = f y -> x = y) -> NoDup (map f l).
Proof.
  induction l as [|a l IH]; intros Hn Hinj; cbn; [constructor|].
  inversion Hn as [|? ? Hna Hnl]; subst. constructor.
  - intros H. apply in_map_iff in H. destruct H as [y [E Hy]].
    assert (y = a) by (apply Hinj; [right; exact Hy | left; reflexivity | exact E]). subst. contradiction.
  - apply IH; [exact Hnl|]. intros x y Hx Hy. apply Hinj; right; assumption.
Qed.

Lemma scan_ids_nodup : forall tag c m t, inv tag c m -> NoDup (map fst (scan c t)).
Proof.
  intros tag c m t [Hs [Hwf Hget]]. unfold scan. rewrite map_map.
  pose proof (scan_entries_sorted c t Hs) as Hss.
  pose proof (sorted_nodup_keys _ Hss) as Hnd.
  apply nodup_map_in.
  - eapply NoDup_map_inv. exact Hnd.
  - intros [k1 v1] [k2 v2] H1 H2 E. cbn in E.
    apply scan_entries_in in H1; [|exact Hs]. apply scan_entries_in in H2; [|exact Hs].
    destruct H1 as [I1 [_ O1]]. destruct H2 as [I2 [_ O2]]. cbn [fst] in O1, O2.
    destruct (Hwf _ _ I1) as [t1 [id1 [B1 ->]]]. destruct (Hwf _ _ I2) as [t2 [id2 [B2 ->]]].
    rewrite owned_mk in O1, O2. apply key_eqb_eq in O1. apply key_eqb_eq in O2. subst t1 t2.
    apply in_get in I1; [|exact Hs]. apply in_get in I2; [|exact Hs].
    rewrite Hget in I1, I2 by assumption.
    destruct (m t id1) as [p1|] eqn:M1; [|discriminate]. destruct (m t id2) as [p2|] eqn:M2; [|discriminate].
    cbn in I1, I2. inversion I1; inversion I2; subst. cbn in E. subst id2.
    rewrite M1 in M2. inversion M2. reflexivity.
Qed.

(* two different tenants never see the same stored entry — for ANY contents of the column family *)
Lemma scan_entries_disjoint : forall c t1 t2 e, t1 <> t2 ->
  In e (scan_entries c t1) -> In e (scan_entries c t2) -> False.
Proof.
  intros c t1 t2 e Hne H1 H2. unfold scan_entries in H1, H2.
  apply filter_In in H1. apply filter_In in H2. destruct H1 as [_ O1]. destruct H2 as [_ O2].
  unfold owned_by in O1, O2. destruct (key_tenant (fst e)) as [t|]; [|discriminate].
  apply key_eqb_eq in O1. apply key_eqb_eq in O2. congruence.
Qed.

(* ---------- listing ---------- *)
Lemma mem_bytes_in : forall x l, mem_bytes x l = true <-> In x l.
Proof.
  intros x l. unfold mem_bytes. rewrite existsb_exists. split.
  - intros [y [Hy E]]. apply key_eqb_eq in E. subst. exact Hy.
  - intros H. exists x. split; [exact H | apply key_eqb_refl].
Qed.

Lemma dedup_in : forall l x, In x (dedup_bytes l) <-> In x l.
Proof.
  induction l as [|a l IH]; intros x; cbn; [tauto|].
  destruct (mem_bytes a l) eqn:E.
  - rewrite IH. apply mem_bytes_in in E. split; [auto | intros [->|H]; auto].
  - cbn. rewrite IH. tauto.
Qed.

Lemma dedup_nodup : forall l, NoDup (dedup_bytes l).
Proof.
  induction l as [|a l IH]; cbn; [constructor|].
  destruct (mem_bytes a l) eqn:E; [exact IH|].
  constructor; [|exact IH]. rewrite dedup_in. intros H. apply mem_bytes_in in H. congruence.
Qed.

Lemma tenants_of_keys_in : forall l t, In t (tenants_of_keys l) <-> exists k, In k l /\ key_tenant k = Some t.
Proof.
  induction l as [|k l IH]; intros t; cbn.
  - split; [intros [] | intros [k [[] _]]].
  - destruct (key_tenant k) as [t'|] eqn:E; cbn; rewrite IH; split.
    + intros [->|[k' [H1 H2]]]; [exists k; auto | exists k'; auto].
    + intros [k' [[->|H1] H2]]; [left; congruence | right; exists k'; auto].
    + intros [k' [H1 H2]]. exists k'; auto.
    + intros [k' [[->|H1] H2]]; [congruence | exists k'; auto].
Qed.

Lemma list_exact_cf : forall tag c m t, inv tag c m ->
  (forall t id p, m t id = Some p -> id < u64_bound) ->
  (In t (list_tenants c) <-> exists id p, m t id = Some p).
Proof.
  intros tag c m t [Hs [Hwf Hget]] Hb. unfold list_tenants. rewrite dedup_in, tenants_of_keys_in. split.
  - intros [k [Hk Ht]]. apply in_map_iff in Hk. destruct Hk as [[k' v] [E Hin]]. cbn in E. subst k'.
    destruct (Hwf _ _ Hin) as [t' [id [Hid ->]]]. rewrite key_tenant_mk in Ht. inversion Ht; subst t'.
    apply in_get in Hin; [|exact Hs]. rewrite Hget in Hin by exact Hid.
    destruct (m t id) as [p|] eqn:E; [|discriminate]. exists id, p. exact E.
  - intros [id [p Hm]]. pose proof (Hb _ _ _ Hm) as Hid. exists (mk_key tag t id). split; [|apply key_tenant_mk].
    apply in_map_iff. exists (mk_key tag t id, (id, p)). split; [reflexivity|].
    apply in_get; [exact Hs|]. rewrite Hget by exact Hid. rewrite Hm. reflexivity.
Qed.

(* ---------- the property theorems ---------- *)
Theorem get_node_exact : forall ops t id, Forall valid_op ops -> id < u64_bound ->
  get_node (run ops) t id = option_map (pair id) (stored_node ops t id).
Proof. intros ops t id Hv Hid. destruct (run_inv ops Hv) as [[_ [_ H]] _]. apply H. exact Hid. Qed.

Theorem get_edge_exact : forall ops t id, Forall valid_op ops -> id < u64_bound ->
  get_edge (run ops) t id = option_map (pair id) (stored_edge ops t id).
Proof. intros ops t id Hv Hid. destruct (run_inv ops Hv) as [_ [_ [_ H]]]. apply H. exact Hid. Qed.

Theorem scan_nodes_exact : forall ops t, Forall valid_op ops ->
  (forall x, In x (scan_nodes (run ops) t) <-> exists id p, x = (id, p) /\ stored_node ops t id = Some p)
  /\ NoDup (map fst (scan_nodes (run ops) t)).
Proof.
  intros ops t Hv. destruct (run_inv ops Hv) as [Hn _]. split.
  - intros x. eapply scan_exact_cf; [exact Hn|]. intros t' id p. apply stored_node_bound. exact Hv.
  - eapply scan_ids_nodup. exact Hn.
Qed.

Theorem scan_edges_exact : forall ops t, Forall valid_op ops ->
  (forall x, In x (scan_edges (run ops) t) <-> exists id p, x = (id, p) /\ stored_edge ops t id = Some p)
  /\ NoDup (map fst (scan_edges (run ops) t)).
Proof.
  intros ops t Hv. destruct (run_inv ops Hv) as [_ He]. split.
  - intros x. eapply scan_exact_cf; [exact He|]. intros t' id p. apply stored_edge_bound. exact Hv.
  - eapply scan_ids_nodup. exact He.
Qed.

Theorem scans_disjoint : forall ops t1 t2 e, t1 <> t2 ->
  ~ (In e (scan_entries (nodes_cf (run ops)) t1) /\ In e (scan_entries (nodes_cf (run ops)) t2)) /\
  ~ (In e (scan_entries (edges_cf (run ops)) t1) /\ In e (scan_entries (edges_cf (run ops)) t2)).
Proof.
  intros ops t1 t2 e Hne. split; intros [H1 H2]; eapply scan_entries_disjoint; eauto.
Qed.

Lemma fold_touch_other_node : forall t id o cur, op_tenant o <> t -> touch_node t id cur o = cur.
Proof.
  intros t id o cur H. destruct o as [t' id' p | t' id' | |]; cbn in *; try reflexivity;
    destruct (same_slot t id t' id') eqn:S; try reflexivity; apply same_slot_true in S; destruct S; congruence.
Qed.

Lemma fold_touch_other_edge : forall t id o cur, op_tenant o <> t -> touch_edge t id cur o = cur.
Proof.
  intros t id o cur H. destruct o as [| | t' id' p | t' id']; cbn in *; try reflexivity;
    destruct (same_slot t id t' id') eqn:S; try reflexivity; apply same_slot_true in S; destruct S; congruence.
Qed.

(* an operation of another tenant changes nothing a tenant can read *)
Theorem noninterference : forall ops o t, Forall valid_op ops -> valid_op o -> op_tenant o <> t ->
  (forall x, In x (scan_nodes (run (ops ++ [o])) t) <-> In x (scan_nodes (run ops) t)) /\
  (forall x, In x (scan_edges (run (ops ++ [o])) t) <-> In x (scan_edges (run ops) t)) /\
  (forall id, id < u64_bound -> get_node (run (ops ++ [o])) t id = get_node (run ops) t id) /\
  (forall id, id < u64_bound -> get_edge (run (ops ++ [o])) t id = get_edge (run ops) t id).
Proof.
  intros ops o t Hv Ho Hne.
  assert (Hv' : Forall valid_op (ops ++ [o])) by (apply Forall_app; split; [exact Hv | constructor; [exact Ho | constructor]]).
  assert (Sn : forall id, stored_node (ops ++ [o]) t id = stored_node ops t id).
  { intros id. unfold stored_node. rewrite fold_left_app. cbn. apply fold_touch_other_node. exact Hne. }
  assert (Se : forall id, stored_edge (ops ++ [o]) t id = stored_edge ops t id).
  { intros id. unfold stored_edge. rewrite fold_left_app. cbn. apply fold_touch_other_edge. exact Hne. }
  repeat split.
  - intros H. apply (proj1 (scan_nodes_exact _ t Hv')) in H. apply (proj1 (scan_nodes_exact _ t Hv)).
    destruct H as [id [p [E H]]]. exists id, p. rewrite <- Sn. auto.
  - intros H. apply (proj1 (scan_nodes_exact _ t Hv)) in H. apply (proj1 (scan_nodes_exact _ t Hv')).
    destruct H as [id [p [E H]]]. exists id, p. rewrite Sn. auto.
  - intros H. apply (proj1 (scan_edges_exact _ t Hv')) in H. apply (proj1 (scan_edges_exact _ t Hv)).
    destruct H as [id [p [E H]]]. exists id, p. rewrite <- Se. auto.
  - intros H. apply (proj1 (scan_edges_exact _ t Hv)) in H. apply (proj1 (scan_edges_exact _ t Hv')).
    destruct H as [id [p [E H]]]. exists id, p. rewrite Se. auto.
  - intros id Hid. rewrite !get_node_exact by assumption. rewrite Sn. reflexivity.
  - intros id Hid. rewrite !get_edge_exact by assumption. rewrite Se. reflexivity.
Qed.

Theorem list_exact : forall ops, Forall valid_op ops ->
  (forall t, In t (list_persisted_tenants (run ops)) <-> exists id p, stored_node ops t id = Some p)
  /\ NoDup (list_persisted_tenants (run ops)).
Proof.
  intros ops Hv. destruct (run_inv ops Hv) as [Hn _]. split.
  - intros t. eapply list_exact_cf; [exact Hn|]. intros t' id p. apply stored_node_bound. exact Hv.
  - apply dedup_nodup.
Qed.

Theorem recover_exact : forall ops t, Forall valid_op ops ->
  (forall x, In x (fst (recover (run ops) t)) <-> exists id p, x = (id, p) /\ stored_node ops t id = Some p) /\
  (forall x, In x (snd (recover (run ops) t)) <-> exists id p, x = (id, p) /\ stored_edge ops t id = Some p).
Proof.
  intros ops t Hv. cbn [recover fst snd]. split; [apply scan_nodes_exact | apply scan_edges_exact]; exact Hv.
Qed.

(* the original scan rule (seek and run to the end of the family) mixes tenants *)
Example original_overrun :
  scan_original (nodes_cf (run [PutNode [97] 1 7; PutNode [98] 1 8])) [97] = [(1, 7); (1, 8)].
Proof. vm_compute. reflexivity. Qed.
