(* Proofs about model/Routing.v : the repaired routing agrees with the engine. *)
From Coq Require Import List NArith Bool.
From Verif Require Import CheckLib QueryCache Routing.
Import ListNotations.
Open Scope N_scope.

Section FrontProofs.
  Variables ast store res perr : Type.
  Variable parse : bytes -> ast + perr.
  Variable classify : ast -> store -> option bool.
  Variable exec_ro : ast -> store -> res.
  Variable exec_rw : ast -> store -> store * res.
  Variable res_perr : perr -> res.
  Variable heuristic : bytes -> bool.

  Notation routed_write := (routed_write ast store perr parse classify heuristic).
  Notation front_end := (front_end ast store res perr parse classify exec_ro exec_rw res_perr heuristic).
  Notation engine := (engine ast store res perr parse classify exec_ro exec_rw res_perr).
  Notation is_write := (is_write ast store perr parse classify).
  Notation engine_read := (engine_read ast store res perr parse exec_ro res_perr).
  Notation engine_mut := (engine_mut ast store res perr parse exec_rw res_perr).

  (* a statement routed as a read leaves the graph as it was, whatever the executors do *)
  Lemma read_route_pure : forall q g, routed_write q g = false -> fst (front_end q g) = g.
  Proof. intros q g H; unfold Routing.front_end; rewrite H; reflexivity. Qed.

  (* whenever the text parses and plans, the route is the planner's is_write bit *)
  Lemma routing_exact : forall q g a b,
    parse q = inl a -> classify a g = Some b -> routed_write q g = b /\ is_write q g = b.
  Proof.
    intros q g a b P C; unfold Routing.routed_write, Routing.is_write; rewrite P, C.
    destruct b; split; reflexivity.
  Qed.

  (* a statement that cannot be planned fails the same way on both executors *)
  Definition unplannable_same : Prop :=
    forall a g, classify a g = None -> exec_rw a g = (g, exec_ro a g).

  Lemma front_end_engine : unplannable_same -> forall q g, front_end q g = engine q g.
  Proof.
    intros U q g. unfold Routing.front_end, Routing.engine, Routing.routed_write, Routing.is_write,
      Routing.engine_mut, Routing.engine_read.
    destruct (parse q) as [a|e].
    - destruct (classify a g) as [[|]|] eqn:C; try reflexivity.
      destruct (heuristic q); [apply U; exact C|reflexivity].
    - destruct (heuristic q); reflexivity.
  Qed.
End FrontProofs.
