From Coq Require Import List NArith ZArith Bool Lia ZifyBool ZifyN ZifyNat.
From Verif Require Import ColumnStore.
Import ListNotations.
Open Scope N_scope.

Lemma usize_max_val : usize_max + 1 = 18446744073709551616.
Proof. reflexivity. Qed.

(* ---------- lists ---------- *)

Lemma upd_length {A} (l : list A) n x : length (upd l n x) = length l.
Proof. revert n; induction l as [|y r IH]; intros [|n]; cbn; auto. Qed.

Lemma nth_error_upd_eq {A} (l : list A) n x : (n < length l)%nat -> nth_error (upd l n x) n = Some x.
Proof. revert n; induction l as [|y r IH]; intros [|n]; cbn; intros H; try lia; auto. apply IH. lia. Qed.

Lemma nth_error_upd_neq {A} (l : list A) n m x : n <> m -> nth_error (upd l n x) m = nth_error l m.
Proof. revert n m; induction l as [|y r IH]; intros [|n] [|m]; cbn; intros H; try congruence; auto. Qed.

Lemma bitn_upd_eq p n b : (n < length p)%nat -> bitn (upd p n b) n = b.
Proof. intros H. unfold bitn. rewrite nth_error_upd_eq by exact H. reflexivity. Qed.

Lemma bitn_upd_neq p n m b : n <> m -> bitn (upd p n b) m = bitn p m.
Proof. intros H. unfold bitn. rewrite nth_error_upd_neq by exact H. reflexivity. Qed.

Lemma bitn_out p n : (length p <= n)%nat -> bitn p n = false.
Proof. intros H. unfold bitn. apply nth_error_None in H. rewrite H. reflexivity. Qed.

Fixpoint count_true (p : list bool) : N :=
  match p with [] => 0 | b :: r => (if b then 1 else 0) + count_true r end.

Lemma count_true_upd p n b : (n < length p)%nat ->
  count_true (upd p n b) + (if bitn p n then 1 else 0) = count_true p + (if b then 1 else 0).
Proof.
  revert n; induction p as [|c r IH]; intros [|n]; cbn [length upd count_true]; intros H; try lia.
  - unfold bitn; cbn. destruct c, b; lia.
  - assert (Hn : (n < length r)%nat) by lia. specialize (IH n Hn).
    change (bitn (c :: r) (S n)) with (bitn r n). lia.
Qed.

Lemma count_true_app p q : count_true (p ++ q) = count_true p + count_true q.
Proof. induction p as [|b r IH]; cbn [app count_true]; lia. Qed.

Lemma count_true_repeat_false n : count_true (repeat false n) = 0.
Proof. induction n; cbn; auto. Qed.

Lemma bitn_repeat_false s n : bitn (repeat false s) n = false.
Proof.
  unfold bitn. destruct (nth_error (repeat false s) n) eqn:E; [|reflexivity].
  apply nth_error_In, repeat_spec in E. exact E.
Qed.

(* ---------- association lists ---------- *)
Section AL.
  Context {V : Type}.
  Implicit Types m : list (N * V).

  Lemma aget_aremove m k j : aget (aremove m k) j = if j =? k then None else aget m j.
  Proof.
    induction m as [|[k' v] r IH]; cbn; [destruct (j =? k); reflexivity|].
    destruct (k' =? k) eqn:E1; cbn.
    - rewrite IH. destruct (j =? k) eqn:E2; [reflexivity|]. destruct (k' =? j) eqn:E3; [lia|reflexivity].
    - rewrite IH. destruct (k' =? j) eqn:E3; [|reflexivity]. destruct (j =? k) eqn:E2; [lia|reflexivity].
  Qed.

  Lemma aget_ains m k v j : aget (ains m k v) j = if j =? k then Some v else aget m j.
  Proof.
    unfold ains. cbn. rewrite aget_aremove, (N.eqb_sym k j). destruct (j =? k); reflexivity.
  Qed.

  Lemma keys_aremove m k x : In x (map fst (aremove m k)) <-> In x (map fst m) /\ x <> k.
  Proof.
    induction m as [|[k' v] r IH]; cbn; [tauto|].
    destruct (k' =? k) eqn:E; cbn; rewrite IH; split; intros H.
    - tauto.
    - destruct H as [[H|H] Hx]; [lia | tauto].
    - destruct H as [H|H]; [split; [tauto|lia] | tauto].
    - tauto.
  Qed.

  Lemma nodup_aremove m k : NoDup (map fst m) -> NoDup (map fst (aremove m k)).
  Proof.
    induction m as [|[k' v] r IH]; cbn; intros H; [constructor|].
    inversion H as [|? ? Hn Hr]; subst. destruct (k' =? k); [auto|].
    cbn. constructor; [|auto]. rewrite keys_aremove. tauto.
  Qed.

  Lemma nodup_ains m k v : NoDup (map fst m) -> NoDup (map fst (ains m k v)).
  Proof.
    intros H. unfold ains. cbn. constructor; [|apply nodup_aremove, H].
    rewrite keys_aremove. tauto.
  Qed.

  Lemma keys_ains m k v x : In x (map fst (ains m k v)) -> x = k \/ In x (map fst m).
  Proof. unfold ains. cbn. rewrite keys_aremove. intros [H|H]; [left; auto | tauto]. Qed.

  Lemma aget_none m k : ~ In k (map fst m) -> aget m k = None.
  Proof.
    induction m as [|[k' v] r IH]; cbn; intros H; [reflexivity|].
    destruct (k' =? k) eqn:E; [exfalso; apply H; left; lia | apply IH; tauto].
  Qed.

  Lemma aget_some_in m k v : aget m k = Some v -> In k (map fst m).
  Proof.
    induction m as [|[k' w] r IH]; cbn; [discriminate|].
    destruct (k' =? k) eqn:E; [intros _; left; lia | intros H; right; auto].
  Qed.
End AL.

Lemma aget_wrap {T} (f : T -> pv) (l : list (N * T)) j : aget (wrap f l) j = option_map f (aget l j).
Proof. induction l as [|[k v] r IH]; cbn; [reflexivity|]. destruct (k =? j); [reflexivity | exact IH]. Qed.

(* ---------- ColumnData ---------- *)
Section CD.
  Context {T : Type}.
  Variable dflt : T.
  Variable elem : N.
  Implicit Types (vals : list T) (pres : list bool).

  Definition DInv (d : cdata T) : Prop :=
    match d with
    | Sparse m => NoDup (map fst m) /\ Forall (fun k => k <= usize_max) (map fst m)
    | Dense base vals pres count =>
        length pres = length vals /\ count = count_true pres /\ base + nlen vals <= usize_max + 1
    end.

  Lemma cget_dense base vals pres c j :
    cget (Dense base vals pres c) j =
    if j <? base then None else arr_get vals pres (N.to_nat (j - base)).
  Proof.
    cbn [cget]. destruct (j <? base); [reflexivity|].
    destruct (nlen vals <=? j - base) eqn:E; [|reflexivity].
    unfold arr_get, nlen in *.
    destruct (Nat.ltb (N.to_nat (j - base)) (length vals)) eqn:L; [lia | reflexivity].
  Qed.

  Lemma cremove_dense base vals pres count idx :
    cremove dflt (Dense base vals pres count) idx =
    if idx <? base then Some (Dense base vals pres count)
    else
      let n := N.to_nat (idx - base) in
      if (Nat.ltb n (length vals)) && bitn pres n then
        if count =? 0 then None
        else Some (Dense base (upd vals n dflt) (upd pres n false) (count - 1))
      else Some (Dense base vals pres count).
  Proof.
    cbn [cremove]. destruct (idx <? base); [reflexivity|]. cbv zeta. unfold nlen.
    destruct (N.of_nat (length vals) <=? idx - base) eqn:E;
      destruct (Nat.ltb (N.to_nat (idx - base)) (length vals)) eqn:L; try lia; reflexivity.
  Qed.

  Lemma arr_get_upd_set vals pres n v j :
    (n < length vals)%nat -> (n < length pres)%nat ->
    arr_get (upd vals n v) (upd pres n true) j = if Nat.eqb j n then Some v else arr_get vals pres j.
  Proof.
    intros Hv Hp. unfold arr_get. rewrite upd_length. destruct (Nat.eqb j n) eqn:E.
    - apply Nat.eqb_eq in E. subst j. rewrite bitn_upd_eq by exact Hp.
      rewrite nth_error_upd_eq by exact Hv. destruct (Nat.ltb n (length vals)) eqn:L; [reflexivity|lia].
    - apply Nat.eqb_neq in E. rewrite bitn_upd_neq, nth_error_upd_neq by congruence. reflexivity.
  Qed.

  Lemma arr_get_upd_clear vals pres n d j :
    arr_get (upd vals n d) (upd pres n false) j = if Nat.eqb j n then None else arr_get vals pres j.
  Proof.
    unfold arr_get. rewrite upd_length. destruct (Nat.eqb j n) eqn:E.
    - apply Nat.eqb_eq in E. subst j. destruct (Nat.ltb n (length pres)) eqn:L.
      + rewrite bitn_upd_eq by lia. rewrite andb_false_r. reflexivity.
      + rewrite bitn_out by (rewrite upd_length; lia). rewrite andb_false_r. reflexivity.
    - apply Nat.eqb_neq in E. rewrite bitn_upd_neq, nth_error_upd_neq by congruence. reflexivity.
  Qed.

  Lemma arr_get_grow vals pres a d n :
    length pres = length vals ->
    arr_get (vals ++ repeat d a) (pres ++ repeat false a) n = arr_get vals pres n.
  Proof.
    intros HL. unfold arr_get, bitn. rewrite app_length, repeat_length.
    destruct (Nat.ltb n (length vals)) eqn:L.
    - rewrite !nth_error_app1 by lia. destruct (Nat.ltb n (length vals + a)) eqn:L2; [reflexivity|lia].
    - rewrite (nth_error_app2 pres) by lia.
      fold (bitn (repeat false a) (n - length pres)). rewrite bitn_repeat_false, andb_false_r. reflexivity.
  Qed.

  Lemma arr_get_shift_prefix vals pres s d n :
    arr_get (repeat d s ++ vals) (repeat false s ++ pres) n =
    if Nat.ltb n s then None else arr_get vals pres (n - s).
  Proof.
    unfold arr_get, bitn. rewrite app_length, repeat_length. destruct (Nat.ltb n s) eqn:L.
    - rewrite (nth_error_app1 (repeat false s)) by (rewrite repeat_length; lia).
      fold (bitn (repeat false s) n). rewrite bitn_repeat_false, andb_false_r. reflexivity.
    - rewrite !nth_error_app2 by (rewrite repeat_length; lia). rewrite !repeat_length.
      replace (Nat.ltb n (s + length vals)) with (Nat.ltb (n - s) (length vals)); [reflexivity|].
      destruct (Nat.ltb (n - s) (length vals)) eqn:A, (Nat.ltb n (s + length vals)) eqn:B; lia.
  Qed.

  Lemma shifted_length vals : forall pres,
    length (shifted_vals dflt vals pres) = length vals /\ length (shifted_pres vals pres) = length vals.
  Proof.
    induction vals as [|v vs IH]; intros pres; [destruct pres; cbn; auto|].
    destruct pres as [|p ps]; cbn; [destruct (IH [])|destruct (IH ps)]; split; congruence.
  Qed.

  Lemma shifted_pres_id vals : forall pres, length pres = length vals -> shifted_pres vals pres = pres.
  Proof. induction vals as [|v vs IH]; intros [|p ps]; cbn; intros H; try discriminate; auto. f_equal. apply IH. lia. Qed.

  Lemma arr_get_shifted vals : forall pres n,
    arr_get (shifted_vals dflt vals pres) (shifted_pres vals pres) n = arr_get vals pres n.
  Proof.
    unfold arr_get, bitn.
    induction vals as [|v vs IH]; intros pres n; [destruct pres, n; reflexivity|].
    destruct pres as [|p ps]; destruct n as [|n]; cbn [shifted_vals shifted_pres length nth_error].
    - reflexivity.
    - specialize (IH [] n). destruct (shifted_length vs []) as [L1 L2]. cbn [length] in *.
      change (Nat.ltb (S n) (S ?x)) with (Nat.ltb n x).
      rewrite IH. destruct n; cbn; rewrite ?andb_false_r; reflexivity.
    - change (Nat.ltb 0 (S ?x)) with true. destruct p; reflexivity.
    - change (Nat.ltb (S n) (S ?x)) with (Nat.ltb n x). apply IH.
  Qed.

  (* dense_entries: rows b .. b+len-1 that are present *)
  Lemma dense_entries_get vals : forall pres b j,
    aget (dense_entries b vals pres) j =
    if j <? b then None else arr_get vals pres (N.to_nat (j - b)).
  Proof.
    induction vals as [|v vs IH]; intros pres b j.
    - cbn. destruct (j <? b); [reflexivity|]. unfold arr_get. cbn. reflexivity.
    - destruct pres as [|p ps].
      + cbn. destruct (j <? b); [reflexivity|]. unfold arr_get, bitn. destruct (N.to_nat (j - b)); cbn; rewrite ?andb_false_r; reflexivity.
      + cbn [dense_entries]. destruct (j <? b) eqn:L.
        * destruct p; cbn [aget]; [destruct (b =? j) eqn:E; [lia|]|]; rewrite IH;
            (destruct (j <? b + 1) eqn:L2; [reflexivity|lia]).
        * destruct (N.eq_dec j b) as [->|Hne].
          -- rewrite N.sub_diag. unfold arr_get, bitn. cbn.
             destruct p; cbn [aget].
             ++ rewrite N.eqb_refl. reflexivity.
             ++ rewrite IH. destruct (b <? b + 1) eqn:L2; [reflexivity|lia].
          -- assert (E : N.to_nat (j - b) = S (N.to_nat (j - (b + 1)))) by lia.
             rewrite E. unfold arr_get, bitn. cbn [length nth_error].
             change (Nat.ltb (S ?n) (S ?x)) with (Nat.ltb n x).
             destruct p; cbn [aget]; [destruct (b =? j) eqn:E2; [lia|]|]; rewrite IH;
               (destruct (j <? b + 1) eqn:L2; [lia|reflexivity]).
  Qed.

  Lemma dense_entries_keys vals : forall pres b k,
    In k (map fst (dense_entries b vals pres)) -> b <= k < b + nlen vals.
  Proof.
    unfold nlen. induction vals as [|v vs IH]; intros [|p ps] b k; cbn [dense_entries map In length]; try tauto.
    destruct p; cbn [map fst In]; intros H.
    - destruct H as [<-|H]; [lia|]. apply IH in H. lia.
    - apply IH in H. lia.
  Qed.

  Lemma dense_entries_nodup vals : forall pres b, NoDup (map fst (dense_entries b vals pres)).
  Proof.
    induction vals as [|v vs IH]; intros [|p ps] b; cbn [dense_entries map]; try constructor.
    destruct p; [|apply IH]. cbn. constructor; [|apply IH].
    intros H. apply dense_entries_keys in H. lia.
  Qed.

  Lemma centries_get (d : cdata T) j : aget (centries d) j = cget d j.
  Proof. destruct d as [m|b vals pres c]; [reflexivity | rewrite cget_dense; apply dense_entries_get]. Qed.

  (* ---- maybe_promote ---- *)
  Lemma min_key_le (m : list (N * T)) : forall acc, min_key m acc <= acc /\ forall k, In k (map fst m) -> min_key m acc <= k.
  Proof.
    induction m as [|[k v] r IH]; intros acc; cbn; [split; [lia|tauto]|].
    destruct (IH (N.min k acc)) as [H1 H2]. split; [lia|]. intros x [<-|Hx]; [lia | auto].
  Qed.
  Lemma max_key_ge (m : list (N * T)) : forall acc, acc <= max_key m acc /\ forall k, In k (map fst m) -> k <= max_key m acc.
  Proof.
    induction m as [|[k v] r IH]; intros acc; cbn; [split; [lia|tauto]|].
    destruct (IH (N.max k acc)) as [H1 H2]. split; [lia|]. intros x [<-|Hx]; [lia | auto].
  Qed.
  Lemma max_key_bound (m : list (N * T)) b : forall acc, acc <= b -> Forall (fun k => k <= b) (map fst m) -> max_key m acc <= b.
  Proof.
    induction m as [|[k v] r IH]; intros acc Ha Hf; cbn; [exact Ha|].
    inversion Hf; subst. apply IH; [cbn in *; lia | assumption].
  Qed.

  Lemma build_length (m : list (N * T)) mn iv ip :
    length (build_vals m mn iv) = length iv /\ length (build_pres m mn ip) = length ip.
  Proof. induction m as [|[k v] r [IH1 IH2]]; cbn; [auto|]. rewrite !upd_length. auto. Qed.

  Lemma build_get (m : list (N * T)) mn sp iv ip :
    length iv = sp -> length ip = sp ->
    (forall k, In k (map fst m) -> mn <= k /\ (N.to_nat (k - mn) < sp)%nat) ->
    forall j, mn <= j ->
      arr_get (build_vals m mn iv) (build_pres m mn ip) (N.to_nat (j - mn)) =
      match aget m j with Some v => Some v | None => arr_get iv ip (N.to_nat (j - mn)) end.
  Proof.
    intros Hv Hp. induction m as [|[k v] r IH]; intros Hk j Hj; cbn [build_vals build_pres aget]; [reflexivity|].
    destruct (build_length r mn iv ip) as [L1 L2].
    destruct (Hk k (or_introl eq_refl)) as [K1 K2].
    rewrite arr_get_upd_set by lia.
    rewrite IH by (try exact Hj; intros x Hx; apply Hk; right; exact Hx).
    destruct (k =? j) eqn:E.
    - apply N.eqb_eq in E. subst j. rewrite Nat.eqb_refl. reflexivity.
    - destruct (Nat.eqb (N.to_nat (j - mn)) (N.to_nat (k - mn))) eqn:E2; [lia | reflexivity].
  Qed.

  Lemma build_count (m : list (N * T)) mn sp ip :
    length ip = sp -> NoDup (map fst m) ->
    (forall k, In k (map fst m) -> mn <= k /\ (N.to_nat (k - mn) < sp)%nat) ->
    (forall n, bitn ip n = false) ->
    count_true (build_pres m mn ip) = nlen m + count_true ip /\
    (forall j, mn <= j -> bitn (build_pres m mn ip) (N.to_nat (j - mn)) = true -> In j (map fst m)).
  Proof.
    intros Hp. induction m as [|[k v] r IH]; intros Hnd Hk Hz; cbn [build_pres].
    - split; [cbn; lia|]. intros j _ H. rewrite Hz in H. discriminate.
    - inversion Hnd as [|? ? Hn Hr]; subst.
      destruct (IH Hr (fun x Hx => Hk x (or_intror Hx)) Hz) as [C B].
      destruct (Hk k (or_introl eq_refl)) as [K1 K2].
      destruct (build_length r mn (@nil T) ip) as [_ L2].
      assert (Hfresh : bitn (build_pres r mn ip) (N.to_nat (k - mn)) = false).
      { destruct (bitn (build_pres r mn ip) (N.to_nat (k - mn))) eqn:E; [|reflexivity].
        exfalso. apply Hn. apply B; [lia | exact E]. }
      split.
      + pose proof (count_true_upd (build_pres r mn ip) (N.to_nat (k - mn)) true ltac:(lia)) as U.
        rewrite Hfresh in U. unfold nlen in *. cbn [length]. lia.
      + intros j Hj H. cbn [map fst In].
        destruct (N.eq_dec j k) as [->|Hne]; [left; reflexivity|]. right. apply B; [exact Hj|].
        rewrite bitn_upd_neq in H by lia. exact H.
  Qed.

  Lemma dense_is_smaller_max entries : dense_is_smaller usize_max entries elem = false.
  Proof.
    unfold dense_is_smaller. destruct ((usize_max =? 0) || (entries =? 0)); [reflexivity|].
    unfold sat_mul.
    assert (H1 : N.min (usize_max * (N.min (elem * 8) usize_max + 1)) usize_max = usize_max) by (apply N.min_r; nia).
    rewrite H1. apply N.ltb_ge.
    pose proof (N.le_min_r (entries * ((8 + elem + 1) * 8 * 8)) usize_max) as H2.
    apply N.le_trans with (m := usize_max / 7); [apply N.div_le_mono; [discriminate | exact H2] | vm_compute; discriminate].
  Qed.

  Lemma promote_spec (m : list (N * T)) :
    NoDup (map fst m) -> Forall (fun k => k <= usize_max) (map fst m) ->
    exists d', maybe_promote dflt elem m = d' /\ DInv d' /\ forall j, cget d' j = aget m j.
  Proof.
    intros Hnd Hb. pose proof usize_max_val as HU. unfold maybe_promote.
    destruct ((nlen m <? promote_min_entries) || negb (is_pow2 (nlen m))); [exists (Sparse m); cbn; auto|].
    destruct m as [|[k0 v0] r] eqn:Em; [exists (Sparse []); cbn; auto|]. rewrite <- Em in *.
    set (mn := min_key m k0). set (mx := max_key m k0).
    assert (Hk0 : In k0 (map fst m)) by (rewrite Em; left; reflexivity).
    destruct (min_key_le m k0) as [_ Hmin]. destruct (max_key_ge m k0) as [_ Hmax].
    fold mn in Hmin. fold mx in Hmax.
    assert (Hmx : mx <= usize_max).
    { apply max_key_bound; [|exact Hb]. rewrite Forall_forall in Hb. apply Hb, Hk0. }
    assert (Hmm : mn <= mx) by (pose proof (Hmin k0 Hk0); pose proof (Hmax k0 Hk0); lia).
    cbv zeta. unfold sat_add.
    destruct (negb (dense_is_smaller (N.min (mx - mn + 1) usize_max) (nlen m) elem)) eqn:Ed; [exists (Sparse m); cbn; auto|].
    assert (Hsp0 : mx - mn + 1 <= usize_max).
    { destruct (N.le_gt_cases (mx - mn + 1) usize_max) as [H|H]; [exact H|].
      rewrite N.min_r in Ed by lia. rewrite dense_is_smaller_max in Ed. discriminate. }
    rewrite N.min_l by exact Hsp0.
    eexists. split; [reflexivity|].
    set (sp := N.to_nat (mx - mn + 1)).
    assert (Hrange : forall k, In k (map fst m) -> mn <= k /\ (N.to_nat (k - mn) < sp)%nat).
    { intros k Hk. pose proof (Hmin k Hk). pose proof (Hmax k Hk). unfold sp. lia. }
    destruct (build_length m mn (repeat dflt sp) (repeat false sp)) as [L1 L2].
    rewrite !repeat_length in *.
    split.
    - cbn. split; [congruence|]. split.
      + destruct (build_count m mn sp (repeat false sp) (repeat_length _ _) Hnd Hrange (bitn_repeat_false sp)) as [C _].
        rewrite C, count_true_repeat_false. lia.
      + unfold nlen. rewrite L1. unfold sp. lia.
    - intros j. rewrite ?cget_dense; cbn [cget]. destruct (j <? mn) eqn:L.
      + symmetry. apply aget_none. intros Hin. pose proof (Hmin j Hin). lia.
      + rewrite (build_get m mn sp) by (try apply repeat_length; try exact Hrange; lia).
        destruct (aget m j); [reflexivity|]. unfold arr_get. rewrite bitn_repeat_false, andb_false_r. reflexivity.
  Qed.

  (* ---- set ---- *)
  Lemma resize_grow {A} (l : list A) n d : (length l <= n)%nat -> resize l n d = l ++ repeat d (n - length l).
  Proof. intros H. unfold resize. rewrite firstn_all2 by exact H. reflexivity. Qed.

  Lemma sparse_inv_ains (m : list (N * T)) idx v :
    NoDup (map fst m) -> Forall (fun k => k <= usize_max) (map fst m) -> idx <= usize_max ->
    NoDup (map fst (ains m idx v)) /\ Forall (fun k => k <= usize_max) (map fst (ains m idx v)).
  Proof.
    intros H1 H2 H3. split; [apply nodup_ains, H1|]. rewrite Forall_forall in *.
    intros x Hx. apply keys_ains in Hx. destruct Hx as [->|Hx]; auto.
  Qed.

  Lemma cset_spec (d : cdata T) idx v :
    DInv d -> idx <= usize_max ->
    exists d', cset dflt elem d idx v = d' /\ DInv d' /\
               forall j, cget d' j = if j =? idx then Some v else cget d j.
  Proof.
    intros HI Hidx. pose proof usize_max_val as HU. destruct d as [m|base vals pres count]; cbn [cset].
    - destruct HI as [H1 H2]. destruct (sparse_inv_ains m idx v H1 H2 Hidx) as [A1 A2].
      destruct (promote_spec (ains m idx v) A1 A2) as [d' [E [I G]]].
      exists d'. split; [exact E|]. split; [exact I|]. intros j. rewrite G, aget_ains. reflexivity.
    - destruct HI as [HL [HC HB]]. unfold nlen in *.
      destruct ((base <=? idx) && (idx - base <? N.of_nat (length vals))) eqn:Ein.
      + (* inside the span *)
        set (n := N.to_nat (idx - base)). assert (Hn : (n < length vals)%nat) by (unfold n; lia).
        eexists. split; [reflexivity|]. split.
        * cbn. rewrite !upd_length. split; [exact HL|]. split; [|unfold nlen; rewrite upd_length; exact HB].
          pose proof (count_true_upd pres n true ltac:(lia)) as U. destruct (bitn pres n); lia.
        * intros j. rewrite ?cget_dense; cbn [cget]. destruct (j <? base) eqn:L.
          -- destruct (j =? idx) eqn:E; [lia|reflexivity].
          -- rewrite arr_get_upd_set by lia. fold n.
             destruct (Nat.eqb (N.to_nat (j - base)) n) eqn:E1, (j =? idx) eqn:E2; try reflexivity; unfold n in *; lia.
      + assert (Hfb : exists d', Sparse (ains (dense_entries base vals pres) idx v) = d' /\ DInv d' /\
                        forall j, cget d' j = if j =? idx then Some v else cget (Dense base vals pres count) j).
        { eexists. split; [reflexivity|]. split.
          - apply sparse_inv_ains; [apply dense_entries_nodup | | exact Hidx].
            apply Forall_forall. intros k Hk. apply dense_entries_keys in Hk. unfold nlen in Hk. lia.
          - intros j. rewrite ?cget_dense; cbn [cget]. rewrite aget_ains, dense_entries_get. reflexivity. }
        destruct (base <=? idx) eqn:Eb.
        * cbv zeta. unfold sat_add.
          destruct (dense_is_smaller (N.min (idx - base + 1) usize_max) (count + 1) elem) eqn:Ed; [|exact Hfb].
          assert (Hsp0 : idx - base + 1 <= usize_max).
          { destruct (N.le_gt_cases (idx - base + 1) usize_max) as [H|H]; [exact H|].
            rewrite N.min_r in Ed by lia. rewrite dense_is_smaller_max in Ed. discriminate. }
          rewrite N.min_l by exact Hsp0.
          set (n := N.to_nat (idx - base)). set (sp := N.to_nat (idx - base + 1)).
          assert (Hlen : (length vals <= n)%nat) by (unfold n; lia).
          assert (Hsp : sp = S n) by (unfold sp, n; lia).
          eexists. split; [reflexivity|].
          rewrite (resize_grow vals) by lia. rewrite (resize_grow pres) by lia. rewrite HL.
          set (a := (sp - length vals)%nat).
          assert (La : (length vals + a = sp)%nat) by (unfold a; lia).
          split.
          -- cbn. rewrite !upd_length, !app_length, !repeat_length. split; [lia|]. split.
             ++ pose proof (count_true_upd (pres ++ repeat false a) n true
                              ltac:(rewrite app_length, repeat_length; lia)) as U.
                assert (Hb : bitn (pres ++ repeat false a) n = false).
                { unfold bitn. rewrite nth_error_app2 by lia. apply bitn_repeat_false. }
                rewrite Hb, count_true_app, count_true_repeat_false in U. lia.
             ++ unfold nlen. rewrite upd_length, app_length, repeat_length. lia.
          -- intros j. rewrite ?cget_dense; cbn [cget]. destruct (j <? base) eqn:L.
             ++ destruct (j =? idx) eqn:E; [lia|reflexivity].
             ++ rewrite arr_get_upd_set by (rewrite app_length, repeat_length; lia).
                rewrite arr_get_grow by exact HL.
                destruct (Nat.eqb (N.to_nat (j - base)) n) eqn:E1, (j =? idx) eqn:E2; try reflexivity; unfold n in *; lia.
        * cbv zeta. unfold sat_add.
          destruct (dense_is_smaller (N.min (base - idx + N.of_nat (length vals)) usize_max) (count + 1) elem) eqn:Ed; [|exact Hfb].
          set (s := N.to_nat (base - idx)). assert (Hs : (0 < s)%nat) by (unfold s; lia).
          destruct (shifted_length vals pres) as [S1 S2].
          eexists. split; [reflexivity|]. split.
          -- cbn. rewrite !upd_length, !app_length, !repeat_length, S1, S2. split; [reflexivity|]. split.
             ++ pose proof (count_true_upd (repeat false s ++ shifted_pres vals pres) 0 true
                              ltac:(rewrite app_length, repeat_length; lia)) as U.
                assert (Hb : bitn (repeat false s ++ shifted_pres vals pres) 0 = false).
                { unfold bitn. rewrite nth_error_app1 by (rewrite repeat_length; lia). apply bitn_repeat_false. }
                rewrite Hb, count_true_app, count_true_repeat_false in U. rewrite (shifted_pres_id vals pres HL) in U |- *. cbv iota in U. lia.
             ++ unfold nlen. rewrite upd_length, app_length, repeat_length, S1. unfold s. lia.
          -- intros j. rewrite ?cget_dense; cbn [cget]. destruct (j <? idx) eqn:L.
             ++ destruct (j =? idx) eqn:E; [lia|]. destruct (j <? base) eqn:L2; [reflexivity|lia].
             ++ rewrite arr_get_upd_set by (rewrite app_length, repeat_length; lia).
                rewrite arr_get_shift_prefix, arr_get_shifted.
                destruct (j =? idx) eqn:E2.
                ** destruct (Nat.eqb (N.to_nat (j - idx)) 0) eqn:E1; [reflexivity|lia].
                ** destruct (Nat.eqb (N.to_nat (j - idx)) 0) eqn:E1; [lia|].
                   destruct (j <? base) eqn:L2.
                   --- destruct (Nat.ltb (N.to_nat (j - idx)) s) eqn:L3; [reflexivity | unfold s in *; lia].
                   --- destruct (Nat.ltb (N.to_nat (j - idx)) s) eqn:L3; [unfold s in *; lia|].
                       f_equal. unfold s. lia.
  Qed.

  (* ---- remove ---- *)
  Lemma cremove_spec (d : cdata T) idx :
    DInv d ->
    exists d', cremove dflt d idx = Some d' /\ DInv d' /\
               forall j, cget d' j = if j =? idx then None else cget d j.
  Proof.
    intros HI. pose proof usize_max_val as HU. destruct d as [m|base vals pres count]; [cbn [cremove] | rewrite cremove_dense].
    - destruct HI as [H1 H2]. eexists. split; [reflexivity|]. split.
      + cbn. split; [apply nodup_aremove, H1|]. rewrite Forall_forall in *. intros x Hx.
        apply keys_aremove in Hx. apply H2. tauto.
      + intros j. cbn. apply aget_aremove.
    - destruct HI as [HL [HC HB]].
      destruct (idx <? base) eqn:L.
      { eexists. split; [reflexivity|]. split; [cbn; auto|]. intros j. rewrite ?cget_dense; cbn [cget].
        destruct (j =? idx) eqn:E; [|reflexivity]. destruct (j <? base) eqn:L2; [reflexivity|lia]. }
      cbv zeta. set (n := N.to_nat (idx - base)).
      destruct ((Nat.ltb n (length vals)) && bitn pres n) eqn:Ep.
      + assert (Hn : (n < length pres)%nat) by lia.
        pose proof (count_true_upd pres n false Hn) as U.
        assert (Hb : bitn pres n = true) by (destruct (bitn pres n); [reflexivity | rewrite andb_false_r in Ep; discriminate]).
        rewrite Hb in U.
        destruct (count =? 0) eqn:E0; [lia|].
        eexists. split; [reflexivity|]. split.
        * cbn. rewrite !upd_length. split; [exact HL|]. split; [lia|]. unfold nlen in *. rewrite upd_length. exact HB.
        * intros j. rewrite ?cget_dense; cbn [cget]. destruct (j <? base) eqn:L2.
          -- destruct (j =? idx) eqn:E; [lia|reflexivity].
          -- rewrite arr_get_upd_clear. fold n.
             destruct (Nat.eqb (N.to_nat (j - base)) n) eqn:E1, (j =? idx) eqn:E2; try reflexivity; unfold n in *; lia.
      + eexists. split; [reflexivity|]. split; [cbn; auto|]. intros j. rewrite ?cget_dense; cbn [cget].
        destruct (j =? idx) eqn:E; [|reflexivity]. apply N.eqb_eq in E. subst j. rewrite L.
        unfold arr_get. fold n. rewrite Ep. reflexivity.
  Qed.
End CD.

(* ---------- Column ---------- *)
Definition CInv (c : column) : Prop :=
  match c with
  | CInt d => DInv d | CFloat d => DInv d | CStr d => DInv d | CBool d => DInv d
  | COther _ => True
  end.

Lemma spill_get c j : aget (spill c) j = column_lookup c j.
Proof.
  destruct c as [d|d|d|d|m]; cbn [spill column_lookup]; try reflexivity;
    rewrite aget_wrap, centries_get; reflexivity.
Qed.

Lemma typed_set_lift {T} (wrapc : cdata T -> column) (f : T -> pv) dflt elem (d : cdata T) idx (z : T) :
  (forall d', CInv (wrapc d') = DInv d') ->
  (forall d' j, column_lookup (wrapc d') j = option_map f (cget d' j)) ->
  DInv d -> idx <= usize_max ->
  exists c', Some (wrapc (cset dflt elem d idx z)) = Some c' /\ CInv c' /\
             forall j, column_lookup c' j = if j =? idx then Some (f z) else column_lookup (wrapc d) j.
Proof.
  intros HI HG Hd Hidx. destruct (cset_spec dflt elem d idx z Hd Hidx) as [d' [E [I G]]].
  exists (wrapc d'). rewrite E. split; [reflexivity|]. split; [rewrite HI; exact I|].
  intros j. rewrite !HG, G. destruct (j =? idx); reflexivity.
Qed.

Lemma column_set_spec c idx v :
  CInv c -> idx <= usize_max ->
  exists c', column_set c idx v = Some c' /\ CInv c' /\
             forall j, column_lookup c' j = if j =? idx then Some v else column_lookup c j.
Proof.
  intros HI Hidx.
  assert (Hspill : exists c', Some (COther (ains (spill c) idx v)) = Some c' /\ CInv c' /\
                     forall j, column_lookup c' j = if j =? idx then Some v else column_lookup c j).
  { eexists. split; [reflexivity|]. split; [exact I|]. intros j. cbn [column_lookup].
    rewrite aget_ains, spill_get. reflexivity. }
  destruct c as [d|d|d|d|m]; destruct v as [z|b|s|b| |]; cbn [column_set]; try exact Hspill.
  - apply (typed_set_lift CInt PInt); auto.
  - apply (typed_set_lift CFloat PFloat); auto.
  - apply (typed_set_lift CStr PStr); auto.
  - apply (typed_set_lift CBool PBool); auto.
Qed.

Lemma typed_remove_lift {T} (wrapc : cdata T -> column) (f : T -> pv) dflt (d : cdata T) idx :
  (forall d', CInv (wrapc d') = DInv d') ->
  (forall d' j, column_lookup (wrapc d') j = option_map f (cget d' j)) ->
  DInv d ->
  exists c', option_map wrapc (cremove dflt d idx) = Some c' /\ CInv c' /\
             forall j, column_lookup c' j = if j =? idx then None else column_lookup (wrapc d) j.
Proof.
  intros HI HG Hd. destruct (cremove_spec dflt d idx Hd) as [d' [E [I G]]].
  exists (wrapc d'). rewrite E. split; [reflexivity|]. split; [rewrite HI; exact I|].
  intros j. rewrite !HG, G. destruct (j =? idx); reflexivity.
Qed.

Lemma column_remove_spec c idx :
  CInv c ->
  exists c', column_remove c idx = Some c' /\ CInv c' /\
             forall j, column_lookup c' j = if j =? idx then None else column_lookup c j.
Proof.
  intros HI. destruct c as [d|d|d|d|m]; cbn [column_remove].
  - apply (typed_remove_lift CInt PInt); auto.
  - apply (typed_remove_lift CFloat PFloat); auto.
  - apply (typed_remove_lift CStr PStr); auto.
  - apply (typed_remove_lift CBool PBool); auto.
  - eexists. split; [reflexivity|]. split; [exact I|]. intros j. cbn. apply aget_aremove.
Qed.

Lemma for_value_inv v : CInv (for_value v) /\ forall j, column_lookup (for_value v) j = None.
Proof. destruct v; cbn; repeat split; try constructor; auto. Qed.

(* ---------- ColumnStore ---------- *)
Definition SInv (s : store) : Prop := Forall CInv (map snd s) /\ NoDup (map fst s).

Lemma store_set_spec r k v : r <= usize_max -> forall s, SInv s ->
  exists s' c', store_set s r k v = Some s' /\ SInv s' /\
    find_col s' k = Some c' /\
    (forall j, column_lookup c' j = if j =? r then Some v
                                    else match find_col s k with Some c => column_lookup c j | None => None end) /\
    (forall k', k' <> k -> find_col s' k' = find_col s k') /\
    (forall x, In x (map fst s') <-> In x (map fst s) \/ x = k).
Proof.
  intros Hr. induction s as [|[k0 c0] t IH]; intros [HC HN].
  - cbn [store_set]. destruct (for_value_inv v) as [I0 G0].
    destruct (column_set_spec (for_value v) r v I0 Hr) as [c' [E [I G]]].
    exists [(k, c')], c'. rewrite E. cbn. rewrite N.eqb_refl. repeat split.
    + constructor; [exact I | constructor].
    + constructor; [tauto | constructor].
    + intros j. rewrite G, G0. reflexivity.
    + intros k' Hk. destruct (k =? k') eqn:E2; [lia | reflexivity].
    + intros [ -> | [] ]; auto.
    + intros [ [] | -> ]; auto.
  - cbn in HC, HN. inversion HC as [|? ? HC0 HCt]; subst. inversion HN as [|? ? HN0 HNt]; subst.
    cbn [store_set]. destruct (k0 =? k) eqn:Ek.
    + apply N.eqb_eq in Ek. subst k0.
      destruct (column_set_spec c0 r v HC0 Hr) as [c' [E [I G]]].
      exists ((k, c') :: t), c'. rewrite E. cbn. rewrite N.eqb_refl. repeat split.
      * constructor; assumption.
      * constructor; assumption.
      * exact G.
      * intros k' Hk. destruct (k =? k') eqn:E2; [lia | reflexivity].
      * tauto.
      * intros [[<-|H]|<-]; auto.
    + destruct (IH (conj HCt HNt)) as [t' [c' [E [[IC IN] [F [G [O K]]]]]]].
      exists ((k0, c0) :: t'), c'. rewrite E. cbn. rewrite Ek. repeat split.
      * constructor; assumption.
      * constructor; [|exact IN]. rewrite K. intros [H|H]; [tauto | cbn in H; lia].
      * exact F.
      * exact G.
      * intros k' Hk. destruct (k0 =? k'); [reflexivity | apply O, Hk].
      * intros [<-|H]; [tauto|]. apply K in H. tauto.
      * intros [ [ <- | H ] | -> ]; [tauto | right; apply K; tauto | right; apply K; tauto].
Qed.

Lemma store_remove_spec r k : forall s, SInv s ->
  exists s', store_remove s r k = Some s' /\ SInv s' /\ map fst s' = map fst s /\
    (forall k' j, match find_col s' k' with Some c => column_lookup c j | None => None end =
                  if (j =? r) && (k' =? k) then None
                  else match find_col s k' with Some c => column_lookup c j | None => None end).
Proof.
  induction s as [|[k0 c0] t IH]; intros [HC HN].
  - exists []. cbn. repeat split; try constructor. intros k' j. destruct ((j =? r) && (k' =? k)); reflexivity.
  - cbn in HC, HN. inversion HC as [|? ? HC0 HCt]; subst. inversion HN as [|? ? HN0 HNt]; subst.
    cbn [store_remove]. destruct (k0 =? k) eqn:Ek.
    + apply N.eqb_eq in Ek. subst k0.
      destruct (column_remove_spec c0 r HC0) as [c' [E [I G]]].
      exists ((k, c') :: t). rewrite E. cbn. repeat split.
      * constructor; assumption.
      * constructor; assumption.
      * intros k' j. destruct (k =? k') eqn:E2.
        -- rewrite G. rewrite (N.eqb_sym k' k), E2, andb_true_r. reflexivity.
        -- rewrite (N.eqb_sym k' k), E2, andb_false_r. reflexivity.
    + destruct (IH (conj HCt HNt)) as [t' [E [[IC IN] [K G]]]].
      exists ((k0, c0) :: t'). rewrite E. cbn. rewrite K. repeat split.
      * constructor; assumption.
      * cbn. rewrite K. constructor; assumption.
      * intros k' j. destruct (k0 =? k') eqn:E2; [|apply G].
        destruct (k' =? k) eqn:E3; [lia|]. rewrite andb_false_r. reflexivity.
Qed.

Lemma store_clear_spec r : forall s, SInv s ->
  exists s', store_clear s r = Some s' /\ SInv s' /\ map fst s' = map fst s /\
    (forall k' j, match find_col s' k' with Some c => column_lookup c j | None => None end =
                  if j =? r then None
                  else match find_col s k' with Some c => column_lookup c j | None => None end).
Proof.
  induction s as [|[k0 c0] t IH]; intros [HC HN].
  - exists []. cbn. repeat split; try constructor. intros k' j. destruct (j =? r); reflexivity.
  - cbn in HC, HN. inversion HC as [|? ? HC0 HCt]; subst. inversion HN as [|? ? HN0 HNt]; subst.
    cbn [store_clear].
    destruct (column_remove_spec c0 r HC0) as [c' [E [I G]]].
    destruct (IH (conj HCt HNt)) as [t' [Et [[IC IN] [K Gt]]]].
    exists ((k0, c') :: t'). rewrite E, Et. cbn. rewrite K. repeat split.
    + constructor; assumption.
    + cbn. rewrite K. constructor; assumption.
    + intros k' j. destruct (k0 =? k'); [apply G | apply Gt].
Qed.

(* ---------- refinement ---------- *)
Definition row_ok (o : op) : Prop := match o with SetP r _ _ => r <= usize_max | _ => True end.

Lemma step_refines s o :
  SInv s -> row_ok o ->
  exists s', step s o = Some s' /\ SInv s' /\ forall r k, abs s' r k = spec_step (abs s) o r k.
Proof.
  intros HI Hr. destruct o as [r k v|r k|r]; cbn [step spec_step].
  - destruct (store_set_spec r k v Hr s HI) as [s' [c' [E [I [F [G [O _]]]]]]].
    exists s'. split; [exact E|]. split; [exact I|]. intros r' k'. unfold abs.
    destruct (k' =? k) eqn:Ek.
    + apply N.eqb_eq in Ek. subst k'. rewrite F, G, andb_true_r. reflexivity.
    + rewrite O by lia. rewrite andb_false_r. reflexivity.
  - destruct (store_remove_spec r k s HI) as [s' [E [I [_ G]]]].
    exists s'. split; [exact E|]. split; [exact I|]. intros r' k'. unfold abs. apply G.
  - destruct (store_clear_spec r s HI) as [s' [E [I [_ G]]]].
    exists s'. split; [exact E|]. split; [exact I|]. intros r' k'. unfold abs. apply G.
Qed.

Lemma spec_step_ext m1 m2 o : (forall r k, m1 r k = m2 r k) -> forall r k, spec_step m1 o r k = spec_step m2 o r k.
Proof. intros H r k. destruct o; cbn; rewrite H; reflexivity. Qed.

Lemma spec_fold_ext ops : forall m1 m2, (forall r k, m1 r k = m2 r k) ->
  forall r k, fold_left spec_step ops m1 r k = fold_left spec_step ops m2 r k.
Proof. induction ops as [|o t IH]; cbn; intros m1 m2 H; [exact H|]. apply IH, spec_step_ext, H. Qed.

Lemma rows_ok_rows ops : rows_ok ops = true -> Forall row_ok ops.
Proof.
  unfold rows_ok. induction ops as [|o t IH]; cbn; intros H; [constructor|].
  apply andb_true_iff in H. destruct H as [H1 H2]. constructor; [|exact (IH H2)].
  destruct o; cbn in *; auto. lia.
Qed.

Lemma run_from_refines ops : forall s, SInv s -> Forall row_ok ops ->
  exists s', run_from s ops = Some s' /\ SInv s' /\
             forall r k, abs s' r k = fold_left spec_step ops (abs s) r k.
Proof.
  induction ops as [|o t IH]; intros s HI HR; cbn [run_from fold_left].
  - exists s. auto.
  - inversion HR as [|? ? Ho Ht]; subst.
    destruct (step_refines s o HI Ho) as [s1 [E [I G]]]. rewrite E.
    destruct (IH s1 I Ht) as [s' [E' [I' G']]]. exists s'. split; [exact E'|]. split; [exact I'|].
    intros r k. rewrite G'. apply spec_fold_ext. exact G.
Qed.

Lemma sinv_empty : SInv [].
Proof. split; constructor. Qed.

Lemma all_histories ops :
  rows_ok ops = true ->
  exists s, run ops = Some s /\ SInv s /\ forall r k, abs s r k = spec_run ops r k.
Proof.
  intros H. destruct (run_from_refines ops [] sinv_empty (rows_ok_rows ops H)) as [s [E [I G]]].
  exists s. split; [exact E|]. split; [exact I|]. exact G.
Qed.

(* ---------- the two read operations ---------- *)
Lemma get_property_abs s r k :
  get_property s r k = match abs s r k with Some v => v | None => PNull end.
Proof. unfold get_property, abs, column_get. destruct (find_col s k); reflexivity. Qed.

Lemma find_col_in s k c : NoDup (map fst s) -> (In (k, c) s <-> find_col s k = Some c).
Proof.
  induction s as [|[k0 c0] t IH]; cbn; intros HN; [split; [tauto|discriminate]|].
  inversion HN as [|? ? H0 Ht]; subst. destruct (k0 =? k) eqn:E.
  - apply N.eqb_eq in E. subst k0. split.
    + intros [H|H]; [congruence|]. exfalso. apply H0. apply in_map_iff. exists (k, c). auto.
    + intros [= ->]. auto.
  - rewrite <- (IH Ht). split; [intros [H|H]; [inversion H; lia | exact H] | auto].
Qed.

Lemma keys_abs s r :
  SInv s ->
  NoDup (get_property_keys s r) /\
  forall k, In k (get_property_keys s r) <-> abs s r k <> None.
Proof.
  intros [_ HN]. unfold get_property_keys. split.
  - clear -HN. induction s as [|[k0 c0] t IH]; cbn; [constructor|].
    inversion HN as [|? ? H0 Ht]; subst. destruct (column_has c0 r); [|auto].
    cbn. constructor; [|auto]. intros H. apply H0. apply in_map_iff in H.
    destruct H as [[k c] [E H]]. apply filter_In in H. apply in_map_iff. exists (k, c). tauto.
  - intros k. rewrite in_map_iff. unfold abs. split.
    + intros [[k1 c] [E H]]. cbn in E. subst k1. apply filter_In in H. destruct H as [H1 H2].
      apply (find_col_in s k c HN) in H1. rewrite H1. cbn in H2. unfold column_has in H2.
      destruct (column_lookup c r); [discriminate | discriminate].
    + destruct (find_col s k) as [c|] eqn:F; [|tauto]. intros H.
      exists (k, c). split; [reflexivity|]. apply filter_In. split; [apply find_col_in; assumption|].
      cbn. unfold column_has. destruct (column_lookup c r); [reflexivity | tauto].
Qed.

(* ---------- the arithmetic before the repair overflowed on reachable states ---------- *)
Definition st_of (ops : list op) : store := match run ops with Some s => s | None => [] end.
Definition int_shape (s : store) (k : N) : option (N * N) :=
  match find_col s k with Some (CInt (Dense b v _ _)) => Some (b, nlen v) | _ => None end.

Lemma original_code_refuted :
  (* rows 0..1023 dense with base 0; a set at usize::MAX computed idx - base + 1 *)
  int_shape (st_of (expand (Fill 0 0 1024 1 0))) 0 = Some (0, 1024) /\
  orig_grow_span usize_max 0 = None /\
  (* rows MAX-1023..MAX dense; a set below the base computed base + values.len() *)
  int_shape (st_of (expand (Fill 0 (usize_max - 1023) 1024 1 0))) 0 = Some (usize_max - 1023, 1024) /\
  orig_rebase_span (usize_max - 1023) 1024 (usize_max - 1024) = None /\
  (* rows 0 and usize::MAX among 1024 entries: max - min + 1 *)
  orig_promote_span usize_max 0 = None /\
  (* the repaired code runs all three histories and reads the rows back *)
  (let ops := expand (Fill 0 0 1024 1 0) ++ [SetP usize_max 0 (PInt 1)] in
   rows_ok ops = true /\ get_property (st_of ops) usize_max 0 = PInt 1 /\ get_property (st_of ops) 7 0 = PInt 7) /\
  (let ops := expand (Fill 0 (usize_max - 1023) 1024 1 0) ++ [SetP (usize_max - 1024) 0 (PInt 1)] in
   rows_ok ops = true /\ get_property (st_of ops) (usize_max - 1024) 0 = PInt 1 /\
   get_property (st_of ops) usize_max 0 = PInt (-1)) /\
  (let ops := expand (Fill 0 0 1023 1 0) ++ [SetP usize_max 0 (PInt 1)] in
   rows_ok ops = true /\ get_property (st_of ops) usize_max 0 = PInt 1 /\ get_property (st_of ops) 0 0 = PInt 0).
Proof. vm_compute. repeat split; reflexivity. Qed.
