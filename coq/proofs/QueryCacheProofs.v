(* Proofs about model/QueryCache.v : the cache key determines the lexical abstraction the
   parser depends on, and the LRU AST cache is transparent for every history. *)
From Coq Require Import List NArith Bool Lia.
From Verif Require Import CheckLib QueryCache.
Import ListNotations.
Open Scope N_scope.

(* ---------- annotated squeeze ---------- *)
Fixpoint sq2 (prev : bool) (l : list (N * ann)) : list (N * ann) :=
  match l with
  | [] => []
  | (c, ASep) :: r => if prev then sq2 true r else (32, ASep) :: sq2 true r
  | (c, a) :: r => (c, a) :: sq2 false r
  end.

Lemma squeeze_sq2 : forall l p, squeeze p l = map fst (sq2 p l).
Proof.
  induction l as [|[c a] r IH]; intros p; cbn; [reflexivity|].
  destruct a; cbn; try (rewrite IH; reflexivity).
  destruct p; cbn; rewrite IH; reflexivity.
Qed.

(* a separator is a whitespace byte read between tokens, ahead of the tail *)
Lemma sep_inv : forall s c sn, ann_at s c sn = ASep ->
  is_ws c = true /\ md s = MOut /\ ph s <> Tail.
Proof.
  intros [m p w] c sn; unfold ann_at; cbn [ph md].
  destruct p; try discriminate;
  (destruct m; cbn [step_cls];
   repeat match goal with |- context [if ?b then _ else _] => destruct b eqn:? end;
   cbn; try discriminate; intros _; repeat split; auto; discriminate).
Qed.

Lemma ws_not_slash : forall c, is_ws c = true -> (c =? 47) = false /\ (c =? 42) = false.
Proof.
  intros c H; unfold is_ws in H.
  repeat (apply orb_true_iff in H; destruct H as [H|H]);
    apply N.eqb_eq in H; subst; split; reflexivity.
Qed.

Lemma ws_step : forall c sn, is_ws c = true -> step_cls MOut c sn = (KWs, MOut).
Proof. intros c sn H; cbn; rewrite H; reflexivity. Qed.

(* the byte after a '/' is the same, as far as comment openers go, in the key *)
Lemma slash_next_sq : forall r s,
  slash_next (map fst (sq2 false (scan s r))) = slash_next r.
Proof.
  intros [|d r] s; cbn [scan sq2 map slash_next]; [reflexivity|].
  destruct (ann_at s d (slash_next r)) eqn:E; cbn [sq2 map fst slash_next]; try reflexivity.
  apply sep_inv in E; destruct E as [W _]; apply ws_not_slash in W; destruct W as [W1 W2].
  rewrite W1, W2; reflexivity.
Qed.

(* re-scanning the key gives the squeezed annotation of the original text *)
Lemma scan_key : forall l s p, (p = true -> win s = []) ->
  scan s (map fst (sq2 p (scan s l))) = sq2 p (scan s l).
Proof.
  induction l as [|c r IH]; intros s p Hp; cbn [scan sq2 map]; [reflexivity|].
  destruct (ann_at s c (slash_next r)) eqn:E.
  - (* separator *)
    destruct (sep_inv _ _ _ E) as [W [M T]].
    assert (N' : forall sn, next s c sn = mkst MOut (ph s) []).
    { intros sn; unfold next; destruct s as [m ph0 w]; cbn [ph md win] in *; subst m.
      rewrite (ws_step _ _ W); cbn; destruct ph0; try reflexivity; congruence. }
    rewrite N'.
    destruct p.
    + (* run continues (or leading whitespace): byte dropped *)
      assert (S : s = mkst MOut (ph s) []).
      { destruct s as [m ph0 w]; cbn [ph md win] in *; rewrite (Hp eq_refl); subst m; reflexivity. }
      rewrite S at 1. apply IH; reflexivity.
    + (* first byte of a run: one space *)
      cbn [map fst scan].
      assert (A : forall sn, ann_at s 32 sn = ASep).
      { intros sn; unfold ann_at; destruct s as [m ph0 w]; cbn [ph md win] in *; subst m.
        cbn; destruct ph0; try reflexivity; congruence. }
      assert (N2 : forall sn, next s 32 sn = mkst MOut (ph s) []).
      { intros sn; unfold next; destruct s as [m ph0 w]; cbn [ph md win] in *; subst m.
        cbn; destruct ph0; try reflexivity; congruence. }
      rewrite A, N2. f_equal. apply IH; reflexivity.
  - cbn [sq2 map fst scan]. rewrite slash_next_sq, E. f_equal. apply IH; discriminate.
  - cbn [sq2 map fst scan]. rewrite slash_next_sq, E. f_equal. apply IH; discriminate.
  - cbn [sq2 map fst scan]. rewrite slash_next_sq, E. f_equal. apply IH; discriminate.
  - cbn [sq2 map fst scan]. rewrite slash_next_sq, E. f_equal. apply IH; discriminate.
  - cbn [sq2 map fst scan]. rewrite slash_next_sq, E. f_equal. apply IH; discriminate.
Qed.

Lemma head_ann_sq2 : forall r, head_ann (sq2 false r) = head_ann r.
Proof. intros [|[d a] r]; cbn; [reflexivity|]; destruct a; reflexivity. Qed.

Lemma toks_sq2 : forall l p, toks (sq2 p l) = toks l.
Proof.
  induction l as [|[c a] r IH]; intros p; cbn [sq2 toks]; [reflexivity|].
  destruct a; cbn [toks]; try (rewrite head_ann_sq2, IH; reflexivity).
  destruct p; cbn [toks cons_tok]; rewrite IH; reflexivity.
Qed.

Lemma tail_sq2 : forall l p, tail_of (sq2 p l) = tail_of l.
Proof.
  induction l as [|[c a] r IH]; intros p; cbn [sq2 tail_of]; [reflexivity|].
  destruct a; cbn [tail_of]; try (rewrite IH; reflexivity).
  destruct p; cbn [tail_of]; rewrite IH; reflexivity.
Qed.

Lemma lex_key : forall s, lex (key s) = lex s.
Proof.
  intros s; unfold lex, key. rewrite squeeze_sq2.
  rewrite scan_key by reflexivity. rewrite toks_sq2, tail_sq2. reflexivity.
Qed.

Theorem key_sound : forall s1 s2, key s1 = key s2 -> lex s1 = lex s2.
Proof. intros s1 s2 H. rewrite <- (lex_key s1), <- (lex_key s2), H. reflexivity. Qed.

(* ---------- LRU ---------- *)
Lemma bytes_eqb_eq : forall a b, bytes_eqb a b = true <-> a = b.
Proof. apply list_eqb_spec. intros x y; apply N.eqb_eq. Qed.

Lemma lru_find_in : forall V (k : bytes) (c : cache V) v, lru_find k c = Some v -> In (k, v) c.
Proof.
  induction c as [|[k' v'] r IH]; intros v; cbn; [discriminate|].
  destruct (bytes_eqb k k') eqn:E.
  - intros H; inversion H; subst. apply bytes_eqb_eq in E; subst. left; reflexivity.
  - intros H; right; auto.
Qed.

Lemma lru_remove_in : forall V (k : bytes) (c : cache V) e, In e (lru_remove k c) -> In e c.
Proof.
  induction c as [|[k' v'] r IH]; intros e; cbn; [auto|].
  destruct (bytes_eqb k k'); cbn; intuition.
Qed.

Lemma lru_remove_le : forall V (k : bytes) (c : cache V), (length (lru_remove k c) <= length c)%nat.
Proof.
  induction c as [|[a b] t IH]; cbn; [lia|]. destruct (bytes_eqb k a); cbn; lia.
Qed.

Lemma lru_remove_found : forall V (k : bytes) (c : cache V) v,
  lru_find k c = Some v -> (S (length (lru_remove k c)) <= length c)%nat.
Proof.
  induction c as [|[a b] t IH]; intros v; cbn; [discriminate|].
  destruct (bytes_eqb k a).
  - intros _. pose proof (lru_remove_le V k t). lia.
  - intros F. specialize (IH v F). cbn. lia.
Qed.

Lemma firstn_in : forall A n (l : list A) x, In x (firstn n l) -> In x l.
Proof. induction n; intros [|a l] x; cbn; intuition. Qed.

Lemma lru_put_len : forall V cap k (v : V) c, (length (lru_put cap k v c) <= eff_cap cap)%nat.
Proof. intros; unfold lru_put; apply firstn_le_length. Qed.

Section EngineProofs.
  Variables ast err store res : Type.
  Variable parse_tok : list token * bytes -> option ast.
  Variable parse_err : bytes -> err.
  Variable exec_ro : ast -> store -> res.
  Variable exec_rw : ast -> store -> store * res.
  Variable res_err : err -> res.

  Notation parse := (parse ast err parse_tok parse_err).
  Notation cached_parse := (cached_parse ast err parse_tok parse_err).
  Notation exec_cached := (exec_cached ast err store res parse_tok parse_err exec_ro exec_rw res_err).
  Notation exec_fresh := (exec_fresh ast err store res parse_tok parse_err exec_ro exec_rw res_err).
  Notation run_cached := (run_cached ast err store res parse_tok parse_err exec_ro exec_rw res_err).
  Notation run_fresh := (run_fresh ast err store res parse_tok parse_err exec_ro exec_rw res_err).

  (* every cached entry is the parse of every text that has its key *)
  Definition cache_ok (c : cache ast) : Prop :=
    forall k q, In (k, q) c -> forall s, key s = k -> parse s = inl q.

  Lemma parse_same_key : forall s1 s2 q, key s1 = key s2 -> parse s1 = inl q -> parse s2 = inl q.
  Proof.
    intros s1 s2 q K; unfold QueryCache.parse. rewrite (key_sound _ _ K).
    destruct (parse_tok (lex s2)); intros H; [exact H|discriminate].
  Qed.

  Lemma cached_parse_ok : forall cap c s, cache_ok c ->
    fst (cached_parse cap c s) = parse s /\ cache_ok (snd (cached_parse cap c s)).
  Proof.
    intros cap c s OK. unfold QueryCache.cached_parse, lru_get.
    destruct (lru_find (key s) c) as [q|] eqn:F; cbn [fst snd].
    - apply lru_find_in in F. split.
      + symmetry; apply (OK _ _ F); reflexivity.
      + intros k q' [E|I] s' K.
        * injection E as E1 E2. rewrite <- E2. apply (OK _ _ F). rewrite K, E1; reflexivity.
        * apply lru_remove_in in I. apply (OK _ _ I); exact K.
    - destruct (parse s) as [q|e] eqn:P; cbn [fst snd]; split; auto.
      intros k q' I s' K. unfold lru_put in I. apply firstn_in in I. destruct I as [E|I].
      + injection E as E1 E2. rewrite <- E2. apply (parse_same_key s s'); [rewrite K, E1; reflexivity|exact P].
      + apply lru_remove_in in I. apply (OK _ _ I); exact K.
  Qed.

  Lemma exec_cached_fresh : forall cap c g r, cache_ok c ->
    let '(c', g', o) := exec_cached cap c g r in
    cache_ok c' /\ (g', o) = exec_fresh g r.
  Proof.
    intros cap c g r OK. unfold QueryCache.exec_cached, QueryCache.exec_fresh.
    destruct (cached_parse_ok cap c (text r) OK) as [P OK'].
    destruct (cached_parse cap c (text r)) as [p c']; cbn [fst snd] in *. subst p.
    destruct (run_parsed ast err store res exec_ro exec_rw res_err (parse (text r)) r g) as [g' o].
    split; [exact OK'|reflexivity].
  Qed.

  Theorem run_transparent : forall cap h c g, cache_ok c ->
    let '(c', g', os) := run_cached cap c g h in
    cache_ok c' /\ (g', os) = run_fresh g h.
  Proof.
    intros cap h; induction h as [|r h IH]; intros c g OK; cbn [QueryCache.run_cached QueryCache.run_fresh].
    - split; [exact OK|reflexivity].
    - pose proof (exec_cached_fresh cap c g r OK) as H.
      destruct (exec_cached cap c g r) as [[c1 g1] o1]. destruct H as [OK1 E1].
      rewrite <- E1.
      specialize (IH c1 g1 OK1).
      destruct (run_cached cap c1 g1 h) as [[c2 g2] os]. destruct IH as [OK2 E2].
      rewrite <- E2. split; [exact OK2|reflexivity].
  Qed.

  Lemma cache_ok_nil : cache_ok [].
  Proof. intros k q []. Qed.

  (* the engine starts with an empty cache *)
  Theorem cache_transparent : forall cap h g,
    let '(_, g', os) := run_cached cap [] g h in (g', os) = run_fresh g h.
  Proof.
    intros cap h g. pose proof (run_transparent cap h [] g cache_ok_nil) as H.
    destruct (run_cached cap [] g h) as [[c' g'] os]. tauto.
  Qed.

  (* one more request after any history answers like a fresh parse + execution *)
  Theorem exec_after_history : forall cap h g r,
    let '(c, g1, _) := run_cached cap [] g h in
    let '(_, g2, o) := exec_cached cap c g1 r in
    (g2, o) = exec_fresh g1 r.
  Proof.
    intros cap h g r. pose proof (run_transparent cap h [] g cache_ok_nil) as H.
    destruct (run_cached cap [] g h) as [[c g1] os]. destruct H as [OK _].
    pose proof (exec_cached_fresh cap c g1 r OK) as H2.
    destruct (exec_cached cap c g1 r) as [[c2 g2] o]. tauto.
  Qed.

  (* the cache never holds more than its capacity *)
  Lemma cached_parse_len : forall cap c s, (length c <= eff_cap cap)%nat ->
    (length (snd (cached_parse cap c s)) <= eff_cap cap)%nat.
  Proof.
    intros cap c s L. unfold QueryCache.cached_parse, lru_get.
    destruct (lru_find (key s) c) as [q|] eqn:F; cbn [snd].
    - pose proof (lru_remove_found _ _ _ _ F) as R. cbn [length]. lia.
    - destruct (parse s); cbn [snd]; [apply lru_put_len|exact L].
  Qed.
End EngineProofs.
