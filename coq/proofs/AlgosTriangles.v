(* C26: the model of topology.rs count_triangles as written equals the specification. *)
From Coq Require Import List NArith Bool Arith Lia ZifyBool ZifyNat ZifyN.
From Verif Require Import CheckLib Algos AlgosProofs.
Import ListNotations.

(* ================================================================== *)
(* count_triangles as written = the specification                        *)
(* ================================================================== *)

Lemma sumn_map_ext : forall {A} (f h : A -> nat) l,
  (forall x, In x l -> f x = h x) -> sumn (map f l) = sumn (map h l).
Proof.
  intros A f h l; unfold sumn; induction l as [|x l IH]; intros H; cbn; [reflexivity|].
  rewrite (H x (or_introl eq_refl)), IH; [reflexivity|]. intros y Hy; apply H; right; exact Hy.
Qed.

Lemma length_filter_sum : forall {A} (f : A -> bool) l,
  length (filter f l) = sumn (map (fun x => b2n (f x)) l).
Proof.
  intros A f l; unfold sumn; induction l as [|x l IH]; cbn; [reflexivity|]. destruct (f x); cbn; rewrite IH; reflexivity.
Qed.

Lemma sumn_filter : forall {A} (p : A -> bool) (f : A -> nat) l,
  sumn (map f (filter p l)) = sumn (map (fun x => if p x then f x else 0) l).
Proof.
  intros A p f l; unfold sumn; induction l as [|x l IH]; cbn; [reflexivity|]. destruct (p x); cbn; rewrite IH; reflexivity.
Qed.

Lemma sumn_app : forall a b, sumn (a ++ b) = sumn a + sumn b.
Proof. unfold sumn. induction a as [|x a IH]; intros b; cbn; [reflexivity|]. rewrite IH. lia. Qed.

Lemma sumn_prod : forall {A B} (f : A * B -> nat) (a : list A) (b : list B),
  sumn (map f (list_prod a b)) = sumn (map (fun x => sumn (map (fun y => f (x, y)) b)) a).
Proof.
  intros A B f a b; induction a as [|x a IH]; [reflexivity|].
  cbn [list_prod map]. rewrite map_app, sumn_app, map_map, IH. reflexivity.
Qed.

Lemma sumn_if : forall {A} (c : bool) (f : A -> nat) l,
  (if c then sumn (map f l) else 0) = sumn (map (fun x => if c then f x else 0) l).
Proof.
  intros A c f l. destruct c; [reflexivity|]. unfold sumn. induction l as [|x l IH]; cbn; [reflexivity|exact IH].
Qed.

Lemma memb_nset : forall g u w, w < gn g -> memb w (nset g u) = adjb g u w.
Proof.
  intros g u w Hw. unfold nset. destruct (adjb g u w) eqn:E.
  - unfold memb. apply existsb_exists. exists w. split; [|apply Nat.eqb_refl].
    apply filter_In. split; [apply in_seq; lia|exact E].
  - destruct (memb w (filter (fun v => adjb g u v) (seq 0 (gn g)))) eqn:M; [|reflexivity].
    unfold memb in M. apply existsb_exists in M. destruct M as [y [Hy Ey]]. apply Nat.eqb_eq in Ey. subst y.
    apply filter_In in Hy. destruct Hy as [_ Hy]. congruence.
Qed.

Theorem count_triangles_model_spec : forall g, count_triangles_model g = triangles_spec g.
Proof.
  intros g. unfold count_triangles_model, triangles_spec, tri_list, triples. f_equal.
  set (ns := seq 0 (gn g)).
  (* the specification as a triple sum *)
  assert (Hspec : length (filter (is_tri g)
                   (filter (fun t => (fst t <? fst (snd t)) && (fst (snd t) <? snd (snd t)))
                           (list_prod ns (list_prod ns ns)))) =
          sumn (map (fun u => sumn (map (fun v => sumn (map (fun w =>
             b2n (((u <? v) && (v <? w)) && (adjb g u v && adjb g v w && adjb g u w))) ns)) ns)) ns)).
  { rewrite length_filter_sum, sumn_filter, sumn_prod. apply sumn_map_ext. intros u _.
    rewrite sumn_prod. apply sumn_map_ext. intros v _. apply sumn_map_ext. intros w _.
    cbn [fst snd]. unfold is_tri. cbn [fst snd].
    destruct ((u <? v) && (v <? w)); cbn [andb]; [reflexivity|reflexivity]. }
  rewrite Hspec. apply sumn_map_ext. intros u _.
  unfold nset. fold ns. rewrite sumn_filter. apply sumn_map_ext. intros v _.
  destruct (adjb g u v) eqn:Euv.
  - rewrite (Nat.ltb_antisym v u). destruct (v <=? u) eqn:Evu; cbn [negb andb].
    + clear. unfold sumn. induction ns as [|x l IH]; cbn; [reflexivity|exact IH].
    + rewrite sumn_filter. apply sumn_map_ext. intros w Hw. apply in_seq in Hw.
      destruct (adjb g v w) eqn:Evw.
      * rewrite (Nat.ltb_antisym w v). destruct (w <=? v); cbn [negb andb]; [reflexivity|].
        change (filter (fun v0 : nat => adjb g u v0) ns) with (nset g u). rewrite memb_nset by lia. reflexivity.
      * rewrite andb_false_r. cbn [b2n]. reflexivity.
  - assert (Hz : forall w, b2n ((u <? v) && (v <? w) && (false && adjb g v w && adjb g u w)) = 0)
      by (intros w; rewrite andb_false_r; reflexivity).
    clear - Hz. unfold sumn. induction ns as [|x l IH]; cbn [map fold_right]; [reflexivity|]. rewrite Hz, <- IH. reflexivity.
Qed.
