(* C13 content: what a successful import means, declaratively.  Part 1: one node (merge rule
   and creation, per label and per property key).  Part 2: a successful import is a sequence of
   actions, one per node or edge record.  Part 3: what such a sequence means for nodes and
   relationships.  Part 4: import without dedup keys is the disjoint union. *)
From Coq Require Import List NArith ZArith Bool Lia.
From Verif Require Import SnapshotJson SnapshotJsonProofs SnapshotImportProofs.
Import ListNotations.
Open Scope N_scope.

Lemma aget_map_j2p {A B} (f : A -> B) : forall k (l : list (str * A)),
  aget k (map (fun kv => (fst kv, f (snd kv))) l) = option_map f (aget k l).
Proof.
  intros k l. induction l as [|[k' v] r IH]; cbn; [reflexivity|].
  destruct (str_eqb k k'); [reflexivity | exact IH].
Qed.

Lemma map_fst_map {A B} (f : A -> B) : forall (l : list (str * A)),
  map fst (map (fun kv => (fst kv, f (snd kv))) l) = map fst l.
Proof. induction l as [|[k v] r IH]; cbn; [reflexivity|]. now rewrite IH. Qed.

Lemma is_null_eq : forall v, is_null v = true -> v = PNull.
Proof. destruct v; cbn; congruence. Qed.

Section NodeSpecs.
Variable narrow : json -> option N.

(* the node's column tier already holds a value for k *)
Definition holds_nonnull (k : str) (n : node) : bool := negb (is_null (col_get k (n_col n))).

(* Merging record r into node n gives n': same id; labels united; per property key: a key
   the record does not carry is untouched; for a key it carries, a value the node's column
   tier already holds wins, otherwise the record's value is taken - except that a null in
   the record never replaces anything and only marks an absent key as null. *)
Definition merge_spec (r : nrec) (n n' : node) : Prop :=
  n_id n' = n_id n
  /\ (forall l, smem l (n_labels n') = smem l (n_labels n) || smem l (nr_labels r))
  /\ (forall k, aget k (merged n') =
        match aget k (nr_props r) with
        | None => aget k (merged n)
        | Some j =>
            if holds_nonnull k n then aget k (merged n)
            else if is_null (j2p narrow j) then
                   match aget k (merged n) with Some o => Some o | None => Some PNull end
                 else Some (j2p narrow j)
        end).

(* A created node: the given id, the record's label set, the record's property values. *)
Definition create_spec (r : nrec) (id : N) (n' : node) : Prop :=
  n_id n' = id
  /\ (forall l, smem l (n_labels n') = smem l (nr_labels r))
  /\ (forall k, aget k (merged n') = option_map (j2p narrow) (aget k (nr_props r))).

Definition col_ok (n : node) : Prop := NoDup (map fst (n_col n)).

Lemma merge_prop_col : forall n kv k,
  aget k (n_col (merge_prop narrow n kv)) =
  if str_eqb k (fst kv) then
    (if is_null (col_get (fst kv) (n_col n)) then Some (j2p narrow (snd kv)) else aget k (n_col n))
  else aget k (n_col n).
Proof.
  intros n [k0 j] k. unfold merge_prop. cbn [fst snd n_col].
  destruct (is_null (col_get k0 (n_col n))) eqn:E.
  - rewrite aget_aset. reflexivity.
  - destruct (str_eqb k k0); reflexivity.
Qed.

Lemma merge_prop_row : forall n kv k,
  aget k (n_row (merge_prop narrow n kv)) =
  if str_eqb k (fst kv) then
    (if is_scalar (j2p narrow (snd kv)) then aget k (n_row n)
     else match aget k (n_row n) with Some v => Some v | None => Some (j2p narrow (snd kv)) end)
  else aget k (n_row n).
Proof.
  intros n [k0 j] k. unfold merge_prop. cbn [fst snd n_row].
  destruct (is_scalar (j2p narrow j)) eqn:E.
  - destruct (str_eqb k k0); reflexivity.
  - destruct (str_eqb k k0) eqn:Ek.
    + apply str_eqb_eq in Ek. subst k0. destruct (aget k (n_row n)) eqn:Er; [exact Er|].
      rewrite aget_aset, str_eqb_refl. reflexivity.
    + destruct (aget k0 (n_row n)); [reflexivity|]. rewrite aget_aset, Ek. reflexivity.
Qed.

Lemma merge_prop_col_ok : forall n kv, col_ok n -> col_ok (merge_prop narrow n kv).
Proof.
  intros n [k0 j] H. unfold col_ok, merge_prop in *. cbn [fst snd n_col].
  destruct (is_null (col_get k0 (n_col n))); [now apply nodup_aset | exact H].
Qed.

Lemma fold_merge_col_ok : forall l n, col_ok n -> col_ok (fold_left (merge_prop narrow) l n).
Proof. induction l as [|kv r IH]; intros n H; cbn; [exact H|]. apply IH. now apply merge_prop_col_ok. Qed.

Lemma fold_merge_id : forall l n,
  n_id (fold_left (merge_prop narrow) l n) = n_id n /\ n_labels (fold_left (merge_prop narrow) l n) = n_labels n.
Proof. induction l as [|kv r IH]; intros n; cbn [fold_left]; [split; reflexivity|]. destruct (IH (merge_prop narrow n kv)) as [H1 H2]. rewrite H1, H2. split; reflexivity. Qed.

Lemma col_get_aget : forall k c1 c2, aget k c1 = aget k c2 -> col_get k c1 = col_get k c2.
Proof. intros k c1 c2 H. unfold col_get. now rewrite H. Qed.

Lemma fold_merge_col : forall l n k, NoDup (map fst l) ->
  aget k (n_col (fold_left (merge_prop narrow) l n)) =
  match aget k l with
  | Some j => if is_null (col_get k (n_col n)) then Some (j2p narrow j) else aget k (n_col n)
  | None => aget k (n_col n)
  end.
Proof.
  induction l as [|[k0 j0] r IH]; intros n k Hnd; [reflexivity|].
  cbn [fold_left aget]. inversion Hnd as [|? ? Hn Hr]; subst. rewrite IH by exact Hr.
  destruct (str_eqb k k0) eqn:E.
  - apply str_eqb_eq in E. subst k0.
    assert (Hnone : aget k r = None) by (apply aget_none_notin; exact Hn).
    rewrite Hnone, merge_prop_col. cbn [fst snd]. rewrite str_eqb_refl. reflexivity.
  - assert (Hc : aget k (n_col (merge_prop narrow n (k0, j0))) = aget k (n_col n)).
    { rewrite merge_prop_col. cbn [fst]. now rewrite E. }
    rewrite Hc, (col_get_aget k _ _ Hc). reflexivity.
Qed.

Lemma fold_merge_row : forall l n k, NoDup (map fst l) ->
  aget k (n_row (fold_left (merge_prop narrow) l n)) =
  match aget k l with
  | Some j => if is_scalar (j2p narrow j) then aget k (n_row n)
              else match aget k (n_row n) with Some v => Some v | None => Some (j2p narrow j) end
  | None => aget k (n_row n)
  end.
Proof.
  induction l as [|[k0 j0] r IH]; intros n k Hnd; [reflexivity|].
  cbn [fold_left aget]. inversion Hnd as [|? ? Hn Hr]; subst. rewrite IH by exact Hr.
  destruct (str_eqb k k0) eqn:E.
  - apply str_eqb_eq in E. subst k0.
    assert (Hnone : aget k r = None) by (apply aget_none_notin; exact Hn).
    rewrite Hnone, merge_prop_row. cbn [fst snd]. rewrite str_eqb_refl. reflexivity.
  - assert (Hc : aget k (n_row (merge_prop narrow n (k0, j0))) = aget k (n_row n)).
    { rewrite merge_prop_row. cbn [fst]. now rewrite E. }
    rewrite Hc. reflexivity.
Qed.

Lemma merged_get : forall n k, col_ok n ->
  aget k (merged n) =
  match aget k (n_col n) with
  | Some v => if is_null v then aget k (n_row n) else Some v
  | None => aget k (n_row n)
  end.
Proof. intros n k H. unfold merged. now rewrite (fold_keep_get is_null). Qed.

Lemma merge_into_id : forall r n, n_id (merge_into narrow r n) = n_id n.
Proof. intros r n. unfold merge_into. cbn [n_id]. apply fold_merge_id. Qed.

Lemma merge_into_col_ok : forall r n, col_ok n -> col_ok (merge_into narrow r n).
Proof. intros r n H. unfold merge_into, col_ok. cbn [n_col]. now apply fold_merge_col_ok. Qed.

Lemma merge_into_spec : forall r n,
  col_ok n -> NoDup (map fst (nr_props r)) -> merge_spec r n (merge_into narrow r n).
Proof.
  intros r n Hc Hr. split; [apply merge_into_id|]. split.
  - intros l. unfold merge_into. cbn [n_labels]. rewrite smem_fold_sadd.
    destruct (fold_merge_id (nr_props r) n) as [_ ->]. apply orb_comm.
  - intros k.
    assert (Hc' : col_ok (merge_into narrow r n)) by now apply merge_into_col_ok.
    rewrite (merged_get _ k Hc'), (merged_get n k Hc).
    unfold merge_into. cbn [n_col n_row].
    rewrite fold_merge_col, fold_merge_row by exact Hr.
    unfold holds_nonnull, col_get.
    destruct (aget k (nr_props r)) as [j|]; [|reflexivity].
    destruct (aget k (n_col n)) as [cv|] eqn:Ec.
    + destruct (is_null cv) eqn:En; cbn [negb].
      * destruct (is_null (j2p narrow j)) eqn:Ev.
        -- apply is_null_eq in Ev. rewrite Ev. cbn. destruct (aget k (n_row n)); reflexivity.
        -- destruct (j2p narrow j); cbn in *; try discriminate; reflexivity.
      * rewrite En. reflexivity.
    + cbn [is_null negb].
      destruct (is_null (j2p narrow j)) eqn:Ev.
      * apply is_null_eq in Ev. rewrite Ev. cbn. destruct (aget k (n_row n)); reflexivity.
      * destruct (j2p narrow j); cbn in *; try discriminate; reflexivity.
Qed.

Lemma new_node_col_ok : forall v2 id r, col_ok (new_node narrow v2 id r).
Proof.
  intros v2 id r. unfold col_ok, new_node. cbn [n_col]. destruct v2; [|constructor].
  apply (fold_keep_nodup (fun _ => false)). constructor.
Qed.

Lemma new_node_spec : forall v2 id r,
  NoDup (map fst (nr_props r)) -> create_spec r id (new_node narrow v2 id r).
Proof.
  intros v2 id r Hr. split; [destruct v2; reflexivity|]. split.
  - intros l. unfold new_node. cbn [n_labels]. rewrite smem_fold_sadd. cbn. apply orb_false_r.
  - intros k. rewrite merged_get by apply new_node_col_ok.
    unfold new_node. cbn [n_col n_row].
    set (ps := map (fun kv => (fst kv, j2p narrow (snd kv))) (nr_props r)).
    assert (HP : NoDup (map fst ps)) by (unfold ps; now rewrite map_fst_map).
    assert (Hg : aget k ps = option_map (j2p narrow) (aget k (nr_props r))) by apply aget_map_j2p.
    destruct v2.
    + rewrite (fold_keep_get (fun _ => false) ps [] k HP).
      rewrite (fold_keep_get is_scalar ps [] k HP).
      rewrite Hg. destruct (aget k (nr_props r)) as [j|]; cbn; [|reflexivity].
      destruct (j2p narrow j); reflexivity.
    + cbn [aget]. rewrite (fold_keep_get (fun _ => false) ps [] k HP). rewrite Hg.
      destruct (aget k (nr_props r)); reflexivity.
Qed.

(* tiers agree: what the row tier holds (non-null) is also what the column tier holds; then
   "the column tier holds a value" is simply "the node has a non-null value" *)
Definition tiers_agree (n : node) : Prop :=
  forall k v, aget k (n_row n) = Some v -> is_null v = false -> col_get k (n_col n) = v.

Lemma holds_nonnull_obs : forall n k, col_ok n -> tiers_agree n ->
  holds_nonnull k n = match aget k (merged n) with Some v => negb (is_null v) | None => false end.
Proof.
  intros n k Hc Ht. rewrite merged_get by exact Hc. unfold tiers_agree, holds_nonnull, col_get in *.
  destruct (aget k (n_col n)) as [cv|] eqn:Ec.
  - destruct (is_null cv) eqn:En; cbn; [|now rewrite En].
    destruct (aget k (n_row n)) as [rv|] eqn:Er; [|reflexivity].
    destruct (is_null rv) eqn:Enr; [reflexivity|].
    specialize (Ht k rv Er Enr). rewrite Ec in Ht. subst cv. congruence.
  - cbn. destruct (aget k (n_row n)) as [rv|] eqn:Er; [|reflexivity].
    destruct (is_null rv) eqn:Enr; [reflexivity|].
    specialize (Ht k rv Er Enr). rewrite Ec in Ht. subst rv. discriminate.
Qed.
End NodeSpecs.

Inductive srec := RN (r : nrec) | RE (r : erec).

Fixpoint line_recs (ls : list line) : list srec :=
  match ls with
  | [] => []
  | LNode r :: t => RN r :: line_recs t
  | LEdge r :: t => RE r :: line_recs t
  | _ :: t => line_recs t
  end.

Inductive action :=
| AMerge (r : nrec) (eid : N)       (* the node record was merged into existing node eid *)
| ACreate (r : nrec) (id : N)       (* the node record became the new node id *)
| ALink (r : erec) (a b : N).       (* the edge record became a relationship a -> b *)

Definition act_rec (a : action) : srec :=
  match a with AMerge r _ | ACreate r _ => RN r | ALink r _ _ => RE r end.

Definition created_ids (acts : list action) : list N :=
  flat_map (fun a => match a with ACreate _ id => [id] | _ => [] end) acts.
Definition count_merges (acts : list action) : nat :=
  length (filter (fun a => match a with AMerge _ _ => true | _ => false end) acts).

(* nodes, relationships, and the image of every snapshot node id seen so far (latest first) *)
Definition cfg := (list node * list edge * list (N * N))%type.

Definition wf_lines (ls : list line) : Prop :=
  Forall (fun l => match l with LNode r => NoDup (map fst (nr_props r)) | _ => True end) ls.

Section Content.
Variable narrow : json -> option N.
Variable norm : str -> str.
Variable numstr : json -> str.

Definition link_edge (r : erec) (a b : N) : edge :=
  {| e_src := a; e_tgt := b; e_ty := er_ty r;
     e_props := map (fun kv => (fst kv, j2p narrow (snd kv))) (er_props r) |}.

(* why a record is merged into eid: under one of the dedup keys it carries a string or a
   number, and the dedup index holds eid for one of the record's labels ("" if it has none),
   that key and the normalised value *)
Definition index_hit (ks : list str) (r : nrec) (eid : N) : Prop :=
  exists d key l j vs,
    In key ks /\ In l (snap_labels r) /\ aget key (nr_props r) = Some j
    /\ dval_json norm numstr j = Some vs /\ dget (l, key, vs) d = Some eid.

Inductive astep (ks : list str) : cfg -> action -> cfg -> Prop :=
| st_merge : forall ns es im r eid ns',
    index_hit ks r eid ->
    In eid (map n_id ns) ->
    Forall2 (fun a b => if N.eqb (n_id a) eid then merge_spec narrow r a b else b = a) ns ns' ->
    astep ks (ns, es, im) (AMerge r eid) (ns', es, (nr_id r, eid) :: im)
| st_create : forall ns es im r id n',
    ~ In id (map n_id ns) ->
    create_spec narrow r id n' ->
    astep ks (ns, es, im) (ACreate r id) (ns ++ [n'], es, (nr_id r, id) :: im)
| st_link : forall ns es im r a b,
    rget (er_src r) im = Some a -> rget (er_tgt r) im = Some b ->
    astep ks (ns, es, im) (ALink r a b) (ns, es ++ [link_edge r a b], im).

Inductive astar (ks : list str) : cfg -> list action -> cfg -> Prop :=
| as_nil : forall c, astar ks c [] c
| as_cons : forall c a c1 acts c2, astep ks c a c1 -> astar ks c1 acts c2 -> astar ks c (a :: acts) c2.

Definition cfg_of (x : ist) : cfg := (nodes (st x), edges (st x), remap x).

Definition dvals (d : list (dkey * N)) (S : list N) : Prop :=
  forall key id, dget key d = Some id -> In id S.

Record INV (x : ist) : Prop := {
  v_alloc : Aw (st x);
  v_ids : NoDup (map n_id (nodes (st x)));
  v_col : Forall col_ok (nodes (st x));
  v_idx : dvals (dindex x) (map n_id (nodes (st x)))
}.

Lemma dvals_put : forall k v d S, In v S -> dvals d S -> dvals (dput k v d) S.
Proof.
  intros k v d S Hv Hd key id H. unfold dput in H. cbn in H.
  destruct (dkey_eqb key k); [inversion H; now subst | eauto].
Qed.

Lemma dvals_mono : forall d S S', dvals d S -> (forall x, In x S -> In x S') -> dvals d S'.
Proof. intros d S S' H Hs key id Hk. eauto. Qed.

Definition labs_lookup (d : list (dkey * N)) (key vs : str) : list str -> option N :=
  fix labs_lookup' (ls : list str) : option N :=
  match ls with
  | [] => None
  | l :: ls' => match dget (l, key, vs) d with
                | Some id => Some id
                | None => labs_lookup' ls'
                end
  end.

Definition keys_lookup (d : list (dkey * N)) (r : nrec) : list str -> option N :=
  fix keys_lookup' (ks : list str) : option N :=
  match ks with
  | [] => None
  | key :: ks' =>
      match aget key (nr_props r) with
      | Some j =>
          match dval_json norm numstr j with
          | Some vs =>
              match labs_lookup d key vs (snap_labels r) with
              | Some id => Some id
              | None => keys_lookup' ks'
              end
          | None => keys_lookup' ks'
          end
      | None => keys_lookup' ks'
      end
  end.

Lemma dedup_lookup_eq : forall d ks r, dedup_lookup norm numstr d ks r = keys_lookup d r ks.
Proof. reflexivity. Qed.

Lemma labs_lookup_in : forall d key vs ls id,
  labs_lookup d key vs ls = Some id -> exists l, In l ls /\ dget (l, key, vs) d = Some id.
Proof.
  intros d key vs ls id. induction ls as [|l ls IH]; [discriminate|].
  change (labs_lookup d key vs (l :: ls)) with (match dget (l, key, vs) d with Some id => Some id | None => labs_lookup d key vs ls end).
  destruct (dget (l, key, vs) d) as [id'|] eqn:E.
  - intros H. inversion H; subst. exists l. split; [now left|exact E].
  - intros H. destruct (IH H) as [l' [Hl Hd]]. exists l'. split; [now right|exact Hd].
Qed.

Lemma dedup_lookup_in : forall d ks r eid,
  dedup_lookup norm numstr d ks r = Some eid ->
  exists key l j vs,
    In key ks /\ In l (snap_labels r) /\ aget key (nr_props r) = Some j
    /\ dval_json norm numstr j = Some vs /\ dget (l, key, vs) d = Some eid.
Proof.
  intros d ks r eid. rewrite dedup_lookup_eq. induction ks as [|key ks IH]; [discriminate|].
  assert (IH' : keys_lookup d r ks = Some eid ->
                exists key0 l j vs, In key0 (key :: ks) /\ In l (snap_labels r) /\ aget key0 (nr_props r) = Some j
                  /\ dval_json norm numstr j = Some vs /\ dget (l, key0, vs) d = Some eid).
  { intros H. destruct (IH H) as (k0 & l & j & vs & H1 & H2). exists k0, l, j, vs. split; [now right|exact H2]. }
  clear IH.
  change (keys_lookup d r (key :: ks)) with
    (match aget key (nr_props r) with
     | Some j => match dval_json norm numstr j with
                 | Some vs => match labs_lookup d key vs (snap_labels r) with
                              | Some id => Some id
                              | None => keys_lookup d r ks
                              end
                 | None => keys_lookup d r ks
                 end
     | None => keys_lookup d r ks
     end).
  destruct (aget key (nr_props r)) as [j|] eqn:Ej; [|exact IH'].
  destruct (dval_json norm numstr j) as [vs|] eqn:Ev; [|exact IH'].
  destruct (labs_lookup d key vs (snap_labels r)) as [id|] eqn:E; [|exact IH'].
  intros H. inversion H; subst. destruct (labs_lookup_in _ _ _ _ _ E) as [l [Hl Hd]].
  exists key, l, j, vs. repeat split; try assumption. now left.
Qed.

Lemma prepop_node_vals : forall label ks n d S,
  In (n_id n) S -> dvals d S -> dvals (prepop_node norm label ks n d) S.
Proof.
  intros label ks n d S Hn. unfold prepop_node. revert d.
  induction ks as [|key ks IH]; intros d Hd; [exact Hd|].
  cbn [fold_left]. apply IH.
  repeat match goal with
         | |- dvals (match ?x with _ => _ end) _ => destruct x
         | |- dvals (if ?x then _ else _) _ => destruct x
         | |- dvals (dput _ _ _) _ => apply dvals_put; [exact Hn|]
         end; exact Hd.
Qed.

Lemma prepop_vals : forall s labels ks, dvals (prepop norm s labels ks) (map n_id (nodes s)).
Proof.
  intros s labels ks. unfold prepop. destruct ks as [|k0 ks0]; [intros key id H; discriminate|].
  set (ks := k0 :: ks0). clearbody ks.
  assert (G : forall ls d, dvals d (map n_id (nodes s)) ->
              dvals (fold_left (fun d label =>
                fold_left (fun d n => if smem label (n_labels n) then prepop_node norm label ks n d else d)
                          (nodes s) d) ls d) (map n_id (nodes s))).
  { induction ls as [|l ls IH]; intros d Hd; [exact Hd|]. cbn [fold_left]. apply IH.
    assert (F : forall ns d, (forall n, In n ns -> In (n_id n) (map n_id (nodes s))) ->
                dvals d (map n_id (nodes s)) ->
                dvals (fold_left (fun d n => if smem l (n_labels n) then prepop_node norm l ks n d else d) ns d)
                      (map n_id (nodes s))).
    { induction ns as [|n ns IHn]; intros d0 Hin Hd0; [exact Hd0|]. cbn [fold_left]. apply IHn.
      - intros n' H'. apply Hin. now right.
      - destruct (smem l (n_labels n)); [|exact Hd0]. apply prepop_node_vals; [|exact Hd0].
        apply Hin. now left. }
    apply F; [|exact Hd]. intros n Hn. now apply in_map. }
  apply G. intros key id H. discriminate.
Qed.

Lemma register_vals : forall v2 ks r id d S,
  In id S -> dvals d S -> dvals (register narrow norm numstr v2 ks r id d) S.
Proof.
  intros v2 ks r id d S Hi. unfold register. revert d.
  induction ks as [|key ks IH]; intros d Hd; [exact Hd|].
  cbn [fold_left]. apply IH.
  destruct (aget key (nr_props r)) as [j|]; [|exact Hd].
  destruct (if v2 then dval_json norm numstr j else dval_pv norm (j2p narrow j)) as [vs|]; [|exact Hd].
  generalize (snap_labels r). intros ls. revert d Hd.
  induction ls as [|l ls IHl]; intros d Hd; [exact Hd|]. cbn [fold_left]. apply IHl.
  now apply dvals_put.
Qed.

Lemma upd_node_ids : forall eid f l, (forall n, n_id (f n) = n_id n) ->
  map n_id (upd_node eid f l) = map n_id l.
Proof.
  intros eid f l Hf. induction l as [|n r IH]; cbn; [reflexivity|].
  destruct (N.eqb (n_id n) eid); cbn; [now rewrite Hf | now rewrite IH].
Qed.

Lemma upd_node_forall : forall (P : node -> Prop) eid f l,
  (forall n, P n -> P (f n)) -> Forall P l -> Forall P (upd_node eid f l).
Proof.
  intros P eid f l Hf H. induction H as [|n r Hn Hr IH]; cbn; [constructor|].
  destruct (N.eqb (n_id n) eid); constructor; auto.
Qed.

Lemma forall2_same : forall eid r (l : list node),
  ~ In eid (map n_id l) ->
  Forall2 (fun a b => if N.eqb (n_id a) eid then merge_spec narrow r a b else b = a) l l.
Proof.
  intros eid r l. induction l as [|n t IH]; intros H; constructor.
  - destruct (N.eqb (n_id n) eid) eqn:E; [|reflexivity].
    apply N.eqb_eq in E. exfalso. apply H. cbn. now left.
  - apply IH. intros Hc. apply H. cbn. now right.
Qed.

Lemma upd_node_spec : forall eid r l,
  NoDup (map n_id l) -> Forall col_ok l -> NoDup (map fst (nr_props r)) ->
  Forall2 (fun a b => if N.eqb (n_id a) eid then merge_spec narrow r a b else b = a)
          l (upd_node eid (merge_into narrow r) l).
Proof.
  intros eid r l Hnd Hc Hr. induction l as [|n t IH]; cbn; [constructor|].
  inversion Hnd as [|? ? Hn Ht]; subst. inversion Hc as [|? ? Hcn Hct]; subst.
  destruct (N.eqb (n_id n) eid) eqn:E.
  - constructor.
    + rewrite E. now apply merge_into_spec.
    + apply forall2_same. apply N.eqb_eq in E. now rewrite <- E.
  - constructor; [now rewrite E | now apply IH].
Qed.

Lemma step_content : forall v2 ks x l x',
  INV x -> (match l with LNode r => NoDup (map fst (nr_props r)) | _ => True end) ->
  step_line narrow norm numstr v2 ks x l = Some x' ->
  INV x' /\
  match l with
  | LNode r => exists a, act_rec a = RN r /\ astep ks (cfg_of x) a (cfg_of x')
                         /\ created x' = created x ++ created_ids [a]
                         /\ merges x' = merges x + N.of_nat (count_merges [a])
  | LEdge r => exists a, act_rec a = RE r /\ astep ks (cfg_of x) a (cfg_of x')
                         /\ created x' = created x /\ merges x' = merges x
  | _ => cfg_of x' = cfg_of x /\ created x' = created x /\ merges x' = merges x
  end.
Proof.
  intros v2 ks x l x' [Ha Hid Hc Hx] Hl H. destruct l; cbn in H.
  - (* node record *)
    destruct (dedup_lookup norm numstr (dindex x) ks r) as [eid|] eqn:Ed.
    + inversion H; subst x'; clear H.
      destruct (dedup_lookup_in _ _ _ _ Ed) as (key & l0 & j0 & vs0 & K1 & K2 & K3 & K4 & Hk). pose proof (Hx _ _ Hk) as Hin.
      assert (Hids : map n_id (upd_node eid (merge_into narrow r) (nodes (st x))) = map n_id (nodes (st x))).
      { apply upd_node_ids. apply merge_into_id. }
      split.
      * constructor; cbn [st dindex with_nodes nodes free_n next_n].
        -- unfold Aw in *. cbn [with_nodes nodes free_n next_n]. now rewrite Hids.
        -- now rewrite Hids.
        -- apply upd_node_forall; [apply merge_into_col_ok | exact Hc].
        -- now rewrite Hids.
      * exists (AMerge r eid). split; [reflexivity|]. split; [|split].
        -- unfold cfg_of. cbn [st remap with_nodes nodes edges].
           apply st_merge; [exists (dindex x), key, l0, j0, vs0; repeat split; assumption | exact Hin | now apply upd_node_spec].
        -- cbn. now rewrite app_nil_r.
        -- cbn. reflexivity.
    + destruct (alloc (st x)) as [[id fr] nx] eqn:Eal. inversion H; subst x'; clear H.
      destruct (alloc_fresh (st x) id fr nx (new_node narrow v2 id r) Ha Eal) as [Hfr Ha'].
      { destruct v2; reflexivity. }
      assert (Hsub : forall y, In y (map n_id (nodes (st x))) ->
                               In y (map n_id (nodes (st x) ++ [new_node narrow v2 id r]))).
      { intros y Hy. rewrite map_app. apply in_or_app. now left. }
      assert (Hnew : In id (map n_id (nodes (st x) ++ [new_node narrow v2 id r]))).
      { rewrite map_app. apply in_or_app. right. cbn. left. destruct v2; reflexivity. }
      split.
      * constructor; cbn [st dindex add_node nodes].
        -- exact Ha'.
        -- rewrite map_app. cbn [map]. 
           assert (E : n_id (new_node narrow v2 id r) = id) by (destruct v2; reflexivity).
           rewrite E. clear - Hid Hfr.
           induction (map n_id (nodes (st x))) as [|y t IH]; cbn.
           ++ constructor; [intros []|constructor].
           ++ inversion Hid; subst. constructor.
              ** intros Hc. apply in_app_or in Hc. destruct Hc as [Hc|[Hc|[]]]; [tauto|].
                 subst. apply Hfr. now left.
              ** apply IH; [assumption|]. intros Hc. apply Hfr. now right.
        -- apply Forall_app. split; [exact Hc|]. constructor; [apply new_node_col_ok|constructor].
        -- apply register_vals; [exact Hnew|]. eapply dvals_mono; eauto.
      * exists (ACreate r id). split; [reflexivity|]. split; [|split].
        -- unfold cfg_of. cbn [st remap add_node nodes edges].
           apply st_create; [exact Hfr | now apply new_node_spec].
        -- reflexivity.
        -- cbn. lia.
  - (* edge record *)
    destruct (rget (er_src r) (remap x)) as [a|] eqn:Ea; [|discriminate].
    destruct (rget (er_tgt r) (remap x)) as [b|] eqn:Eb; [|discriminate].
    inversion H; subst x'; clear H. split.
    + constructor; cbn [st dindex add_edge nodes]; assumption.
    + exists (ALink r a b). split; [reflexivity|]. split; [|split; reflexivity].
      unfold cfg_of. cbn [st remap add_edge nodes edges]. now apply st_link.
  - inversion H; subst x'; clear H. split; [constructor; assumption|]. repeat split.
  - inversion H; subst x'. split; [constructor; assumption|]. repeat split.
  - discriminate.
Qed.

Lemma run_content : forall v2 ks ls x x',
  INV x -> wf_lines ls ->
  run_lines narrow norm numstr v2 ks x ls = (x', true) ->
  exists acts,
    map act_rec acts = line_recs ls
    /\ astar ks (cfg_of x) acts (cfg_of x')
    /\ created x' = created x ++ created_ids acts
    /\ merges x' = merges x + N.of_nat (count_merges acts).
Proof.
  intros v2 ks ls. induction ls as [|l t IH]; intros x x' HI Hw H; cbn in H.
  - inversion H; subst. exists []. repeat split; cbn; try constructor; try now rewrite app_nil_r. lia.
  - destruct (step_line narrow norm numstr v2 ks x l) as [x1|] eqn:E; [|discriminate].
    inversion Hw as [|? ? Hl Ht]; subst.
    destruct (step_content _ _ _ _ _ HI Hl E) as [HI1 Hs].
    destruct (IH x1 x' HI1 Ht H) as (acts & R1 & R2 & R3 & R4).
    destruct l.
    + destruct Hs as (a & A1 & A2 & A3 & A4). exists (a :: acts). repeat split.
      * cbn. now rewrite A1, R1.
      * econstructor; eauto.
      * rewrite R3, A3. cbn [created_ids flat_map]. rewrite app_nil_r, <- app_assoc. reflexivity.
      * rewrite R4, A4. unfold count_merges. cbn [filter]. destruct a; cbn [length]; lia.
    + destruct Hs as (a & A1 & A2 & A3 & A4). exists (a :: acts). repeat split.
      * cbn. now rewrite A1, R1.
      * econstructor; eauto.
      * rewrite R3, A3. destruct a; try discriminate. reflexivity.
      * rewrite R4, A4. destruct a; try discriminate. reflexivity.
    + destruct Hs as (S1 & S2 & S3). exists acts. rewrite <- S1, <- S2, <- S3. repeat split; assumption.
    + destruct Hs as (S1 & S2 & S3). exists acts. rewrite <- S1, <- S2, <- S3. repeat split; assumption.
    + discriminate.
Qed.

Definition wf_pre (s : store) : Prop :=
  Aw s /\ NoDup (map n_id (nodes s)) /\ Forall col_ok (nodes s).

Theorem success_actions : forall s h ls ks s' c m,
  wf_pre s -> wf_lines ls ->
  import narrow norm numstr s h ls ks = Imported s' c m ->
  exists acts im,
    map act_rec acts = line_recs ls
    /\ astar ks (nodes s, edges s, []) acts (nodes s', edges s', im)
    /\ c = nlen (created_ids acts) /\ m = N.of_nat (count_merges acts).
Proof.
  intros s h ls ks s' c m (Ha & Hid & Hc) Hw H. unfold import in H.
  destruct h as [v2 labels|]; [|discriminate].
  match type of H with context [run_lines _ _ _ v2 ks ?X ls] => set (x0 := X) in * end.
  destruct (run_lines narrow norm numstr v2 ks x0 ls) as [x ok] eqn:Er. destruct ok; [|discriminate].
  inversion H; subst s' c m; clear H.
  assert (I0 : INV x0).
  { constructor; cbn [x0 st dindex]; try assumption. apply prepop_vals. }
  destruct (run_content _ _ _ _ _ I0 Hw Er) as (acts & R1 & R2 & R3 & R4).
  destruct (add_hier_nodes_edges (hdecls x) (st x)) as [H1 H2].
  exists acts, (remap x). rewrite H1, H2. repeat split.
  - exact R1.
  - exact R2.
  - rewrite R3. reflexivity.
  - rewrite R4. cbn [x0 merges]. lia.
Qed.
End Content.

Definition links_of (narrow : json -> option N) (acts : list action) : list edge :=
  flat_map (fun a => match a with ALink r a b => [link_edge narrow r a b] | _ => [] end) acts.

(* image of snapshot node ids after the actions, latest first *)
Definition images (acts : list action) : list (N * N) :=
  rev (flat_map (fun a => match a with
                          | AMerge r e => [(nr_id r, e)]
                          | ACreate r i => [(nr_id r, i)]
                          | ALink _ _ _ => []
                          end) acts).

Definition merged_into (id : N) (acts : list action) : list nrec :=
  flat_map (fun a => match a with
                     | AMerge r e => if N.eqb e id then [r] else []
                     | _ => []
                     end) acts.

Definition creates (acts : list action) : list (nrec * N) :=
  flat_map (fun a => match a with ACreate r id => [(r, id)] | _ => [] end) acts.

Lemma forall2_in {A B} (R : A -> B -> Prop) : forall l l' a,
  Forall2 R l l' -> In a l -> exists b, In b l' /\ R a b.
Proof.
  intros l l' a H. induction H as [|x y l l' Hxy Hl IH]; intros Hin; [destruct Hin|].
  destruct Hin as [<-|Hin]; [exists y; split; [now left|exact Hxy]|].
  destruct (IH Hin) as [b [Hb Hr]]. exists b. split; [now right|exact Hr].
Qed.

Section Meaning.
Variable narrow : json -> option N.
Variable norm : str -> str.
Variable numstr : json -> str.
Notation astar := (astar narrow norm numstr).
Notation astep := (astep narrow norm numstr).

Inductive merge_chain : list nrec -> node -> node -> Prop :=
| mc_nil : forall n, merge_chain [] n n
| mc_cons : forall r rs n n1 n', merge_spec narrow r n n1 -> merge_chain rs n1 n' -> merge_chain (r :: rs) n n'.

Lemma astep_inv : forall ks ns es im a c',
  astep ks (ns, es, im) a c' ->
  match a with
  | AMerge r eid =>
      exists ns', c' = (ns', es, (nr_id r, eid) :: im)
        /\ index_hit norm numstr ks r eid
        /\ In eid (map n_id ns)
        /\ Forall2 (fun a b => if N.eqb (n_id a) eid then merge_spec narrow r a b else b = a) ns ns'
  | ACreate r id =>
      exists n', c' = (ns ++ [n'], es, (nr_id r, id) :: im)
        /\ ~ In id (map n_id ns) /\ create_spec narrow r id n'
  | ALink r a b =>
      c' = (ns, es ++ [link_edge narrow r a b], im)
      /\ rget (er_src r) im = Some a /\ rget (er_tgt r) im = Some b
  end.
Proof.
  intros ks ns es im a c' H. inversion H; subst; eauto 10.
Qed.

Lemma astar_app : forall ks a1 a2 c c',
  astar ks c (a1 ++ a2) c' -> exists c1, astar ks c a1 c1 /\ astar ks c1 a2 c'.
Proof.
  intros ks a1. induction a1 as [|a t IH]; intros a2 c c' H.
  - exists c. split; [constructor|exact H].
  - cbn in H. inversion H as [|? ? c1 ? ? Hs Hr]; subst.
    destruct (IH _ _ _ Hr) as [c2 [H1 H2]]. exists c2. split; [econstructor; eauto|exact H2].
Qed.

Lemma forall2_ids : forall eid r (l l' : list node),
  Forall2 (fun a b => if N.eqb (n_id a) eid then merge_spec narrow r a b else b = a) l l' ->
  map n_id l' = map n_id l.
Proof.
  intros eid r l l' H. induction H as [|a b l l' Hab Hl IH]; cbn; [reflexivity|].
  rewrite IH. f_equal. destruct (N.eqb (n_id a) eid); [apply Hab | now subst].
Qed.

(* relationships: the old ones, then one per edge record; images accumulate *)
Lemma astar_edges_images : forall ks ns es im acts ns' es' im',
  astar ks (ns, es, im) acts (ns', es', im') ->
  es' = es ++ links_of narrow acts /\ im' = images acts ++ im
  /\ map n_id ns' = map n_id ns ++ created_ids acts.
Proof.
  intros ks ns es im acts. revert ns es im.
  induction acts as [|a t IH]; intros ns es im ns' es' im' H; inversion H as [|? ? c1 ? ? Hs Hr]; subst.
  - cbn. rewrite !app_nil_r. repeat split.
  - apply astep_inv in Hs. destruct a as [r eid|r id|r a b].
    + destruct Hs as (ns1 & -> & _ & _ & F). destruct (IH _ _ _ _ _ _ Hr) as (E1 & E2 & E3). subst es' im'.
      split; [reflexivity|]. split.
      * unfold images. cbn [flat_map app rev]. rewrite <- app_assoc. reflexivity.
      * rewrite E3. erewrite forall2_ids by eauto. reflexivity.
    + destruct Hs as (n1 & -> & _ & (Hid & _)). destruct (IH _ _ _ _ _ _ Hr) as (E1 & E2 & E3). subst es' im'.
      split; [reflexivity|]. split.
      * unfold images. cbn [flat_map app rev]. rewrite <- app_assoc. reflexivity.
      * rewrite E3, map_app. cbn [map created_ids flat_map app]. rewrite Hid, <- app_assoc. reflexivity.
    + destruct Hs as (-> & _ & _). destruct (IH _ _ _ _ _ _ Hr) as (E1 & E2 & E3). subst es' im'.
      split; [|split; [reflexivity|exact E3]].
      cbn [links_of flat_map app]. rewrite <- app_assoc. reflexivity.
Qed.

Lemma astar_nodup : forall ks ns es im acts ns' es' im',
  astar ks (ns, es, im) acts (ns', es', im') -> NoDup (map n_id ns) -> NoDup (map n_id ns').
Proof.
  intros ks ns es im acts. revert ns es im.
  induction acts as [|a t IH]; intros ns es im ns' es' im' H Hnd; inversion H as [|? ? c1 ? ? Hs Hr]; subst; [exact Hnd|].
  apply astep_inv in Hs. destruct a as [r eid|r id|r a b].
  - destruct Hs as (ns1 & -> & _ & _ & F). eapply IH; [exact Hr|]. erewrite forall2_ids by eauto. exact Hnd.
  - destruct Hs as (n1 & -> & Hfr & (Hid & _)). eapply IH; [exact Hr|].
    rewrite map_app. cbn. rewrite Hid.
    clear - Hnd Hfr. induction (map n_id ns) as [|y l IHl]; cbn.
    + constructor; [intros []|constructor].
    + inversion Hnd; subst. constructor.
      * intros Hc. apply in_app_or in Hc. destruct Hc as [Hc|[Hc|[]]]; [tauto|]. subst. apply Hfr. now left.
      * apply IHl; [assumption|]. intros Hc. apply Hfr. now right.
  - destruct Hs as (-> & _ & _). eapply IH; [exact Hr|exact Hnd].
Qed.

(* every node present before the actions is still there, changed exactly by the records
   merged into it, in order; untouched if none was *)
Lemma astar_node_fate : forall ks ns es im acts ns' es' im',
  astar ks (ns, es, im) acts (ns', es', im') ->
  forall n, In n ns -> exists n', In n' ns' /\ merge_chain (merged_into (n_id n) acts) n n'.
Proof.
  intros ks ns es im acts. revert ns es im.
  induction acts as [|a t IH]; intros ns es im ns' es' im' H n Hin; inversion H as [|? ? c1 ? ? Hs Hr]; subst.
  - exists n. split; [exact Hin|constructor].
  - apply astep_inv in Hs. destruct a as [r eid|r id|r a b].
    + destruct Hs as (ns1 & -> & _ & _ & F).
      destruct (forall2_in _ _ _ _ F Hin) as [b [Hb Hab]].
      destruct (N.eqb (n_id n) eid) eqn:E.
      * destruct (IH _ _ _ _ _ _ Hr b Hb) as [n' [Hn' Hc]].
        assert (Eb : n_id b = n_id n) by apply Hab. rewrite Eb in Hc.
        exists n'. split; [exact Hn'|]. cbn [merged_into flat_map]. rewrite N.eqb_sym, E. cbn [app].
        econstructor; eauto.
      * subst b. destruct (IH _ _ _ _ _ _ Hr n Hb) as [n' [Hn' Hc]].
        exists n'. split; [exact Hn'|]. cbn [merged_into flat_map]. rewrite N.eqb_sym, E. exact Hc.
    + destruct Hs as (n1 & -> & _ & _).
      assert (Hin' : In n (ns ++ [n1])) by (apply in_or_app; now left).
      destruct (IH _ _ _ _ _ _ Hr n Hin') as [n' [Hn' Hc]]. exists n'. split; [exact Hn'|exact Hc].
    + destruct Hs as (-> & _ & _).
      destruct (IH _ _ _ _ _ _ Hr n Hin) as [n' [Hn' Hc]]. exists n'. split; [exact Hn'|exact Hc].
Qed.

(* a created node: the record's labels and values, then whatever later records of the same
   snapshot were merged into it *)
Lemma astar_created_fate : forall ks ns es im pre r id post ns' es' im',
  astar ks (ns, es, im) (pre ++ ACreate r id :: post) (ns', es', im') ->
  exists n0 n', create_spec narrow r id n0 /\ merge_chain (merged_into id post) n0 n' /\ In n' ns'.
Proof.
  intros ks ns es im pre r id post ns' es' im' H.
  destruct (astar_app _ _ _ _ _ H) as [[[ns1 es1] im1] [_ H2]].
  inversion H2 as [|? ? c1 ? ? Hs Hr]; subst. apply astep_inv in Hs.
  destruct Hs as (n0 & -> & _ & Hsp).
  assert (Hin : In n0 (ns1 ++ [n0])) by (apply in_or_app; right; now left).
  destruct (astar_node_fate _ _ _ _ _ _ _ _ Hr n0 Hin) as [n'' [Hn'' Hc]].
  assert (Hid : n_id n0 = id) by apply Hsp. rewrite Hid in Hc.
  exists n0, n''. split; [exact Hsp|]. split; assumption.
Qed.

(* each edge record links the images of its endpoints as they stand at that point *)
Lemma astar_link_images : forall ks ns es pre r a b post c',
  astar ks (ns, es, []) (pre ++ ALink r a b :: post) c' ->
  rget (er_src r) (images pre) = Some a /\ rget (er_tgt r) (images pre) = Some b.
Proof.
  intros ks ns es pre r a b post c' H.
  destruct (astar_app _ _ _ _ _ H) as [[[ns1 es1] im1] [H1 H2]].
  destruct (astar_edges_images _ _ _ _ _ _ _ _ H1) as (_ & Eim & _). rewrite app_nil_r in Eim. subst im1.
  inversion H2 as [|? ? c1 ? ? Hs Hr]; subst. apply astep_inv in Hs. destruct Hs as (_ & Ha & Hb). split; assumption.
Qed.

(* without dedup keys nothing is merged: the nodes are the old ones followed by one new
   node per node record *)
Lemma astar_nokeys : forall ns es im acts ns' es' im',
  astar [] (ns, es, im) acts (ns', es', im') ->
  count_merges acts = 0%nat
  /\ exists cr, ns' = ns ++ cr
                /\ Forall2 (fun p n' => create_spec narrow (fst p) (snd p) n') (creates acts) cr.
Proof.
  intros ns es im acts. revert ns es im.
  induction acts as [|a t IH]; intros ns es im ns' es' im' H; inversion H as [|? ? c1 ? ? Hs Hr]; subst.
  - split; [reflexivity|]. exists []. rewrite app_nil_r. split; [reflexivity|constructor].
  - apply astep_inv in Hs. destruct a as [r eid|r id|r a b].
    + destruct Hs as (ns1 & _ & (d & key & l & j & vs & [] & _) & _).
    + destruct Hs as (n1 & -> & _ & Hsp).
      destruct (IH _ _ _ _ _ _ Hr) as [Hm [cr [E F]]]. split; [exact Hm|].
      exists (n1 :: cr). split; [rewrite E, <- app_assoc; reflexivity|].
      cbn [creates flat_map app]. constructor; assumption.
    + destruct Hs as (-> & _ & _).
      destruct (IH _ _ _ _ _ _ Hr) as [Hm [cr [E F]]]. split; [exact Hm|]. exists cr. split; assumption.
Qed.

(* the merge rule in observable terms, for a node whose tiers agree: a non-null value the
   node has wins; otherwise the record's value is taken; a null in the record only marks an
   absent key *)
Lemma merge_spec_observable : forall r n n',
  col_ok n -> tiers_agree n -> merge_spec narrow r n n' ->
  forall k, aget k (merged n') =
    match aget k (nr_props r) with
    | None => aget k (merged n)
    | Some j =>
        match aget k (merged n) with
        | Some o => if is_null o then (if is_null (j2p narrow j) then Some o else Some (j2p narrow j)) else Some o
        | None => if is_null (j2p narrow j) then Some PNull else Some (j2p narrow j)
        end
    end.
Proof.
  intros r n n' Hc Ht (_ & _ & Hp) k. rewrite Hp.
  destruct (aget k (nr_props r)) as [j|]; [|reflexivity].
  rewrite (holds_nonnull_obs n k Hc Ht).
  destruct (aget k (merged n)) as [o|]; cbn.
  - destruct (is_null o); cbn; [|reflexivity]. destruct (is_null (j2p narrow j)); reflexivity.
  - destruct (is_null (j2p narrow j)); reflexivity.
Qed.
End Meaning.

(* import without dedup keys into any store: the disjoint union *)
Lemma disjoint_union : forall narrow norm numstr s h ls s' c m,
  wf_pre s -> wf_lines ls ->
  import narrow norm numstr s h ls [] = Imported s' c m ->
  exists acts cr,
    map act_rec acts = line_recs ls /\ m = 0
    /\ nodes s' = nodes s ++ cr
    /\ Forall2 (fun p n' => create_spec narrow (fst p) (snd p) n') (creates acts) cr
    /\ NoDup (map n_id (nodes s'))
    /\ edges s' = edges s ++ links_of narrow acts.
Proof.
  intros narrow norm numstr s h ls s' c m Hp Hw H.
  destruct (success_actions _ _ _ _ _ _ _ _ _ _ Hp Hw H) as (acts & im & R1 & R2 & R3 & R4).
  destruct (astar_nokeys _ _ _ _ _ _ _ _ _ _ R2) as [Hm [cr [E F]]].
  destruct (astar_edges_images _ _ _ _ _ _ _ _ _ _ _ R2) as (E1 & _ & _).
  exists acts, cr. repeat split; try assumption.
  - rewrite R4, Hm. reflexivity.
  - eapply astar_nodup; [exact R2|]. apply Hp.
Qed.

(* a concrete successful import with one merge, one creation and one relationship *)
Definition nv13_lines : list line :=
  [ LNode {| nr_id := 1; nr_labels := [[80]; [83]];
             nr_props := [([110;97;109;101], JStr [120]); ([101;120;116;114;97], JInt 7%Z)] |};
    LNode {| nr_id := 2; nr_labels := [[81]]; nr_props := [([110;97;109;101], JStr [121])] |};
    LEdge {| er_src := 1; er_tgt := 2; er_ty := [82]; er_props := [] |} ].

Lemma nv13_content :
  wf_pre c13_start /\ wf_lines nv13_lines
  /\ exists s', import no_narrow (fun s => s) (fun _ => []) c13_start (HOk true [[80]; [83]; [81]]) nv13_lines c13_keys
                = Imported s' 1 1.
Proof.
  split; [|split].
  - split; [|split].
    + unfold Aw, c13_start. cbn. split; [|split].
      * intros id [<-|[]]. split; [intros [] | reflexivity].
      * intros id [].
      * constructor.
    + cbn. constructor; [intros []|constructor].
    + repeat constructor; cbn; intros [].
  - unfold wf_lines, nv13_lines. repeat constructor; cbn; try (intros [H|H]; [discriminate H|exact H]); try (intros []).
  - eexists. vm_compute. reflexivity.
Qed.

