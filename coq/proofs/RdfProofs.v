(* Proofs about the RDF serialization model (Rdf.v). *)
From Coq Require Import List NArith Bool Lia ZifyBool ZifyN Arith.
From Verif Require Import CheckLib Rdf.
Import ListNotations.
Open Scope N_scope.

(* ---------- basics ---------- *)
Lemma str_eqb_eq : forall a b, str_eqb a b = true <-> a = b.
Proof. apply list_eqb_spec. intros; apply N.eqb_eq. Qed.

Lemma str_eqb_refl : forall a, str_eqb a a = true.
Proof. intros; apply str_eqb_eq; reflexivity. Qed.

Lemma subject_eqb_eq : forall a b, subject_eqb a b = true -> a = b.
Proof.
  intros [x|x] [y|y] H; cbn in H; try discriminate; apply str_eqb_eq in H; subst; reflexivity.
Qed.

Lemma strip_app : forall p r, strip p (p ++ r) = Some r.
Proof.
  induction p as [|a p IH]; intros r; cbn [strip app]; [reflexivity|].
  rewrite N.eqb_refl. apply IH.
Qed.

Lemma span_all : forall p l c rest, forallb p l = true -> p c = false ->
  span p (l ++ c :: rest) = (l, c :: rest).
Proof.
  induction l as [|x l IH]; intros c rest Hl Hc; cbn [span app].
  - rewrite Hc. reflexivity.
  - cbn [forallb] in Hl. apply andb_true_iff in Hl as [Hx Hl]. rewrite Hx, (IH _ _ Hl Hc). reflexivity.
Qed.

Lemma span_join : forall p l, fst (span p l) ++ snd (span p l) = l.
Proof.
  induction l as [|x l IH]; cbn [span]; [reflexivity|].
  destruct (p x); [|reflexivity].
  destruct (span p l) as [a b]; cbn [fst snd app] in *. rewrite IH. reflexivity.
Qed.

(* ---------- N-Triples string literal ---------- *)
Lemma unq_escape : forall s rest, unq UN (escape s ++ 34 :: rest) = Some (s, rest).
Proof.
  induction s as [|c s IH]; intros rest.
  - reflexivity.
  - cbn [escape]. unfold esc_char.
    destruct (c =? 10) eqn:E10; [apply N.eqb_eq in E10; subst c; cbn; rewrite IH; reflexivity|].
    destruct (c =? 13) eqn:E13; [apply N.eqb_eq in E13; subst c; cbn; rewrite IH; reflexivity|].
    destruct (c =? 34) eqn:E34; [apply N.eqb_eq in E34; subst c; cbn; rewrite IH; reflexivity|].
    destruct (c =? 92) eqn:E92; [apply N.eqb_eq in E92; subst c; cbn; rewrite IH; reflexivity|].
    cbn [app unq]. rewrite E34, E92, E10, E13. cbn [orb]. rewrite IH. reflexivity.
Qed.

(* ---------- IRIREF ---------- *)
Lemma iri_char_facts : forall c, iri_char_ok c = true ->
  (c =? 62) = false /\ (c =? 92) = false /\ (c =? 10) = false /\ (c =? 13) = false /\ (c =? 32) = false.
Proof. intros c H. unfold iri_char_ok in H. lia. Qed.

Lemma uniri_enc : forall i rest, iri_ok i = true -> uniri UN (i ++ 62 :: rest) = Some (i, rest).
Proof.
  induction i as [|c i IH]; intros rest H.
  - reflexivity.
  - cbn [iri_ok forallb] in H. apply andb_true_iff in H as [Hc Hi].
    destruct (iri_char_facts c Hc) as (A & B & C & D & _).
    cbn [app uniri]. rewrite A, B, C, D. cbn [orb]. rewrite (IH rest Hi). reflexivity.
Qed.

Lemma dec_iri_enc : forall i rest, iri_ok i = true -> dec_iri (i ++ 62 :: rest) = Some (i, rest).
Proof. intros i rest H. unfold dec_iri. rewrite (uniri_enc i rest H), H. reflexivity. Qed.

(* ---------- blank-node labels ---------- *)
Fixpoint tail_ok (s : str) : bool :=
  match s with
  | [] => true
  | c :: r =>
      if c =? 46 then (match r with c' :: _ => pn_chars c' | [] => false end) && tail_ok r
      else pn_chars c && tail_ok r
  end.
Definition readable (b : str) : bool :=
  match b with [] => false | c :: r => (pn_u c || digit c) && tail_ok r end.

Lemma dot_next_of_pn : forall c, pn_chars c = true -> dot_next_ok c = true.
Proof. intros c H. unfold dot_next_ok. rewrite H. lia. Qed.

Lemma label_tail_enc : forall l rest, tail_ok l = true ->
  label_tail (l ++ 32 :: rest) = (l, 32 :: rest).
Proof.
  induction l as [|c l IH]; intros rest H.
  - reflexivity.
  - cbn [tail_ok] in H. cbn [app label_tail].
    destruct (c =? 46) eqn:E.
    + apply andb_true_iff in H as [H1 H2].
      destruct l as [|c' l']; [discriminate|].
      cbn [app]. rewrite (dot_next_of_pn c' H1).
      change (c' :: l' ++ 32 :: rest) with ((c' :: l') ++ 32 :: rest).
      rewrite (IH rest H2). reflexivity.
    + apply andb_true_iff in H as [H1 H2]. rewrite H1, (IH rest H2). reflexivity.
Qed.

Lemma dec_label_enc : forall b rest, readable b = true ->
  dec_label (b ++ 32 :: rest) = Some (b, 32 :: rest).
Proof.
  intros [|c r] rest H; [discriminate|].
  cbn [readable] in H. apply andb_true_iff in H as [H1 H2].
  cbn [app dec_label]. rewrite H1, (label_tail_enc r rest H2). reflexivity.
Qed.

Lemma last_is_dot_cons2 : forall a b r, last_is_dot (a :: b :: r) = last_is_dot (b :: r).
Proof. reflexivity. Qed.

Lemma tail_ok_of_bnode : forall r prev,
  forallb bn_cont r = true -> existsb (N.eqb 58) r = false ->
  has_dotdot (prev :: r) = false -> last_is_dot (prev :: r) = false ->
  tail_ok r = true.
Proof.
  induction r as [|c r IH]; intros prev Hc Hcol Hdd Hlast; [reflexivity|].
  cbn [forallb] in Hc. apply andb_true_iff in Hc as [Hc1 Hc2].
  cbn [existsb] in Hcol. apply orb_false_iff in Hcol as [Hcol1 Hcol2].
  rewrite last_is_dot_cons2 in Hlast.
  cbn [has_dotdot] in Hdd. apply orb_false_iff in Hdd as [_ Hdd].
  cbn [tail_ok]. rewrite (IH c Hc2 Hcol2 Hdd Hlast), !andb_true_r.
  destruct (c =? 46) eqn:E.
  - destruct r as [|c' r']; [cbn in Hlast; congruence|].
    cbn [forallb] in Hc2. apply andb_true_iff in Hc2 as [Hc' _].
    cbn [existsb] in Hcol2. apply orb_false_iff in Hcol2 as [Hcol' _].
    cbn [has_dotdot] in Hdd. apply orb_false_iff in Hdd as [Hdd' _].
    cbn [andb] in Hdd'.
    unfold bn_cont in Hc'. rewrite N.eqb_sym in Hcol'. rewrite Hcol', Hdd' in Hc'.
    rewrite ?orb_false_r in Hc'. exact Hc'.
  - unfold bn_cont in Hc1. rewrite N.eqb_sym in Hcol1. rewrite Hcol1, E in Hc1.
    rewrite ?orb_false_r in Hc1. exact Hc1.
Qed.

Lemma readable_of_bnode : forall b,
  bnode_ok b = true -> label_unreadable b = false -> readable b = true.
Proof.
  intros [|c r] H U; [discriminate|].
  unfold bnode_ok in H. apply andb_true_iff in H as [H Hlast]. apply andb_true_iff in H as [Hs Hc].
  apply negb_true_iff in Hlast.
  unfold label_unreadable in U. apply orb_false_iff in U as [Ucol Udd].
  cbn [existsb] in Ucol. apply orb_false_iff in Ucol as [Ucol1 Ucol2].
  cbn [readable]. rewrite (tail_ok_of_bnode r c Hc Ucol2 Udd Hlast), andb_true_r.
  unfold bn_start in Hs. rewrite N.eqb_sym in Ucol1. rewrite Ucol1, orb_false_r in Hs. exact Hs.
Qed.

(* ---------- language tags ---------- *)
Lemma lang_subtags_chars : forall l first cur, lang_subtags first cur l = true -> forallb lang_char l = true.
Proof.
  induction l as [|c l IH]; intros first cur H; [reflexivity|].
  cbn [lang_subtags] in H. cbn [forallb]. unfold lang_char at 1.
  destruct (c =? 45) eqn:E.
  - apply andb_true_iff in H as [_ H]. rewrite (IH _ _ H). rewrite orb_true_r. reflexivity.
  - apply andb_true_iff in H as [H1 H]. rewrite (IH _ _ H), andb_true_r.
    destruct first; [rewrite H1; reflexivity|].
    rewrite orb_false_r. exact H1.
Qed.

Lemma map_lower_id : forall l, forallb (fun c => negb (inr 65 90 c)) l = true -> map lower l = l.
Proof.
  induction l as [|c l IH]; intros H; [reflexivity|].
  cbn [forallb] in H. apply andb_true_iff in H as [H1 H2].
  cbn [map]. rewrite (IH H2). unfold lower. apply negb_true_iff in H1. rewrite H1. reflexivity.
Qed.

(* ---------- terms at the rio level ---------- *)
Definition wf_rsubject (s : subject) : bool :=
  match s with SIri i => iri_ok i | SBlank b => readable b end.
Definition wf_object (o : object) : bool :=
  match o with
  | OIri i => iri_ok i
  | OBlank b => readable b
  | OLit (LSimple _) => true
  | OLit (LLang _ l) => lang_ok l
  | OLit (LTyped _ dt) => iri_ok dt
  end.
Definition wf_rio (t : rio_triple) : bool :=
  let '(s, p, o) := t in wf_rsubject s && iri_ok p && wf_object o.

Lemma dec_subject_enc : forall s rest, wf_rsubject s = true ->
  dec_subject (enc_subject s ++ 32 :: rest) = Some (s, 32 :: rest).
Proof.
  intros [i|b] rest H; cbn [wf_rsubject] in H; cbn [enc_subject].
  - unfold enc_iri. cbn [app dec_subject]. rewrite <- app_assoc. cbn [app].
    rewrite (dec_iri_enc i _ H). reflexivity.
  - unfold enc_bnode. cbn [app dec_subject]. rewrite (dec_label_enc b rest H). reflexivity.
Qed.

Lemma dec_pred_enc : forall p rest, iri_ok p = true ->
  dec_pred (enc_iri p ++ rest) = Some (p, rest).
Proof.
  intros p rest H. unfold enc_iri. cbn [app dec_pred]. rewrite <- app_assoc. cbn [app].
  apply dec_iri_enc, H.
Qed.

Lemma lang_char_32 : lang_char 32 = false. Proof. reflexivity. Qed.

Lemma dec_object_enc : forall o rest, wf_object o = true ->
  dec_object (enc_object o ++ 32 :: rest) = Some (o, 32 :: rest).
Proof.
  intros [i|b|[v|v l|v dt]] rest H; cbn [wf_object] in H; cbn [enc_object enc_lit].
  - unfold enc_iri. cbn [app dec_object]. rewrite <- app_assoc. cbn [app].
    rewrite (dec_iri_enc i _ H). reflexivity.
  - unfold enc_bnode. cbn [app dec_object]. rewrite (dec_label_enc b rest H). reflexivity.
  - cbn [app dec_object]. rewrite <- app_assoc. cbn [app]. rewrite unq_escape. reflexivity.
  - cbn [app dec_object]. rewrite <- app_assoc. cbn [app]. rewrite unq_escape.
    unfold lang_ok in H. apply andb_true_iff in H as [H1 H2].
    rewrite (span_all lang_char l 32 rest (lang_subtags_chars _ _ _ H1) lang_char_32).
    rewrite H1, (map_lower_id l H2). reflexivity.
  - cbn [app dec_object]. rewrite <- app_assoc. cbn [app]. rewrite unq_escape.
    unfold enc_iri. cbn [app]. rewrite <- app_assoc. cbn [app].
    rewrite (dec_iri_enc dt _ H). reflexivity.
Qed.

Lemma dec_spo_enc : forall t rest, wf_rio t = true ->
  dec_spo (enc_spo t ++ 32 :: rest) = Some (t, 32 :: rest).
Proof.
  intros [[s p] o] rest H. cbn [wf_rio] in H.
  apply andb_true_iff in H as [H Ho]. apply andb_true_iff in H as [Hs Hp].
  unfold dec_spo, enc_spo.
  rewrite <- app_assoc. cbn [app]. rewrite (dec_subject_enc s _ Hs).
  rewrite <- app_assoc. cbn [app]. rewrite (dec_pred_enc p _ Hp).
  rewrite (dec_object_enc o rest Ho). reflexivity.
Qed.

(* ---------- N-Triples document ---------- *)
Lemma strip_comma_semi : forall r, strip TTL_COMMA (32 :: 59 :: r) = None. Proof. reflexivity. Qed.
Lemma strip_comma_end : forall r, strip TTL_COMMA (32 :: 46 :: r) = None. Proof. reflexivity. Qed.
Lemma strip_semi_end : forall r, strip TTL_SEMI (32 :: 46 :: r) = None. Proof. reflexivity. Qed.
Lemma strip_semi : forall r, strip TTL_SEMI (32 :: 59 :: 10 :: 9 :: r) = Some r. Proof. reflexivity. Qed.
Lemma strip_end : forall r, strip NT_END (32 :: 46 :: 10 :: r) = Some r. Proof. reflexivity. Qed.

Lemma dec_nt_enc : forall ts, forallb wf_rio ts = true ->
  forall fuel, (length (enc_nt ts) <= fuel)%nat -> dec_nt fuel (enc_nt ts) = Some ts.
Proof.
  induction ts as [|t ts IH]; intros Hwf fuel Hf.
  - destruct fuel; reflexivity.
  - cbn [forallb] in Hwf. apply andb_true_iff in Hwf as [Ht Hts].
    cbn [enc_nt] in *. unfold NT_END in *. cbn [app] in *.
    rewrite app_length in Hf. cbn [length] in Hf.
    destruct fuel as [|f]; [lia|].
    cbn [dec_nt]. rewrite (dec_spo_enc t _ Ht). rewrite strip_end. rewrite (IH Hts f); [reflexivity|lia].
Qed.

(* ---------- Turtle document ---------- *)
Lemma enc_ttl_rest_head : forall ts cs cp, exists x, enc_ttl_rest cs cp ts = 32 :: x.
Proof.
  intros [|[[s p] o] r] cs cp; cbn [enc_ttl_rest].
  - eexists; reflexivity.
  - destruct (subject_eqb cs s); [destruct (str_eqb cp p)|]; eexists; reflexivity.
Qed.

Lemma dec_ttl_rest_enc : forall ts, forallb wf_rio ts = true ->
  forall cs cp fuel, (length (enc_ttl_rest cs cp ts) <= fuel)%nat ->
  dec_ttl_rest fuel cs cp (enc_ttl_rest cs cp ts) = Some ts.
Proof.
  induction ts as [|[[s p] o] ts IH]; intros Hwf cs cp fuel Hf.
  - cbn [enc_ttl_rest] in *. destruct fuel as [|f]; [cbn in Hf; lia|].
    unfold NT_END. cbn [dec_ttl_rest]. rewrite strip_comma_end, strip_semi_end, strip_end. reflexivity.
  - cbn [forallb] in Hwf. apply andb_true_iff in Hwf as [Ht Hts].
    pose proof Ht as Ht'. cbn [wf_rio] in Ht'.
    apply andb_true_iff in Ht' as [Ht' Ho]. apply andb_true_iff in Ht' as [Hs Hp].
    cbn [enc_ttl_rest] in *.
    destruct (enc_ttl_rest_head ts s p) as [x Hx].
    specialize (IH Hts s p).
    destruct fuel as [|f].
    { exfalso. rewrite app_length in Hf. rewrite Hx in Hf. cbn [length] in Hf. lia. }
    destruct (subject_eqb cs s) eqn:Es; [destruct (str_eqb cp p) eqn:Ep|].
    + apply subject_eqb_eq in Es. apply str_eqb_eq in Ep. subst cs cp.
      rewrite <- app_assoc in *. cbn [dec_ttl_rest]. rewrite strip_app.
      rewrite Hx in *. rewrite (dec_object_enc o x Ho).
      rewrite (IH f); [reflexivity|].
      rewrite !app_length in Hf. unfold TTL_COMMA in Hf. cbn [length] in Hf. cbn [length]. lia.
    + apply subject_eqb_eq in Es. subst cs.
      unfold TTL_SEMI in *. cbn [app] in *. cbn [dec_ttl_rest].
      rewrite strip_comma_semi, strip_semi.
      rewrite <- app_assoc. cbn [app]. rewrite (dec_pred_enc p _ Hp).
      rewrite Hx in *. rewrite (dec_object_enc o x Ho).
      rewrite (IH f); [reflexivity|].
      cbn [length] in Hf. rewrite !app_length in Hf. cbn [length] in Hf.
      cbn [length]. lia.
    + unfold NT_END in *. cbn [app] in *. cbn [dec_ttl_rest].
      rewrite strip_comma_end, strip_semi_end, strip_end.
      rewrite Hx in *. rewrite (dec_spo_enc (s, p, o) x Ht).
      rewrite (IH f); [reflexivity|].
      cbn [length] in Hf. rewrite !app_length in Hf. cbn [length] in Hf. cbn [length]. lia.
Qed.

Lemma dec_ttl_enc : forall ts, forallb wf_rio ts = true -> dec_ttl (enc_ttl ts) = Some ts.
Proof.
  intros [|[[s p] o] ts] Hwf; [reflexivity|].
  cbn [forallb] in Hwf. apply andb_true_iff in Hwf as [Ht Hts].
  unfold dec_ttl. cbn [enc_ttl].
  destruct (enc_ttl_rest_head ts s p) as [x Hx].
  pose proof (dec_ttl_rest_enc ts Hts s p) as R. rewrite Hx in *.
  rewrite (dec_spo_enc (s, p, o) x Ht).
  rewrite R; [reflexivity|]. rewrite app_length. lia.
Qed.

(* ---------- adapter ---------- *)
Lemma adapter_lit_rt : forall l, wf_rlit l = true -> from_rio_lit (to_rio_lit l) = Some l.
Proof.
  intros [v|v l|v dt] H; cbn [wf_rlit] in H; cbn [to_rio_lit].
  - reflexivity.
  - unfold lang_ok in H. apply andb_true_iff in H as [H1 H2].
    cbn [from_rio_lit]. rewrite H1, (map_lower_id l H2). reflexivity.
  - apply andb_true_iff in H as [H1 H2]. apply negb_true_iff in H2.
    rewrite H2. cbn [from_rio_lit]. rewrite H1. unfold mk_typed. rewrite H2. reflexivity.
Qed.

Lemma adapter_rt : forall t, wf_triple t = true -> from_rio (to_rio t) = Some t.
Proof.
  intros [[s p] o] H. cbn [wf_triple] in H.
  apply andb_true_iff in H as [H Ho]. apply andb_true_iff in H as [Hs Hp].
  cbn [to_rio from_rio]. rewrite Hp.
  assert (Es : from_rio_subject s = Some s).
  { destruct s as [i|b]; cbn [wf_subject] in Hs; cbn [from_rio_subject]; rewrite Hs; reflexivity. }
  assert (Eo : from_rio_obj (to_rio_obj o) = Some o).
  { destruct o as [i|b|l]; cbn [wf_robject] in Ho; cbn [to_rio_obj from_rio_obj].
    - rewrite Ho; reflexivity.
    - rewrite Ho; reflexivity.
    - rewrite (adapter_lit_rt l Ho); reflexivity. }
  rewrite Es, Eo. reflexivity.
Qed.

Lemma adapter_collapse : forall v,
  from_rio_lit (LTyped v XSD_STRING) = Some (RString v) /\ to_rio_lit (RString v) = LSimple v.
Proof.
  intros v. split; [|reflexivity].
  cbn [from_rio_lit]. replace (iri_ok XSD_STRING) with true by (vm_compute; reflexivity).
  unfold mk_typed. rewrite str_eqb_refl. reflexivity.
Qed.

Lemma map_opt_adapter : forall ts, forallb wf_triple ts = true ->
  map_opt from_rio (map to_rio ts) = Some ts.
Proof.
  induction ts as [|t ts IH]; intros H; [reflexivity|].
  cbn [forallb] in H. apply andb_true_iff in H as [Ht Hts].
  cbn [map map_opt]. rewrite (adapter_rt t Ht), (IH Hts). reflexivity.
Qed.

Lemma wf_rio_of_triple : forall t, wf_triple t = true -> known_label t = false -> wf_rio (to_rio t) = true.
Proof.
  intros [[s p] o] H K. cbn [wf_triple] in H.
  apply andb_true_iff in H as [H Ho]. apply andb_true_iff in H as [Hs Hp].
  cbn [known_label] in K. apply orb_false_iff in K as [Ks Ko].
  cbn [to_rio wf_rio]. rewrite Hp, andb_true_r. apply andb_true_iff. split.
  - destruct s as [i|b]; cbn [wf_subject wf_rsubject] in *; [exact Hs|].
    apply readable_of_bnode; assumption.
  - destruct o as [i|b|[v|v l|v dt]]; cbn [wf_robject wf_rlit to_rio_obj to_rio_lit wf_object] in *;
      try assumption; try reflexivity.
    + apply readable_of_bnode; assumption.
    + apply andb_true_iff in Ho as [H1 H2]. apply negb_true_iff in H2. rewrite H2. exact H1.
Qed.

Lemma wf_rio_all : forall ts, forallb wf_triple ts = true -> existsb known_label ts = false ->
  forallb wf_rio (map to_rio ts) = true.
Proof.
  induction ts as [|t ts IH]; intros H K; [reflexivity|].
  cbn [forallb] in H. apply andb_true_iff in H as [Ht Hts].
  cbn [existsb] in K. apply orb_false_iff in K as [Kt Kts].
  cbn [map forallb]. rewrite (wf_rio_of_triple t Ht Kt), (IH Hts Kts). reflexivity.
Qed.

Theorem nt_roundtrip : forall ts,
  forallb wf_triple ts = true -> existsb known_label ts = false ->
  parse_nt (ser_nt ts) = Some ts.
Proof.
  intros ts H K. unfold parse_nt, ser_nt.
  rewrite (dec_nt_enc _ (wf_rio_all ts H K) _ (le_n _)). apply map_opt_adapter, H.
Qed.

Theorem ttl_roundtrip : forall ts,
  forallb wf_triple ts = true -> existsb known_label ts = false ->
  parse_ttl (ser_ttl ts) = Some ts.
Proof.
  intros ts H K. unfold parse_ttl, ser_ttl.
  rewrite (dec_ttl_enc _ (wf_rio_all ts H K)). apply map_opt_adapter, H.
Qed.

(* ---------- RDF/XML: escaping and split_iri ---------- *)
Lemma xml_escape_len : forall s, (length s <= length (xml_escape s))%nat.
Proof.
  induction s as [|c s IH]; [apply le_n|].
  cbn [xml_escape]. rewrite app_length. unfold xesc_char.
  destruct (c =? 60); [cbn [length]; lia|].
  destruct (c =? 62); [cbn [length]; lia|].
  destruct (c =? 38); [cbn [length]; lia|].
  destruct (c =? 39); [cbn [length]; lia|].
  destruct (c =? 34); cbn [length]; lia.
Qed.

Lemma xml_unescape_escape_f : forall s fuel, (length (xml_escape s) <= fuel)%nat ->
  xml_unescape_f fuel (xml_escape s) = Some s.
Proof.
  induction s as [|c s IH]; intros fuel Hf.
  - destruct fuel; reflexivity.
  - cbn [xml_escape] in *. rewrite app_length in Hf. unfold xesc_char in *.
    destruct (c =? 60) eqn:E60.
    { apply N.eqb_eq in E60; subst c. cbn [length app] in *. destruct fuel as [|f]; [lia|].
      cbn [xml_unescape_f]. change (38 =? 38) with true. cbv iota.
      change (xml_entity (108 :: 116 :: 59 :: xml_escape s)) with (Some (60, xml_escape s)). cbv beta iota.
      rewrite (IH f); [reflexivity|lia]. }
    destruct (c =? 62) eqn:E62.
    { apply N.eqb_eq in E62; subst c. cbn [length app] in *. destruct fuel as [|f]; [lia|].
      cbn [xml_unescape_f]. change (38 =? 38) with true. cbv iota.
      change (xml_entity (103 :: 116 :: 59 :: xml_escape s)) with (Some (62, xml_escape s)). cbv beta iota.
      rewrite (IH f); [reflexivity|lia]. }
    destruct (c =? 38) eqn:E38.
    { apply N.eqb_eq in E38; subst c. cbn [length app] in *. destruct fuel as [|f]; [lia|].
      cbn [xml_unescape_f]. change (38 =? 38) with true. cbv iota.
      change (xml_entity (97 :: 109 :: 112 :: 59 :: xml_escape s)) with (Some (38, xml_escape s)). cbv beta iota.
      rewrite (IH f); [reflexivity|lia]. }
    destruct (c =? 39) eqn:E39.
    { apply N.eqb_eq in E39; subst c. cbn [length app] in *. destruct fuel as [|f]; [lia|].
      cbn [xml_unescape_f]. change (38 =? 38) with true. cbv iota.
      change (xml_entity (97 :: 112 :: 111 :: 115 :: 59 :: xml_escape s)) with (Some (39, xml_escape s)). cbv beta iota.
      rewrite (IH f); [reflexivity|lia]. }
    destruct (c =? 34) eqn:E34.
    { apply N.eqb_eq in E34; subst c. cbn [length app] in *. destruct fuel as [|f]; [lia|].
      cbn [xml_unescape_f]. change (38 =? 38) with true. cbv iota.
      change (xml_entity (113 :: 117 :: 111 :: 116 :: 59 :: xml_escape s)) with (Some (34, xml_escape s)). cbv beta iota.
      rewrite (IH f); [reflexivity|lia]. }
    cbn [length app] in *. destruct fuel as [|f]; [lia|].
    cbn [xml_unescape_f]. rewrite E38, E60. rewrite (IH f); [reflexivity|lia].
Qed.

Theorem xml_escape_roundtrip : forall s, xml_unescape (xml_escape s) = Some s.
Proof. intros s. apply xml_unescape_escape_f, le_n. Qed.

(* the escaped text contains no markup character *)
Lemma xml_escape_clean : forall s, existsb (fun c => (c =? 60) || (c =? 34)) (xml_escape s) = false.
Proof.
  induction s as [|c s IH]; [reflexivity|].
  cbn [xml_escape]. rewrite existsb_app, IH, orb_false_r. unfold xesc_char.
  destruct (c =? 60) eqn:E60; [reflexivity|].
  destruct (c =? 62); [reflexivity|].
  destruct (c =? 38); [reflexivity|].
  destruct (c =? 39); [reflexivity|].
  destruct (c =? 34) eqn:E34; [reflexivity|].
  cbn [existsb]. rewrite E60, E34. reflexivity.
Qed.

Lemma span_forall_fst : forall p l, forallb p (fst (span p l)) = true.
Proof.
  induction l as [|x l IH]; cbn [span]; [reflexivity|].
  destruct (p x) eqn:E; [|reflexivity].
  destruct (span p l) as [a b]. cbn [fst forallb] in *. rewrite E, IH. reflexivity.
Qed.

Lemma span_snd_head : forall p l, match snd (span p l) with [] => True | c :: _ => p c = false end.
Proof.
  induction l as [|x l IH]; cbn [span]; [exact I|].
  destruct (p x) eqn:E; [|cbn [snd]; exact E].
  destruct (span p l) as [a b]. exact IH.
Qed.

(* split_iri cuts the IRI in two, and a non-empty local name is an XML NCName *)
Theorem split_iri_spec : forall i,
  fst (split_iri i) ++ snd (split_iri i) = i /\
  (snd (split_iri i) = [] \/ ncname (snd (split_iri i)) = true).
Proof.
  intros i. unfold split_iri.
  pose proof (span_join local_char (rev i)) as J1.
  pose proof (span_forall_fst local_char (rev i)) as F1.
  destruct (span local_char (rev i)) as [sr pr]. cbn [fst snd] in J1, F1.
  destruct pr as [|d pr]; [cbn [fst snd]; split; [apply app_nil_r|left; reflexivity]|].
  pose proof (span_join (fun c => negb (local_start c)) (rev sr)) as J2.
  pose proof (span_snd_head (fun c => negb (local_start c)) (rev sr)) as H2.
  destruct (span (fun c => negb (local_start c)) (rev sr)) as [sk loc]. cbn [fst snd] in J2, H2.
  destruct loc as [|c loc]; [cbn [fst snd]; split; [apply app_nil_r|left; reflexivity]|].
  cbn [fst snd]. split.
  - rewrite <- app_assoc, J2, <- rev_app_distr, J1. apply rev_involutive.
  - right.
    assert (Hall : forallb local_char (c :: loc) = true).
    { assert (A : forallb local_char (rev sr) = true).
      { rewrite forallb_forall in *. intros x Hx. apply F1. apply in_rev. exact Hx. }
      rewrite <- J2 in A. rewrite forallb_app in A. apply andb_true_iff in A as [_ A]. exact A. }
    apply negb_false_iff in H2. unfold local_start in H2. apply andb_true_iff in H2 as [Hs Hn].
    cbn [forallb] in Hall. apply andb_true_iff in Hall as [Hc Hl].
    unfold ncname. rewrite Hs. cbn [andb].
    assert (B : forall l, forallb local_char l = true ->
                forallb name_char l = true /\ existsb (N.eqb 58) l = false).
    { induction l as [|x l IHl]; intros Hx; [split; reflexivity|].
      cbn [forallb] in Hx. apply andb_true_iff in Hx as [Hx1 Hx2].
      destruct (IHl Hx2) as [B1 B2]. unfold local_char in Hx1. apply andb_true_iff in Hx1 as [Hx1 Hx3].
      cbn [forallb existsb]. rewrite Hx1, B1, B2. apply negb_true_iff in Hx3.
      rewrite N.eqb_sym, Hx3. split; reflexivity. }
    destruct (B loc Hl) as [B1 B2]. rewrite B1. cbn [existsb]. rewrite B2.
    apply negb_true_iff in Hn. rewrite N.eqb_sym, Hn. reflexivity.
Qed.

(* ---------- the known class is real: a label rio cannot read back ---------- *)
Definition label_witness : list triple :=
  [(SBlank [97; 58; 98], [104; 116; 116; 112; 58; 47; 47; 101; 47; 112], ROBlank [99; 46; 46; 100])].

Lemma label_refuted :
  forallb wf_triple label_witness = true /\ existsb known_label label_witness = true /\
  parse_nt (ser_nt label_witness) <> Some label_witness /\
  parse_ttl (ser_ttl label_witness) <> Some label_witness.
Proof. vm_compute. repeat split; discriminate. Qed.

(* ---------- RDF/XML document ---------- *)
Lemma esc_no34 : forall v, forallb (fun c => negb (c =? 34)) (xml_escape v) = true.
Proof.
  induction v as [|c v IH]; [reflexivity|].
  cbn [xml_escape]. rewrite forallb_app, IH, andb_true_r. unfold xesc_char.
  destruct (c =? 60); [reflexivity|]. destruct (c =? 62); [reflexivity|].
  destruct (c =? 38); [reflexivity|]. destruct (c =? 39); [reflexivity|].
  destruct (c =? 34) eqn:E; [reflexivity|]. cbn [forallb]. rewrite E. reflexivity.
Qed.

Lemma esc_no60 : forall v, forallb (fun c => negb (c =? 60)) (xml_escape v) = true.
Proof.
  induction v as [|c v IH]; [reflexivity|].
  cbn [xml_escape]. rewrite forallb_app, IH, andb_true_r. unfold xesc_char.
  destruct (c =? 60) eqn:E; [reflexivity|]. destruct (c =? 62); [reflexivity|].
  destruct (c =? 38); [reflexivity|]. destruct (c =? 39); [reflexivity|].
  destruct (c =? 34); [reflexivity|]. cbn [forallb]. rewrite E. reflexivity.
Qed.

Lemma esc_ws : forall v, forallb is_ws (xml_escape v) = forallb is_ws v.
Proof.
  induction v as [|c v IH]; [reflexivity|].
  cbn [xml_escape forallb]. rewrite forallb_app, IH. f_equal. unfold xesc_char.
  destruct (c =? 60) eqn:E1; [apply N.eqb_eq in E1; subst; reflexivity|].
  destruct (c =? 62) eqn:E2; [apply N.eqb_eq in E2; subst; reflexivity|].
  destruct (c =? 38) eqn:E3; [apply N.eqb_eq in E3; subst; reflexivity|].
  destruct (c =? 39) eqn:E4; [apply N.eqb_eq in E4; subst; reflexivity|].
  destruct (c =? 34) eqn:E5; [apply N.eqb_eq in E5; subst; reflexivity|].
  cbn [forallb]. apply andb_true_r.
Qed.

Lemma read_attr_enc : forall v rest, read_attr (xml_escape v ++ 34 :: rest) = Some (v, rest).
Proof.
  intros v rest. unfold read_attr.
  rewrite (span_all (fun c => negb (c =? 34)) (xml_escape v) 34 rest (esc_no34 v) eq_refl).
  rewrite xml_escape_roundtrip. reflexivity.
Qed.

Lemma read_text_enc : forall v rest, ws_only v = false ->
  read_text (xml_escape v ++ 60 :: rest) = Some (v, 60 :: rest).
Proof.
  intros v rest W. unfold read_text.
  rewrite (span_all (fun c => negb (c =? 60)) (xml_escape v) 60 rest (esc_no60 v) eq_refl).
  rewrite xml_escape_roundtrip.
  destruct (xml_escape v) as [|a x] eqn:E; [reflexivity|].
  rewrite <- E, esc_ws.
  destruct v as [|c v]; [discriminate|].
  unfold ws_only in W. cbn [negb andb] in W. rewrite W. reflexivity.
Qed.

Lemma xml_body_enc : forall qn v rest, ws_only v = false ->
  xml_body qn (62 :: xml_escape v ++ (60 :: 47 :: qn ++ [62]) ++ rest) = Some (v, rest).
Proof.
  intros qn v rest W. cbn [xml_body].
  change ((60 :: 47 :: qn ++ [62]) ++ rest) with (60 :: (47 :: qn ++ [62]) ++ rest).
  rewrite (read_text_enc v _ W).
  change (60 :: (47 :: qn ++ [62]) ++ rest) with ((60 :: 47 :: qn ++ [62]) ++ rest).
  rewrite strip_app. reflexivity.
Qed.

Definition wf_xsubject (s : subject) : bool :=
  match s with SIri i => iri_ok i | SBlank b => ncname b end.
Definition wf_xobject (o : object) : bool :=
  match o with
  | OIri i => iri_ok i
  | OBlank b => ncname b
  | OLit (LSimple v) => negb (ws_only v)
  | OLit (LLang v l) => lang_ok l && negb (ws_only v)
  | OLit (LTyped v dt) => iri_ok dt && negb (ws_only v)
  end.
Definition wf_xrio (t : rio_triple) : bool :=
  let '(s, p, o) := t in
  wf_xsubject s && negb (reserved_pred p) && negb (str_eqb p XMLNS_NS) && wf_xobject o.

(* the text of an object after the namespace declaration, with the continuation *)
Definition obj_part (qn : str) (o : object) (rest : str) : str :=
  match o with
  | OIri i => A_RES ++ xml_escape i ++ 34 :: X_EMPTY_END ++ rest
  | OBlank b => A_NODEID ++ xml_escape b ++ 34 :: X_EMPTY_END ++ rest
  | OLit (LSimple v) => 62 :: xml_escape v ++ (60 :: 47 :: qn ++ [62]) ++ rest
  | OLit (LLang v l) => A_LANG ++ xml_escape l ++ 34 :: 62 :: xml_escape v ++ (60 :: 47 :: qn ++ [62]) ++ rest
  | OLit (LTyped v dt) => A_DT ++ xml_escape dt ++ 34 :: 62 :: xml_escape v ++ (60 :: 47 :: qn ++ [62]) ++ rest
  end.

Lemma s_res_node : forall x, strip A_RES (A_NODEID ++ x) = None. Proof. reflexivity. Qed.
Lemma s_res_lang : forall x, strip A_RES (A_LANG ++ x) = None. Proof. reflexivity. Qed.
Lemma s_res_dt : forall x, strip A_RES (A_DT ++ x) = None. Proof. reflexivity. Qed.
Lemma s_res_gt : forall x, strip A_RES (62 :: x) = None. Proof. reflexivity. Qed.
Lemma s_node_lang : forall x, strip A_NODEID (A_LANG ++ x) = None. Proof. reflexivity. Qed.
Lemma s_node_dt : forall x, strip A_NODEID (A_DT ++ x) = None. Proof. reflexivity. Qed.
Lemma s_node_gt : forall x, strip A_NODEID (62 :: x) = None. Proof. reflexivity. Qed.
Lemma s_lang_dt : forall x, strip A_LANG (A_DT ++ x) = None. Proof. reflexivity. Qed.
Lemma s_lang_gt : forall x, strip A_LANG (62 :: x) = None. Proof. reflexivity. Qed.
Lemma s_dt_gt : forall x, strip A_DT (62 :: x) = None. Proof. reflexivity. Qed.
Lemma s_about_node : forall x, strip A_ABOUT (A_NODEID ++ x) = None. Proof. reflexivity. Qed.
Lemma s_rdfend_desc : forall x, strip X_RDF_END (X_DESC ++ x) = None. Proof. reflexivity. Qed.
Lemma s_empty_end : forall x, strip X_EMPTY_END (X_EMPTY_END ++ x) = Some x. Proof. reflexivity. Qed.

Lemma dec_xml_object_enc : forall qn o rest, wf_xobject o = true ->
  dec_xml_object qn (obj_part qn o rest) = Some (o, rest).
Proof.
  intros qn [i|b|[v|v l|v dt]] rest H; cbn [wf_xobject] in H; unfold dec_xml_object; cbn [obj_part].
  - rewrite strip_app, read_attr_enc, s_empty_end, H. reflexivity.
  - rewrite s_res_node, strip_app, read_attr_enc, s_empty_end, H. reflexivity.
  - apply negb_true_iff in H. rewrite s_res_gt, s_node_gt, s_lang_gt, s_dt_gt.
    rewrite (xml_body_enc qn v rest H). reflexivity.
  - apply andb_true_iff in H as [H1 H2]. apply negb_true_iff in H2.
    rewrite s_res_lang, s_node_lang, strip_app, read_attr_enc, (xml_body_enc qn v rest H2).
    unfold lang_ok in H1. apply andb_true_iff in H1 as [H1 H3].
    rewrite H1, (map_lower_id l H3). reflexivity.
  - apply andb_true_iff in H as [H1 H2]. apply negb_true_iff in H2.
    rewrite s_res_dt, s_node_dt, s_lang_dt, strip_app, read_attr_enc, (xml_body_enc qn v rest H2), H1.
    reflexivity.
Qed.

(* the shape of a property element *)
Definition prop_qn (loc : str) : str := match loc with [] => X_PROP | _ => loc end.
Definition prop_xmlns (ns loc : str) : str :=
  match loc with [] => A_XMLNS_PROP | _ => A_XMLNS end ++ xml_escape ns ++ [34].

Lemma xml_prop_shape : forall p o rest,
  xml_prop p o ++ rest =
  60 :: prop_qn (snd (split_iri p)) ++
        prop_xmlns (fst (split_iri p)) (snd (split_iri p)) ++
        obj_part (prop_qn (snd (split_iri p))) o rest.
Proof.
  intros p o rest. unfold xml_prop. destruct (split_iri p) as [ns loc]. cbn [fst snd].
  unfold prop_xmlns, prop_qn, xattr, X_EMPTY_END.
  destruct loc as [|c loc]; destruct o as [i|b|[v|v l|v dt]]; cbn [obj_part app];
    repeat (rewrite <- app_assoc; cbn [app]); reflexivity.
Qed.

Lemma local_of_ncname : forall l, ncname l = true -> forallb local_char l = true.
Proof.
  intros [|c l] H; [reflexivity|]. unfold ncname in H.
  apply andb_true_iff in H as [H Hn]. apply andb_true_iff in H as [Hs Hc]. apply negb_true_iff in Hn.
  assert (G : forall l, forallb name_char l = true -> existsb (N.eqb 58) l = false ->
              forallb local_char l = true).
  { induction l0 as [|x l0 IHl]; intros A B; [reflexivity|].
    cbn [forallb] in A. apply andb_true_iff in A as [A1 A2].
    cbn [existsb] in B. apply orb_false_iff in B as [B1 B2].
    cbn [forallb]. rewrite (IHl A2 B2), andb_true_r. unfold local_char.
    rewrite A1, N.eqb_sym, B1. reflexivity. }
  apply G; [|exact Hn]. cbn [forallb]. rewrite Hc, andb_true_r.
  unfold name_char. rewrite Hs. reflexivity.
Qed.

Lemma name_start_not_slash : forall c, name_start c = true -> (47 =? c) = false.
Proof.
  intros c H. destruct (47 =? c) eqn:E; [|reflexivity].
  apply N.eqb_eq in E. subst c. vm_compute in H. discriminate.
Qed.

Lemma not_li_of_not_reserved : forall p, reserved_pred p = false -> str_eqb p RDF_LI = false.
Proof.
  intros p H. destruct (str_eqb p RDF_LI) eqn:E; [|reflexivity].
  apply str_eqb_eq in E. subst p. vm_compute in H. discriminate.
Qed.

Lemma span_local_xmlns : forall l x, forallb local_char l = true ->
  span local_char (l ++ A_XMLNS ++ x) = (l, A_XMLNS ++ x).
Proof. intros l x H. unfold A_XMLNS. cbn [app]. apply span_all; [exact H|reflexivity]. Qed.

Lemma dec_xml_prop_enc : forall li p o rest,
  reserved_pred p = false -> str_eqb p XMLNS_NS = false -> wf_xobject o = true ->
  dec_xml_prop li (xml_prop p o ++ rest) = Some (p, o, li, rest).
Proof.
  intros li p o rest R X Ho. rewrite xml_prop_shape.
  pose proof (split_iri_spec p) as [J N]. destruct (split_iri p) as [ns loc] eqn:ES. cbn [fst snd] in *.
  unfold dec_xml_prop, prop_qn, prop_xmlns.
  destruct loc as [|c loc].
  - rewrite app_nil_r in J. subst ns.
    change (X_PROP ++ (A_XMLNS_PROP ++ xml_escape p ++ [34]) ++ obj_part X_PROP o rest)
      with (L_PROP ++ 58 :: (A_XMLNS_PROP ++ xml_escape p ++ [34]) ++ obj_part X_PROP o rest).
    rewrite (span_all local_char L_PROP 58 _ eq_refl eq_refl).
    change (str_eqb L_PROP L_PROP) with true. cbv iota.
    rewrite <- !app_assoc. rewrite strip_app. cbn [app]. rewrite read_attr_enc.
    assert (X2 : str_eqb p XML_NS = false).
    { destruct (str_eqb p XML_NS) eqn:E2; [|reflexivity].
      apply str_eqb_eq in E2. subst p. vm_compute in ES. discriminate. }
    rewrite X, X2. cbn [orb].
    rewrite (not_li_of_not_reserved p R), R.
    change (L_PROP ++ [58]) with X_PROP. rewrite (dec_xml_object_enc X_PROP o rest Ho). reflexivity.
  - destruct N as [N|N]; [discriminate|].
    rewrite <- !app_assoc.
    rewrite (span_local_xmlns (c :: loc) _ (local_of_ncname _ N)).
    remember (A_XMLNS ++ xml_escape ns ++ [34] ++ obj_part (c :: loc) o rest) as r1 eqn:E1.
    pose proof E1 as E1'. unfold A_XMLNS in E1'. cbn [app] in E1'.
    destruct r1 as [|d r1']; [discriminate E1'|]. injection E1' as Ed _. subst d.
    cbv iota. rewrite E1. rewrite strip_app. cbn [app]. rewrite read_attr_enc. rewrite J.
    rewrite (not_li_of_not_reserved p R), R.
    rewrite (dec_xml_object_enc (c :: loc) o rest Ho). reflexivity.
Qed.

Lemma dec_xml_desc_enc : forall s rest, wf_xsubject s = true ->
  dec_xml_desc (xml_desc_open s ++ rest) = Some (s, rest).
Proof.
  intros [i|b] rest H; cbn [wf_xsubject] in H; unfold dec_xml_desc, xml_desc_open, xattr.
  - rewrite <- !app_assoc. rewrite strip_app, strip_app. cbn [app]. rewrite read_attr_enc, H. reflexivity.
  - rewrite <- !app_assoc. rewrite strip_app, s_about_node, strip_app. cbn [app].
    rewrite read_attr_enc, H. reflexivity.
Qed.

Lemma strip_descend_prop : forall p o rest, strip X_DESC_END (xml_prop p o ++ rest) = None.
Proof.
  intros p o rest. rewrite xml_prop_shape.
  pose proof (split_iri_spec p) as [_ N]. destruct (split_iri p) as [ns loc]. cbn [fst snd] in *.
  unfold prop_qn. destruct loc as [|c loc]; [reflexivity|].
  destruct N as [N|N]; [discriminate|]. unfold ncname in N.
  apply andb_true_iff in N as [N _]. apply andb_true_iff in N as [N _].
  unfold X_DESC_END. cbn [app strip]. change (60 =? 60) with true. cbv iota.
  rewrite (name_start_not_slash c N). reflexivity.
Qed.

Lemma xml_step_prop : forall f s li p o rest,
  reserved_pred p = false -> str_eqb p XMLNS_NS = false -> wf_xobject o = true ->
  dec_xml_from (S f) (Some s) li (xml_prop p o ++ rest) =
  match dec_xml_from f (Some s) li rest with Some l => Some ((s, p, o) :: l) | None => None end.
Proof.
  intros f s li p o rest R X Ho. cbn [dec_xml_from].
  rewrite strip_descend_prop, (dec_xml_prop_enc li p o rest R X Ho). reflexivity.
Qed.

Lemma xml_step_close : forall f s li rest,
  dec_xml_from (S f) (Some s) li (X_DESC_END ++ rest) = dec_xml_from f None 0 rest.
Proof. intros. cbn [dec_xml_from]. rewrite strip_app. reflexivity. Qed.

Lemma xml_step_open : forall f s rest, wf_xsubject s = true ->
  dec_xml_from (S f) None 0 (xml_desc_open s ++ rest) = dec_xml_from f (Some s) 0 rest.
Proof.
  intros f s rest H. cbn [dec_xml_from].
  assert (E : strip X_RDF_END (xml_desc_open s ++ rest) = None).
  { unfold xml_desc_open. rewrite <- app_assoc. apply s_rdfend_desc. }
  rewrite E, (dec_xml_desc_enc s rest H). reflexivity.
Qed.

Lemma xml_step_end : forall f, dec_xml_from (S f) None 0 X_RDF_END = Some [].
Proof. reflexivity. Qed.

Lemma xml_from_some : forall ts, forallb wf_xrio ts = true ->
  forall cur li fuel, (3 * length ts + 2 <= fuel)%nat ->
  dec_xml_from fuel (Some cur) li (enc_xml_from (Some cur) ts) = Some ts.
Proof.
  induction ts as [|[[s p] o] ts IH]; intros Hwf cur li fuel Hf.
  - destruct fuel as [|[|f]]; [cbn in Hf; lia|cbn in Hf; lia|].
    cbn [enc_xml_from]. rewrite xml_step_close. apply xml_step_end.
  - cbn [forallb] in Hwf. apply andb_true_iff in Hwf as [Ht Hts].
    cbn [wf_xrio] in Ht. apply andb_true_iff in Ht as [Ht Ho]. apply andb_true_iff in Ht as [Ht Hx].
    apply andb_true_iff in Ht as [Hs Hp]. apply negb_true_iff in Hp. apply negb_true_iff in Hx.
    cbn [length] in Hf. cbn [enc_xml_from].
    destruct (subject_eqb cur s) eqn:E.
    + apply subject_eqb_eq in E. subst cur. cbn [app].
      destruct fuel as [|f]; [lia|]. rewrite (xml_step_prop f s li p o _ Hp Hx Ho).
      rewrite (IH Hts s li f); [reflexivity|lia].
    + destruct fuel as [|[|[|f]]]; try lia.
      rewrite <- !app_assoc.
      rewrite xml_step_close, (xml_step_open _ s _ Hs), (xml_step_prop f s 0 p o _ Hp Hx Ho).
      rewrite (IH Hts s 0 f); [reflexivity|lia].
Qed.

Lemma xml_from_none : forall ts, forallb wf_xrio ts = true ->
  forall fuel, (3 * length ts + 2 <= fuel)%nat ->
  dec_xml_from fuel None 0 (enc_xml_from None ts) = Some ts.
Proof.
  intros [|[[s p] o] ts] Hwf fuel Hf.
  - destruct fuel as [|f]; [cbn in Hf; lia|]. apply xml_step_end.
  - pose proof Hwf as Hwf'.
    cbn [forallb] in Hwf. apply andb_true_iff in Hwf as [Ht Hts].
    cbn [wf_xrio] in Ht. apply andb_true_iff in Ht as [Ht Ho]. apply andb_true_iff in Ht as [Ht Hx].
    apply andb_true_iff in Ht as [Hs Hp]. apply negb_true_iff in Hp. apply negb_true_iff in Hx.
    cbn [length] in Hf. destruct fuel as [|[|f]]; try lia.
    cbn [enc_xml_from].
    rewrite (xml_step_open _ s _ Hs), (xml_step_prop f s 0 p o _ Hp Hx Ho).
    rewrite (xml_from_some ts Hts s 0 f); [reflexivity|lia].
Qed.

Lemma xml_prop_len : forall p o, (3 <= length (xml_prop p o))%nat.
Proof.
  intros p o. pose proof (xml_prop_shape p o []) as E. rewrite app_nil_r in E. rewrite E.
  unfold prop_xmlns. cbn [length]. rewrite !app_length.
  destruct (snd (split_iri p)); unfold A_XMLNS, A_XMLNS_PROP; cbn [length]; lia.
Qed.

Lemma enc_xml_len : forall ts cur, (3 * length ts <= length (enc_xml_from cur ts))%nat.
Proof.
  induction ts as [|[[s p] o] ts IH]; intros cur; [cbn [length]; lia|].
  cbn [enc_xml_from length]. rewrite !app_length.
  pose proof (xml_prop_len p o). pose proof (IH (Some s)). lia.
Qed.

Lemma dec_xml_enc : forall ts, forallb wf_xrio ts = true ->
  dec_xml (X_HEAD ++ enc_xml_from None ts) = Some ts.
Proof.
  intros ts H. unfold dec_xml. rewrite strip_app.
  apply xml_from_none; [exact H|].
  rewrite app_length. pose proof (enc_xml_len ts None).
  assert (2 <= length X_HEAD)%nat by (vm_compute; lia). lia.
Qed.

Lemma wf_xrio_of_triple : forall t, wf_triple t = true -> known_xml t = false -> wf_xrio (to_rio t) = true.
Proof.
  intros [[s p] o] H K. cbn [wf_triple] in H.
  apply andb_true_iff in H as [H Ho]. apply andb_true_iff in H as [Hs Hp].
  unfold known_xml in K. apply orb_false_iff in K as [K Kb]. apply orb_false_iff in K as [K Kr].
  apply orb_false_iff in K as [Kn Kw]. cbn [known_xml_nsbind] in Kb.
  cbn [known_xml_nodeid] in Kn. apply orb_false_iff in Kn as [Kns Kno].
  cbn [known_xml_ws] in Kw. cbn [known_xml_reserved] in Kr.
  cbn [to_rio wf_xrio]. rewrite Kr, Kb. cbn [negb]. rewrite !andb_true_r. apply andb_true_iff. split.
  - destruct s as [i|b]; cbn [wf_subject wf_xsubject] in *; [exact Hs|].
    apply negb_false_iff in Kns. exact Kns.
  - destruct o as [i|b|[v|v l|v dt]]; cbn [wf_robject wf_rlit to_rio_obj to_rio_lit wf_xobject lit_value] in *.
    + exact Ho.
    + apply negb_false_iff in Kno. exact Kno.
    + rewrite Kw. reflexivity.
    + rewrite Ho, Kw. reflexivity.
    + apply andb_true_iff in Ho as [H1 H2]. apply negb_true_iff in H2. rewrite H2.
      cbn [wf_xobject]. rewrite H1, Kw. reflexivity.
Qed.

Lemma wf_xrio_all : forall ts, forallb wf_triple ts = true -> existsb known_xml ts = false ->
  forallb wf_xrio (map to_rio ts) = true.
Proof.
  induction ts as [|t ts IH]; intros H K; [reflexivity|].
  cbn [forallb] in H. apply andb_true_iff in H as [Ht Hts].
  cbn [existsb] in K. apply orb_false_iff in K as [Kt Kts].
  cbn [map forallb]. rewrite (wf_xrio_of_triple t Ht Kt), (IH Hts Kts). reflexivity.
Qed.

Theorem xml_roundtrip : forall ts,
  forallb wf_triple ts = true -> existsb known_xml ts = false ->
  parse_xml (ser_xml ts) = Some ts.
Proof.
  intros ts H K. unfold parse_xml, ser_xml.
  rewrite (dec_xml_enc _ (wf_xrio_all ts H K)). apply map_opt_adapter, H.
Qed.

(* ---------- the RDF/XML classes are real ---------- *)
Definition P_E : str := [104; 116; 116; 112; 58; 47; 47; 101; 47; 112].   (* http://e/p *)
Definition S_E : subject := SIri [104; 116; 116; 112; 58; 47; 47; 101; 47; 115].
Definition xml_witness_nodeid : list triple := [(S_E, P_E, ROBlank [49])].
Definition xml_witness_ws : list triple := [(S_E, P_E, ROLit (RString [32]))].
Definition xml_witness_li : list triple := [(S_E, RDF_LI, ROLit (RString [120]))].
Definition xml_witness_reserved : list triple := [(S_E, RDF_NS ++ [97; 98; 111; 117; 116], ROIri P_E)].

Definition xml_witness_nsbind : list triple := [(S_E, XMLNS_NS, ROIri P_E)].
Lemma xml_refuted_nsbind :
  forallb wf_triple xml_witness_nsbind = true /\ existsb known_xml_nsbind xml_witness_nsbind = true /\
  parse_xml (ser_xml xml_witness_nsbind) = None.
Proof. vm_compute. repeat split; reflexivity. Qed.

Lemma xml_refuted :
  (forallb wf_triple xml_witness_nodeid = true /\ existsb known_xml_nodeid xml_witness_nodeid = true /\
   parse_xml (ser_xml xml_witness_nodeid) = None) /\
  (forallb wf_triple xml_witness_ws = true /\ existsb known_xml_ws xml_witness_ws = true /\
   parse_xml (ser_xml xml_witness_ws) = Some [(S_E, P_E, ROLit (RString []))]) /\
  (forallb wf_triple xml_witness_li = true /\ existsb known_xml_reserved xml_witness_li = true /\
   parse_xml (ser_xml xml_witness_li) = Some [(S_E, RDF_NS ++ [95; 49], ROLit (RString [120]))]) /\
  (forallb wf_triple xml_witness_reserved = true /\ existsb known_xml_reserved xml_witness_reserved = true /\
   parse_xml (ser_xml xml_witness_reserved) = None).
Proof. vm_compute. repeat split; reflexivity. Qed.
