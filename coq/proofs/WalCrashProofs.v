(* C15: histories that continue after a crash.  Record-level specification of the WAL
   (files as lists of records) and the proof that the byte-level model refines it. *)
From Coq Require Import List NArith ZArith Bool Lia Sorted.
From Coq Require Import ZifyBool ZifyNat ZifyN.
From Verif Require Import CheckLib Bincode Wal WalProofs.
Import ListNotations.
Open Scope N_scope.

Arguments N.add : simpl never.
Arguments N.sub : simpl never.
Arguments N.mul : simpl never.
Arguments N.eqb : simpl never.
Arguments N.ltb : simpl never.
Arguments N.leb : simpl never.
Arguments N.of_nat : simpl never.
Arguments N.to_nat : simpl never.
Arguments firstn : simpl nomatch.
Arguments skipn : simpl nomatch.

(* ------------------------------------------------------------------ *)
(** * Record-level specification *)

Record astate := { afiles : list afile; actr : N; acur : option N }.

Definition a_init : astate := {| afiles := []; actr := 0; acur := None |}.

Fixpoint a_add (name : N) (r : record) (afs : list afile) : list afile :=
  match afs with
  | [] => [(name, [r])]
  | (n, R) :: t => if n =? name then (n, R ++ [r]) :: t else (n, R) :: a_add name r t
  end.

(* the newest file (they are created in increasing order of their numbers) *)
Definition a_last (afs : list afile) : option afile :=
  match rev afs with [] => None | x :: _ => Some x end.

Definition a_set_last (R' : list record) (afs : list afile) : list afile :=
  match rev afs with [] => [] | (n, _) :: t => rev t ++ [(n, R')] end.

(* append: the record gets number counter+1 and goes to the open file, or to a new file
   named after that number *)
Definition a_append (a : astate) (e : entry) : astate :=
  let c := actr a + 1 in
  let name := match acur a with Some n => n | None => c end in
  {| afiles := a_add name (mk_record c e) (afiles a); actr := c; acur := Some name |}.

(* reopen: the counter becomes the number of the last record of the newest file, or the
   number of that file if it holds no record *)
Definition a_reopen (a : astate) : astate :=
  {| afiles := afiles a;
     actr := match a_last (afiles a) with None => 0 | Some (n, R) => last_seq R n end;
     acur := None |}.

(* crash leaving k bytes of the newest file: its whole records within k bytes survive *)
Definition a_crash (k : N) (a : astate) : astate :=
  match a_last (afiles a) with
  | None => a_reopen a
  | Some (n, R) =>
      a_reopen {| afiles := a_set_last (fit k R) (afiles a); actr := actr a; acur := None |}
  end.

Definition a_step (a : astate) (o : op) : astate :=
  match o with
  | Append e => a_append a e
  | Reopen => a_reopen a
  | Checkpoint x t =>
      let a' := a_append a (CheckpointE x t) in
      {| afiles := afiles a'; actr := actr a'; acur := None |}
  | Crash k => a_crash k a
  end.

Definition a_run_from (a : astate) (ops : list op) : astate := fold_left a_step ops a.
Definition a_run (ops : list op) : astate := a_run_from a_init ops.

(* the log that must be replayed after [ops] *)
Definition durable (ops : list op) : list record := recs (afiles (a_run ops)).

(* histories with crashes: entries are Rust values with records below 4 GiB; fewer than
   2^64 operations (so the u64 counter cannot overflow) *)
Definition hist_ok (ops : list op) : Prop :=
  Forall ok_entry (entries_of ops) /\ nlen ops < two64.

(* ------------------------------------------------------------------ *)
(** * Sorted-list helpers *)

Section SS.
  Variable Rel : N -> N -> Prop.

  Lemma ssR_app_last : forall l c, StronglySorted Rel l -> Forall (fun x => Rel x c) l ->
    StronglySorted Rel (l ++ [c]).
  Proof.
    induction l as [|x l IH]; intros c Hs Hf; cbn [app].
    - constructor; constructor.
    - inversion Hs as [|? ? Hs' Hx]; subst. inversion Hf as [|? ? Hxc Hf']; subst.
      constructor; [now apply IH|]. apply Forall_app. split; [exact Hx | constructor; [exact Hxc | constructor]].
  Qed.

  Lemma ssR_app_inv : forall l c, StronglySorted Rel (l ++ [c]) ->
    StronglySorted Rel l /\ Forall (fun x => Rel x c) l.
  Proof.
    induction l as [|x l IH]; intros c H; cbn [app] in H.
    - split; constructor.
    - inversion H as [|? ? Hs Hx]; subst. apply IH in Hs. destruct Hs as [Hs Hf].
      apply Forall_app in Hx. destruct Hx as [Hx Hc]. inversion Hc; subst.
      split; constructor; assumption.
  Qed.

  Lemma ssR_prefix : forall l1 l2, StronglySorted Rel (l1 ++ l2) -> StronglySorted Rel l1.
  Proof.
    induction l1 as [|x l1 IH]; intros l2 H; [constructor|]. cbn [app] in H.
    inversion H as [|? ? Hs Hx]; subst. constructor; [now apply IH in Hs|].
    apply Forall_app in Hx. tauto.
  Qed.
End SS.

Lemma sorted_le_last : forall l, StronglySorted N.le l -> Forall (fun x => x <= last l 0) l.
Proof.
  intros l H. destruct (exists_last_or_nil _ l) as [->|(l0 & z & ->)]; [constructor|].
  rewrite last_last. apply ssR_app_inv in H. destruct H as [_ H].
  apply Forall_app. split; [exact H | constructor; [lia | constructor]].
Qed.

(* ------------------------------------------------------------------ *)
(** * Keys: file numbers and record numbers in directory order *)

Definition keys (afs : list afile) : list N :=
  flat_map (fun a : afile => fst a :: map seq (snd a)) afs.

Lemma keys_app : forall A B, keys (A ++ B) = keys A ++ keys B.
Proof. intros. unfold keys. apply flat_map_app. Qed.

Lemma keys_single : forall n R, keys [(n, R)] = n :: map seq R.
Proof. intros. unfold keys. cbn [flat_map fst snd]. apply app_nil_r. Qed.

Lemma last_seq_last : forall R d x, last (d :: map seq R) x = last_seq R d.
Proof.
  induction R as [|r R IH]; intros d x; [reflexivity|].
  cbn [map last_seq]. rewrite <- (IH (seq r) x). reflexivity.
Qed.

Lemma last_app_cons : forall (l : list N) x m d, last (l ++ x :: m) d = last (x :: m) d.
Proof.
  induction l as [|y l IH]; intros x m d; [reflexivity|]. cbn [app].
  rewrite <- (IH x m d). destruct (l ++ x :: m) eqn:E; [destruct l; discriminate | reflexivity].
Qed.

Lemma last_keys : forall afs' n R, last (keys (afs' ++ [(n, R)])) 0 = last_seq R n.
Proof. intros. rewrite keys_app, keys_single, last_app_cons. apply last_seq_last. Qed.

Lemma keys_names : forall (P : N -> Prop) afs, Forall P (keys afs) -> Forall (fun a : afile => P (fst a)) afs.
Proof.
  intros P afs. induction afs as [|[n R] afs IH]; intros H; [constructor|].
  unfold keys in H. cbn [flat_map fst snd] in H. inversion H as [|? ? Hn Hr]; subst.
  apply Forall_app in Hr. constructor; [exact Hn | apply IH; tauto].
Qed.

Lemma keys_seqs : forall (P : N -> Prop) afs, Forall P (keys afs) -> Forall (fun r => P (seq r)) (recs afs).
Proof.
  intros P afs. induction afs as [|[n R] afs IH]; intros H; [constructor|].
  unfold keys in H. cbn [flat_map fst snd] in H. inversion H as [|? ? Hn Hr]; subst.
  apply Forall_app in Hr. destruct Hr as [H1 H2]. rewrite recs_cons. cbn [snd].
  apply Forall_app. split; [|now apply IH]. now rewrite Forall_map in H1.
Qed.

(* ------------------------------------------------------------------ *)
(** * Invariant of the specification *)

Definition AInv (a : astate) : Prop :=
  StronglySorted N.le (keys (afiles a)) /\
  StronglySorted N.lt (map fst (afiles a)) /\
  StronglySorted N.lt (map seq (recs (afiles a))) /\
  actr a = last (keys (afiles a)) 0 /\
  Forall valid_rec (recs (afiles a)) /\
  match acur a with None => True | Some n => exists afs' R, afiles a = afs' ++ [(n, R)] end.

Lemma AInv_init : AInv a_init.
Proof. unfold AInv, a_init. cbn. repeat split; constructor. Qed.

Lemma AInv_bound : forall a, AInv a -> Forall (fun x => x <= actr a) (keys (afiles a)).
Proof. intros a (K1 & _ & _ & K4 & _). rewrite K4. now apply sorted_le_last. Qed.

Lemma a_add_fresh : forall name r afs, Forall (fun a : afile => fst a <> name) afs ->
  a_add name r afs = afs ++ [(name, [r])].
Proof.
  induction afs as [|[n R] afs IH]; intros H; [reflexivity|].
  inversion H as [|? ? Hn Hd]; subst. cbn [fst] in Hn. cbn [a_add].
  replace (n =? name) with false by lia. cbn [app]. now rewrite IH.
Qed.

Lemma a_add_last : forall name r R afs, Forall (fun a : afile => fst a <> name) afs ->
  a_add name r (afs ++ [(name, R)]) = afs ++ [(name, R ++ [r])].
Proof.
  induction afs as [|[n R'] afs IH]; intros H.
  - cbn [app a_add]. now rewrite N.eqb_refl.
  - inversion H as [|? ? Hn Hd]; subst. cbn [fst] in Hn. cbn [app a_add].
    replace (n =? name) with false by lia. now rewrite IH.
Qed.

Lemma recs_single : forall n R, recs [(n, R)] = R.
Proof. intros. unfold recs. cbn [map concat snd]. apply app_nil_r. Qed.

Lemma recs_snoc : forall (afs : list (N * list record)) n R, recs (afs ++ [(n, R)]) = recs afs ++ R.
Proof. intros. now rewrite recs_app, recs_single. Qed.
Lemma keys_snoc : forall (afs : list (N * list record)) n R, keys (afs ++ [(n, R)]) = keys afs ++ n :: map seq R.
Proof. intros. now rewrite keys_app, keys_single. Qed.

Lemma AInv_append : forall a e, AInv a -> ok_entry e -> actr a + 1 < two64 ->
  AInv (a_append a e) /\
  recs (afiles (a_append a e)) = recs (afiles a) ++ [mk_record (actr a + 1) e].
Proof.
  intros a e HI [He Hl] Hb. pose proof (AInv_bound a HI) as HB.
  destruct HI as (K1 & K2 & K3 & K4 & KV & KC).
  set (c := actr a + 1). set (r := mk_record c e).
  assert (Vr : valid_rec r) by (apply mk_record_valid; assumption).
  assert (Hnames : Forall (fun x : afile => fst x < c) (afiles a)).
  { apply keys_names with (P := fun x => x < c). eapply Forall_impl; [|exact HB]. intros x Hx. cbn beta in Hx. lia. }
  assert (Hseqs : Forall (fun x => x < c) (map seq (recs (afiles a)))).
  { rewrite Forall_map. apply keys_seqs with (P := fun x => x < c). eapply Forall_impl; [|exact HB]. intros x Hx. cbn beta in Hx. lia. }
  assert (Hkle : Forall (fun x => x <= c) (keys (afiles a))).
  { eapply Forall_impl; [|exact HB]. intros x Hx. cbn beta in Hx. lia. }
  unfold a_append. fold c. fold r. destruct (acur a) as [n|] eqn:Ecur; cbn [afiles actr acur].
  - destruct KC as (afs' & R & Ea). rewrite Ea in *.
    assert (Hne : Forall (fun x : afile => fst x <> n) afs').
    { rewrite map_app in K2. cbn [map fst] in K2. apply ssR_app_inv in K2. destruct K2 as [_ K2].
      rewrite Forall_map in K2. eapply Forall_impl; [|exact K2]. intros x Hx. cbn beta in Hx. lia. }
    rewrite a_add_last by exact Hne.
    unfold afile in *. rewrite recs_snoc in K3, KV, Hseqs. rewrite keys_snoc in K1, Hkle.
    unfold afile in *. split; [|rewrite !recs_snoc; now rewrite app_assoc]. unfold AInv. cbn [afiles actr acur].
    rewrite recs_snoc, keys_snoc, !map_app. cbn [map]. change (seq r) with c.
    replace (keys afs' ++ n :: map seq R ++ [c]) with ((keys afs' ++ n :: map seq R) ++ [c])
      by (now rewrite <- app_assoc).
    rewrite (app_assoc (recs afs')). rewrite (app_assoc (map seq (recs afs'))), <- map_app.
    repeat split.
    + apply ssR_app_last; assumption.
    + rewrite map_app in K2. exact K2.
    + apply ssR_app_last; assumption.
    + now rewrite last_last.
    + apply Forall_app. split; [exact KV | constructor; [exact Vr | constructor]].
    + now exists afs', (R ++ [r]).
  - rewrite a_add_fresh.
    2:{ eapply Forall_impl; [|exact Hnames]. intros x Hx. cbn beta in Hx. lia. }
    unfold afile in *. split; [|now rewrite recs_snoc]. unfold AInv. cbn [afiles actr acur].
    rewrite recs_snoc, keys_snoc, !map_app. cbn [map]. change (seq r) with c.
    replace (keys (afiles a) ++ [c; c]) with ((keys (afiles a) ++ [c]) ++ [c]) by (now rewrite <- app_assoc).
    repeat split.
    + apply ssR_app_last; [apply ssR_app_last; assumption|].
      apply Forall_app. split; [exact Hkle | constructor; [lia | constructor]].
    + apply ssR_app_last; [exact K2|]. now rewrite Forall_map.
    + apply ssR_app_last; assumption.
    + now rewrite last_last.
    + apply Forall_app. split; [exact KV | constructor; [exact Vr | constructor]].
    + now exists (afiles a), [r].
Qed.

Lemma a_last_nil : a_last [] = None.
Proof. reflexivity. Qed.
Lemma a_last_snoc : forall afs x, a_last (afs ++ [x]) = Some x.
Proof. intros. unfold a_last. now rewrite rev_unit. Qed.
Lemma a_set_last_snoc : forall afs n R R', a_set_last R' (afs ++ [(n, R)]) = afs ++ [(n, R')].
Proof. intros. unfold a_set_last. now rewrite rev_unit, rev_involutive. Qed.

Lemma AInv_reopen : forall a, AInv a ->
  AInv (a_reopen a) /\ actr (a_reopen a) = actr a /\ afiles (a_reopen a) = afiles a.
Proof.
  intros a (K1 & K2 & K3 & K4 & KV & KC).
  assert (E : actr (a_reopen a) = actr a).
  { unfold a_reopen. cbn [actr]. rewrite K4.
    destruct (exists_last_or_nil _ (afiles a)) as [->|(afs' & [n R] & ->)]; [reflexivity|].
    now rewrite a_last_snoc, last_keys. }
  split; [|split; [exact E | reflexivity]].
  unfold AInv. rewrite E. unfold a_reopen. cbn [afiles acur]. repeat split; assumption.
Qed.

Lemma AInv_crash : forall k a, AInv a -> AInv (a_crash k a) /\ actr (a_crash k a) <= actr a.
Proof.
  intros k a HI. pose proof (AInv_bound a HI) as HB. unfold a_crash.
  destruct (exists_last_or_nil _ (afiles a)) as [E|(afs' & [n R] & E)]; rewrite E.
  - rewrite a_last_nil. destruct (AInv_reopen a HI) as (H1 & H2 & _). split; [exact H1 | lia].
  - rewrite a_last_snoc, a_set_last_snoc.
    destruct HI as (K1 & K2 & K3 & K4 & KV & KC). rewrite E in *.
    destruct (fit_prefix R k) as [T ET]. unfold afile in *.
    assert (Ekeys : keys (afs' ++ [(n, R)]) = keys (afs' ++ [(n, fit k R)]) ++ map seq T).
    { rewrite !keys_snoc. rewrite ET at 1. rewrite map_app, <- app_assoc. reflexivity. }
    assert (Erecs : recs (afs' ++ [(n, R)]) = recs (afs' ++ [(n, fit k R)]) ++ T).
    { rewrite !recs_snoc. rewrite ET at 1. now rewrite app_assoc. }
    unfold a_reopen. cbn [afiles actr acur]. rewrite a_last_snoc.
    split.
    + unfold AInv. cbn [afiles actr acur]. repeat split.
      * rewrite Ekeys in K1. now apply ssR_prefix in K1.
      * rewrite map_app in *. exact K2.
      * rewrite Erecs, map_app in K3. now apply ssR_prefix in K3.
      * now rewrite last_keys.
      * rewrite Erecs in KV. apply Forall_app in KV. tauto.
    + rewrite <- last_keys with (afs' := afs').
      rewrite Ekeys in HB.
      destruct (exists_last_or_nil _ (keys (afs' ++ [(n, fit k R)]))) as [Ek|(l0 & z & Ek)].
      * rewrite keys_app, keys_single in Ek. destruct (keys afs'); discriminate.
      * rewrite Ek, last_last. rewrite Ek in HB. apply Forall_app in HB. destruct HB as [HB _].
        apply Forall_app in HB. destruct HB as [_ HB]. now inversion HB.
Qed.

(* ------------------------------------------------------------------ *)
(** * The byte-level model refines the specification *)

Definition Ref (s : state) (a : astate) : Prop :=
  sdir s = enc (afiles a) /\ counter s = actr a /\ cur s = acur a.

Lemma Ref_init : Ref init a_init.
Proof. repeat split. Qed.

Lemma enc_a_add : forall name r afs, enc (a_add name r afs) = dir_append name (frame r) (enc afs).
Proof.
  induction afs as [|[n R] afs IH]; cbn [a_add enc map dir_append fst snd].
  - now rewrite frames_single.
  - destruct (n =? name); cbn [enc map fst snd].
    + now rewrite frames_app, frames_single.
    + fold (enc afs). fold (enc (a_add name r afs)). now rewrite IH.
Qed.

Lemma ref_append : forall s a e, Ref s a -> actr a + 1 < two64 ->
  exists s', append s e = Some s' /\ Ref s' (a_append a e).
Proof.
  intros s a e (Hd & Hc & Hu) Hb. unfold append. rewrite Hc.
  replace (two64 <=? actr a + 1) with false by (unfold two64 in *; lia).
  eexists. split; [reflexivity|]. unfold Ref, a_append. cbn [sdir counter cur afiles actr acur].
  rewrite Hu, Hd, enc_a_add. repeat split.
Qed.

Lemma scan_file_trunc2 : forall R k, Forall valid_rec R ->
  exists t, scan_file (firstn (N.to_nat k) (frames R)) = (fit k R, t, nlen (frames (fit k R))) /\
    ((t = Clean /\ firstn (N.to_nat k) (frames R) = frames (fit k R)) \/
     (t = Torn /\ firstn (length (frames (fit k R))) (firstn (N.to_nat k) (frames R)) = frames (fit k R))).
Proof.
  intros R k HV. destruct (trunc_split R k) as (X & E & HX). rewrite E.
  assert (HF : Forall valid_rec (fit k R)).
  { destruct (fit_prefix R k) as [T ET]. rewrite ET in HV. apply Forall_app in HV. tauto. }
  rewrite scan_file_frames_app by exact HF.
  pose proof (frames_length_ge (fit k R)) as HG.
  destruct (S (length (frames (fit k R) ++ X)) - length (fit k R))%nat as [|f] eqn:Ef.
  { rewrite app_length in Ef. lia. }
  destruct HX as [->|(r & T & ER & EX & HL)].
  - cbn [scan]. exists Clean. rewrite !app_nil_r. split; [f_equal; lia | now left].
  - rewrite EX, scan_torn_tail.
    + exists Torn. rewrite app_nil_r. split; [f_equal; lia|]. right. split; [reflexivity|].
      apply firstn_app_exact.
    + rewrite ER in HV. apply Forall_app in HV. destruct HV as [_ HV]. now inversion HV.
    + exact HL.
Qed.

Lemma names_lt_ne : forall (afs' : list afile) n, StronglySorted N.lt (map fst (afs' ++ [(n, @nil record)])) ->
  Forall (fun f : file => fst f <> n) (enc afs').
Proof.
  intros afs' n H. rewrite map_app in H. cbn [map fst] in H. apply ssR_app_inv in H. destruct H as [_ H].
  apply names_ne. now rewrite Forall_map in H.
Qed.

Lemma newest_enc_snoc : forall (afs' : list afile) n (R : list record) bs,
  StronglySorted N.lt (map fst (afs' ++ [(n, R)])) ->
  newest (enc afs' ++ [(n, bs)]) = Some (n, bs).
Proof.
  intros afs' n R bs H. apply newest_last. rewrite map_app, enc_names. cbn [map fst].
  rewrite map_app in H. exact H.
Qed.

Lemma names_snoc_any : forall (afs' : list afile) n (R R' : list record),
  map fst (afs' ++ [(n, R)]) = map fst (afs' ++ [(n, R')]).
Proof. intros. now rewrite !map_app. Qed.

Lemma ref_reopen : forall s a, Ref s a -> AInv a -> Ref (reopen s) (a_reopen a).
Proof.
  intros s a (Hd & Hc & Hu) (K1 & K2 & K3 & K4 & KV & KC).
  destruct (exists_last_or_nil _ (afiles a)) as [E|(afs' & [n R] & E)].
  - unfold reopen, a_reopen, Ref. rewrite Hd, E. cbn [enc map newest fold_left sdir counter cur afiles actr acur].
    rewrite a_last_nil. repeat split.
  - unfold reopen, a_reopen, Ref. rewrite Hd, E in *. rewrite enc_app. cbn [enc map fst snd].
    rewrite (newest_enc_snoc afs' n R) by exact K2.
    unfold afile in *. rewrite recs_snoc in KV. apply Forall_app in KV. destruct KV as [_ KR].
    rewrite scan_file_frames by exact KR. cbn [sdir counter cur afiles actr acur].
    rewrite a_last_snoc. repeat split. now rewrite enc_app.
Qed.

Lemma ref_crash : forall s a k, Ref s a -> AInv a ->
  Ref (reopen {| sdir := truncate_newest k (sdir s); counter := counter s; cur := None |}) (a_crash k a).
Proof.
  intros s a k (Hd & Hc & Hu) HI. pose proof HI as (K1 & K2 & K3 & K4 & KV & KC).
  destruct (exists_last_or_nil _ (afiles a)) as [E|(afs' & [n R] & E)].
  - unfold a_crash. rewrite E, a_last_nil.
    assert (Et : truncate_newest k (sdir s) = sdir s).
    { unfold truncate_newest. rewrite Hd, E. reflexivity. }
    rewrite Et.
    replace {| sdir := sdir s; counter := counter s; cur := None |}
      with {| sdir := sdir s; counter := counter s; cur := None |} by reflexivity.
    unfold reopen, a_reopen, Ref. cbn [sdir counter cur afiles actr acur].
    rewrite Hd, E. cbn [enc map newest fold_left]. rewrite a_last_nil. repeat split.
  - unfold a_crash. rewrite E in *. rewrite a_last_snoc, a_set_last_snoc.
    assert (KR : Forall valid_rec R).
    { unfold afile in *. rewrite recs_snoc in KV. apply Forall_app in KV. tauto. }
    assert (Hne : Forall (fun f : file => fst f <> n) (enc afs')).
    { apply names_lt_ne. rewrite (names_snoc_any afs' n [] R). exact K2. }
    assert (Et : truncate_newest k (sdir s) = enc afs' ++ [(n, firstn (N.to_nat k) (frames R))]).
    { unfold truncate_newest. rewrite Hd, enc_app. cbn [enc map fst snd].
      rewrite (newest_enc_snoc afs' n R) by exact K2. now apply set_file_last. }
    unfold reopen. cbn [sdir counter cur]. rewrite Et.
    rewrite (newest_enc_snoc afs' n R) by exact K2.
    destruct (scan_file_trunc2 R k KR) as (t & Es & Ht). rewrite Es.
    unfold a_reopen, Ref. cbn [sdir counter cur afiles actr acur]. rewrite a_last_snoc.
    split; [|split; reflexivity].
    rewrite enc_app. cbn [enc map fst snd].
    destruct Ht as [[-> Ef]|[-> Ef]].
    + now rewrite Ef.
    + rewrite set_file_last by exact Hne. unfold nlen. rewrite Nnat.Nat2N.id. now rewrite Ef.
Qed.

Lemma entries_of_cons : forall o ops, entries_of (o :: ops) = op_entries o ++ entries_of ops.
Proof. reflexivity. Qed.

Lemma step_ref : forall s a o, Ref s a -> AInv a -> Forall ok_entry (op_entries o) ->
  actr a + 1 < two64 ->
  exists s', step s o = Some s' /\ Ref s' (a_step a o) /\ AInv (a_step a o) /\
             actr (a_step a o) <= actr a + 1.
Proof.
  intros s a o HR HI Hok Hb. destruct o as [e| |x t|k]; cbn [step a_step op_entries] in *.
  - inversion Hok as [|? ? He _]; subst.
    destruct (ref_append s a e HR Hb) as (s' & E & HR'). exists s'.
    destruct (AInv_append a e HI He Hb) as [HI' _].
    split; [exact E|]. split; [exact HR'|]. split; [exact HI'|]. unfold a_append. cbn [actr]. lia.
  - destruct (AInv_reopen a HI) as (HI' & Ec & _). eexists. split; [reflexivity|].
    split; [apply ref_reopen; assumption|]. split; [exact HI' | lia].
  - inversion Hok as [|? ? He _]; subst.
    destruct (ref_append s a (CheckpointE x t) HR Hb) as (s' & E & (H1 & H2 & H3)).
    unfold checkpoint. rewrite E. eexists. split; [reflexivity|].
    destruct (AInv_append a _ HI He Hb) as [(K1 & K2 & K3 & K4 & KV & _) _].
    split; [split; [exact H1 | split; [exact H2 | reflexivity]]|].
    split; [|unfold a_append; cbn [actr]; lia].
    unfold AInv. cbn [afiles actr acur]. repeat split; assumption.
  - destruct (AInv_crash k a HI) as [HI' Hle]. eexists. split; [reflexivity|].
    split; [apply ref_crash; assumption|]. split; [exact HI' | lia].
Qed.

Lemma run_ref : forall ops s a, Ref s a -> AInv a -> Forall ok_entry (entries_of ops) ->
  actr a + nlen ops < two64 ->
  exists s', run_from s ops = Some s' /\ Ref s' (a_run_from a ops) /\ AInv (a_run_from a ops).
Proof.
  induction ops as [|o ops IH]; intros s a HR HI Hok Hb.
  - exists s. split; [reflexivity|]. split; assumption.
  - rewrite entries_of_cons in Hok. apply Forall_app in Hok. destruct Hok as [Ho Hok].
    unfold nlen in Hb. cbn [length] in Hb.
    destruct (step_ref s a o HR HI Ho) as (s1 & E1 & HR1 & HI1 & Hle); [lia|].
    cbn [run_from]. rewrite E1. unfold a_run_from. cbn [fold_left]. fold (a_run_from (a_step a o) ops).
    apply IH; try assumption. unfold nlen. lia.
Qed.

(* ------------------------------------------------------------------ *)
(** * Main statement *)

Lemma crash_histories : forall ops, hist_ok ops ->
  exists s, run ops = Some s /\
    sdir s = enc (afiles (a_run ops)) /\ counter s = actr (a_run ops) /\
    (forall from, replay (sdir s) from =
       (keep from (durable ops), Done (last_seq (keep from (durable ops)) from))) /\
    StronglySorted N.lt (map seq (durable ops)) /\
    Forall (fun r => seq r <= counter s) (durable ops) /\
    match a_last (afiles (a_run ops)) with
    | None => sdir s = []
    | Some (n, R) => newest (sdir s) = Some (n, frames R)
    end.
Proof.
  intros ops [Hok Hb].
  destruct (run_ref ops init a_init Ref_init AInv_init Hok) as (s & E & (Hd & Hc & Hu) & HI).
  { cbn [actr a_init]. lia. }
  exists s. fold (a_run ops) in *. pose proof (AInv_bound _ HI) as HB.
  destruct HI as (K1 & K2 & K3 & K4 & KV & KC).
  split; [exact E|]. split; [exact Hd|]. split; [exact Hc|]. split; [|split; [exact K3|split]].
  - intros from. unfold replay, durable. rewrite Hd, sort_sorted by (rewrite enc_names; exact K2).
    now apply replay_files_clean.
  - rewrite Hc. unfold durable. now apply keys_seqs with (P := fun x => x <= actr (a_run ops)).
  - destruct (exists_last_or_nil _ (afiles (a_run ops))) as [E0|(afs' & [n R] & E0)]; rewrite E0 in *.
    + rewrite a_last_nil. rewrite Hd. reflexivity.
    + rewrite a_last_snoc, Hd, enc_app. cbn [enc map fst snd]. now apply (newest_enc_snoc afs' n R).
Qed.

(* how each operation changes the durable log *)
Lemma a_run_snoc : forall ops o, a_run (ops ++ [o]) = a_step (a_run ops) o.
Proof. intros. unfold a_run, a_run_from. now rewrite fold_left_app. Qed.

Lemma hist_ok_prefix : forall ops o, hist_ok (ops ++ [o]) -> hist_ok ops /\ Forall ok_entry (op_entries o).
Proof.
  intros ops o [H1 H2]. unfold entries_of in H1. rewrite flat_map_app in H1. apply Forall_app in H1.
  cbn [flat_map] in H1. rewrite app_nil_r in H1. unfold hist_ok, nlen in *. rewrite app_length in H2. cbn [length] in H2.
  repeat split; try tauto. lia.
Qed.

Lemma a_run_inv : forall ops, hist_ok ops -> AInv (a_run ops) /\ actr (a_run ops) + 1 <= nlen ops + 1.
Proof.
  intros ops. induction ops as [|o ops IH] using rev_ind; intros H.
  - split; [apply AInv_init | cbn; lia].
  - pose proof H as [_ Hb']. apply hist_ok_prefix in H. destruct H as [[Hok Hb] Ho]. destruct (IH (conj Hok Hb)) as [HI Hle].
    rewrite a_run_snoc. unfold nlen in *. rewrite app_length in *. cbn [length] in *.
    destruct (step_ref {| sdir := enc (afiles (a_run ops)); counter := actr (a_run ops); cur := acur (a_run ops) |}
                (a_run ops) o) as (s' & _ & _ & HI' & Hle'); try assumption.
    + repeat split.
    + unfold two64 in *. lia.
    + split; [exact HI' | lia].
Qed.

Lemma durable_append : forall ops e, hist_ok (ops ++ [Append e]) ->
  durable (ops ++ [Append e]) = durable ops ++ [mk_record (actr (a_run ops) + 1) e] /\
  actr (a_run (ops ++ [Append e])) = actr (a_run ops) + 1.
Proof.
  intros ops e H. pose proof H as [_ Hb]. apply hist_ok_prefix in H. destruct H as [H Ho].
  destruct (a_run_inv ops H) as [HI Hle]. inversion Ho as [|? ? He _]; subst.
  unfold durable. rewrite a_run_snoc. cbn [a_step].
  destruct (AInv_append (a_run ops) e HI He) as [_ Er].
  { unfold nlen in *. rewrite app_length in Hb. cbn [length] in Hb. unfold two64 in *. lia. }
  split; [exact Er | reflexivity].
Qed.

Lemma durable_checkpoint : forall ops x t, hist_ok (ops ++ [Checkpoint x t]) ->
  durable (ops ++ [Checkpoint x t]) = durable ops ++ [mk_record (actr (a_run ops) + 1) (CheckpointE x t)] /\
  actr (a_run (ops ++ [Checkpoint x t])) = actr (a_run ops) + 1.
Proof.
  intros ops x t H. pose proof H as [_ Hb]. apply hist_ok_prefix in H. destruct H as [H Ho].
  destruct (a_run_inv ops H) as [HI Hle]. inversion Ho as [|? ? He _]; subst.
  unfold durable. rewrite a_run_snoc. cbn [a_step afiles actr].
  destruct (AInv_append (a_run ops) (CheckpointE x t) HI He) as [_ Er].
  { unfold nlen in *. rewrite app_length in Hb. cbn [length] in Hb. unfold two64 in *. lia. }
  split; [exact Er | reflexivity].
Qed.

Lemma durable_reopen : forall ops, hist_ok ops ->
  durable (ops ++ [Reopen]) = durable ops /\ actr (a_run (ops ++ [Reopen])) = actr (a_run ops).
Proof.
  intros ops H. destruct (a_run_inv ops H) as [HI _]. unfold durable. rewrite a_run_snoc. cbn [a_step].
  destruct (AInv_reopen _ HI) as (_ & E1 & E2). now rewrite E1, E2.
Qed.

(* a crash keeps the older files and the whole records of the newest file within k bytes;
   the counter falls back to the number of the last surviving record of the newest file, or
   to that file's number if none of its records survives *)
Lemma durable_crash : forall ops k,
  match a_last (afiles (a_run ops)) with
  | None => durable (ops ++ [Crash k]) = durable ops /\ durable ops = []
  | Some (n, lastR) =>
      exists before, durable ops = before ++ lastR /\
        durable (ops ++ [Crash k]) = before ++ fit k lastR /\
        actr (a_run (ops ++ [Crash k])) = last_seq (fit k lastR) n
  end.
Proof.
  intros ops k. unfold durable. rewrite a_run_snoc. cbn [a_step]. unfold a_crash.
  destruct (exists_last_or_nil _ (afiles (a_run ops))) as [E|(afs' & [n R] & E)]; rewrite E.
  - rewrite a_last_nil. unfold a_reopen. cbn [afiles]. rewrite E. split; reflexivity.
  - rewrite a_last_snoc, a_set_last_snoc. unfold a_reopen. cbn [afiles actr]. rewrite a_last_snoc.
    exists (recs afs'). unfold afile in *. rewrite !recs_snoc. repeat split.
Qed.
